package c01

import (
	"context"
	"fmt"
	"sort"
	"strconv"
	"strings"
	"time"

	"github.com/deckhouse/deckhouse/pkg/log"
	metav1 "k8s.io/apimachinery/pkg/apis/meta/v1"
	"k8s.io/apimachinery/pkg/apis/meta/v1/unstructured"
	"k8s.io/apimachinery/pkg/runtime/schema"

	"github.com/flant/kube-client/fake"
	kubeeventsmanager "github.com/flant/shell-operator/pkg/kube_events_manager"
	kemtypes "github.com/flant/shell-operator/pkg/kube_events_manager/types"
	metricstorage "github.com/flant/shell-operator/pkg/metric_storage"
	"github.com/flant/shell-operator/pkg/utils/verifpoint"

	"verifharness/internal/core"
)

// MonitorIn: a kubernetes binding with namespace.labelSelector; a namespace starts matching
// (the namespace informer's callback N) while the unlock that follows a successful
// Synchronization (U) runs; Sched interleaves their segments at the verifpoint marks.
type MonitorIn struct {
	Pre   int      `json:"pre"`   // objects already present in the namespace when it starts matching
	Late  int      `json:"late"`  // objects created after both N and U have finished
	Sched []string `json:"sched"` // "N" / "U": let that goroutine run its next segment
}
type MonitorObs struct {
	Flag      bool     `json:"flag"`      // monitor.eventsEnabled
	Informers []bool   `json:"informers"` // eventCbEnabled of every informer
	Snapshot  []string `json:"snapshot"`
	Events    []string `json:"events"`
	Note      string   `json:"note,omitempty"`
}

func RunMonitor(in MonitorIn) MonitorObs {
	var o MonitorObs
	log.SetDefaultLevel(log.LevelFatal)
	kubeeventsmanager.DefaultSyncTime = time.Millisecond
	kubeeventsmanager.DefaultFactoryStore.Reset()
	fc := fake.NewFakeCluster(fake.ClusterVersionV119)
	ctx, cancel := context.WithCancel(context.Background())
	defer cancel()
	gvr := schema.GroupVersionResource{Group: "", Version: "v1", Resource: "configmaps"}
	mkCM := func(name string) {
		obj := &unstructured.Unstructured{Object: map[string]interface{}{
			"apiVersion": "v1", "kind": "ConfigMap",
			"metadata": map[string]interface{}{"name": name, "namespace": "ns1"},
			"data":     map[string]interface{}{"v": "1"},
		}}
		if _, err := fc.Client.Dynamic().Resource(gvr).Namespace("ns1").Create(ctx, obj, metav1.CreateOptions{}); err != nil {
			o.Note = "create object: " + err.Error()
		}
	}
	for i := 0; i < in.Pre; i++ {
		mkCM("pre" + strconv.Itoa(i))
	}
	mc := &kubeeventsmanager.MonitorConfig{Kind: "ConfigMap", ApiVersion: "v1", KeepFullObjectsInMemory: true}
	mc.Metadata.MonitorId = "m"
	mc.Metadata.DebugName = "c01-monitor"
	mc.Metadata.LogLabels = map[string]string{}
	mc.Metadata.MetricLabels = map[string]string{}
	mc.EventTypes = []kemtypes.WatchEventType{kemtypes.WatchEventAdded, kemtypes.WatchEventModified, kemtypes.WatchEventDeleted}
	mc.NamespaceSelector = &kemtypes.NamespaceSelector{LabelSelector: &metav1.LabelSelector{MatchLabels: map[string]string{"watch": "yes"}}}
	mc.Logger = log.NewNop()
	mstor := metricstorage.NewMetricStorage(ctx, "c01m_", true, log.NewNop())
	vm, err := kubeeventsmanager.NewVerifC01Monitor(ctx, fc.Client, mstor, mc)
	if err != nil {
		o.Note = "create: " + err.Error()
		return o
	}
	ctl := verifpoint.NewController()
	verifpoint.Install(ctl)
	defer verifpoint.Install(nil)
	live := map[string]bool{}
	started := map[string]bool{}
	guard := func(f func() string) string {
		ch := make(chan string, 1)
		go func() { ch <- f() }()
		select {
		case s := <-ch:
			return s
		case <-time.After(5 * time.Second):
			o.Note = "a step did not return within 5s"
			return "stuck"
		}
	}
	run := func(name string) {
		if !started[name] {
			started[name] = true
			fn := func() { vm.NamespaceAdded("ns1") }
			if name == "U" {
				fn = func() { vm.M.EnableKubeEventCb() }
			}
			if guard(func() string { return ctl.Go(name, fn) }) != "" {
				live[name] = true
			}
			return
		}
		if live[name] {
			if guard(func() string { return ctl.Release(name) }) == "" {
				live[name] = false
			}
		}
	}
	for _, s := range in.Sched {
		if o.Note != "" {
			break
		}
		run(s)
	}
	for _, n := range []string{"N", "U"} {
		for i := 0; i < 3 && o.Note == ""; i++ {
			if !started[n] || live[n] {
				run(n)
			}
		}
	}
	verifpoint.Install(nil)
	time.Sleep(20 * time.Millisecond) // the new informer syncs with the fake cluster
	for i := 0; i < in.Late; i++ {
		mkCM("late" + strconv.Itoa(i))
	}
	// wait for the late objects' events (they can only arrive if the informer is unlocked)
	deadline := time.Now().Add(400 * time.Millisecond)
	for time.Now().Before(deadline) {
		if len(vm.Events()) >= in.Late+in.Pre {
			break
		}
		time.Sleep(5 * time.Millisecond)
		if len(vm.Events()) >= in.Late && time.Now().After(deadline.Add(-300*time.Millisecond)) {
			break
		}
	}
	o.Flag, o.Informers = kubeeventsmanager.VerifEventsEnabled(vm.M)
	for _, ob := range vm.M.Snapshot() {
		if ob.Object != nil {
			o.Snapshot = append(o.Snapshot, ob.Object.GetName())
		}
	}
	sort.Strings(o.Snapshot)
	for _, e := range vm.Events() {
		if len(e.Objects) > 0 && e.Objects[0].Object != nil {
			o.Events = append(o.Events, e.Objects[0].Object.GetName())
		}
	}
	sort.Strings(o.Events)
	return o
}

func count(xs []string, prefix string) int {
	n := 0
	for _, x := range xs {
		if strings.HasPrefix(x, prefix) {
			n++
		}
	}
	return n
}

func RenderMonitor(in MonitorIn, obs *MonitorObs, crash string) core.Case {
	var o MonitorObs
	if obs != nil {
		o = *obs
	}
	c := core.Case{}
	all := true
	for _, f := range o.Informers {
		all = all && f
	}
	sched := core.CoqList(in.Sched, func(s string) string {
		if s == "U" {
			return "MU"
		}
		return "MN"
	})
	c.Coq = fmt.Sprintf("CMon (mkMIn %d %d %s) (mkMOb %s %d %s %d %d %d %d %s)", in.Pre, in.Late, sched,
		core.CoqBool(o.Flag), len(o.Informers), core.CoqBool(all), count(o.Snapshot, "pre"), count(o.Snapshot, "late"),
		count(o.Events, "pre"), count(o.Events, "late"), core.CoqBool(crash != "" || o.Note != ""))
	c.JSON = map[string]any{"obs": o, "crash": crash}
	c.Key = fmt.Sprintf("mon/%d/%d/%s", in.Pre, in.Late, strings.Join(in.Sched, ""))
	c.Nontrivial = len(in.Sched) >= 2
	c.Tags = []string{"monitor", "sched:" + strings.Join(in.Sched, "")}
	return c
}

// all interleavings of the two segments of N and of U
func monitorSchedules() [][]string {
	return [][]string{{"N", "N", "U", "U"}, {"N", "U", "N", "U"}, {"N", "U", "U", "N"}, {"U", "N", "N", "U"}, {"U", "N", "U", "N"}, {"U", "U", "N", "N"}}
}
