// hist: EVENTS of a binding with namespace.labelSelector over histories of namespaces and
// objects (model coq/theories/C01_Hist.v, spec C01_HistSpec.v).
//
// A real monitor (NewMonitor + CreateInformers + Start + EnableKubeEventCb, its REAL namespace
// informer and resource informers) runs on the fake cluster.  After the unlock the history mixes
// object operations (set = create or update, del) in any namespace with namespace operations
// (a namespace exists now with / without the selected label, is deleted): namespaces of the
// start-up list and late ones stop matching and match again any number of times.  The
// observation is the sequence of KubeEvents handed to the monitor's event callback.
//
// What the fake cluster does and does not do (the same facts as harness/internal/c02/dyn.go):
//   - the typed fake's Namespaces().List honours the label selector, its Watch does not.  A real
//     API server's filtered watch reports "starts matching" as ADDED and "stops matching" as
//     DELETED, so after the monitor exists a Namespace object is kept in the fake iff it matches
//     (initial non-matching namespaces carry another label value and are only ever updated INTO
//     matching, which the reflector turns into OnAdd exactly like ADDED);
//   - deleting a Namespace does not remove its objects: histories delete them explicitly;
//   - a watch registered after a change does not replay it (no resourceVersion): after every
//     operation that creates informers the harness waits, through a sentinel object that it makes
//     visible and removes again (its disappearance can only come through the watch), until their
//     watch delivers; the same with a sentinel namespace for the namespace informer.
//
// Pacing without sleeps: the informer of one namespace delivers sequentially, so the sentinel
// round trip also FLUSHES every earlier change of that namespace.  It is done before a
// namespace is made to stop matching (a change must not race with the cancellation of its
// informer) and for every matching namespace at the end.  After a namespace stopped matching the
// harness waits until the cancelled informers have really left the factory store (their handler
// is removed by a goroutine), so that "no Event for a namespace that does not match" is not a race.
// All waits are bounded; a bound is only ever reached when the code under test misbehaves.
package c01

import (
	"context"
	"fmt"
	"reflect"
	"sort"
	"strconv"
	"strings"
	"sync"
	"time"
	"unsafe"

	"github.com/deckhouse/deckhouse/pkg/log"
	corev1 "k8s.io/api/core/v1"
	metav1 "k8s.io/apimachinery/pkg/apis/meta/v1"
	"k8s.io/apimachinery/pkg/apis/meta/v1/unstructured"
	"k8s.io/apimachinery/pkg/runtime/schema"

	"github.com/flant/kube-client/fake"
	kubeeventsmanager "github.com/flant/shell-operator/pkg/kube_events_manager"
	kemtypes "github.com/flant/shell-operator/pkg/kube_events_manager/types"
	metricstorage "github.com/flant/shell-operator/pkg/metric_storage"

	"verifharness/internal/core"
)

// HObj: Proj is the content c of the object; c%10 goes into data.v (what the jqFilter .data
// selects), c/10 into the label r (outside the filter).
type HObj struct {
	Ns   int `json:"ns"`
	Name int `json:"name"`
	Proj int `json:"proj"`
}
type HNsState struct {
	Ns    int  `json:"ns"`
	Label bool `json:"label"` // carries the label the binding selects
}

// HistIn: the configuration and the cluster at the start; the history itself is Input.Ops
// (kinds set | del | ns_set | ns_del) so that a failing case can be shortened (ShrinkKey).
type HistIn struct {
	Names   []int      `json:"names,omitempty"` // nameSelector.matchNames (empty: any name), may repeat
	Types   []string   `json:"types"`           // executeHookOnEvent
	Filter  bool       `json:"filter"`          // jqFilter ".data"
	Initial []HObj     `json:"initial,omitempty"`
	Nss     []HNsState `json:"nss,omitempty"`
	SelExpr bool       `json:"sel_expr,omitempty"` // the selector is written with matchExpressions
	// Comp: a second binding of the same kind and names with STATIC namespaces, in the same process
	// (model coq/theories/C01_Comp.v): its informers share the first binding's shared informers
	Comp *CompIn `json:"comp,omitempty"`
	// Relist: the history may contain watch outages (steps of kind "outage", relist.go; model
	// coq/theories/C01_Relist.v): the fake API server gets a switch in front of the resource kind
	Relist bool `json:"relist,omitempty"`
	// Rv > 0: every object write carries a resourceVersion, the cluster-wide counter Rv, Rv+1, ... as decimal text (an API
	// server's versions grow and gain digits: 9 -> 10, 999 -> 1000); 0: the fake's objects carry none.  Versions are opaque
	// to a client: the model does not look at them
	Rv int `json:"rv,omitempty"`
}

// CompIn: the companion binding.  First: its monitor is created, started and unlocked before the
// first binding's (else after); SameDebug: both monitors carry the same debug name (binding
// names repeat across hooks: kubernetes[0], "pods" ...).
type CompIn struct {
	Nss       []int    `json:"nss"`
	Types     []string `json:"types"`
	Filter    bool     `json:"filter"`
	First     bool     `json:"first,omitempty"`
	SameDebug bool     `json:"same_debug,omitempty"`
}
type HEv struct {
	Ns   int    `json:"ns"`
	Name int    `json:"name"`
	Kind string `json:"kind"`
	Proj int    `json:"proj"`
}
type HistObs struct {
	Out    []HEv  `json:"out"`
	Before int    `json:"before_unlock"` // events handed over before EnableKubeEventCb
	Note   string `json:"note,omitempty"`
	// the companion binding's events
	COut    []HEv `json:"c_out,omitempty"`
	CBefore int   `json:"c_before_unlock,omitempty"`
}

const histLabel = "c01-hist"

var histGVR = schema.GroupVersionResource{Group: "", Version: "v1", Resource: "configmaps"}

func hNs(n int) string  { return "ns" + strconv.Itoa(n) }
func hObj(n int) string { return "n" + strconv.Itoa(n) }

func hCM(o HObj) *unstructured.Unstructured {
	return &unstructured.Unstructured{Object: map[string]interface{}{
		"apiVersion": "v1", "kind": "ConfigMap",
		"metadata": map[string]interface{}{"name": hObj(o.Name), "namespace": hNs(o.Ns), "labels": map[string]interface{}{"r": strconv.Itoa(o.Proj / 10)}},
		"data":     map[string]interface{}{"v": strconv.Itoa(o.Proj % 10)},
	}}
}

type histRun struct {
	in    HistIn
	fc    *fake.Cluster
	ctx   context.Context
	vm    *kubeeventsmanager.VerifC01Monitor
	vmc   *kubeeventsmanager.VerifC01Monitor // the companion binding's monitor
	objs  map[[2]int]int                     // the cluster's objects
	nsLab map[int]bool                       // existing namespaces -> carries the label
	// a Namespace object is in the fake (and carries the matching label)
	inFake, fakeMatch map[int]bool
	dirty             map[int]bool // object operations since the namespace's last flush
	nonce             int
	note              string
	oc                *outageCtl // the switch that breaks the API server (histories with outages)
	rvMu              sync.Mutex
	rv                int // object writes so far (histories with resourceVersions)
}

// stamp gives an object about to be written the next resourceVersion.
func (d *histRun) stamp(o *unstructured.Unstructured) *unstructured.Unstructured {
	if d.in.Rv > 0 {
		d.rvMu.Lock()
		o.SetResourceVersion(strconv.Itoa(d.in.Rv + d.rv))
		d.rv++
		d.rvMu.Unlock()
	}
	return o
}

func (d *histRun) setNote(s string) {
	if d.note == "" {
		d.note = s
	}
}

func (d *histRun) nsObj(n int, match bool) *corev1.Namespace {
	d.nonce++
	v := "no"
	if match {
		v = "yes"
	}
	ns := &corev1.Namespace{}
	ns.Name = hNs(n)
	ns.Labels = map[string]string{histLabel: v}
	ns.Annotations = map[string]string{"touch": strconv.Itoa(d.nonce)}
	return ns
}

func (d *histRun) config() *kubeeventsmanager.MonitorConfig {
	mc := &kubeeventsmanager.MonitorConfig{Kind: "ConfigMap", ApiVersion: "v1", KeepFullObjectsInMemory: true}
	if d.in.Filter {
		mc.JqFilter = ".data"
	}
	mc.Metadata.MonitorId = "m"
	mc.Metadata.DebugName = "c01-hist"
	mc.Metadata.LogLabels = map[string]string{}
	mc.Metadata.MetricLabels = map[string]string{}
	mc.EventTypes = []kemtypes.WatchEventType{}
	for _, t := range d.in.Types {
		mc.EventTypes = append(mc.EventTypes, watchType(t))
	}
	mc.Logger = log.NewNop()
	if len(d.in.Names) > 0 {
		var ns []string
		for _, n := range d.in.Names {
			ns = append(ns, hObj(n))
		}
		mc.NameSelector = &kemtypes.NameSelector{MatchNames: ns}
	}
	sel := &metav1.LabelSelector{MatchLabels: map[string]string{histLabel: "yes"}}
	if d.in.SelExpr {
		sel = &metav1.LabelSelector{MatchExpressions: []metav1.LabelSelectorRequirement{{Key: histLabel, Operator: metav1.LabelSelectorOpIn, Values: []string{"yes"}}}}
	}
	mc.NamespaceSelector = &kemtypes.NamespaceSelector{LabelSelector: sel}
	return mc
}

// compConfig: the companion - same kind, same names, no label selector, static namespaces
func (d *histRun) compConfig() *kubeeventsmanager.MonitorConfig {
	c := d.in.Comp
	mc := &kubeeventsmanager.MonitorConfig{Kind: "ConfigMap", ApiVersion: "v1", KeepFullObjectsInMemory: true}
	if c.Filter {
		mc.JqFilter = ".data"
	}
	mc.Metadata.MonitorId = "mc"
	mc.Metadata.DebugName = "c01-comp"
	if c.SameDebug {
		mc.Metadata.DebugName = "c01-hist"
	}
	mc.Metadata.LogLabels = map[string]string{}
	mc.Metadata.MetricLabels = map[string]string{}
	mc.EventTypes = []kemtypes.WatchEventType{}
	for _, t := range c.Types {
		mc.EventTypes = append(mc.EventTypes, watchType(t))
	}
	mc.Logger = log.NewNop()
	if len(d.in.Names) > 0 {
		var ns []string
		for _, n := range d.in.Names {
			ns = append(ns, hObj(n))
		}
		mc.NameSelector = &kemtypes.NameSelector{MatchNames: ns}
	}
	var nss []string
	for _, n := range c.Nss {
		nss = append(nss, hNs(n))
	}
	mc.NamespaceSelector = &kemtypes.NamespaceSelector{NameSelector: &kemtypes.NameSelector{MatchNames: nss}}
	return mc
}

func (d *histRun) compCovers(n int) bool {
	if d.in.Comp == nil || d.vmc == nil {
		return false
	}
	for _, x := range d.in.Comp.Nss {
		if x == n {
			return true
		}
	}
	return false
}

const histBound = 3 * time.Second // only ever reached when something is wrong

// hasInformers: the namespace callback has registered informers for the namespace
func (d *histRun) hasInformers(n int) bool {
	_, ok := d.vm.M.VaryingInformers.Load(hNs(n))
	return ok
}

func (d *histRun) waitVary(n int, want bool) bool {
	deadline := time.Now().Add(histBound)
	for {
		if d.hasInformers(n) == want {
			return true
		}
		if time.Now().After(deadline) {
			return false
		}
		time.Sleep(200 * time.Microsecond)
	}
}

// factoryAlive: the factory store still holds a shared informer for the namespace (the
// cancelled resource informers remove their handlers from a goroutine of their own).  The store
// is exported, its map is not: read it under its own lock.
func factoryAlive(ns string) bool { return factoryHandlers(ns) >= 0 }

// factoryHandlers: how many informers are registered on the shared informers of the namespace
// (-1: the store holds none for it).
func factoryHandlers(ns string) int {
	v := reflect.ValueOf(kubeeventsmanager.DefaultFactoryStore).Elem()
	mu := (*sync.Mutex)(unsafe.Pointer(v.FieldByName("mu").UnsafeAddr()))
	mu.Lock()
	defer mu.Unlock()
	n := -1
	data := v.FieldByName("data")
	for _, k := range data.MapKeys() {
		if k.FieldByName("Namespace").String() == ns {
			if n < 0 {
				n = 0
			}
			n += data.MapIndex(k).FieldByName("handlerRegistrations").Len()
		}
	}
	return n
}

// waitStopped: the cancelled informers of the first binding have left the factory store; what
// stays is the companion's informer of that namespace, if it has one.
func (d *histRun) waitStopped(n int) {
	want := -1
	if d.compCovers(n) {
		want = 1
	}
	deadline := time.Now().Add(histBound)
	for factoryHandlers(hNs(n)) != want && time.Now().Before(deadline) {
		time.Sleep(200 * time.Microsecond)
	}
}

// syncObjWatch returns when the informers that cover namespace n have delivered everything that
// happened in it so far: a sentinel object (name n0, outside the histories) is made visible in
// the snapshot, then deleted - its disappearance can only come through the watch.
func (d *histRun) syncObjWatch(n int) { d.syncObjWatchOf(d.vm, n) }

func (d *histRun) syncObjWatchOf(vm *kubeeventsmanager.VerifC01Monitor, n int) {
	d.syncObjWatchWithin(vm, n, histBound)
}

func (d *histRun) syncObjWatchWithin(vm *kubeeventsmanager.VerifC01Monitor, n int, bound time.Duration) {
	dyn := d.fc.Client.Dynamic().Resource(histGVR).Namespace(hNs(n))
	id := hNs(n) + "/ConfigMap/" + hObj(0)
	wait := func(want bool) bool {
		deadline := time.Now().Add(50 * time.Millisecond)
		for {
			seen := false
			for _, o := range vm.M.Snapshot() {
				seen = seen || o.Metadata.ResourceId == id
			}
			if seen == want {
				return true
			}
			if time.Now().After(deadline) {
				return false
			}
			time.Sleep(300 * time.Microsecond)
		}
	}
	exists, nonce := false, 0
	put := func() {
		nonce++
		o := d.stamp(hCM(HObj{n, 0, nonce % 40}))
		if exists {
			dyn.Update(d.ctx, o, metav1.UpdateOptions{})
		} else if _, err := dyn.Create(d.ctx, o, metav1.CreateOptions{}); err == nil {
			exists = true
		}
	}
	deadline := time.Now().Add(bound)
	seen := false
	for !seen && time.Now().Before(deadline) {
		put()
		seen = wait(true)
	}
	for seen && time.Now().Before(deadline) {
		dyn.Delete(d.ctx, hObj(0), metav1.DeleteOptions{})
		exists = false
		if wait(false) {
			if vm == d.vm {
				d.dirty[n] = false
			}
			return
		}
		put()
		wait(true)
	}
	if exists {
		dyn.Delete(d.ctx, hObj(0), metav1.DeleteOptions{})
	}
	d.setNote(fmt.Sprintf("the watch of namespace %d did not deliver within %v", n, bound))
}

// syncNsWatch returns when the namespace informer's watch delivers (sentinel namespace ns0).
func (d *histRun) syncNsWatch() {
	ni := d.vm.M.NamespaceInformer
	if ni == nil || ni.SharedInformer == nil {
		return
	}
	nsc := d.fc.Client.CoreV1().Namespaces()
	has := func() bool {
		_, ok, _ := ni.SharedInformer.GetStore().GetByKey(hNs(0))
		return ok
	}
	wait := func(want bool) bool {
		deadline := time.Now().Add(50 * time.Millisecond)
		for {
			if has() == want {
				return true
			}
			if time.Now().After(deadline) {
				return false
			}
			time.Sleep(300 * time.Microsecond)
		}
	}
	exists := false
	put := func() {
		if exists {
			nsc.Update(d.ctx, d.nsObj(0, true), metav1.UpdateOptions{})
		} else if _, err := nsc.Create(d.ctx, d.nsObj(0, true), metav1.CreateOptions{}); err == nil {
			exists = true
		}
	}
	deadline := time.Now().Add(histBound)
	seen := false
	for !seen && time.Now().Before(deadline) {
		put()
		seen = wait(true)
	}
	for seen && time.Now().Before(deadline) {
		nsc.Delete(d.ctx, hNs(0), metav1.DeleteOptions{})
		exists = false
		if wait(false) {
			return
		}
		put()
		wait(true)
	}
	if exists {
		nsc.Delete(d.ctx, hNs(0), metav1.DeleteOptions{})
	}
}

func (d *histRun) matchingNss() []int {
	var r []int
	for n, l := range d.nsLab {
		if l {
			r = append(r, n)
		}
	}
	sort.Ints(r)
	return r
}

func RunHist(in HistIn, ops []Op) HistObs {
	var o HistObs
	log.SetDefaultLevel(log.LevelFatal)
	kubeeventsmanager.DefaultSyncTime = time.Millisecond
	kubeeventsmanager.DefaultFactoryStore.Reset()
	d := &histRun{in: in, fc: fake.NewFakeCluster(fake.ClusterVersionV119),
		objs: map[[2]int]int{}, nsLab: map[int]bool{}, inFake: map[int]bool{}, fakeMatch: map[int]bool{}, dirty: map[int]bool{}}
	bg := context.Background()
	ctx, cancel := context.WithCancel(bg)
	defer cancel()
	d.ctx = ctx
	mstor := metricstorage.NewMetricStorage(bg, "c01h_", true, log.NewNop())
	if in.Relist {
		oc, err := installOutageCtl(d)
		if err != nil {
			o.Note = "outage switch: " + err.Error()
			return o
		}
		d.oc = oc
	}
	nsc := d.fc.Client.CoreV1().Namespaces()
	dync := d.fc.Client.Dynamic().Resource(histGVR)
	putNs := func(n int, match bool) {
		var err error
		if d.inFake[n] {
			_, err = nsc.Update(bg, d.nsObj(n, match), metav1.UpdateOptions{})
		} else {
			_, err = nsc.Create(bg, d.nsObj(n, match), metav1.CreateOptions{})
		}
		if err != nil {
			d.setNote("namespace: " + err.Error())
		}
		d.inFake[n], d.fakeMatch[n] = true, match
	}
	delNs := func(n int) {
		if d.inFake[n] {
			if err := nsc.Delete(bg, hNs(n), metav1.DeleteOptions{}); err != nil {
				d.setNote("namespace delete: " + err.Error())
			}
		}
		d.inFake[n], d.fakeMatch[n] = false, false
	}
	lastRV := map[[2]int]string{}
	putObj := func(ob HObj) {
		var err error
		k := [2]int{ob.Ns, ob.Name}
		if old, ok := d.objs[k]; ok {
			o := hCM(ob)
			if old == ob.Proj && d.in.Rv > 0 {
				o.SetResourceVersion(lastRV[k]) // an update that changes nothing: the API server keeps the version
			} else {
				d.stamp(o)
			}
			lastRV[k] = o.GetResourceVersion()
			_, err = dync.Namespace(hNs(ob.Ns)).Update(bg, o, metav1.UpdateOptions{})
		} else {
			o := d.stamp(hCM(ob))
			lastRV[k] = o.GetResourceVersion()
			_, err = dync.Namespace(hNs(ob.Ns)).Create(bg, o, metav1.CreateOptions{})
		}
		if err != nil {
			d.setNote("object: " + err.Error())
		}
		d.objs[k] = ob.Proj
		d.dirty[ob.Ns] = true
	}
	// the namespace stops matching: whatever happened in it so far is delivered first, then its
	// informers are cancelled and leave the factory store
	stopNs := func(n int) {
		if d.hasInformers(n) && d.dirty[n] {
			d.syncObjWatch(n)
		}
		delNs(n)
		d.waitVary(n, false)
		d.waitStopped(n)
	}
	// the namespace starts matching: its informers exist and their watch delivers
	startNs := func(n int) {
		if d.waitVary(n, true) {
			d.syncObjWatch(n)
		}
	}

	// the cluster before the operator starts: non-matching namespaces are really there
	for _, s := range in.Nss {
		putNs(s.Ns, s.Label)
		d.nsLab[s.Ns] = s.Label
	}
	for _, ob := range in.Initial {
		putObj(ob)
	}
	// the companion binding (of another hook): AddMonitor, StartMonitor, Synchronization, unlock
	startComp := func() bool {
		if in.Comp == nil {
			return true
		}
		vmc, err := kubeeventsmanager.NewVerifC01Monitor(ctx, d.fc.Client, mstor, d.compConfig())
		if err != nil {
			o.Note = "create companion: " + err.Error()
			return false
		}
		vmc.M.Start(ctx)
		_ = vmc.M.Snapshot()
		o.CBefore = len(vmc.Events())
		vmc.M.EnableKubeEventCb()
		d.vmc = vmc
		for _, n := range in.Comp.Nss {
			d.syncObjWatchOf(vmc, n)
		}
		return true
	}
	if in.Comp != nil && in.Comp.First && !startComp() {
		return o
	}
	// AddMonitor, StartMonitor, (the Synchronization), the unlock
	vm, err := kubeeventsmanager.NewVerifC01Monitor(ctx, d.fc.Client, mstor, d.config())
	if err != nil {
		o.Note = "create: " + err.Error()
		return o
	}
	d.vm = vm
	vm.M.Start(ctx)
	_ = vm.M.Snapshot() // the Synchronization view is taken from the locked monitor
	o.Before = len(vm.Events())
	vm.M.EnableKubeEventCb()
	d.syncNsWatch()
	for _, n := range d.matchingNss() {
		startNs(n)
	}
	if in.Comp != nil && !in.Comp.First && !startComp() {
		return o
	}

	delObj := func(ns, name int) {
		k := [2]int{ns, name}
		if _, ok := d.objs[k]; ok {
			if err := dync.Namespace(hNs(ns)).Delete(bg, hObj(name), metav1.DeleteOptions{}); err != nil {
				d.setNote("object delete: " + err.Error())
			}
			delete(d.objs, k)
			d.dirty[ns] = true
		}
	}
	for _, op := range ops {
		switch op.Kind {
		case "set":
			putObj(HObj{op.Ns, op.Name, op.Proj})
		case "del":
			delObj(op.Ns, op.Name)
		case "outage":
			d.outage(op.Inner, putObj, delObj)
		case "ns_set":
			was := d.nsLab[op.Ns]
			d.nsLab[op.Ns] = op.Label
			switch {
			case op.Label:
				// created with the label / given the label (the filtered watch: ADDED) / a
				// change that keeps it matching (MODIFIED)
				if !was && d.compCovers(op.Ns) {
					// the namespace's shared informer already runs (for the companion): the first
					// binding's new informers attach to it.  What happened in the namespace so far
					// is delivered first, else the new informers would be handed changes that are
					// older than the namespace's match (a lagging watch, not a property of the code)
					d.syncObjWatchOf(d.vmc, op.Ns)
				}
				putNs(op.Ns, true)
				if !was {
					startNs(op.Ns)
				}
			case d.inFake[op.Ns] && d.fakeMatch[op.Ns]:
				// it loses the label: the filtered watch reports DELETED
				stopNs(op.Ns)
			}
		case "ns_del":
			was := d.nsLab[op.Ns]
			delete(d.nsLab, op.Ns)
			if was {
				stopNs(op.Ns)
			} else {
				delNs(op.Ns)
			}
		default:
			d.setNote("unknown op " + op.Kind)
		}
	}
	// everything that happened is delivered
	for _, n := range d.matchingNss() {
		if d.hasInformers(n) {
			d.syncObjWatch(n)
		}
	}
	if d.vmc != nil {
		for _, n := range in.Comp.Nss {
			d.syncObjWatchOf(d.vmc, n)
		}
		o.COut = hevents(d.vmc.Events())
	}
	o.Out = hevents(vm.Events())
	o.Note = d.note
	return o
}

func hevents(evs []kemtypes.KubeEvent) []HEv {
	var out []HEv
	for _, e := range evs {
		ev := HEv{Ns: -1, Name: -1, Proj: -1}
		if len(e.WatchEvents) > 0 {
			ev.Kind = string(e.WatchEvents[0])
		}
		if len(e.Objects) > 0 && e.Objects[0].Object != nil {
			ob := e.Objects[0].Object
			if n, err := strconv.Atoi(strings.TrimPrefix(ob.GetNamespace(), "ns")); err == nil {
				ev.Ns = n
			}
			if n, err := strconv.Atoi(strings.TrimPrefix(ob.GetName(), "n")); err == nil {
				ev.Name = n
			}
			v, rest := -1, -1
			if dd, ok := ob.Object["data"].(map[string]interface{}); ok {
				if s, ok := dd["v"].(string); ok {
					v, _ = strconv.Atoi(s)
				}
			}
			if s, ok := ob.GetLabels()["r"]; ok {
				rest, _ = strconv.Atoi(s)
			}
			if v >= 0 && rest >= 0 {
				ev.Proj = rest*10 + v
			}
		}
		if ev.Name == 0 || ev.Ns == 0 {
			continue // the harness's sentinels
		}
		out = append(out, ev)
	}
	return out
}

// ---- rendering ----

func coqHop(o Op) string {
	switch o.Kind {
	case "set":
		return fmt.Sprintf("HSet (%d, %d, %d)", o.Ns, o.Name, o.Proj)
	case "del":
		return fmt.Sprintf("HDel %d %d", o.Ns, o.Name)
	case "ns_set":
		return fmt.Sprintf("HNs %d %s", o.Ns, core.CoqBool(o.Label))
	case "ns_del":
		return fmt.Sprintf("HNsDel %d", o.Ns)
	}
	return "HUnknown"
}

func nn(x int) int {
	if x < 0 {
		return 9999
	}
	return x
}

func RenderHist(in HistIn, ops []Op, obs *HistObs, crash string) core.Case {
	var o HistObs
	if obs != nil {
		o = *obs
	}
	c := core.Case{}
	coqEvs := func(l []HEv) string {
		return core.CoqList(l, func(e HEv) string {
			return fmt.Sprintf("(%d, %d, %s, %d)", nn(e.Ns), nn(e.Name), coqKind(e.Kind), nn(e.Proj))
		})
	}
	histIn := fmt.Sprintf("(mkHistIn %s %s %s %s %s\n %s)",
		core.CoqList(in.Names, core.CoqN), core.CoqList(in.Types, coqKind), core.CoqBool(in.Filter),
		core.CoqList(in.Initial, func(ob HObj) string { return fmt.Sprintf("(%d, %d, %d)", ob.Ns, ob.Name, ob.Proj) }),
		core.CoqList(in.Nss, func(s HNsState) string { return fmt.Sprintf("(%d, %s)", s.Ns, core.CoqBool(s.Label)) }),
		core.CoqList(ops, coqHop))
	bad := core.CoqBool(crash != "" || o.Note != "")
	if in.Relist {
		cfg := fmt.Sprintf("(mkHistIn %s %s %s %s %s [])",
			core.CoqList(in.Names, core.CoqN), core.CoqList(in.Types, coqKind), core.CoqBool(in.Filter),
			core.CoqList(in.Initial, func(ob HObj) string { return fmt.Sprintf("(%d, %d, %d)", ob.Ns, ob.Name, ob.Proj) }),
			core.CoqList(in.Nss, func(s HNsState) string { return fmt.Sprintf("(%d, %s)", s.Ns, core.CoqBool(s.Label)) }))
		c.Coq = fmt.Sprintf("CRelist %s\n %s\n (mkHOb %s %d %s)", cfg, core.CoqList(ops, coqRhop), coqEvs(o.Out), o.Before, bad)
	} else if in.Comp == nil {
		c.Coq = fmt.Sprintf("CHist %s\n (mkHOb %s %d %s)", histIn, coqEvs(o.Out), o.Before, bad)
	} else {
		c.Coq = fmt.Sprintf("CHist2 %s\n (mkCompIn %s %s %s %s)\n (mkHOb %s %d %s)\n (mkHOb %s %d %s)", histIn,
			core.CoqList(in.Comp.Nss, core.CoqN), core.CoqList(in.Names, core.CoqN), core.CoqList(in.Comp.Types, coqKind), core.CoqBool(in.Comp.Filter),
			coqEvs(o.Out), o.Before, bad, coqEvs(o.COut), o.CBefore, bad)
	}
	c.JSON = map[string]any{"hist": o, "crash": crash}
	c.Key = "hist" + fmt.Sprint(in.Names, in.Types, in.Filter, in.Initial, in.Nss, in.SelExpr, in.Relist, in.Rv, ops)
	if in.Comp != nil {
		c.Key += fmt.Sprint(*in.Comp)
	}

	// what the history contains (tags)
	objs := map[[2]int]bool{}
	lab := map[int]bool{}
	origin := map[int]string{} // how the namespace's current informers came to be: initial | late
	stopped := map[int]string{}
	for _, s := range in.Nss {
		lab[s.Ns] = s.Label
		if s.Label {
			origin[s.Ns] = "initial"
		}
	}
	for _, ob := range in.Initial {
		objs[[2]int{ob.Ns, ob.Name}] = true
	}
	holds := func(n int) bool {
		for k := range objs {
			if k[0] == n {
				return true
			}
		}
		return false
	}
	rematched := map[int]string{} // namespace -> origin before it stopped, while it matches again
	tags := map[string]bool{}
	nsOps, objOps := 0, 0
	stop := func(n int) {
		if lab[n] {
			w := "empty"
			if holds(n) {
				w = "holding-objects"
			}
			tags["hist-"+origin[n]+"-ns-stops-"+w] = true
			stopped[n] = origin[n]
			delete(rematched, n)
		}
	}
	change := func(n int) {
		objOps++
		switch {
		case !lab[n]:
			tags["hist-change-in-non-matching-ns"] = true
		case rematched[n] != "":
			tags["hist-change-after-"+rematched[n]+"-ns-rematched"] = true
		case origin[n] == "late":
			tags["hist-change-in-late-ns"] = true
		default:
			tags["hist-change-in-initial-ns"] = true
		}
	}
	for _, op := range ops {
		switch op.Kind {
		case "set":
			change(op.Ns)
			objs[[2]int{op.Ns, op.Name}] = true
		case "del":
			if objs[[2]int{op.Ns, op.Name}] {
				change(op.Ns)
			}
			delete(objs, [2]int{op.Ns, op.Name})
		case "ns_set":
			nsOps++
			if op.Label && !lab[op.Ns] {
				if s, ok := stopped[op.Ns]; ok {
					rematched[op.Ns] = s
					tags["hist-"+s+"-ns-rematches"] = true
				}
				origin[op.Ns] = "late"
				if holds(op.Ns) {
					tags["hist-ns-brings-objects-along"] = true
				}
			}
			if op.Label && lab[op.Ns] {
				tags["hist-ns-touched-while-matching"] = true
			}
			if !op.Label {
				stop(op.Ns)
			}
			lab[op.Ns] = op.Label
		case "ns_del":
			nsOps++
			stop(op.Ns)
			delete(lab, op.Ns)
		case "outage":
			for _, x := range op.Inner {
				if x.Kind == "set" {
					objs[[2]int{x.Ns, x.Name}] = true
				} else {
					delete(objs, [2]int{x.Ns, x.Name})
				}
			}
		}
	}
	class := "class:hist"
	if in.Relist {
		class = "class:relist"
	}
	c.Tags = []string{class, fmt.Sprintf("hist-ops:%02d", len(ops)/4*4), fmt.Sprintf("hist-types:%d", len(in.Types)),
		fmt.Sprintf("hist-filter:%v", in.Filter), fmt.Sprintf("hist-namesel:%v", len(in.Names) > 0), fmt.Sprintf("hist-events:%02d", len(o.Out)/3*3)}
	if in.Rv > 0 {
		c.Tags = append(c.Tags, fmt.Sprintf("hist-resource-versions-from:%d", in.Rv))
	}
	if in.Comp != nil {
		c.Tags = append(c.Tags, "hist-companion", fmt.Sprintf("hist-companion-first:%v", in.Comp.First),
			fmt.Sprintf("hist-companion-same-debug-name:%v", in.Comp.SameDebug), fmt.Sprintf("hist-companion-events:%02d", len(o.COut)/3*3))
		for _, n := range in.Comp.Nss {
			if stopped[n] != "" {
				tags["hist-companion-ns-stopped-matching-first-binding"] = true
			}
		}
	}
	for t := range tags {
		c.Tags = append(c.Tags, t)
	}
	if in.Relist {
		rt, outages, effective := relistTags(in, ops)
		c.Tags = append(c.Tags, rt...)
		c.Tags = append(c.Tags, fmt.Sprintf("relist-outages:%d", outages))
		sort.Strings(c.Tags)
		c.Nontrivial = outages >= 1 && effective >= 1 && len(o.Out) >= 1
		return c
	}
	sort.Strings(c.Tags)
	c.Nontrivial = nsOps >= 1 && objOps >= 2 && len(o.Out) >= 1
	return c
}

// ---- generation ----

// genHist: outages > 0 inserts that many watch outages (steps of kind "outage" carrying 1-5 object
// operations, mostly on matching namespaces and existing objects) at random places.
func genHist(r *core.Rng, nOps int, allowBrought bool, outages int) (HistIn, []Op) {
	var in HistIn
	in.Relist = outages > 0
	onlyName := 0
	if r.Chance(20) {
		// the fake cluster ignores field selectors: one selected name, carried by every object
		onlyName = 1 + r.Intn(3)
		in.Names = []int{onlyName}
		if r.Chance(40) {
			in.Names = append(in.Names, onlyName)
		}
	}
	in.Types = allTypes[r.Intn(len(allTypes)-1)] // never the empty list: most cases listen to everything
	in.Filter = r.Chance(50)
	in.SelExpr = r.Chance(25)
	if outages == 0 && r.Chance(40) {
		in.Rv = []int{1, 6, 8, 9, 93, 97, 99, 991, 997, 9996}[r.Intn(10)]
	}
	lab := map[int]bool{}
	exists := map[int]bool{}
	for n := 1; n <= 3; n++ {
		switch x := r.Intn(100); {
		case x < 55:
			in.Nss = append(in.Nss, HNsState{n, true})
			lab[n], exists[n] = true, true
		case x < 70:
			in.Nss = append(in.Nss, HNsState{n, false})
			exists[n] = true
		}
	}
	state := map[[2]int]int{}
	names := func() []int {
		if onlyName != 0 {
			return []int{onlyName}
		}
		return []int{1, 2, 3}
	}
	pickName := func() int { ns := names(); return ns[r.Intn(len(ns))] }
	for i := 0; i < r.Intn(4); i++ {
		ns, n := 1+r.Intn(3), pickName()
		if !lab[ns] && !allowBrought {
			continue
		}
		if _, ok := state[[2]int{ns, n}]; !ok {
			p := r.Intn(40)
			state[[2]int{ns, n}] = p
			in.Initial = append(in.Initial, HObj{ns, n, p})
		}
	}
	var ops []Op
	focus := 0 // the namespace that (re)started matching last: changes go there with preference
	emptyNs := func(n int) {
		for _, nm := range []int{1, 2, 3} {
			if _, ok := state[[2]int{n, nm}]; ok {
				ops = append(ops, Op{Kind: "del", Ns: n, Name: nm})
				delete(state, [2]int{n, nm})
			}
		}
	}
	holds := func(n int) bool {
		for k := range state {
			if k[0] == n {
				return true
			}
		}
		return false
	}
	// one object operation during an outage: mostly where the binding watches, mostly on what exists
	innerOp := func() Op {
		ns := 1 + r.Intn(3)
		if !lab[ns] && r.Chance(85) {
			var ms []int
			for _, m := range []int{1, 2, 3} {
				if lab[m] {
					ms = append(ms, m)
				}
			}
			if len(ms) > 0 {
				ns = ms[r.Intn(len(ms))]
			}
		}
		n := pickName()
		if r.Chance(60) {
			// an object that exists in that namespace, if any
			for _, nm := range names() {
				if _, ok := state[[2]int{ns, nm}]; ok && r.Chance(60) {
					n = nm
				}
			}
		}
		cur, ok := state[[2]int{ns, n}]
		switch {
		case ok && r.Chance(45):
			delete(state, [2]int{ns, n})
			return Op{Kind: "del", Ns: ns, Name: n}
		case ok:
			p := r.Intn(40)
			switch y := r.Intn(100); {
			case y < 25: // outside the jqFilter
				p = cur%10 + 10*((cur/10+1+r.Intn(3))%4)
			case y < 35: // the same content again
				p = cur
			}
			state[[2]int{ns, n}] = p
			return Op{Kind: "set", Ns: ns, Name: n, Proj: p}
		}
		p := r.Intn(40)
		state[[2]int{ns, n}] = p
		return Op{Kind: "set", Ns: ns, Name: n, Proj: p}
	}
	var outPos []int
	for len(outPos) < outages {
		outPos = append(outPos, r.Intn(nOps))
	}
	sort.Ints(outPos)
	for len(ops) < nOps || len(outPos) > 0 {
		if len(outPos) > 0 && len(ops) >= outPos[0] {
			outPos = outPos[1:]
			o := Op{Kind: "outage"}
			for k := 1 + r.Intn(5); k > 0; k-- {
				x := innerOp()
				if !lab[x.Ns] && !allowBrought {
					// what is left in a namespace that does not match would be brought along later
					if x.Kind == "set" {
						delete(state, [2]int{x.Ns, x.Name})
						o.Inner = append(o.Inner, x, Op{Kind: "del", Ns: x.Ns, Name: x.Name})
						continue
					}
				}
				o.Inner = append(o.Inner, x)
			}
			ops = append(ops, o)
			continue
		}
		switch x := r.Intn(100); {
		case x < 55: // object operation
			ns := 1 + r.Intn(3)
			if focus != 0 && r.Chance(50) {
				ns = focus
			}
			if !lab[ns] && !allowBrought && r.Chance(85) {
				// mostly in matching namespaces (what is left in a namespace that does not
				// match would be brought along when it matches again)
				for _, m := range []int{1, 2, 3} {
					if lab[m] {
						ns = m
					}
				}
			}
			n := pickName()
			cur, ok := state[[2]int{ns, n}]
			switch {
			case !ok:
				p := r.Intn(40)
				state[[2]int{ns, n}] = p
				ops = append(ops, Op{Kind: "set", Ns: ns, Name: n, Proj: p})
			case r.Chance(30):
				delete(state, [2]int{ns, n})
				ops = append(ops, Op{Kind: "del", Ns: ns, Name: n})
			default:
				p := r.Intn(40)
				switch y := r.Intn(100); {
				case y < 25: // outside the jqFilter
					p = cur%10 + 10*((cur/10+1+r.Intn(3))%4)
				case y < 35: // the same content again
					p = cur
				}
				state[[2]int{ns, n}] = p
				ops = append(ops, Op{Kind: "set", Ns: ns, Name: n, Proj: p})
			}
		default: // namespace operation
			n := 1 + r.Intn(3)
			switch {
			case lab[n] && r.Chance(75): // stops matching
				if !allowBrought || r.Chance(50) {
					emptyNs(n) // as a cluster does before it removes a namespace
				}
				if r.Chance(45) {
					ops = append(ops, Op{Kind: "ns_set", Ns: n, Label: false})
				} else {
					ops = append(ops, Op{Kind: "ns_del", Ns: n})
					exists[n] = false
				}
				lab[n] = false
				if focus == n {
					focus = 0
				}
			case lab[n]: // a change that keeps it matching
				ops = append(ops, Op{Kind: "ns_set", Ns: n, Label: true})
			case r.Chance(80): // starts matching (created with the label, or relabelled)
				if holds(n) && !allowBrought {
					emptyNs(n)
				}
				ops = append(ops, Op{Kind: "ns_set", Ns: n, Label: true})
				lab[n], exists[n] = true, true
				focus = n
			case exists[n] && r.Bool():
				ops = append(ops, Op{Kind: "ns_del", Ns: n})
				exists[n] = false
			default:
				ops = append(ops, Op{Kind: "ns_set", Ns: n, Label: false})
				exists[n] = true
			}
		}
	}
	return in, ops
}

func histCorpus() []core.In[Input] {
	all := []string{"Added", "Modified", "Deleted"}
	set := func(ns, n, p int) Op { return Op{Kind: "set", Ns: ns, Name: n, Proj: p} }
	del := func(ns, n int) Op { return Op{Kind: "del", Ns: ns, Name: n} }
	nsSet := func(n int, l bool) Op { return Op{Kind: "ns_set", Ns: n, Label: l} }
	nsDel := func(n int) Op { return Op{Kind: "ns_del", Ns: n} }
	var ins []core.In[Input]
	c := func(stream string, in HistIn, ops ...Op) {
		h := in
		ins = append(ins, core.In[Input]{Input: Input{Hist: &h, Ops: ops}, Stream: stream})
	}
	// resourceVersions that gain a digit while one object is modified again and again (8, 9, 10, 11; 98 .. 101; 998 .. 1001)
	for _, rv := range []int{8, 98, 998} {
		c("corpus", HistIn{Types: all, Nss: []HNsState{{1, true}}, Initial: []HObj{{1, 1, 1}}, Rv: rv}, set(1, 1, 2), set(1, 1, 3), set(1, 1, 4), set(1, 2, 1), set(1, 1, 5), del(1, 1))
		c("corpus", HistIn{Types: []string{"Added", "Modified"}, Filter: true, Nss: []HNsState{{1, true}}, Rv: rv + 1}, set(1, 1, 2), set(1, 1, 3), set(1, 1, 4), set(1, 1, 13))
	}
	// a namespace of the start-up list is emptied and deleted, created again, objects appear and change in it
	c("corpus", HistIn{Types: all, Nss: []HNsState{{1, true}}, Initial: []HObj{{1, 1, 1}}},
		set(1, 2, 5), del(1, 1), del(1, 2), nsDel(1), nsSet(1, true), set(1, 3, 4), set(1, 3, 5), del(1, 3))
	// ... loses the label while empty and gets it back, twice
	c("corpus", HistIn{Types: all, Nss: []HNsState{{1, true}, {2, true}}, Initial: []HObj{{2, 1, 3}}},
		nsSet(1, false), set(2, 1, 4), nsSet(1, true), set(1, 1, 1), del(1, 1), nsSet(1, false), nsSet(1, true), set(1, 2, 2))
	// a late namespace: appears, object, emptied, deleted, appears again, object
	c("corpus", HistIn{Types: all}, nsSet(3, true), set(3, 1, 4), del(3, 1), nsDel(3), nsSet(3, true), set(3, 1, 6), set(3, 1, 7))
	// a namespace that exists without the label at the start, gains it while empty, changes, loses it; changes meanwhile are not reported
	c("corpus", HistIn{Types: all, Nss: []HNsState{{1, true}, {2, false}}, Initial: []HObj{{1, 1, 1}}, Filter: true},
		nsSet(2, true), set(2, 1, 11), set(2, 1, 21), set(2, 1, 22), del(2, 1), nsSet(2, false), set(2, 2, 5), del(2, 2), nsSet(2, true), set(2, 3, 9))
	// touching a matching namespace changes nothing; event types: only Added and Deleted
	c("corpus", HistIn{Types: []string{"Added", "Deleted"}, Nss: []HNsState{{1, true}}, Initial: []HObj{{1, 1, 1}}, SelExpr: true},
		nsSet(1, true), set(1, 1, 2), set(1, 2, 3), nsSet(1, true), del(1, 1), del(1, 2))
	// nameSelector (repeated name) beside namespace.labelSelector
	c("corpus", HistIn{Names: []int{2, 2}, Types: all, Nss: []HNsState{{1, true}, {3, true}}, Initial: []HObj{{1, 2, 1}}},
		set(3, 2, 2), set(1, 2, 3), del(1, 2), nsDel(1), nsSet(1, true), set(1, 2, 4), nsSet(2, true), set(2, 2, 5))
	// beside a companion binding with static namespaces (same debug name, created after / before): the namespace stops
	// matching the first binding - its informers are cancelled - while the companion goes on watching it
	c("corpus", HistIn{Types: all, Nss: []HNsState{{1, true}}, Initial: []HObj{{1, 1, 1}}, Comp: &CompIn{Nss: []int{1}, Types: all, SameDebug: true}},
		set(1, 1, 2), nsSet(1, false), set(1, 1, 3), set(1, 2, 4), del(1, 1), nsSet(1, true), set(1, 3, 5))
	c("corpus", HistIn{Types: all, Nss: []HNsState{{1, true}, {2, true}}, Comp: &CompIn{Nss: []int{1, 2}, Types: all, First: true}},
		set(1, 1, 1), del(1, 1), nsDel(1), nsSet(1, false), set(1, 2, 2), set(2, 1, 3), nsSet(2, false), set(2, 1, 4))
	c("corpus", HistIn{Types: all, Nss: []HNsState{{1, true}}, Comp: &CompIn{Nss: []int{1}, Types: []string{"Added", "Deleted"}, Filter: true}},
		set(1, 1, 1), del(1, 1), nsDel(1), nsSet(1, false), set(1, 2, 2), set(1, 2, 12), del(1, 2))
	// trigger F24 (recorded finding): the namespace brings objects along; their later changes ARE reported
	c("trigger-F24", HistIn{Types: all}, set(1, 1, 1), set(1, 2, 1), nsSet(1, true), set(1, 1, 2), del(1, 2), set(1, 3, 3))
	c("trigger-F24", HistIn{Types: all, Nss: []HNsState{{1, true}}, Initial: []HObj{{1, 1, 1}}},
		nsSet(1, false), set(1, 1, 2), set(1, 2, 7), nsSet(1, true), set(1, 1, 3), del(1, 2), set(1, 3, 1))
	return ins
}

// histExhaustive: every history of at most maxLen steps over one namespace and one object name
// (two contents), from two start states: the namespace is in the start-up list holding the
// object / does not exist.
func histExhaustive(maxLen int) []core.In[Input] {
	all := []string{"Added", "Modified", "Deleted"}
	alphabet := []Op{{Kind: "set", Ns: 1, Name: 1, Proj: 1}, {Kind: "set", Ns: 1, Name: 1, Proj: 2}, {Kind: "del", Ns: 1, Name: 1},
		{Kind: "ns_set", Ns: 1, Label: true}, {Kind: "ns_set", Ns: 1, Label: false}, {Kind: "ns_del", Ns: 1}}
	starts := []HistIn{
		{Types: all, Nss: []HNsState{{1, true}}, Initial: []HObj{{1, 1, 1}}},
		{Types: all},
	}
	var ins []core.In[Input]
	var rec func(prefix []Op)
	rec = func(prefix []Op) {
		if len(prefix) > 0 {
			for _, st := range starts {
				h := st
				ins = append(ins, core.In[Input]{Input: Input{Hist: &h, Ops: append([]Op{}, prefix...)}, Stream: "hist-exhaustive"})
			}
		}
		if len(prefix) == maxLen {
			return
		}
		for _, a := range alphabet {
			rec(append(prefix, a))
		}
	}
	rec(nil)
	return ins
}
