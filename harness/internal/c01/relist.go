// relist: the history class of hist.go ACROSS WATCH OUTAGES (model coq/theories/C01_Relist.v,
// spec C01_RelistSpec.v; seeded change C01-6).
//
// A history step "outage" carries object operations (Inner: set / del).  The harness
//  1. lets everything that happened so far be delivered (sentinel round trip per namespace): the
//     informers' stores and caches hold the cluster;
//  2. breaks the API server for the binding's resource kind: the open watch connections are
//     closed, a new WATCH is answered 410 Gone ("too old resource version": it cannot be resumed),
//     a LIST 503 - and waits until every reflector has run into the 410 (so that none of them can
//     slip a fresh watch in right after the outage without relisting: the fake tracker's watch has
//     no resourceVersion replay, a real server would answer 410 or replay);
//  3. applies the inner operations to the cluster - nobody sees them;
//  4. repairs the API server.  client-go's reflectors come back after their back-off (0.8-1.6 s the
//     first time, doubled on each further failure of the same reflector), LIST, and the shared
//     informers hand the difference to the handlers: OnAdd / OnUpdate for what is listed,
//     OnDelete(cache.DeletedFinalStateUnknown{...}) - the tombstone, by value - for what is gone;
//  5. waits (sentinel round trip again, its deletion can only come through the NEW watch) until
//     every informer has relisted and watches again.
// Nothing sleeps for a fixed time; every wait is bounded and a bound is reached only when the
// code under test (or client-go) misbehaves.
package c01

import (
	"fmt"
	"sync"
	"time"

	apierrors "k8s.io/apimachinery/pkg/api/errors"
	"k8s.io/apimachinery/pkg/runtime"
	"k8s.io/apimachinery/pkg/watch"
	dynamicfake "k8s.io/client-go/dynamic/fake"
	clienttesting "k8s.io/client-go/testing"

	"verifharness/internal/core"
)

// outageCtl is the switch in front of the fake API server's configmaps.
type outageCtl struct {
	mu       sync.Mutex
	down     bool
	watchers []watch.Interface
	gone     map[string]int // namespace -> WATCH requests answered 410 during the current outage
}

func installOutageCtl(d *histRun) (*outageCtl, error) {
	dyn, ok := d.fc.Client.Dynamic().(*dynamicfake.FakeDynamicClient)
	if !ok {
		return nil, fmt.Errorf("the fake cluster's dynamic client is %T", d.fc.Client.Dynamic())
	}
	oc := &outageCtl{gone: map[string]int{}}
	dyn.PrependWatchReactor("configmaps", func(action clienttesting.Action) (bool, watch.Interface, error) {
		oc.mu.Lock()
		defer oc.mu.Unlock()
		if oc.down {
			oc.gone[action.GetNamespace()]++
			return true, nil, apierrors.NewResourceExpired("too old resource version")
		}
		w, err := dyn.Tracker().Watch(action.GetResource(), action.GetNamespace())
		if err != nil {
			return true, nil, err
		}
		oc.watchers = append(oc.watchers, w)
		return true, w, nil
	})
	dyn.PrependReactor("list", "configmaps", func(action clienttesting.Action) (bool, runtime.Object, error) {
		oc.mu.Lock()
		defer oc.mu.Unlock()
		if oc.down {
			return true, nil, apierrors.NewServiceUnavailable("the API server is down")
		}
		return false, nil, nil
	})
	return oc, nil
}

func (oc *outageCtl) begin() {
	oc.mu.Lock()
	defer oc.mu.Unlock()
	oc.down = true
	oc.gone = map[string]int{}
	for _, w := range oc.watchers {
		w.Stop()
	}
	oc.watchers = nil
}

func (oc *outageCtl) end() {
	oc.mu.Lock()
	defer oc.mu.Unlock()
	oc.down = false
}

func (oc *outageCtl) goneFor(ns string) int {
	oc.mu.Lock()
	defer oc.mu.Unlock()
	return oc.gone[ns]
}

const outageBound = 12 * time.Second // a reflector's second back-off can take 3.2 s

// reflectors: how many shared informers (one reflector each) watch namespace n for the binding
func (d *histRun) reflectors(n int) int {
	v, ok := d.vm.M.VaryingInformers.Load(hNs(n))
	if !ok {
		return 0
	}
	return len(v)
}

// outage runs one outage step (see the head of this file).
func (d *histRun) outage(inner []Op, set func(HObj), del func(ns, name int)) {
	if d.oc == nil {
		d.setNote("outage step in a history that was not set up for outages")
		return
	}
	var watched []int
	for _, n := range d.matchingNss() {
		if d.hasInformers(n) {
			watched = append(watched, n)
			if d.dirty[n] {
				d.syncObjWatch(n)
			}
		}
	}
	d.oc.begin()
	deadline := time.Now().Add(histBound)
	for _, n := range watched {
		for d.oc.goneFor(hNs(n)) < d.reflectors(n) {
			if time.Now().After(deadline) {
				d.setNote(fmt.Sprintf("harness: the reflectors of namespace %d did not try to resume their watch within %v", n, histBound))
				break
			}
			time.Sleep(200 * time.Microsecond)
		}
	}
	for _, x := range inner {
		switch x.Kind {
		case "set":
			set(HObj{x.Ns, x.Name, x.Proj})
		case "del":
			del(x.Ns, x.Name)
		default:
			d.setNote("unknown operation in an outage: " + x.Kind)
		}
	}
	d.oc.end()
	for _, n := range watched {
		d.syncObjWatchWithin(d.vm, n, outageBound)
	}
}

// ---- rendering ----

func coqOop(o Op) string {
	if o.Kind == "set" {
		return fmt.Sprintf("OSet (%d, %d, %d)", o.Ns, o.Name, o.Proj)
	}
	return fmt.Sprintf("ODel %d %d", o.Ns, o.Name)
}

func coqRhop(o Op) string {
	if o.Kind == "outage" {
		return "ROut " + core.CoqList(o.Inner, coqOop)
	}
	return "RStep (" + coqHop(o) + ")"
}

// relistTags: what the outages of the history contain, per object: its state when the watch broke
// against its state when the watch is back
func relistTags(in HistIn, ops []Op) (tags []string, outages, effective int) {
	objs := map[[2]int]int{}
	lab := map[int]bool{}
	for _, s := range in.Nss {
		lab[s.Ns] = s.Label
	}
	for _, ob := range in.Initial {
		objs[[2]int{ob.Ns, ob.Name}] = ob.Proj
	}
	seen := map[string]bool{}
	apply := func(m map[[2]int]int, op Op) {
		switch op.Kind {
		case "set":
			m[[2]int{op.Ns, op.Name}] = op.Proj
		case "del":
			delete(m, [2]int{op.Ns, op.Name})
		}
	}
	csum := func(p int) int {
		if in.Filter {
			return p % 10
		}
		return p
	}
	for _, op := range ops {
		switch op.Kind {
		case "ns_set":
			lab[op.Ns] = op.Label
		case "ns_del":
			delete(lab, op.Ns)
		case "outage":
			outages++
			before := map[[2]int]int{}
			touched := map[[2]int]int{}
			for k, v := range objs {
				before[k] = v
			}
			for _, x := range op.Inner {
				apply(objs, x)
				touched[[2]int{x.Ns, x.Name}]++
			}
			if len(op.Inner) == 0 {
				seen["relist-empty-outage"] = true
			}
			for k, n := range touched {
				if !lab[k[0]] {
					seen["relist-change-in-non-matching-ns"] = true
					continue
				}
				b, wasThere := before[k]
				a, isThere := objs[k]
				switch {
				case wasThere && !isThere:
					seen["relist-deleted-during-outage(tombstone)"] = true
					effective++
				case !wasThere && isThere:
					seen["relist-created-during-outage"] = true
					effective++
				case !wasThere && !isThere:
					seen["relist-created-and-deleted-during-outage(silent)"] = true
				case csum(a) != csum(b):
					seen["relist-modified-during-outage"] = true
					effective++
				case a != b:
					seen["relist-modified-outside-the-filter(silent)"] = true
				default:
					seen["relist-same-state-again(silent)"] = true
				}
				if n > 1 {
					seen["relist-several-changes-of-one-object-collapsed"] = true
				}
			}
		default:
			apply(objs, op)
		}
	}
	for t := range seen {
		tags = append(tags, t)
	}
	return tags, outages, effective
}

// ---- generation ----

func relistCorpus() []core.In[Input] {
	all := []string{"Added", "Modified", "Deleted"}
	set := func(ns, n, p int) Op { return Op{Kind: "set", Ns: ns, Name: n, Proj: p} }
	del := func(ns, n int) Op { return Op{Kind: "del", Ns: ns, Name: n} }
	out := func(inner ...Op) Op { return Op{Kind: "outage", Inner: inner} }
	nsSet := func(n int, l bool) Op { return Op{Kind: "ns_set", Ns: n, Label: l} }
	var ins []core.In[Input]
	c := func(in HistIn, ops ...Op) {
		h := in
		h.Relist = true
		ins = append(ins, core.In[Input]{Input: Input{Hist: &h, Ops: ops}, Stream: "corpus-relist"})
	}
	// the smallest one: an object of the Synchronization view is deleted while the watch is down
	c(HistIn{Types: all, Nss: []HNsState{{1, true}}, Initial: []HObj{{1, 1, 1}}}, out(del(1, 1)))
	// one outage, every kind of difference: deleted, modified, created, created-and-deleted, deleted-and-recreated, untouched
	c(HistIn{Types: all, Nss: []HNsState{{1, true}, {2, true}}, Initial: []HObj{{1, 1, 1}, {1, 2, 1}, {2, 1, 3}, {2, 2, 4}}},
		set(1, 3, 2), out(del(1, 1), set(1, 2, 5), set(2, 3, 6), set(1, 1, 7), del(1, 1), del(2, 1), set(2, 1, 3)), set(2, 2, 5), del(1, 2))
	// jqFilter: a change outside the filter during the outage is silent, a delete is not; Deleted carries the state the informer knew
	c(HistIn{Types: all, Filter: true, Nss: []HNsState{{1, true}}, Initial: []HObj{{1, 1, 1}, {1, 2, 2}}},
		out(set(1, 1, 11), set(1, 2, 12), set(1, 2, 13), del(1, 2)), set(1, 1, 12))
	// Deleted not listed: the tombstone fires nothing but the object leaves the cache - its re-creation is an Added
	c(HistIn{Types: []string{"Added", "Modified"}, Nss: []HNsState{{1, true}}, Initial: []HObj{{1, 1, 1}}},
		out(del(1, 1)), set(1, 1, 1), out(set(1, 1, 2)))
	// two outages; a namespace that does not match is not reported; a namespace appears between them and is hit by the second
	c(HistIn{Types: all, Nss: []HNsState{{1, true}, {2, false}}, Initial: []HObj{{1, 1, 1}}},
		out(set(2, 1, 1), set(1, 2, 2), del(1, 1)), nsSet(3, true), set(3, 1, 4), out(del(3, 1), del(1, 2), set(1, 1, 5)), set(3, 1, 6))
	// nameSelector beside the labelSelector, an empty outage, an outage that changes nothing in the end
	c(HistIn{Names: []int{2, 2}, Types: all, Nss: []HNsState{{1, true}}, Initial: []HObj{{1, 2, 1}}},
		out(), out(del(1, 2), set(1, 2, 1)), out(del(1, 2)))
	return ins
}

// relistExhaustive: every history of at most two steps over one object of one matching namespace
// (two contents) with exactly one outage of one or two inner operations, from two start states.
func relistExhaustive() []core.In[Input] {
	all := []string{"Added", "Modified", "Deleted"}
	obj := []Op{{Kind: "set", Ns: 1, Name: 1, Proj: 1}, {Kind: "set", Ns: 1, Name: 1, Proj: 2}, {Kind: "del", Ns: 1, Name: 1}}
	var outs []Op
	for _, a := range obj {
		outs = append(outs, Op{Kind: "outage", Inner: []Op{a}})
		for _, b := range obj {
			outs = append(outs, Op{Kind: "outage", Inner: []Op{a, b}})
		}
	}
	starts := []HistIn{
		{Types: all, Nss: []HNsState{{1, true}}, Initial: []HObj{{1, 1, 1}}, Relist: true},
		{Types: all, Nss: []HNsState{{1, true}}, Relist: true},
	}
	var ins []core.In[Input]
	add := func(ops ...Op) {
		for _, st := range starts {
			h := st
			ins = append(ins, core.In[Input]{Input: Input{Hist: &h, Ops: append([]Op{}, ops...)}, Stream: "relist-exhaustive"})
		}
	}
	for _, o := range outs {
		add(o)
		for _, a := range obj {
			add(a, o)
			add(o, a)
		}
	}
	return ins
}
