// Package c01: correspondence driver for C01 (no cluster change is lost between
// Synchronization and later Events; no Event before the unlock).
//
// A real resourceInformer (not connected to a cluster, events still locked) is driven by
// three kinds of goroutines — the informer callback delivering changes one after the
// other, snapshot readers, the unlock — which the harness interleaves deterministically
// at the verifpoint marks (lock-granularity schedules).
package c01

import (
	"context"
	"fmt"
	"os"
	"reflect"
	"runtime"
	"sort"
	"strconv"
	"strings"
	"time"
	"unsafe"

	"github.com/deckhouse/deckhouse/pkg/log"
	"k8s.io/apimachinery/pkg/apis/meta/v1/unstructured"
	"k8s.io/client-go/tools/cache"

	kubeeventsmanager "github.com/flant/shell-operator/pkg/kube_events_manager"
	kemtypes "github.com/flant/shell-operator/pkg/kube_events_manager/types"
	metricstorage "github.com/flant/shell-operator/pkg/metric_storage"
	"github.com/flant/shell-operator/pkg/utils/verifpoint"

	"verifharness/internal/core"
	"verifharness/internal/opsim"
)

type Change struct {
	Oid  int    `json:"oid"`
	Kind string `json:"kind"` // Added Modified Deleted
	Proj int    `json:"proj"`
	// Form: how client-go hands the change to the handler.  "" = the object itself
	// ( *unstructured.Unstructured ); "tombstone" (Deleted only) = the
	// cache.DeletedFinalStateUnknown{Key, Obj} BY VALUE that a relist after a broken watch
	// produces for an object the new list no longer has (model C01_Forms.v)
	Form string `json:"form,omitempty"`
}

const formTombstone = "tombstone"
type Op struct {
	Kind string `json:"kind"` // StartW StepW StartS StepS E | history steps (hist.go): set del ns_set ns_del outage
	R    int    `json:"r,omitempty"`
	// history steps only
	Ns    int  `json:"ns,omitempty"`
	Name  int  `json:"name,omitempty"`
	Proj  int  `json:"proj,omitempty"`
	Label bool `json:"label,omitempty"`
	// outage only (relist.go): the object operations (set / del) that happen while the watch is down
	Inner []Op `json:"inner,omitempty"`
}
type Input struct {
	Types   []string `json:"types,omitempty"` // event types the binding listens to
	Changes []Change `json:"changes,omitempty"`
	Ops     []Op     `json:"ops,omitempty"`
	// Monitor (optional): a monitor-level case instead of an informer-level one
	Monitor *MonitorIn `json:"monitor,omitempty"`
	// Stress: run the callback, one Synchronization read and the unlock as free-running
	// goroutines (no schedule); StressSeed varies the yields
	Stress     bool  `json:"stress,omitempty"`
	StressSeed int64 `json:"stress_seed,omitempty"`
	// Op (optional): an operator-level scenario (internal/opsim): several kubernetes bindings
	// per hook, Synchronizations failing and succeeding, events of unlocked monitors
	Op *opsim.Scenario `json:"op,omitempty"`
	// Hist (optional): a binding with namespace.labelSelector over a history of namespaces and
	// objects (hist.go); the history is Ops
	Hist *HistIn `json:"hist,omitempty"`
}

type Ev struct {
	Oid  int    `json:"oid"`
	Kind string `json:"kind"`
	Proj int    `json:"proj"`
}
type Pair struct {
	Oid  int `json:"oid"`
	Proj int `json:"proj"`
}
type View struct {
	R    int    `json:"r"`
	Objs []Pair `json:"objs"`
}
type Obs struct {
	Mon        *MonitorObs  `json:"mon,omitempty"`
	Op         *opsim.Trace `json:"op,omitempty"`
	Hist       *HistObs     `json:"hist,omitempty"`
	Out        []Ev         `json:"out"`
	Views      []View       `json:"views"`
	Cache      []Pair       `json:"cache"`
	Enabled    bool         `json:"enabled"`
	BufLen     int          `json:"buf_len"`
	OutBeforeE int          `json:"out_before_e"`
	Delivered  int          `json:"delivered"` // changes whose handler has returned
	Note       string       `json:"note,omitempty"`
}

func object(c Change) *unstructured.Unstructured {
	return &unstructured.Unstructured{Object: map[string]interface{}{
		"apiVersion": "v1", "kind": "ConfigMap",
		"metadata": map[string]interface{}{"name": "o" + strconv.Itoa(c.Oid), "namespace": "default"},
		"data":     map[string]interface{}{"v": strconv.Itoa(c.Proj)},
	}}
}

// tombstoneOf lets client-go itself make what OnDelete receives for an object that a relist no
// longer lists: the object sits in the informer's store (the DeltaFIFO's KnownObjects, configured
// as sharedIndexInformer.Run configures it), the new list is empty, DeltaFIFO.Replace queues the
// Deleted delta and Pop hands it over as processDeltas gets it (a DeletedFinalStateUnknown value).
func tombstoneOf(obj *unstructured.Unstructured) (interface{}, error) {
	store := cache.NewStore(cache.DeletionHandlingMetaNamespaceKeyFunc)
	if err := store.Add(obj); err != nil {
		return nil, err
	}
	fifo := cache.NewDeltaFIFOWithOptions(cache.DeltaFIFOOptions{KnownObjects: store, EmitDeltaTypeReplaced: true})
	if err := fifo.Replace([]interface{}{}, "2"); err != nil {
		return nil, err
	}
	if len(fifo.ListKeys()) != 1 {
		return nil, fmt.Errorf("DeltaFIFO.Replace queued %d keys for one missing object", len(fifo.ListKeys()))
	}
	var arg interface{}
	_, err := fifo.Pop(func(x interface{}, _ bool) error {
		deltas, ok := x.(cache.Deltas)
		if !ok || len(deltas) != 1 || deltas[0].Type != cache.Deleted {
			return fmt.Errorf("unexpected deltas for a missing object: %#v", x)
		}
		arg = deltas[0].Object
		return nil
	})
	return arg, err
}

// handlerOf: the client-go handler interface of the wrapped resourceInformer (the wrapper's own
// Handle takes objects only; its field is unexported, the informer's handler methods are not).
func handlerOf(inf *kubeeventsmanager.VerifC01Informer) cache.ResourceEventHandler {
	f := reflect.ValueOf(inf).Elem().FieldByName("ei")
	h, _ := reflect.NewAt(f.Type(), unsafe.Pointer(f.UnsafeAddr())).Elem().Interface().(cache.ResourceEventHandler)
	return h
}

// deliver one change to the informer's handlers as client-go's processorListener does
func deliver(inf *kubeeventsmanager.VerifC01Informer, h cache.ResourceEventHandler, c Change) error {
	if c.Form != formTombstone {
		inf.Handle(watchType(c.Kind), object(c))
		return nil
	}
	if c.Kind != "Deleted" {
		return fmt.Errorf("client-go hands a tombstone to OnDelete only")
	}
	if h == nil {
		return fmt.Errorf("the informer's handler methods are not reachable")
	}
	t, err := tombstoneOf(object(c))
	if err != nil {
		return err
	}
	h.OnDelete(t)
	return nil
}

func pairOf(o kemtypes.ObjectAndFilterResult) Pair {
	p := Pair{Oid: -1, Proj: -1}
	if o.Object != nil {
		p.Oid, _ = strconv.Atoi(strings.TrimPrefix(o.Object.GetName(), "o"))
		if d, ok := o.Object.Object["data"].(map[string]interface{}); ok {
			if s, ok := d["v"].(string); ok {
				p.Proj, _ = strconv.Atoi(s)
			}
		}
	}
	return p
}

func watchType(k string) kemtypes.WatchEventType {
	switch k {
	case "Added":
		return kemtypes.WatchEventAdded
	case "Modified":
		return kemtypes.WatchEventModified
	}
	return kemtypes.WatchEventDeleted
}

func sortedPairs(objs []kemtypes.ObjectAndFilterResult) []Pair {
	var ps []Pair
	for _, o := range objs {
		ps = append(ps, pairOf(o))
	}
	sort.Slice(ps, func(i, j int) bool { return ps[i].Oid < ps[j].Oid })
	return ps
}

func Run(in Input) Obs {
	var o Obs
	if in.Op != nil {
		tr := opsim.RunScenario(*in.Op)
		o.Op = &tr
		return o
	}
	if in.Monitor != nil {
		m := RunMonitor(*in.Monitor)
		o.Mon = &m
		return o
	}
	if in.Hist != nil {
		h := RunHist(*in.Hist, in.Ops)
		o.Hist = &h
		return o
	}
	log.SetDefaultLevel(log.LevelFatal)
	if in.Stress {
		return runStress(in)
	}
	mc := &kubeeventsmanager.MonitorConfig{Kind: "ConfigMap", ApiVersion: "v1", KeepFullObjectsInMemory: true}
	mc.Metadata.MonitorId = "m"
	mc.Metadata.DebugName = "c01"
	var ets []kemtypes.WatchEventType
	for _, t := range in.Types {
		ets = append(ets, watchType(t))
	}
	mc.EventTypes = ets
	mstor := metricstorage.NewMetricStorage(context.Background(), "c01_", true, log.NewNop())
	inf := kubeeventsmanager.NewVerifC01Informer(mc, mstor)
	hnd := handlerOf(inf)
	ctl := verifpoint.NewController()
	verifpoint.Install(ctl)
	defer verifpoint.Install(nil)

	next := 0
	wLive := false
	sLive := map[int]bool{}
	eDone := false
	done := make(chan struct{})
	_ = done
	guard := func(f func() string) string {
		ch := make(chan string, 1)
		go func() { ch <- f() }()
		select {
		case s := <-ch:
			return s
		case <-time.After(5 * time.Second):
			o.Note = "a step did not return within 5s (deadlock?)"
			return "stuck"
		}
	}
	startW := func() {
		if wLive || next >= len(in.Changes) {
			return
		}
		c := in.Changes[next]
		next++
		p := guard(func() string {
			return ctl.Go("W", func() {
				if err := deliver(inf, hnd, c); err != nil {
					o.Note = "delivery: " + err.Error()
				}
			})
		})
		if p == "" {
			o.Delivered++
		} else {
			wLive = true
		}
	}
	stepW := func() {
		if !wLive {
			return
		}
		p := guard(func() string { return ctl.Release("W") })
		if p == "" {
			wLive = false
			o.Delivered++
		}
	}
	startS := func(r int) {
		if sLive[r] {
			return
		}
		name := "S" + strconv.Itoa(r)
		p := guard(func() string {
			return ctl.Go(name, func() {
				v := View{R: r, Objs: sortedPairs(inf.Snapshot())}
				o.Views = append(o.Views, v)
			})
		})
		if p != "" {
			sLive[r] = true
		}
	}
	stepS := func(r int) {
		if !sLive[r] {
			return
		}
		p := guard(func() string { return ctl.Release("S" + strconv.Itoa(r)) })
		if p == "" {
			sLive[r] = false
		}
	}
	for _, op := range in.Ops {
		if o.Note != "" {
			break
		}
		switch op.Kind {
		case "StartW":
			startW()
		case "StepW":
			stepW()
		case "StartS":
			startS(op.R)
		case "StepS":
			stepS(op.R)
		case "E":
			if !eDone {
				o.OutBeforeE = len(inf.Events())
				eDone = true
			}
			guard(func() string { return ctl.Go("E", func() { inf.Enable() }) })
		}
	}
	// tail: let every live goroutine finish (readers by number, then the informer callback)
	var rs []int
	for r, live := range sLive {
		if live {
			rs = append(rs, r)
		}
	}
	sort.Ints(rs)
	for _, r := range rs {
		for i := 0; i < 4 && sLive[r] && o.Note == ""; i++ {
			stepS(r)
		}
	}
	for i := 0; i < 4 && wLive && o.Note == ""; i++ {
		stepW()
	}
	for _, e := range inf.Events() {
		ev := Ev{Oid: -1, Proj: -1}
		if len(e.WatchEvents) > 0 {
			ev.Kind = string(e.WatchEvents[0])
		}
		if len(e.Objects) > 0 {
			p := pairOf(e.Objects[0])
			ev.Oid, ev.Proj = p.Oid, p.Proj
		}
		o.Out = append(o.Out, ev)
	}
	o.Enabled, o.BufLen = inf.State()
	if !eDone {
		o.OutBeforeE = len(o.Out)
	}
	// final cache: read it without disturbing anything that matters now
	verifpoint.Install(nil)
	o.Cache = sortedPairs(inf.Snapshot())
	return o
}

// runStress: free-running goroutines. The informer callback delivers the changes one after
// the other; concurrently the Synchronization run reads the snapshot once and, a little
// later, the unlock runs. Random yields vary the interleaving; what happened is not known,
// the outcome is judged by C01_Spec.P_free.
func runStress(in Input) Obs {
	var o Obs
	mc := &kubeeventsmanager.MonitorConfig{Kind: "ConfigMap", ApiVersion: "v1", KeepFullObjectsInMemory: true}
	mc.Metadata.MonitorId = "m"
	mc.Metadata.DebugName = "c01s"
	for _, t := range in.Types {
		mc.EventTypes = append(mc.EventTypes, watchType(t))
	}
	mstor := metricstorage.NewMetricStorage(context.Background(), "c01s_", true, log.NewNop())
	inf := kubeeventsmanager.NewVerifC01Informer(mc, mstor)
	hnd := handlerOf(inf)
	var dErr error
	rng := core.NewRng(in.StressSeed)
	spin := func(n int) {
		for i := 0; i < n; i++ {
			runtime.Gosched()
		}
	}
	wDelay := make([]int, len(in.Changes))
	for i := range wDelay {
		wDelay[i] = rng.Intn(4)
	}
	sAt, eGap := rng.Intn(len(in.Changes)*3+1), rng.Intn(6)
	done := make(chan struct{}, 2)
	go func() {
		for i, c := range in.Changes {
			spin(wDelay[i])
			if err := deliver(inf, hnd, c); err != nil {
				dErr = err
			}
		}
		done <- struct{}{}
	}()
	go func() {
		spin(sAt)
		o.Views = append(o.Views, View{R: 0, Objs: sortedPairs(inf.Snapshot())})
		spin(eGap)
		o.OutBeforeE = len(inf.Events())
		inf.Enable()
		done <- struct{}{}
	}()
	for i := 0; i < 2; i++ {
		select {
		case <-done:
		case <-time.After(5 * time.Second):
			o.Note = "stress run did not finish within 5s"
			return o
		}
	}
	o.Delivered = len(in.Changes)
	if dErr != nil {
		o.Note = "delivery: " + dErr.Error()
	}
	for _, e := range inf.Events() {
		ev := Ev{Oid: -1, Proj: -1}
		if len(e.WatchEvents) > 0 {
			ev.Kind = string(e.WatchEvents[0])
		}
		if len(e.Objects) > 0 {
			p := pairOf(e.Objects[0])
			ev.Oid, ev.Proj = p.Oid, p.Proj
		}
		o.Out = append(o.Out, ev)
	}
	// OutBeforeE was sampled just before the unlock started: anything delivered by then is an Event before the unlock
	o.Enabled, o.BufLen = inf.State()
	o.Cache = sortedPairs(inf.Snapshot())
	return o
}

// ---- rendering ----

func coqKind(k string) string {
	switch k {
	case "Added":
		return "Added"
	case "Modified":
		return "Modified"
	}
	return "Deleted"
}
func coqChange(c Change) string { return fmt.Sprintf("mkCh %d %s %d", c.Oid, coqKind(c.Kind), c.Proj) }

// coqDelivery: the handler call with its argument's form (C01_Forms.delivery)
func coqDelivery(c Change) string {
	if c.Form == formTombstone {
		return fmt.Sprintf("mkDl %s (ATomb %d %d %d)", coqKind(c.Kind), c.Oid, c.Oid, c.Proj)
	}
	return fmt.Sprintf("mkDl %s (AObj %d %d)", coqKind(c.Kind), c.Oid, c.Proj)
}
func hasTombstone(cs []Change) bool {
	for _, c := range cs {
		if c.Form == formTombstone {
			return true
		}
	}
	return false
}
func coqOp(o Op) string {
	switch o.Kind {
	case "StartS", "StepS":
		return fmt.Sprintf("%s %d", o.Kind, o.R)
	}
	return o.Kind
}
func coqEv(e Ev) string {
	oid, proj := e.Oid, e.Proj
	if oid < 0 {
		oid = 9999
	}
	if proj < 0 {
		proj = 9999
	}
	return fmt.Sprintf("(%d, %s, %d)", oid, coqKind(e.Kind), proj)
}
func coqPair(p Pair) string {
	oid, proj := p.Oid, p.Proj
	if oid < 0 {
		oid = 9999
	}
	if proj < 0 {
		proj = 9999
	}
	return fmt.Sprintf("(%d, %d)", oid, proj)
}

func Render(in Input, obs *Obs, crash string) core.Case {
	if in.Op != nil {
		var tr *opsim.Trace
		if obs != nil {
			tr = obs.Op
		}
		c := opsim.Render(*in.Op, tr, crash)
		c.Coq = "COp " + c.Coq
		c.Key = "op:" + c.Key
		c.Tags = append(c.Tags, "class:operator")
		return c
	}
	if in.Monitor != nil {
		var m *MonitorObs
		if obs != nil {
			m = obs.Mon
		}
		return RenderMonitor(*in.Monitor, m, crash)
	}
	if in.Hist != nil {
		var h *HistObs
		if obs != nil {
			h = obs.Hist
		}
		return RenderHist(*in.Hist, in.Ops, h, crash)
	}
	var o Obs
	if obs != nil {
		o = *obs
	}
	c := core.Case{}
	views := core.CoqList(o.Views, func(v View) string { return fmt.Sprintf("(%d, %s)", v.R, core.CoqList(v.Objs, coqPair)) })
	ctor := "CInf"
	if in.Stress {
		ctor = "CStress"
	}
	// deliveries with a tombstone among them: the class with forms (C01_Forms); else as before
	mk, chs := "mkIn", core.CoqList(in.Changes, coqChange)
	tomb := hasTombstone(in.Changes)
	if tomb {
		ctor, mk, chs = ctor+"F", "mkFIn", core.CoqList(in.Changes, coqDelivery)
	}
	c.Coq = fmt.Sprintf(ctor+" ("+mk+" %s %s %s)\n (mkOb %s %s %s %s %d %d %d %s)",
		core.CoqList(in.Types, coqKind), chs, core.CoqList(in.Ops, coqOp),
		core.CoqList(o.Out, coqEv), views, core.CoqList(o.Cache, coqPair), core.CoqBool(o.Enabled), o.BufLen, o.OutBeforeE, o.Delivered,
		core.CoqBool(crash != "" || o.Note != ""))
	c.JSON = map[string]any{"obs": o, "crash": crash}
	var kb strings.Builder
	kb.WriteString(strings.Join(in.Types, ","))
	for _, ch := range in.Changes {
		kb.WriteString(coqChange(ch) + ch.Form + ";")
	}
	kinds := map[string]bool{}
	for _, op := range in.Ops {
		kb.WriteString(coqOp(op) + ";")
		kinds[op.Kind] = true
		c.Tags = append(c.Tags, "op:"+op.Kind)
	}
	c.Key = kb.String()
	c.Tags = append(c.Tags, fmt.Sprintf("changes:%02d", len(in.Changes)/3*3), fmt.Sprintf("types:%d", len(in.Types)))
	dels, tombs := 0, 0
	for _, ch := range in.Changes {
		if ch.Kind == "Deleted" {
			dels++
			if ch.Form == formTombstone {
				tombs++
			}
		}
	}
	listed := false
	for _, t := range in.Types {
		listed = listed || t == "Deleted"
	}
	switch {
	case tombs > 0 && tombs < dels:
		c.Tags = append(c.Tags, "delivery:Deleted-as-object-and-as-tombstone")
	case tombs > 0:
		c.Tags = append(c.Tags, "delivery:every-Deleted-as-tombstone")
	case dels > 0:
		c.Tags = append(c.Tags, "delivery:every-Deleted-as-object")
	}
	if tombs > 0 {
		c.Tags = append(c.Tags, "class:informer-forms", fmt.Sprintf("tombstone:Deleted-listed:%v", listed))
	}
	c.Nontrivial = len(in.Changes) >= 2 && kinds["E"] && kinds["StartS"] && len(o.Out) >= 1
	return c
}

// ---- generation ----

// genChanges: per-object histories; tombPct = chance (percent) that a Deleted is delivered as a
// tombstone (a deletion found by a relist) instead of as the object.
func genChanges(r *core.Rng, n int, tombPct int) []Change {
	var cs []Change
	state := map[int]int{} // oid -> proj (present)
	for len(cs) < n {
		oid := 1 + r.Intn(3)
		cur, present := state[oid]
		switch {
		case !present:
			p := 1 + r.Intn(4)
			cs = append(cs, Change{Oid: oid, Kind: "Added", Proj: p})
			state[oid] = p
		case r.Chance(25):
			ch := Change{Oid: oid, Kind: "Deleted", Proj: cur}
			if tombPct > 0 && r.Chance(tombPct) {
				ch.Form = formTombstone
			}
			cs = append(cs, ch)
			delete(state, oid)
		case r.Chance(20):
			// re-delivery of the same state (resync): must stay silent
			k := "Modified"
			if r.Chance(40) {
				k = "Added"
			}
			cs = append(cs, Change{Oid: oid, Kind: k, Proj: cur})
		default:
			p := 1 + r.Intn(4)
			cs = append(cs, Change{Oid: oid, Kind: "Modified", Proj: p})
			state[oid] = p
		}
	}
	return cs
}

// a schedule in the discipline of the operator: Synchronization reads by reader 0 (possibly
// repeated: failed runs), the unlock after one of them, changes arriving at any moment,
// other readers only after the unlock unless foreign is set.
func genOps(r *core.Rng, nChanges int, foreign bool) []Op {
	var ops []Op
	wStarted := 0
	unlocked := false
	syncRead := false
	budget := 6*nChanges + 12
	for i := 0; i < budget; i++ {
		k := r.Intn(100)
		switch {
		case k < 30 && wStarted < nChanges:
			ops = append(ops, Op{Kind: "StartW"})
			wStarted++
		case k < 60:
			ops = append(ops, Op{Kind: "StepW"})
		case k < 72 && !unlocked:
			ops = append(ops, Op{Kind: "StartS", R: 0}, Op{Kind: "StepS", R: 0})
			syncRead = true
		case k < 80 && !unlocked && syncRead && r.Chance(50):
			ops = append(ops, Op{Kind: "E"})
			unlocked = true
		case k < 90 && (unlocked || foreign):
			rr := 1 + r.Intn(2)
			ops = append(ops, Op{Kind: "StartS", R: rr})
			if r.Chance(70) {
				ops = append(ops, Op{Kind: "StepS", R: rr})
			}
		case k < 94:
			ops = append(ops, Op{Kind: "StepS", R: r.Intn(3)})
		}
	}
	if !unlocked {
		if !syncRead {
			ops = append(ops, Op{Kind: "StartS", R: 0}, Op{Kind: "StepS", R: 0})
		}
		ops = append(ops, Op{Kind: "E"})
	}
	// deliver whatever is left
	for wStarted < nChanges {
		ops = append(ops, Op{Kind: "StartW"}, Op{Kind: "StepW"}, Op{Kind: "StepW"})
		wStarted++
	}
	ops = append(ops, Op{Kind: "StepW"}, Op{Kind: "StepW"})
	return ops
}

var allTypes = [][]string{{"Added", "Modified", "Deleted"}, {"Added", "Modified", "Deleted"}, {"Added", "Modified", "Deleted"}, {"Added", "Modified"}, {"Modified", "Deleted"}, {"Added"}, {"Deleted"}, {}}

func w(n int) []Op {
	var ops []Op
	for i := 0; i < n; i++ {
		ops = append(ops, Op{Kind: "StartW"}, Op{Kind: "StepW"}, Op{Kind: "StepW"})
	}
	return ops
}

func Corpus() []core.In[Input] {
	all := []string{"Added", "Modified", "Deleted"}
	ch := []Change{{Oid: 1, Kind: "Added", Proj: 1}, {Oid: 1, Kind: "Modified", Proj: 2}, {Oid: 2, Kind: "Added", Proj: 1}}
	tomb := func(oid, proj int) Change { return Change{Oid: oid, Kind: "Deleted", Proj: proj, Form: formTombstone} }
	cat := func(xs ...[]Op) []Op {
		var r []Op
		for _, x := range xs {
			r = append(r, x...)
		}
		return r
	}
	s0 := []Op{{Kind: "StartS", R: 0}, {Kind: "StepS", R: 0}}
	return []core.In[Input]{
		// R1 (fixed): the view is copied, a change arrives and is buffered, then the buffer is reset
		{Input: Input{Types: all, Changes: ch, Ops: cat(w(1), []Op{{Kind: "StartS", R: 0}}, w(1), []Op{{Kind: "StepS", R: 0}, {Kind: "E"}}, w(1))}, Stream: "corpus"},
		// R3 (fixed): the flag is read (locked), the unlock runs, then the event is appended to a buffer nobody replays
		{Input: Input{Types: all, Changes: ch, Ops: cat(w(1), s0, []Op{{Kind: "StartW"}, {Kind: "StepW"}, {Kind: "E"}, {Kind: "StepW"}}, w(1))}, Stream: "corpus"},
		// plain: changes during the Synchronization run are replayed after the unlock
		{Input: Input{Types: all, Changes: ch, Ops: cat(w(1), s0, w(1), []Op{{Kind: "E"}}, w(1))}, Stream: "corpus"},
		// R2 (known finding F23): another reader of the still-locked binding empties the buffer
		{Input: Input{Types: all, Changes: ch, Ops: cat(w(1), s0, w(1), []Op{{Kind: "StartS", R: 1}, {Kind: "StepS", R: 1}, {Kind: "E"}}, w(1))}, Stream: "trigger-F23"},
		// ---- the form of the handler's argument: a deletion found by a relist comes as a tombstone (by value) ----
		// the smallest one after the unlock: the object of the Synchronization view is gone when the watch is back
		{Input: Input{Types: all, Changes: []Change{{Oid: 1, Kind: "Added", Proj: 1}, tomb(1, 1)}, Ops: cat(w(1), s0, []Op{{Kind: "E"}}, w(1))}, Stream: "corpus-forms"},
		// the tombstone arrives while the Synchronization is running: buffered, replayed after the unlock; then an ordinary delete
		{Input: Input{Types: all, Changes: []Change{{Oid: 1, Kind: "Added", Proj: 1}, {Oid: 2, Kind: "Added", Proj: 1}, tomb(1, 1), {Oid: 2, Kind: "Deleted", Proj: 1}},
			Ops: cat(w(2), s0, w(1), []Op{{Kind: "E"}}, w(1))}, Stream: "corpus-forms"},
		// Deleted not listed: the tombstone fires nothing, the cache drops the object; its re-creation is an Added
		{Input: Input{Types: []string{"Added", "Modified"}, Changes: []Change{{Oid: 1, Kind: "Added", Proj: 1}, tomb(1, 1), {Oid: 1, Kind: "Added", Proj: 1}},
			Ops: cat(w(1), s0, []Op{{Kind: "E"}}, w(2), []Op{{Kind: "StartS", R: 1}, {Kind: "StepS", R: 1}})}, Stream: "corpus-forms"},
		// a relist batch after the unlock: one object changed, one is new, one is gone (tombstone), parked at the mark against a reader
		{Input: Input{Types: all, Changes: []Change{{Oid: 1, Kind: "Added", Proj: 1}, {Oid: 2, Kind: "Added", Proj: 1}, {Oid: 1, Kind: "Modified", Proj: 2}, {Oid: 3, Kind: "Added", Proj: 1}, tomb(2, 1)},
			Ops: cat(w(2), s0, []Op{{Kind: "E"}}, w(2), []Op{{Kind: "StartW"}, {Kind: "StartS", R: 1}, {Kind: "StepW"}, {Kind: "StepS", R: 1}})}, Stream: "corpus-forms"},
	}
}

var opProfile = opsim.Profile{Name: "c01op", MaxHooks: 2, Steps: 30, PFail: 30, PHold: 30, V0: true, PWait: 15}

func init() { opsim.RegisterProfile(opProfile) }

func opCorpus() []opsim.Scenario {
	return []opsim.Scenario{
		// two ungrouped kubernetes bindings of one hook, the second one in its own queue: the first
		// Synchronization succeeds, the second fails once; events of the first binding meanwhile
		{Cfg: []opsim.Hook{{Id: 1, Kube: []opsim.KB{{Name: 1, ExecSync: true}, {Name: 2, ExecSync: true, Queue: 2}}}},
			Acts: []opsim.Action{{Kind: "Boot"}, {Kind: "Finish", Q: 0, Ok: true}, {Kind: "KubeEv", Mon: 1, Obj: 1}, {Kind: "Finish", Q: 0, Ok: false}, {Kind: "KubeEv", Mon: 1, Obj: 2}, {Kind: "Finish", Q: 0, Ok: true}, {Kind: "Finish", Q: 0, Ok: true}, {Kind: "KubeEv", Mon: 2, Obj: 3}, {Kind: "Finish", Q: 2, Ok: true}}},
		// a grouped Synchronization that fails twice while an Event of an already unlocked group mate
		// waits behind it (compaction drops the Synchronization context on the first retry): when it
		// finally succeeds its binding must be unlocked (repaired b4b7f41)
		{Cfg: []opsim.Hook{{Id: 1, Kube: []opsim.KB{{Name: 1, Group: 1, ExecSync: false}, {Name: 2, Group: 1, ExecSync: true}}}},
			Acts: []opsim.Action{{Kind: "Boot"}, {Kind: "KubeEv", Mon: 1, Obj: 1}, {Kind: "Finish", Q: 0, Ok: false}, {Kind: "Finish", Q: 0, Ok: false}, {Kind: "Finish", Q: 0, Ok: true}, {Kind: "KubeEv", Mon: 2, Obj: 2}, {Kind: "Finish", Q: 0, Ok: true}}},
		// three bindings, the middle one exempt from Synchronization, the last one allowing failure
		{Cfg: []opsim.Hook{{Id: 1, Kube: []opsim.KB{{Name: 1, ExecSync: true}, {Name: 2, ExecSync: false}, {Name: 3, ExecSync: true, Allow: true}}}},
			Acts: []opsim.Action{{Kind: "Boot"}, {Kind: "Finish", Q: 0, Ok: true}, {Kind: "KubeEv", Mon: 2, Obj: 1}, {Kind: "Finish", Q: 0, Ok: false}, {Kind: "KubeEv", Mon: 3, Obj: 2}, {Kind: "Finish", Q: 0, Ok: true}, {Kind: "Finish", Q: 0, Ok: true}}},
	}
}

func Gen(r *core.Rng, tier string) ([]core.In[Input], bool) {
	if os.Getenv("VERIF_C01_SOAK") == "relist" {
		// development aid (VERIF_C01_SOAK=relist ./check C01): the outage class alone, for soak runs
		ins := relistCorpus()
		rr := r.Fork()
		for i := 0; i < 200; i++ {
			hin, hops := genHist(rr, 3+rr.Intn(8), false, 1+i%4/3)
			ins = append(ins, core.In[Input]{Input: Input{Hist: &hin, Ops: hops}, Stream: "relist"})
		}
		return append(ins, relistExhaustive()...), false
	}
	ins := Corpus()
	// monitor level: every interleaving of the namespace callback and the unlock, with and
	// without objects already present in the namespace (trigger F24)
	for _, sc := range monitorSchedules() {
		ins = append(ins, core.In[Input]{Input: Input{Monitor: &MonitorIn{Pre: 0, Late: 2, Sched: sc}}, Stream: "monitor"})
	}
	ins = append(ins, core.In[Input]{Input: Input{Monitor: &MonitorIn{Pre: 2, Late: 1, Sched: []string{"U", "U", "N", "N"}}}, Stream: "trigger-F24"})
	ins = append(ins, core.In[Input]{Input: Input{Monitor: &MonitorIn{Pre: 1, Late: 1, Sched: []string{"N", "N", "U", "U"}}}, Stream: "trigger-F24"})
	n := 400
	switch tier {
	case "thorough":
		n = 20000
	case "search":
		n = 3000
	}
	if tier == "search" || tier == "thorough" {
		ns := 3000
		if tier == "thorough" {
			ns = 20000
		}
		for i := 0; i < ns; i++ {
			nc := 3 + r.Intn(6)
			ins = append(ins, core.In[Input]{Input: Input{Types: allTypes[r.Intn(3)], Changes: genChanges(r, nc, 50*(i%2)), Stress: true, StressSeed: int64(r.Next() >> 1)}, Stream: "stress"})
		}
	}
	// operator level: unlock only by the binding's own Synchronization
	for _, sc := range opCorpus() {
		sc := sc
		ins = append(ins, core.In[Input]{Input: Input{Op: &sc}, Stream: "operator-corpus"})
	}
	nop := 30
	switch tier {
	case "thorough":
		nop = 1500
	case "search":
		nop = 200
	}
	for i := 0; i < nop; i++ {
		sc := opsim.Scenario{Cfg: opsim.GenConfig(r, opProfile), Seed: int64(r.Next() >> 1), Steps: 10 + r.Intn(opProfile.Steps), Profile: "c01op"}
		ins = append(ins, core.In[Input]{Input: Input{Op: &sc}, Stream: "operator"})
	}
	var rnd []core.In[Input]
	for i := 0; i < n; i++ {
		nc := 2 + r.Intn(7)
		foreign := i%10 == 9
		// two schedules in three deliver half of the deletions as tombstones (found by a relist)
		tombPct := 0
		if i%3 != 0 {
			tombPct = 50
		}
		in := Input{Types: allTypes[r.Intn(len(allTypes))], Changes: genChanges(r, nc, tombPct), Ops: genOps(r, nc, foreign)}
		st := "random"
		if foreign {
			st = "trigger-F23"
		}
		rnd = append(rnd, core.In[Input]{Input: in, Stream: st})
	}
	// namespace.labelSelector over histories of namespaces and objects (hist.go), from a PRNG of
	// their own; the slow cases are spread evenly over the list (each worker gets a contiguous slice)
	hr := r.Fork()
	hists := histCorpus()
	nh := 56
	switch tier {
	case "thorough":
		nh = 2500
	case "search":
		nh = 400
	}
	for i := 0; i < nh; i++ {
		brought := i%8 == 7
		hin, hops := genHist(hr, 6+hr.Intn(14), brought, 0)
		st := "hist"
		if brought {
			st = "hist-brought-along"
		}
		if !brought && i%2 == 1 {
			// a companion binding with static namespaces in the same process
			comp := CompIn{Types: allTypes[hr.Intn(len(allTypes)-1)], Filter: hr.Chance(50), First: hr.Chance(50), SameDebug: hr.Chance(50)}
			for n := 1; n <= 3; n++ {
				if hr.Chance(60) {
					comp.Nss = append(comp.Nss, n)
				}
			}
			if len(comp.Nss) == 0 {
				comp.Nss = []int{1 + hr.Intn(3)}
			}
			hin.Comp = &comp
			st = "hist-companion"
		}
		hists = append(hists, core.In[Input]{Input: Input{Hist: &hin, Ops: hops}, Stream: st})
	}
	// the same across watch outages (relist.go): one outage mostly, two in a quarter of the cases
	// (a reflector's back-off doubles with each failure: ~1.2 s, then ~2.4 s); shorter histories
	hists = append(hists, relistCorpus()...)
	nr := 14
	switch tier {
	case "thorough":
		nr = 400
	case "search":
		nr = 60
	}
	rr := r.Fork()
	for i := 0; i < nr; i++ {
		outages := 1
		if i%4 == 3 {
			outages = 2
		}
		hin, hops := genHist(rr, 3+rr.Intn(8), false, outages)
		hists = append(hists, core.In[Input]{Input: Input{Hist: &hin, Ops: hops}, Stream: "relist"})
	}
	if tier == "thorough" {
		hists = append(hists, histExhaustive(4)...)
		hists = append(hists, relistExhaustive()...)
	}
	every := len(rnd) / len(hists)
	if every < 1 {
		every = 1
	}
	for i, c := range rnd {
		if i%every == 0 && len(hists) > 0 {
			ins = append(ins, hists[0])
			hists = hists[1:]
		}
		ins = append(ins, c)
	}
	ins = append(ins, hists...)
	return ins, false
}

var Driver = core.Driver[Input, Obs]{
	Spec: core.Spec{Property: "C01", Imports: []string{"Op_Model", "Op_Corr", "C01_Model", "C01_Spec", "C01_Monitor", "C01_Hist", "C01_HistSpec", "C01_Comp", "C01_CompSpec", "C01_Forms", "C01_FormsSpec", "C01_Relist", "C01_RelistSpec", "C01_Corr"}, Corr: "C01_Corr", Triggers: []string{"F23", "F24"}, ShrinkKey: "ops",
		Rule: "a real resourceInformer (locked, not connected to a cluster) driven by the informer callback (per-object histories over 3 objects x 4 states with re-deliveries, deletes, re-creations), Synchronization reads (repeated), foreign readers and the unlock, interleaved deterministically at lock granularity through verifpoint marks; every subset family of event types; 10% of the schedules let a foreign reader read a locked binding (trigger F23); non-trivial = >=2 changes, a Synchronization read, the unlock and >=1 delivered event; distinct = distinct (types, changes, schedule); class hist: a real monitor with namespace.labelSelector (real namespace informer, fake cluster) after Start and the unlock follows histories of object set/delete and namespace create/relabel/delete over 3 namespaces x 3 names (start-up namespaces and late ones stop matching and match again; event-type subsets, jqFilter, nameSelector), the KubeEvents handed over are compared per object (client-go's DeltaFIFO fixes no other order) with C01_Hist and judged per object by C01_HistSpec.HP; one history in 8 lets namespaces bring objects along (trigger F24); every second history runs beside a companion binding of the same kind and names with static namespaces (its monitor created before or after, same or different debug name; its informers share the first binding's shared informers of the factory store), whose events are compared with C01_Comp and judged by C01_CompSpec.CP; non-trivial there = >=1 namespace operation, >=2 object changes, >=1 event"},
	Gen: Gen, Run: Run, Render: Render, PerShard: 400, Workers: 8, CaseTimout: 30 * time.Second,
}
