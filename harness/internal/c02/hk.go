// hk.go — the hook-level class of C02 (C02_Hook / C02_HookSpec): ONE hook whose bindings of different
// types (kubernetes, schedule, kubernetesValidating, kubernetesMutating) may share names - the
// configuration demands unique names within one binding type only -, each binding with its own
// includeSnapshotsFrom list and group, executed several times in ONE process in any order.
//
// The hook's configuration is a real v1 configuration (JSON) loaded by hook.LoadConfig (so the
// group -> includeSnapshotsFrom expansion is config_v1.go's), the controller is a real
// HookController initialised as hook_manager.go does it (real KubeEventsManager on a fake cluster,
// real schedule manager, real admission webhook manager); the binding contexts of an execution are
// the ones the real binding controllers build (HandleKubeEvent: Synchronization / Event,
// HandleScheduleEvent, HandleAdmissionEvent) and every execution is one call of UpdateSnapshots on
// the same controller.  Observed per execution and context: the keys of `snapshots`, whose objects
// every list shows, whose objects `objects` shows.
package c02

import (
	"context"
	"encoding/json"
	"fmt"
	"sort"
	"strconv"
	"strings"
	"time"

	"github.com/deckhouse/deckhouse/pkg/log"
	admissionv1 "k8s.io/api/admission/v1"
	metav1 "k8s.io/apimachinery/pkg/apis/meta/v1"

	"github.com/flant/kube-client/fake"
	"github.com/flant/shell-operator/pkg/hook"
	bctx "github.com/flant/shell-operator/pkg/hook/binding_context"
	"github.com/flant/shell-operator/pkg/hook/controller"
	htypes "github.com/flant/shell-operator/pkg/hook/types"
	kubeeventsmanager "github.com/flant/shell-operator/pkg/kube_events_manager"
	kemtypes "github.com/flant/shell-operator/pkg/kube_events_manager/types"
	metricstorage "github.com/flant/shell-operator/pkg/metric_storage"
	schedulemanager "github.com/flant/shell-operator/pkg/schedule_manager"
	"github.com/flant/shell-operator/pkg/webhook/admission"
	"github.com/flant/shell-operator/pkg/webhook/conversion"

	"verifharness/internal/core"
)

// binding types
const (
	HkKube  = "kubernetes"
	HkSched = "schedule"
	HkValid = "validating"
	HkMut   = "mutating"
)

var hkTypes = []string{HkKube, HkSched, HkValid, HkMut}

type HkBinding struct {
	Type     string `json:"type"`
	Name     int    `json:"name"`
	Includes []int  `json:"includes"` // names of kubernetes bindings
	Group    int    `json:"group"`    // 0: none
}
type HkCtx struct {
	Type string `json:"type"`
	Name int    `json:"name"`
	Sync bool   `json:"sync,omitempty"` // kubernetes: Synchronization (otherwise Event)
}
type HkIn struct {
	Bindings []HkBinding `json:"bindings"`
	// the executions of the process, in order; each one is the (combined) contexts of one hook run
	Rounds [][]HkCtx `json:"rounds"`
}

// admission webhook names must look like domain names; the same spelling is used for every type
func hkName(n int) string { return "b" + strconv.Itoa(n) + ".hk.io" }
func hkNo(s string) int {
	n, err := strconv.Atoi(strings.TrimSuffix(strings.TrimPrefix(s, "b"), ".hk.io"))
	if err != nil {
		return 9999
	}
	return n
}

func hkConfig(in HkIn) []byte {
	cfg := map[string]any{"configVersion": "v1"}
	var kube, sched, valid, mut []any
	for _, b := range in.Bindings {
		m := map[string]any{"name": hkName(b.Name)}
		if len(b.Includes) > 0 {
			var inc []string
			for _, i := range b.Includes {
				inc = append(inc, hkName(i))
			}
			m["includeSnapshotsFrom"] = inc
		}
		if b.Group != 0 {
			m["group"] = "g" + strconv.Itoa(b.Group)
		}
		rules := []any{map[string]any{"apiGroups": []string{""}, "apiVersions": []string{"v1"}, "operations": []string{"*"}, "resources": []string{"pods"}, "scope": "Namespaced"}}
		switch b.Type {
		case HkKube:
			m["apiVersion"] = "v1"
			m["kind"] = "ConfigMap"
			m["namespace"] = map[string]any{"nameSelector": map[string]any{"matchNames": []string{nsName(b.Name)}}}
			kube = append(kube, m)
		case HkSched:
			m["crontab"] = fmt.Sprintf("%d * * * *", b.Name%60)
			sched = append(sched, m)
		case HkValid:
			m["rules"] = rules
			valid = append(valid, m)
		case HkMut:
			m["rules"] = rules
			mut = append(mut, m)
		}
	}
	if kube != nil {
		cfg["kubernetes"] = kube
	}
	if sched != nil {
		cfg["schedule"] = sched
	}
	if valid != nil {
		cfg["kubernetesValidating"] = valid
	}
	if mut != nil {
		cfg["kubernetesMutating"] = mut
	}
	b, _ := json.Marshal(cfg)
	return b
}

// whose objects a list shows: k when it is exactly the object of kubernetes binding k, 0 when
// empty, 9999 otherwise
func hkShows(objs []kemtypes.ObjectAndFilterResult) int {
	if len(objs) == 0 {
		return 0
	}
	if len(objs) != 1 || objs[0].Object == nil {
		return 9999
	}
	ns, name := objs[0].Object.GetNamespace(), objs[0].Object.GetName()
	n, err := strconv.Atoi(strings.TrimPrefix(ns, "ns"))
	if err != nil || name != objName(n) {
		return 9999
	}
	return n
}

func runHk(in HkIn) Obs {
	var o Obs
	log.SetDefaultLevel(log.LevelFatal)
	kubeeventsmanager.DefaultSyncTime = time.Millisecond
	kubeeventsmanager.DefaultFactoryStore.Reset()
	fc := fake.NewFakeCluster(fake.ClusterVersionV119)
	ctx, cancel := context.WithCancel(context.Background())
	defer cancel()
	dyn := fc.Client.Dynamic().Resource(gvr)
	for _, b := range in.Bindings {
		if b.Type == HkKube {
			if _, err := dyn.Namespace(nsName(b.Name)).Create(ctx, cm(Obj{b.Name, b.Name, 1}), metav1.CreateOptions{}); err != nil {
				o.Note = "create: " + err.Error()
				return o
			}
		}
	}
	// hook_manager.go loadHook
	h := hook.NewHook("h", "h", false, false, "", log.NewNop())
	if _, err := h.LoadConfig(hkConfig(in)); err != nil {
		o.Note = "config: " + err.Error()
		return o
	}
	hcfg := h.GetConfig()
	for _, c := range hcfg.KubernetesValidating {
		c.Webhook.UpdateIds("", c.BindingName)
	}
	for _, c := range hcfg.KubernetesMutating {
		c.Webhook.UpdateIds("", c.BindingName)
	}
	mgr := kubeeventsmanager.NewKubeEventsManager(ctx, fc.Client, log.NewNop())
	mgr.WithMetricStorage(metricstorage.NewMetricStorage(ctx, "c02h_", true, log.NewNop()))
	sm := schedulemanager.NewScheduleManager(ctx, log.NewNop())
	wm := admission.NewWebhookManager(fc.Client)
	wm.Settings = &admission.WebhookSettings{ConfigurationName: "verif-c02"}
	hc := controller.NewHookController()
	hc.InitKubernetesBindings(hcfg.OnKubernetesEvents, mgr, log.NewNop())
	hc.InitScheduleBindings(hcfg.Schedules, sm)
	hc.InitAdmissionBindings(hcfg.KubernetesValidating, hcfg.KubernetesMutating, wm)
	hc.InitConversionBindings(hcfg.KubernetesConversion, (*conversion.WebhookManager)(nil))
	h.WithHookController(hc)
	defer hc.StopMonitors()

	// operator start: kubernetes bindings are enabled (monitors created and started), then the
	// schedule and admission bindings
	monitorOf := map[string]string{}
	if err := hc.HandleEnableKubernetesBindings(func(info controller.BindingExecutionInfo) {
		monitorOf[info.Binding] = info.KubernetesBinding.Monitor.Metadata.MonitorId
	}); err != nil {
		o.Note = "enable: " + err.Error()
		return o
	}
	hc.EnableScheduleBindings()
	hc.EnableAdmissionBindings()

	// the binding context the real binding controller builds for (type, name)
	one := func(infos []controller.BindingExecutionInfo, c HkCtx) (bctx.BindingContext, bool) {
		if len(infos) != 1 || len(infos[0].BindingContext) != 1 {
			o.Note = fmt.Sprintf("no single binding context for %v", c)
			return bctx.BindingContext{}, false
		}
		return infos[0].BindingContext[0], true
	}
	contextFor := func(c HkCtx) (bctx.BindingContext, bool) {
		var infos []controller.BindingExecutionInfo
		collect := func(i controller.BindingExecutionInfo) { infos = append(infos, i) }
		name := hkName(c.Name)
		switch c.Type {
		case HkKube:
			ev := kemtypes.KubeEvent{MonitorId: monitorOf[name], Type: kemtypes.TypeSynchronization}
			if !c.Sync {
				ev.Type = kemtypes.TypeEvent
				ev.WatchEvents = []kemtypes.WatchEventType{kemtypes.WatchEventModified}
			}
			hc.HandleKubeEvent(ev, collect)
		case HkSched:
			for _, s := range hcfg.Schedules {
				if s.BindingName == name {
					hc.HandleScheduleEvent(s.ScheduleEntry.Crontab, collect)
				}
			}
		case HkValid:
			for _, v := range hcfg.KubernetesValidating {
				if v.BindingName == name {
					hc.HandleAdmissionEvent(admission.Event{WebhookId: v.Webhook.Metadata.WebhookId, ConfigurationId: v.Webhook.Metadata.ConfigurationId, Request: &admissionv1.AdmissionRequest{}}, collect)
				}
			}
		case HkMut:
			for _, v := range hcfg.KubernetesMutating {
				if v.BindingName == name {
					hc.HandleAdmissionEvent(admission.Event{WebhookId: v.Webhook.Metadata.WebhookId, ConfigurationId: v.Webhook.Metadata.ConfigurationId, Request: &admissionv1.AdmissionRequest{}}, collect)
				}
			}
		}
		bc, ok := one(infos, c)
		if !ok {
			return bc, false
		}
		if bc.Binding != name {
			o.Note = fmt.Sprintf("context of %s/%s delivered for %v", bc.Metadata.BindingType, bc.Binding, c)
			return bc, false
		}
		return bc, true
	}

	for _, round := range in.Rounds {
		var ctxs []bctx.BindingContext
		for _, c := range round {
			bc, ok := contextFor(c)
			if !ok {
				return o
			}
			ctxs = append(ctxs, bc)
		}
		res := hc.UpdateSnapshots(ctxs)
		if len(res) != len(ctxs) {
			o.Note = "UpdateSnapshots changed the number of contexts"
			return o
		}
		// what the hook reads: the v1 binding context file (hook.go Run: ConvertBindingContextList + Json)
		var seen []map[string]any
		if data, err := bctx.ConvertBindingContextList("v1", res).Json(); err != nil || json.Unmarshal(data, &seen) != nil || len(seen) != len(res) {
			o.Note = "binding context file not readable"
			return o
		}
		ro := []UpdCtxObs{}
		rt := []string{}
		for ci, bc := range res {
			ty, known := map[htypes.BindingType]string{htypes.OnKubernetesEvent: HkKube, htypes.Schedule: HkSched, htypes.KubernetesValidating: HkValid, htypes.KubernetesMutating: HkMut}[bc.Metadata.BindingType]
			if !known {
				o.Note = fmt.Sprintf("execution %d context %d has binding type %q", len(o.Hk)+1, ci+1, bc.Metadata.BindingType)
				ty = HkKube
			}
			rt = append(rt, ty)
			fileKeys := []string{}
			if m, ok := seen[ci]["snapshots"].(map[string]any); ok {
				for k := range m {
					fileKeys = append(fileKeys, k)
				}
			}
			sort.Strings(fileKeys)
			structKeys := []string{}
			for k := range bc.Snapshots {
				structKeys = append(structKeys, k)
			}
			sort.Strings(structKeys)
			if strings.Join(fileKeys, ",") != strings.Join(structKeys, ",") {
				o.Note = fmt.Sprintf("execution %d context %d: the binding context file has snapshots keys %v, the binding context %v", len(o.Hk)+1, ci+1, fileKeys, structKeys)
			}
			co := UpdCtxObs{Keys: []int{}, Vals: []int{}}
			var keys []string
			for k := range bc.Snapshots {
				keys = append(keys, k)
			}
			sort.Slice(keys, func(a, b int) bool { return hkNo(keys[a]) < hkNo(keys[b]) })
			for _, k := range keys {
				co.Keys = append(co.Keys, hkNo(k))
				co.Vals = append(co.Vals, hkShows(bc.Snapshots[k]))
			}
			co.Objects = hkShows(bc.Objects)
			ro = append(ro, co)
		}
		o.Hk = append(o.Hk, ro)
		o.HkTypes = append(o.HkTypes, rt)
	}
	return o
}

// ---- rendering ----

func coqBType(t string) string {
	return map[string]string{HkKube: "TKube", HkSched: "TSched", HkValid: "TValid", HkMut: "TMut"}[t]
}

func (in HkIn) effective(b HkBinding) map[int]bool {
	m := map[int]bool{}
	for _, i := range b.Includes {
		m[i] = true
	}
	if b.Group != 0 {
		for _, k := range in.Bindings {
			if k.Type == HkKube && k.Group == b.Group {
				m[k.Name] = true
			}
		}
	}
	return m
}

func renderHk(in HkIn, o Obs, bad string, c *core.Case) {
	bs := core.CoqList(in.Bindings, func(b HkBinding) string {
		return fmt.Sprintf("mkHB %s %d %s %d", coqBType(b.Type), b.Name, core.CoqList(b.Includes, core.CoqN), b.Group)
	})
	rs := core.CoqList(in.Rounds, func(r []HkCtx) string {
		return core.CoqList(r, func(x HkCtx) string {
			return fmt.Sprintf("(%s, %d, %s)", coqBType(x.Type), x.Name, core.CoqBool(x.Sync))
		})
	})
	os := core.CoqList(o.Hk, func(r []UpdCtxObs) string {
		return core.CoqList(r, func(x UpdCtxObs) string {
			var kv []string
			for i := range x.Keys {
				kv = append(kv, fmt.Sprintf("(%d,%d)", x.Keys[i], x.Vals[i]))
			}
			return fmt.Sprintf("([%s], %d)", strings.Join(kv, "; "), x.Objects)
		})
	})
	ts := core.CoqList(o.HkTypes, func(r []string) string {
		return core.CoqList(r, func(t string) string {
			return coqBType(t)
		})
	})
	c.Coq = fmt.Sprintf("CHk (mkHkIn %s %s) %s %s %s", bs, rs, os, ts, bad)
	c.Key = "hk" + bs + rs
	// the input distribution: names shared between types, with different effective key sets, both executed
	shared, differ, both := false, false, false
	executed := map[string]bool{}
	nctx := 0
	for _, r := range in.Rounds {
		for _, x := range r {
			executed[x.Type+"/"+strconv.Itoa(x.Name)] = true
			nctx++
		}
	}
	types := map[string]bool{}
	for i, a := range in.Bindings {
		types[a.Type] = true
		for _, b := range in.Bindings[i+1:] {
			if a.Name == b.Name && a.Type != b.Type {
				shared = true
				ea, eb := in.effective(a), in.effective(b)
				d := len(ea) != len(eb)
				for k := range ea {
					if !eb[k] {
						d = true
					}
				}
				if d {
					differ = true
					if executed[a.Type+"/"+strconv.Itoa(a.Name)] && executed[b.Type+"/"+strconv.Itoa(b.Name)] {
						both = true
					}
				}
			}
		}
	}
	tl := []string{}
	for _, t := range hkTypes {
		if types[t] {
			tl = append(tl, t[:1])
		}
	}
	c.Tags = []string{"hk", fmt.Sprintf("hk-shared-name:%v", shared), fmt.Sprintf("hk-shared-name-different-keys:%v", differ),
		fmt.Sprintf("hk-both-executed:%v", both), fmt.Sprintf("hk-rounds:%d", len(in.Rounds)), "hk-types:" + strings.Join(tl, "")}
	c.Nontrivial = nctx >= 2
}

// ---- generation ----

// the systematic family: two bindings of different types sharing name 1 (every pair of types the
// configuration can tell apart), whose effective lists differ in one of three ways, executed in
// four orders
func hkSystematic(add func(Input, string)) {
	pairs := [][2]string{{HkKube, HkSched}, {HkKube, HkValid}, {HkKube, HkMut}, {HkSched, HkValid}, {HkSched, HkMut}}
	orders := [][]int{{0, 1}, {1, 0}, {0, 1, 0}, {1, 0, 1}}
	for _, p := range pairs {
		for variant := 0; variant < 3; variant++ {
			for _, ord := range orders {
				a := HkBinding{Type: p[0], Name: 1}
				b := HkBinding{Type: p[1], Name: 1}
				bs := []HkBinding{}
				if p[0] != HkKube {
					bs = append(bs, HkBinding{Type: HkKube, Name: 1})
				}
				k2 := HkBinding{Type: HkKube, Name: 2}
				switch variant {
				case 0: // own lists: [1] against [1, 2]
					a.Includes, b.Includes = []int{1}, []int{1, 2}
				case 1: // own lists: [2, 1] against none
					a.Includes = []int{2, 1}
				case 2: // group members against an own list
					b.Group, k2.Group = 5, 5
					a.Includes = []int{1}
				}
				bs = append(bs, a, k2, b)
				in := HkIn{Bindings: bs}
				for _, w := range ord {
					x := []HkBinding{a, b}[w]
					in.Rounds = append(in.Rounds, []HkCtx{{Type: x.Type, Name: 1, Sync: x.Type == HkKube && len(in.Rounds)%2 == 0}})
				}
				add(Input{Hk: &in}, "hk-systematic")
			}
		}
	}
}

func genHk(r *core.Rng) HkIn {
	var in HkIn
	nk := 1 + r.Intn(3)
	used := map[string]map[int]bool{}
	for _, t := range hkTypes {
		used[t] = map[int]bool{}
	}
	mk := func(t string, n int) {
		b := HkBinding{Type: t, Name: n}
		if r.Chance(45) {
			b.Group = 1 + r.Intn(2)
		}
		for k := 1; k <= nk; k++ {
			if r.Chance(35) {
				b.Includes = append(b.Includes, k)
			}
		}
		if len(b.Includes) == 2 && r.Chance(30) {
			b.Includes[0], b.Includes[1] = b.Includes[1], b.Includes[0]
		}
		used[t][n] = true
		in.Bindings = append(in.Bindings, b)
	}
	for k := 1; k <= nk; k++ {
		mk(HkKube, k)
	}
	// bindings of the other types: mostly named like a kubernetes binding or like one another
	pick := func(t string) {
		for try := 0; try < 6; try++ {
			n := 1 + r.Intn(nk)
			if r.Chance(25) {
				n = 1 + r.Intn(5)
			}
			// a validating and a mutating binding of one name share their webhook id: the recorded finding F31
			// (C02_HookSpec.T_vm, C02_hook_refuted_vm; witness testdata/f31-replay.json); not generated as long
			// as F31 is not listed for C02 in known_findings.json
			if used[t][n] || (t == HkValid && used[HkMut][n]) || (t == HkMut && used[HkValid][n]) {
				continue
			}
			mk(t, n)
			return
		}
	}
	for i, n := 0, r.Intn(3); i < n; i++ {
		pick(HkSched)
	}
	if r.Chance(50) {
		pick(HkValid)
	}
	if r.Chance(50) {
		pick(HkMut)
	}
	if len(in.Bindings) == nk {
		pick(HkSched)
	}
	// shuffle the configuration order within the hook (types keep their own lists)
	for i := len(in.Bindings) - 1; i > 0; i-- {
		j := r.Intn(i + 1)
		in.Bindings[i], in.Bindings[j] = in.Bindings[j], in.Bindings[i]
	}
	nr := 1 + r.Intn(4)
	var last *HkCtx
	for i := 0; i < nr; i++ {
		var round []HkCtx
		for j, n := 0, 1+r.Intn(3); j < n; j++ {
			b := in.Bindings[r.Intn(len(in.Bindings))]
			// half of the time a binding of another type that shares the name of the binding executed last
			if last != nil && r.Chance(50) {
				for _, x := range in.Bindings {
					if x.Name == last.Name && x.Type != last.Type {
						b = x
						break
					}
				}
			}
			last = &HkCtx{Type: b.Type, Name: b.Name}
			round = append(round, HkCtx{Type: b.Type, Name: b.Name, Sync: b.Type == HkKube && r.Chance(50)})
		}
		in.Rounds = append(in.Rounds, round)
	}
	return in
}

func hkCorpus(add func(Input, string)) {
	// the kubernetes binding "1" and the schedule binding "1": Synchronization first, then the Schedule
	add(Input{Hk: &HkIn{Bindings: []HkBinding{{HkKube, 1, []int{1}, 0}, {HkKube, 2, nil, 0}, {HkSched, 1, []int{1, 2}, 0}},
		Rounds: [][]HkCtx{{{HkKube, 1, true}}, {{HkSched, 1, false}}}}}, "corpus")
	// the Schedule first
	add(Input{Hk: &HkIn{Bindings: []HkBinding{{HkKube, 1, []int{1}, 0}, {HkKube, 2, nil, 0}, {HkSched, 1, []int{1, 2}, 0}},
		Rounds: [][]HkCtx{{{HkSched, 1, false}}, {{HkKube, 1, true}}}}}, "corpus")
	// a schedule binding named like a validating binding, keys from groups; both in one execution, then again
	add(Input{Hk: &HkIn{Bindings: []HkBinding{{HkKube, 1, nil, 3}, {HkKube, 2, nil, 4}, {HkKube, 3, nil, 3}, {HkSched, 7, nil, 3}, {HkValid, 7, []int{2}, 4}},
		Rounds: [][]HkCtx{{{HkValid, 7, false}, {HkSched, 7, false}}, {{HkSched, 7, false}}, {{HkKube, 3, false}, {HkValid, 7, false}}}}}, "corpus")
}
