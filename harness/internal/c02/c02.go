// Package c02: correspondence driver for C02 (Synchronization objects and snapshots equal
// the set of matching objects).  Five kinds of cases (the fifth, win.go: changes between the creation
// of a monitor and its start):
//   - snap: a real monitor on a fake cluster follows a history of create/modify/delete over
//     several namespaces and names; at quiescence (and after a restart) its Snapshot() is
//     compared entry by entry (identity, filterResult, object) with the matching objects of the cluster;
//   - upd: the real HookController.UpdateSnapshots over a reader that answers differently
//     on every call (changes arriving during an execution): one read per binding, keys =
//     includeSnapshotsFrom, Synchronization objects = that binding's read;
//   - grp: a real hook configuration with unnamed kubernetes bindings sharing a group;
//   - dyn (dyn.go): a binding with namespace.labelSelector: a real monitor with its real namespace
//     informer follows histories of object AND namespace operations (created with / without the
//     label, relabelled, deleted) and operator restarts; Snapshot() at every quiet point.
package c02

import (
	"context"
	"fmt"
	"sort"
	"strconv"
	"strings"
	"time"

	"github.com/deckhouse/deckhouse/pkg/log"
	v1 "k8s.io/apiextensions-apiserver/pkg/apis/apiextensions/v1"
	metav1 "k8s.io/apimachinery/pkg/apis/meta/v1"
	"k8s.io/apimachinery/pkg/apis/meta/v1/unstructured"
	"k8s.io/apimachinery/pkg/runtime/schema"

	"github.com/flant/kube-client/fake"
	"github.com/flant/shell-operator/pkg/hook"
	bctx "github.com/flant/shell-operator/pkg/hook/binding_context"
	"github.com/flant/shell-operator/pkg/hook/controller"
	htypes "github.com/flant/shell-operator/pkg/hook/types"
	kubeeventsmanager "github.com/flant/shell-operator/pkg/kube_events_manager"
	kemtypes "github.com/flant/shell-operator/pkg/kube_events_manager/types"
	metricstorage "github.com/flant/shell-operator/pkg/metric_storage"
	"github.com/flant/shell-operator/pkg/webhook/admission"
	"github.com/flant/shell-operator/pkg/webhook/conversion"

	"verifharness/internal/core"
)

var _ = v1.SchemeGroupVersion

// Obj: Proj is the content c of the object; c%10 goes into data.v (what the jqFilter .data
// selects), c/10 into the label r (outside the filter).
type Obj struct {
	Ns   int `json:"ns"`
	Name int `json:"name"`
	Proj int `json:"proj"`
}

// View is what one snapshot entry shows: identity, filter result (-1: none), whole object (-1: not kept).
type View struct {
	Ns   int `json:"ns"`
	Name int `json:"name"`
	Fr   int `json:"filter_result"`
	Full int `json:"object"`
}
type ObjOp struct {
	Kind string `json:"kind"` // create modify delete
	Obj
}
type SnapIn struct {
	Namespaces []int   `json:"namespaces"` // static namespaces (empty: all namespaces)
	Names      []int   `json:"names"`      // nameSelector.matchNames (empty: any name); may repeat
	Initial    []Obj   `json:"initial"`
	Ops        []ObjOp `json:"ops"`
	Ghost      *Obj    `json:"ghost,omitempty"` // deleted between the initial list and the informer start
	Restart    bool    `json:"restart"`
	Filter     bool    `json:"filter"`    // the binding has jqFilter ".data"
	DropFull   bool    `json:"drop_full"` // keepFullObjectsInMemory: false
}
type UpdBinding struct {
	Name     int   `json:"name"`
	Includes []int `json:"includes"`
	Schedule bool  `json:"schedule"`
}
type UpdCtx struct {
	Binding int  `json:"binding"`
	Sync    bool `json:"sync"`
}
type UpdIn struct {
	Bindings []UpdBinding `json:"bindings"`
	Ctxs     []UpdCtx     `json:"ctxs"`
	// Empty: bindings whose snapshot is empty at every read (an empty answer must be cached like any other)
	Empty []int `json:"empty,omitempty"`
}
type GrpIn struct {
	Named bool `json:"named"` // give the two kubernetes bindings distinct names
}
type Input struct {
	Snap *SnapIn `json:"snap,omitempty"`
	Upd  *UpdIn  `json:"upd,omitempty"`
	Grp  *GrpIn  `json:"grp,omitempty"`
	// dyn: a binding with namespace.labelSelector (dyn.go); the history is a member of its own
	// so that a failing case can be shortened (Spec.ShrinkKey)
	Dyn    *DynIn  `json:"dyn,omitempty"`
	DynOps []DynOp `json:"dyn_ops,omitempty"`
	// win: changes between the creation of a monitor and its start (win.go)
	Win *WinIn `json:"win,omitempty"`
	// hk: one hook with bindings of several types that may share names, several executions (hk.go)
	Hk *HkIn `json:"hk,omitempty"`
	// rl: a history with watch outages (relist.go); the history is DynOps (so that a failing case is shortened)
	Rl *RlIn `json:"rl,omitempty"`
}

type UpdCtxObs struct {
	Keys    []int `json:"keys"`    // snapshot keys (binding numbers), sorted
	Vals    []int `json:"vals"`    // read number behind each key
	Objects int   `json:"objects"` // read number behind `objects` (0 = none)
}
type Obs struct {
	Snap    []View        `json:"snap,omitempty"`
	Restart []View        `json:"restart_snap,omitempty"`
	Upd     []UpdCtxObs   `json:"upd,omitempty"`
	Reads   []int         `json:"reads,omitempty"` // bindings in the order they were read
	GrpKeys []string      `json:"grp_keys,omitempty"`
	GrpObjs []string      `json:"grp_objs,omitempty"`
	Dyn     [][]View      `json:"dyn_reads,omitempty"`      // the snapshot at every read of a dyn history
	DynC    [][]View      `json:"dyn_comp_reads,omitempty"` // ... of the companion binding
	Hk      [][]UpdCtxObs `json:"hk,omitempty"`             // per execution, per context
	HkTypes [][]string    `json:"hk_types,omitempty"`       // the binding type of every context the hook is executed with
	Note    string        `json:"note,omitempty"`
}

var gvr = schema.GroupVersionResource{Group: "", Version: "v1", Resource: "configmaps"}

func nsName(n int) string  { return "ns" + strconv.Itoa(n) }
func objName(n int) string { return "n" + strconv.Itoa(n) }

func cm(o Obj) *unstructured.Unstructured {
	return &unstructured.Unstructured{Object: map[string]interface{}{
		"apiVersion": "v1", "kind": "ConfigMap",
		"metadata": map[string]interface{}{"name": objName(o.Name), "namespace": nsName(o.Ns), "labels": map[string]interface{}{"r": strconv.Itoa(o.Proj / 10)}},
		"data":     map[string]interface{}{"v": strconv.Itoa(o.Proj % 10)},
	}}
}

func toView(o kemtypes.ObjectAndFilterResult) View {
	r := View{-1, -1, -1, -1}
	// identity from the resource id: namespace/kind/name
	if parts := strings.Split(o.Metadata.ResourceId, "/"); len(parts) == 3 {
		r.Ns, _ = strconv.Atoi(strings.TrimPrefix(parts[0], "ns"))
		r.Name, _ = strconv.Atoi(strings.TrimPrefix(parts[2], "n"))
	}
	if o.Object != nil {
		v, rest := -1, -1
		if d, ok := o.Object.Object["data"].(map[string]interface{}); ok {
			if s, ok := d["v"].(string); ok {
				v, _ = strconv.Atoi(s)
			}
		}
		if s, ok := o.Object.GetLabels()["r"]; ok {
			rest, _ = strconv.Atoi(s)
		}
		if v >= 0 && rest >= 0 {
			r.Full = rest*10 + v
		} else {
			r.Full = 9998
		}
		if o.Object.GetNamespace() != nsName(r.Ns) || o.Object.GetName() != objName(r.Name) {
			r.Full = 9997
		}
	}
	if o.FilterResult != nil {
		r.Fr = 9998
		if m, ok := o.FilterResult.(map[string]interface{}); ok {
			if s, ok := m["v"].(string); ok && len(m) == 1 {
				r.Fr, _ = strconv.Atoi(s)
			}
		}
	}
	return r
}

func monitorConfig(in SnapIn) *kubeeventsmanager.MonitorConfig {
	mc := &kubeeventsmanager.MonitorConfig{Kind: "ConfigMap", ApiVersion: "v1", KeepFullObjectsInMemory: !in.DropFull}
	if in.Filter {
		mc.JqFilter = ".data"
	}
	mc.Metadata.MonitorId = "m"
	mc.Metadata.DebugName = "c02"
	mc.Metadata.LogLabels = map[string]string{}
	mc.Metadata.MetricLabels = map[string]string{}
	mc.EventTypes = []kemtypes.WatchEventType{kemtypes.WatchEventAdded, kemtypes.WatchEventModified, kemtypes.WatchEventDeleted}
	mc.Logger = log.NewNop()
	if len(in.Namespaces) > 0 {
		var ns []string
		for _, n := range in.Namespaces {
			ns = append(ns, nsName(n))
		}
		mc.NamespaceSelector = &kemtypes.NamespaceSelector{NameSelector: &kemtypes.NameSelector{MatchNames: ns}}
	}
	if len(in.Names) > 0 {
		var ns []string
		for _, n := range in.Names {
			ns = append(ns, objName(n))
		}
		mc.NameSelector = &kemtypes.NameSelector{MatchNames: ns}
	}
	return mc
}

// snapExpected: what the harness's own bookkeeping says the quiet state is - only a waiting
// criterion (the judgement is Coq's); the ghost of F26 is not part of it.
func snapExpected(in SnapIn) []View {
	cur := map[[2]int]int{}
	for _, ob := range in.Initial {
		cur[[2]int{ob.Ns, ob.Name}] = ob.Proj
	}
	for _, op := range in.Ops {
		if op.Kind == "delete" {
			delete(cur, [2]int{op.Ns, op.Name})
		} else {
			cur[[2]int{op.Ns, op.Name}] = op.Proj
		}
	}
	member := func(x int, l []int) bool {
		for _, y := range l {
			if x == y {
				return true
			}
		}
		return len(l) == 0
	}
	var r []View
	for k, p := range cur {
		if !member(k[0], in.Namespaces) || !member(k[1], in.Names) {
			continue
		}
		v := View{k[0], k[1], -1, -1}
		if in.Filter {
			v.Fr = p % 10
		}
		if !in.DropFull {
			v.Full = p
		}
		r = append(r, v)
	}
	sort.Slice(r, func(i, j int) bool {
		if r[i].Ns != r[j].Ns {
			return r[i].Ns < r[j].Ns
		}
		return r[i].Name < r[j].Name
	})
	return r
}

// stableSnapshot reads the snapshot until it has not changed for four more reads AND has
// reached the expected quiet state, or until the deadline; it returns the last snapshot read.
func stableSnapshot(vm *kubeeventsmanager.VerifC01Monitor, expect []View) []View {
	read := func() []View {
		var r []View
		for _, o := range vm.M.Snapshot() {
			r = append(r, toView(o))
		}
		return r
	}
	want := fmt.Sprint(expect)
	prev := read()
	same := 0
	deadline := time.Now().Add(1500 * time.Millisecond)
	for time.Now().Before(deadline) {
		time.Sleep(8 * time.Millisecond)
		cur := read()
		if fmt.Sprint(cur) == fmt.Sprint(prev) {
			same++
			if same >= 4 && fmt.Sprint(cur) == want {
				return cur
			}
		} else {
			same = 0
			prev = cur
		}
	}
	return prev
}

func runSnap(in SnapIn) Obs {
	var o Obs
	log.SetDefaultLevel(log.LevelFatal)
	kubeeventsmanager.DefaultSyncTime = time.Millisecond
	kubeeventsmanager.DefaultFactoryStore.Reset()
	fc := fake.NewFakeCluster(fake.ClusterVersionV119)
	ctx, cancel := context.WithCancel(context.Background())
	defer cancel()
	dyn := fc.Client.Dynamic().Resource(gvr)
	for _, ob := range in.Initial {
		if _, err := dyn.Namespace(nsName(ob.Ns)).Create(ctx, cm(ob), metav1.CreateOptions{}); err != nil {
			o.Note = "initial: " + err.Error()
		}
	}
	if in.Ghost != nil {
		dyn.Namespace(nsName(in.Ghost.Ns)).Create(ctx, cm(*in.Ghost), metav1.CreateOptions{})
	}
	mstor := metricstorage.NewMetricStorage(ctx, "c02_", true, log.NewNop())
	vm, err := kubeeventsmanager.NewVerifC01Monitor(ctx, fc.Client, mstor, monitorConfig(in))
	if err != nil {
		o.Note = "create: " + err.Error()
		return o
	}
	if in.Ghost != nil {
		dyn.Namespace(nsName(in.Ghost.Ns)).Delete(ctx, objName(in.Ghost.Name), metav1.DeleteOptions{})
	}
	vm.M.Start(ctx)
	vm.M.EnableKubeEventCb()
	// the fake cluster's watch does not replay what happened before it was registered: wait
	// until every informer's watch delivers (dyn.go: syncObjWatch)
	if len(in.Namespaces) == 0 {
		syncObjWatch(ctx, fc, vm, 1)
	} else {
		done := map[int]bool{}
		for _, n := range in.Namespaces {
			if !done[n] {
				done[n] = true
				syncObjWatch(ctx, fc, vm, n)
			}
		}
	}
	for _, op := range in.Ops {
		var err error
		switch op.Kind {
		case "create":
			_, err = dyn.Namespace(nsName(op.Ns)).Create(ctx, cm(op.Obj), metav1.CreateOptions{})
		case "modify":
			_, err = dyn.Namespace(nsName(op.Ns)).Update(ctx, cm(op.Obj), metav1.UpdateOptions{})
		case "delete":
			err = dyn.Namespace(nsName(op.Ns)).Delete(ctx, objName(op.Name), metav1.DeleteOptions{})
		}
		if err != nil && o.Note == "" {
			o.Note = op.Kind + ": " + err.Error()
		}
	}
	o.Snap = stableSnapshot(vm, snapExpected(in))
	if in.Restart {
		// a fresh monitor on the same cluster (operator restart)
		cancel()
		kubeeventsmanager.DefaultFactoryStore.Reset()
		ctx2, cancel2 := context.WithCancel(context.Background())
		defer cancel2()
		vm2, err := kubeeventsmanager.NewVerifC01Monitor(ctx2, fc.Client, mstor, monitorConfig(in))
		if err != nil {
			o.Note = "restart: " + err.Error()
			return o
		}
		vm2.M.Start(ctx2)
		o.Restart = stableSnapshot(vm2, snapExpected(in))
	}
	return o
}

// ---- upd: the real UpdateSnapshots over a reader that never answers the same twice ----

type fakeKube struct {
	calls    int
	reads    []int
	byId     map[string]int // resource id marker -> read number
	empty    map[int]bool   // bindings answering with an empty list
	lastRead map[int]int    // binding -> number of its last read
}

func (f *fakeKube) WithKubernetesBindings([]htypes.OnKubernetesEventConfig)   {}
func (f *fakeKube) WithKubeEventsManager(kubeeventsmanager.KubeEventsManager) {}
func (f *fakeKube) EnableKubernetesBindings() ([]controller.BindingExecutionInfo, error) {
	return nil, nil
}
func (f *fakeKube) UpdateMonitor(string, string, string) error { return nil }
func (f *fakeKube) UnlockEvents()                              {}
func (f *fakeKube) UnlockEventsFor(string)                     {}
func (f *fakeKube) StopMonitors()                              {}
func (f *fakeKube) CanHandleEvent(kemtypes.KubeEvent) bool     { return false }
func (f *fakeKube) HandleEvent(kemtypes.KubeEvent) controller.BindingExecutionInfo {
	return controller.BindingExecutionInfo{}
}
func (f *fakeKube) BindingNames() []string { return nil }
func (f *fakeKube) SnapshotsFrom(...string) map[string][]kemtypes.ObjectAndFilterResult {
	return nil
}
func (f *fakeKube) SnapshotsFor(name string) []kemtypes.ObjectAndFilterResult {
	f.calls++
	n, _ := strconv.Atoi(strings.TrimPrefix(name, "b"))
	f.reads = append(f.reads, n)
	if f.lastRead == nil {
		f.lastRead = map[int]int{}
	}
	f.lastRead[n] = f.calls
	if f.empty[n] {
		return []kemtypes.ObjectAndFilterResult{}
	}
	r := kemtypes.ObjectAndFilterResult{}
	r.Metadata.ResourceId = "read-" + strconv.Itoa(f.calls)
	return []kemtypes.ObjectAndFilterResult{r}
}
func (f *fakeKube) Snapshots() map[string][]kemtypes.ObjectAndFilterResult { return nil }
func (f *fakeKube) SnapshotsInfo() []string                                { return nil }
func (f *fakeKube) SnapshotsDump() map[string]interface{}                  { return nil }

func readNo(objs []kemtypes.ObjectAndFilterResult) int {
	if len(objs) == 0 {
		return 0
	}
	n, _ := strconv.Atoi(strings.TrimPrefix(objs[0].Metadata.ResourceId, "read-"))
	return n
}

func bname(n int) string { return "b" + strconv.Itoa(n) }

func runUpd(in UpdIn) Obs {
	var o Obs
	hc := controller.NewHookController()
	var kb []htypes.OnKubernetesEventConfig
	var sb []htypes.ScheduleConfig
	for _, b := range in.Bindings {
		var inc []string
		for _, i := range b.Includes {
			inc = append(inc, bname(i))
		}
		if b.Schedule {
			c := htypes.ScheduleConfig{}
			c.BindingName = bname(b.Name)
			c.IncludeSnapshotsFrom = inc
			sb = append(sb, c)
		} else {
			c := htypes.OnKubernetesEventConfig{}
			c.BindingName = bname(b.Name)
			c.IncludeSnapshotsFrom = inc
			c.Monitor = &kubeeventsmanager.MonitorConfig{}
			kb = append(kb, c)
		}
	}
	hc.InitKubernetesBindings(kb, nil, log.NewNop())
	hc.InitScheduleBindings(sb, nil)
	fk := &fakeKube{empty: map[int]bool{}}
	for _, b := range in.Empty {
		fk.empty[b] = true
	}
	hc.KubernetesController = fk
	isSched := map[int]bool{}
	for _, b := range in.Bindings {
		isSched[b.Name] = b.Schedule
	}
	var ctxs []bctx.BindingContext
	for _, c := range in.Ctxs {
		bc := bctx.BindingContext{Binding: bname(c.Binding)}
		if isSched[c.Binding] {
			bc.Metadata.BindingType = htypes.Schedule
		} else {
			bc.Metadata.BindingType = htypes.OnKubernetesEvent
			bc.Type = kemtypes.TypeEvent
			if c.Sync {
				bc.Type = kemtypes.TypeSynchronization
			}
		}
		ctxs = append(ctxs, bc)
	}
	res := hc.UpdateSnapshots(ctxs)
	for _, bc := range res {
		var co UpdCtxObs
		var keys []int
		for k := range bc.Snapshots {
			n, _ := strconv.Atoi(strings.TrimPrefix(k, "b"))
			keys = append(keys, n)
		}
		sort.Ints(keys)
		// an empty list carries no read marker: it stands for the binding's (last) read
		val := func(binding int, objs []kemtypes.ObjectAndFilterResult) int {
			if len(objs) == 0 && fk.empty[binding] {
				return fk.lastRead[binding]
			}
			return readNo(objs)
		}
		for _, k := range keys {
			co.Keys = append(co.Keys, k)
			co.Vals = append(co.Vals, val(k, bc.Snapshots[bname(k)]))
		}
		co.Objects = readNo(bc.Objects)
		if n, err := strconv.Atoi(strings.TrimPrefix(bc.Binding, "b")); err == nil && bc.Type == kemtypes.TypeSynchronization {
			co.Objects = val(n, bc.Objects)
		}
		o.Upd = append(o.Upd, co)
	}
	o.Reads = fk.reads
	return o
}

// ---- grp: unnamed kubernetes bindings sharing a group ----

func runGrp(in GrpIn) Obs {
	var o Obs
	log.SetDefaultLevel(log.LevelFatal)
	kubeeventsmanager.DefaultSyncTime = time.Millisecond
	kubeeventsmanager.DefaultFactoryStore.Reset()
	fc := fake.NewFakeCluster(fake.ClusterVersionV119)
	ctx, cancel := context.WithCancel(context.Background())
	defer cancel()
	dyn := fc.Client.Dynamic().Resource(gvr)
	dyn.Namespace("ns1").Create(ctx, cm(Obj{1, 1, 1}), metav1.CreateOptions{})
	dyn.Namespace("ns2").Create(ctx, cm(Obj{2, 2, 1}), metav1.CreateOptions{})
	n1, n2 := "", ""
	if in.Named {
		n1, n2 = `"name":"first",`, `"name":"second",`
	}
	cfg := `{"configVersion":"v1","kubernetes":[{` + n1 + `"kind":"ConfigMap","group":"g","namespace":{"nameSelector":{"matchNames":["ns1"]}}},{` + n2 +
		`"kind":"ConfigMap","group":"g","namespace":{"nameSelector":{"matchNames":["ns2"]}}}],"schedule":[{"name":"s","crontab":"* * * * *","group":"g"}]}`
	h := hook.NewHook("h", "h", false, false, "", log.NewNop())
	if _, err := h.LoadConfig([]byte(cfg)); err != nil {
		o.Note = "config: " + err.Error()
		return o
	}
	mgr := kubeeventsmanager.NewKubeEventsManager(ctx, fc.Client, log.NewNop())
	mgr.WithMetricStorage(metricstorage.NewMetricStorage(ctx, "c02g_", true, log.NewNop()))
	hc := controller.NewHookController()
	hc.InitKubernetesBindings(h.GetConfig().OnKubernetesEvents, mgr, log.NewNop())
	hc.InitScheduleBindings(h.GetConfig().Schedules, nil)
	hc.InitAdmissionBindings(nil, nil, (*admission.WebhookManager)(nil))
	hc.InitConversionBindings(nil, (*conversion.WebhookManager)(nil))
	if err := hc.HandleEnableKubernetesBindings(func(controller.BindingExecutionInfo) {}); err != nil {
		o.Note = "enable: " + err.Error()
		return o
	}
	time.Sleep(30 * time.Millisecond)
	bc := bctx.BindingContext{Binding: "s"}
	bc.Metadata.BindingType = htypes.Schedule
	bc.Metadata.Group = "g"
	res := hc.UpdateSnapshots([]bctx.BindingContext{bc})
	for k, objs := range res[0].Snapshots {
		o.GrpKeys = append(o.GrpKeys, k)
		for _, ob := range objs {
			if ob.Object != nil {
				o.GrpObjs = append(o.GrpObjs, ob.Object.GetNamespace()+"/"+ob.Object.GetName())
			}
		}
	}
	sort.Strings(o.GrpKeys)
	sort.Strings(o.GrpObjs)
	hc.StopMonitors()
	return o
}

func Run(in Input) Obs {
	switch {
	case in.Snap != nil:
		return runSnap(*in.Snap)
	case in.Upd != nil:
		return runUpd(*in.Upd)
	case in.Grp != nil:
		return runGrp(*in.Grp)
	case in.Dyn != nil:
		return runDyn(*in.Dyn, in.DynOps)
	case in.Win != nil:
		return runWin(*in.Win)
	case in.Hk != nil:
		return runHk(*in.Hk)
	case in.Rl != nil:
		return runRl(*in.Rl, in.DynOps)
	}
	return Obs{Note: "empty input"}
}

// ---- rendering ----

func coqObj(o Obj) string {
	f := func(n int) int {
		if n < 0 {
			return 9999
		}
		return n
	}
	return fmt.Sprintf("(%d,%d,%d)", f(o.Ns), f(o.Name), f(o.Proj))
}
func coqView(v View) string {
	opt := func(n int) string {
		if n < 0 {
			return "None"
		}
		return fmt.Sprintf("(Some %d)", n)
	}
	f := func(n int) int {
		if n < 0 {
			return 9999
		}
		return n
	}
	return fmt.Sprintf("(%d,%d,%s,%s)", f(v.Ns), f(v.Name), opt(v.Fr), opt(v.Full))
}
func coqOp(o ObjOp) string {
	k := map[string]string{"create": "OCreate", "modify": "OModify", "delete": "ODelete"}[o.Kind]
	return fmt.Sprintf("(%s, %s)", k, coqObj(o.Obj))
}

func Render(in Input, obs *Obs, crash string) core.Case {
	var o Obs
	if obs != nil {
		o = *obs
	}
	bad := core.CoqBool(crash != "" || o.Note != "")
	c := core.Case{JSON: map[string]any{"obs": o, "crash": crash}, Nontrivial: true}
	switch {
	case in.Snap != nil:
		s := in.Snap
		ghost := "None"
		if s.Ghost != nil {
			ghost = "(Some " + coqObj(*s.Ghost) + ")"
		}
		c.Coq = fmt.Sprintf("CSnap (mkSnapIn %s %s %s %s %s %s %s %s) %s %s %s",
			core.CoqList(s.Namespaces, core.CoqN), core.CoqList(s.Names, core.CoqN), core.CoqList(s.Initial, coqObj),
			core.CoqList(s.Ops, coqOp), ghost, core.CoqBool(s.Restart), core.CoqBool(s.Filter), core.CoqBool(!s.DropFull),
			core.CoqList(o.Snap, coqView), core.CoqList(o.Restart, coqView), bad)
		c.Key = c.Coq[:strings.Index(c.Coq, ")")+1] + fmt.Sprint(s.Ops, s.Initial, s.Ghost, s.Restart, s.Filter, s.DropFull)
		outside := 0 // modifications that change nothing the filter selects
		cur := map[[2]int]int{}
		for _, ob := range s.Initial {
			cur[[2]int{ob.Ns, ob.Name}] = ob.Proj
		}
		for _, op := range s.Ops {
			k := [2]int{op.Ns, op.Name}
			if op.Kind == "modify" && cur[k]%10 == op.Proj%10 && cur[k] != op.Proj {
				outside++
			}
			cur[k] = op.Proj
		}
		c.Tags = []string{"snap", fmt.Sprintf("filter:%v", s.Filter), fmt.Sprintf("keepfull:%v", !s.DropFull), fmt.Sprintf("outside-filter-modify:%v", outside > 0), fmt.Sprintf("ops:%02d", len(s.Ops)/4*4), fmt.Sprintf("restart:%v", s.Restart), fmt.Sprintf("namesel:%v", len(s.Names) > 0), fmt.Sprintf("nssel:%v", len(s.Namespaces) > 0)}
		c.Nontrivial = len(s.Ops) >= 3
	case in.Upd != nil:
		u := in.Upd
		bs := core.CoqList(u.Bindings, func(b UpdBinding) string {
			return fmt.Sprintf("mkUB %d %s %s", b.Name, core.CoqList(b.Includes, core.CoqN), core.CoqBool(b.Schedule))
		})
		cs := core.CoqList(u.Ctxs, func(x UpdCtx) string { return fmt.Sprintf("(%d, %s)", x.Binding, core.CoqBool(x.Sync)) })
		os := core.CoqList(o.Upd, func(x UpdCtxObs) string {
			var kv []string
			for i := range x.Keys {
				kv = append(kv, fmt.Sprintf("(%d,%d)", x.Keys[i], x.Vals[i]))
			}
			return fmt.Sprintf("([%s], %d)", strings.Join(kv, "; "), x.Objects)
		})
		c.Coq = fmt.Sprintf("CUpd (mkUpdIn %s %s) %s %s %s", bs, cs, os, core.CoqList(o.Reads, core.CoqN), bad)
		c.Key = "upd" + bs + cs
		c.Tags = []string{"upd", fmt.Sprintf("ctxs:%d", len(u.Ctxs)), fmt.Sprintf("empty-snapshots:%v", len(u.Empty) > 0)}
		c.Key += fmt.Sprint(u.Empty)
		c.Nontrivial = len(u.Ctxs) >= 2
	case in.Grp != nil:
		c.Coq = fmt.Sprintf("CGrp %s %d %d %s", core.CoqBool(in.Grp.Named), len(o.GrpKeys), len(o.GrpObjs), bad)
		c.Key = fmt.Sprintf("grp%v", in.Grp.Named)
		c.Tags = []string{"grp"}
	case in.Dyn != nil:
		renderDyn(*in.Dyn, in.DynOps, o, bad, &c)
	case in.Win != nil:
		renderWin(*in.Win, o, bad, &c)
	case in.Hk != nil:
		renderHk(*in.Hk, o, bad, &c)
	case in.Rl != nil:
		renderRl(*in.Rl, in.DynOps, o, bad, &c)
	}
	return c
}

// ---- generation ----

func genSnap(r *core.Rng, nOps int) SnapIn {
	var in SnapIn
	if r.Chance(60) {
		for n := 1; n <= 3; n++ {
			if r.Chance(55) {
				in.Namespaces = append(in.Namespaces, n)
			}
		}
		if r.Chance(15) && len(in.Namespaces) > 0 {
			in.Namespaces = append(in.Namespaces, in.Namespaces[0]) // repeated entry
		}
	}
	// the fake cluster ignores field selectors (metadata.name=...), so with a nameSelector
	// every object of the history carries the one selected name
	onlyName := 0
	if r.Chance(35) {
		onlyName = 1 + r.Intn(3)
		in.Names = []int{onlyName}
		if r.Chance(50) {
			in.Names = append(in.Names, onlyName) // repeated entry (F13, fixed)
		}
	}
	state := map[[2]int]int{}
	pick := func() (int, int) {
		if onlyName != 0 {
			return 1 + r.Intn(3), onlyName
		}
		return 1 + r.Intn(3), 1 + r.Intn(3)
	}
	for i := 0; i < r.Intn(4); i++ {
		ns, n := pick()
		if _, ok := state[[2]int{ns, n}]; !ok {
			p := r.Intn(40)
			state[[2]int{ns, n}] = p
			in.Initial = append(in.Initial, Obj{ns, n, p})
		}
	}
	for len(in.Ops) < nOps {
		ns, n := pick()
		cur, ok := state[[2]int{ns, n}]
		switch {
		case !ok:
			p := r.Intn(40)
			state[[2]int{ns, n}] = p
			in.Ops = append(in.Ops, ObjOp{"create", Obj{ns, n, p}})
		case r.Chance(35):
			delete(state, [2]int{ns, n})
			in.Ops = append(in.Ops, ObjOp{"delete", Obj{ns, n, cur}})
		default:
			p := r.Intn(40)
			switch {
			case r.Chance(35): // only what the filter does not select changes
				p = cur%10 + 10*((cur/10+1+r.Intn(3))%4)
			case r.Chance(10): // nothing changes
				p = cur
			}
			state[[2]int{ns, n}] = p
			in.Ops = append(in.Ops, ObjOp{"modify", Obj{ns, n, p}})
		}
	}
	in.Restart = r.Chance(30)
	in.Filter = r.Chance(55)
	in.DropFull = r.Chance(25)
	return in
}

func genUpd(r *core.Rng) UpdIn {
	var in UpdIn
	nb := 2 + r.Intn(4)
	for i := 1; i <= nb; i++ {
		b := UpdBinding{Name: i, Schedule: i == nb && r.Chance(50)}
		for j := 1; j <= nb; j++ {
			if r.Chance(40) && !(j == nb && in.isSched(j, nb)) {
				b.Includes = append(b.Includes, j)
			}
		}
		in.Bindings = append(in.Bindings, b)
	}
	// includes may only name kubernetes bindings
	sched := map[int]bool{}
	for _, b := range in.Bindings {
		sched[b.Name] = b.Schedule
	}
	for i := range in.Bindings {
		var inc []int
		for _, j := range in.Bindings[i].Includes {
			if !sched[j] {
				inc = append(inc, j)
			}
		}
		in.Bindings[i].Includes = inc
	}
	nc := 1 + r.Intn(5)
	for i := 0; i < nc; i++ {
		b := 1 + r.Intn(nb)
		in.Ctxs = append(in.Ctxs, UpdCtx{Binding: b, Sync: !sched[b] && r.Chance(40)})
	}
	for i := 1; i <= nb; i++ {
		if !sched[i] && r.Chance(30) {
			in.Empty = append(in.Empty, i)
		}
	}
	return in
}

func (in UpdIn) isSched(j, nb int) bool { return false }

func Gen(r *core.Rng, tier string) ([]core.In[Input], bool) {
	var ins []core.In[Input]
	add := func(in Input, s string) { ins = append(ins, core.In[Input]{Input: in, Stream: s}) }
	// corpus
	add(Input{Snap: &SnapIn{Names: []int{1, 1}, Initial: []Obj{{1, 1, 1}}, Ops: []ObjOp{{"modify", Obj{1, 1, 2}}}}}, "corpus")                    // F13 (fixed): matchNames ["n1","n1"]
	add(Input{Snap: &SnapIn{Namespaces: []int{1, 2, 1}, Initial: []Obj{{1, 1, 1}, {2, 1, 1}}, Ops: []ObjOp{{"create", Obj{3, 1, 1}}}}}, "corpus") // repeated namespace
	add(Input{Snap: &SnapIn{Initial: []Obj{{1, 1, 1}}, Ghost: &Obj{2, 2, 7}, Ops: []ObjOp{{"create", Obj{1, 2, 1}}}}}, "trigger-F26")
	add(Input{Snap: &SnapIn{Filter: true, Initial: []Obj{{1, 1, 13}}, Ops: []ObjOp{{"modify", Obj{1, 1, 23}}}}}, "corpus")                 // change outside the jqFilter: the kept object follows
	add(Input{Snap: &SnapIn{Filter: true, DropFull: true, Initial: []Obj{{1, 1, 13}}, Ops: []ObjOp{{"modify", Obj{1, 1, 24}}}}}, "corpus") // filter result only
	add(Input{Snap: &SnapIn{DropFull: true, Initial: []Obj{{1, 1, 13}, {2, 1, 5}}, Ops: []ObjOp{{"delete", Obj{2, 1, 5}}}}}, "corpus")     // neither filter nor object: identity only
	add(Input{Grp: &GrpIn{Named: true}}, "corpus")
	add(Input{Grp: &GrpIn{Named: false}}, "trigger-F25")
	add(Input{Upd: &UpdIn{Bindings: []UpdBinding{{1, []int{1, 2}, false}, {2, nil, false}, {3, []int{1, 2}, true}},
		Ctxs: []UpdCtx{{1, true}, {2, true}, {1, false}, {3, false}}}}, "corpus")
	// an EMPTY snapshot is read once per execution, too (a second read of a locked binding drops its buffered events: C01)
	add(Input{Upd: &UpdIn{Bindings: []UpdBinding{{1, []int{1}, false}, {2, []int{1}, false}}, Ctxs: []UpdCtx{{1, true}, {2, false}, {1, false}}, Empty: []int{1}}}, "corpus")
	dynCorpus(add)
	winCorpus(add)
	hkCorpus(add)
	hkSystematic(add)
	rlCorpus(add)
	nSnap, nUpd, nDyn, nWin := 120, 300, 100, 100
	nHk := 150
	nRl := 40 // an outage costs a reflector back-off (0.8 s and more)
	var exh []core.In[Input]
	switch tier {
	case "thorough":
		nSnap, nUpd, nDyn, nWin = 2000, 20000, 2500, 2500
		nHk = 5000
		nRl = 800
		rlExhaustive(func(in Input, s string) { exh = append(exh, core.In[Input]{Input: in, Stream: s}) })
	case "search":
		nSnap, nUpd, nDyn, nWin = 300, 2000, 400, 400
		nHk = 500
		nRl = 120
	}
	everyHk := nUpd / nHk
	everyRl := nUpd / nRl
	for i := 0; i < nSnap; i++ {
		s := genSnap(r, 3+r.Intn(10))
		add(Input{Snap: &s}, "snap")
	}
	// the dyn cases (slower) are spread over the upd cases so that every worker gets its share
	every := nUpd / nDyn
	everyWin := nUpd / nWin
	for i := 0; i < nUpd; i++ {
		u := genUpd(r)
		add(Input{Upd: &u}, "upd")
		if i%everyHk == 0 && i/everyHk < nHk {
			hk := genHk(r)
			add(Input{Hk: &hk}, "hk")
		}
		if i%everyWin == 0 && i/everyWin < nWin {
			w := genWin(r)
			add(Input{Win: &w}, "win")
		}
		if i%everyRl == 0 && i/everyRl < nRl {
			rl, ops := genRl(r)
			add(Input{Rl: &rl, DynOps: ops}, "relist")
			if k := i / everyRl; k < len(exh) { // the exhaustive family (thorough) spread over the workers, too
				ins = append(ins, exh[k])
			}
		}
		if i%every == 0 && i/every < nDyn {
			d, ops := genDyn(r, 3+r.Intn(12))
			st := "dyn"
			if d.GhostNs == nil && (i/every)%5 < 2 {
				// beside a companion binding with static namespaces in the same process
				comp := DynComp{Filter: r.Chance(50), DropFull: r.Chance(30), First: r.Chance(50), SameDebug: r.Chance(50)}
				for n := 1; n <= 3; n++ {
					if r.Chance(60) {
						comp.Nss = append(comp.Nss, n)
					}
				}
				if len(comp.Nss) == 0 {
					comp.Nss = []int{1 + r.Intn(3)}
				}
				d.Comp = &comp
				st = "dyn-companion"
			}
			add(Input{Dyn: &d, DynOps: ops}, st)
		}
	}
	return ins, false
}

var Driver = core.Driver[Input, Obs]{
	Spec: core.Spec{Property: "C02", Imports: []string{"C02_Model", "C02_Spec", "C02_Comp", "C02_CompSpec", "C02_Win", "C02_WinSpec", "C02_Hook", "C02_HookSpec", "C02_Relist", "C02_RelistSpec", "C02_Corr"}, Corr: "C02_Corr", Triggers: []string{"F25", "F26", "F32", "F31"}, ShrinkKey: "dyn_ops",
		Rule: "snap: a real monitor on a fake cluster (static namespaces / all namespaces, nameSelector with repeated entries, initial objects, with and without jqFilter .data, keepFullObjectsInMemory true/false; object content = a part the filter selects + a label outside it, 35% of modifications touch only the latter) follows generated create/modify/delete histories over 3 namespaces x 3 names, Snapshot() at quiescence and after a restart compared entry by entry (identity, filterResult, object) with the matching objects of the cluster; upd: the real HookController.UpdateSnapshots over a reader that answers differently on every call, random include topologies and context arrays; grp: a real hook config with two kubernetes bindings sharing a group, named and unnamed (trigger F25); one ghost scenario (trigger F26); dyn: a real monitor with namespace.labelSelector (matchLabels or matchExpressions; its REAL namespace informer on the fake cluster, whose Namespace objects are kept equal to what a label-filtered watch shows; with and without nameSelector / jqFilter / keepFullObjectsInMemory) follows generated histories over 3 namespaces x 3 names of object create/modify/delete (objects moving between namespaces), namespaces created with or without the label / gaining or losing it / deleted (with their objects left behind, or deleted too), changes that keep a namespace matching, and operator restarts; namespaces matching at the start, at a restart and only later all stop matching and match again; Snapshot() at every read point (1-5 per history) compared entry by entry with the objects of the namespaces that match THEN; two histories in five run beside a companion binding of the same kind and names with static namespaces (created before or after the first binding's monitor, also at restarts; same or different debug name; its informers share the first binding's shared informers of the factory store), whose snapshot at every read point is compared entry by entry with the objects of ITS namespaces (C02_Comp / C02_CompSpec.P_comp); fixed corpus of 13 such histories; failing dyn histories are shortened; win: the START WINDOW of a monitor (C02_Win): a real monitor is created on the fake cluster (CreateInformers / loadExistedObjects), the cluster is changed (1-8 operations: objects modified inside and outside what the jqFilter selects, deleted and re-created with other content, created, rarely deleted for good = trigger F26), then the monitor is started (the shared informers' own list, OnAdd with isInInitialList, and watch), in 55% of the cases nothing happens afterwards; static bindings (named / all namespaces, nameSelector, repeated entries) and namespace.labelSelector bindings (labelled and unlabelled namespaces), at an operator start and at a restart (35%: a previous monitor has followed a first part of the history and was cancelled); Snapshot() at quiescence compared entry by entry with the matching objects of the final cluster (C02_WinSpec.P_win); fixed corpus of 11 windows; hk: ONE HOOK with bindings of different types (kubernetes, schedule, kubernetesValidating, kubernetesMutating) that may share names (the configuration demands unique names within one type only; a validating and a mutating binding of one name are not generated: they share a webhook id, the recorded finding F31, C02_hook_refuted_vm), each with its own includeSnapshotsFrom and group: a real v1 configuration loaded by hook.LoadConfig, a real HookController on a fake cluster with real schedule and admission managers; several executions in one process in every order, the contexts built by the real binding controllers (Synchronization / Event, Schedule, admission events), each execution one UpdateSnapshots call; per execution and context the keys of snapshots, whose objects each list and the objects field show, compared with the binding of the TYPE and name of the context (C02_HookSpec.P_hk); systematic family (5 pairs of types x 3 ways the lists differ x 4 orders) + random hooks (1-3 kubernetes bindings, 0-4 others, 1-4 executions of 1-3 contexts) + corpus of 3; relist (C02_Relist): CHANGES SEEN THROUGH A RE-LIST: a real monitor (static bindings: named / all namespaces; 30% namespace.labelSelector bindings over labelled and unlabelled namespaces; nameSelector, repeated entries, jqFilter, keepFullObjectsInMemory) with its real client-go reflectors follows histories of watch-delivered object changes and 1-2 WATCH OUTAGES (a switch in front of the fake API server: open watches closed, resume answered 410 Gone, list 503 until the 1-10 changes inside the outage are applied - objects deleted (40%), modified inside / outside the filter, created, created and deleted, deleted and re-created), after which the reflectors list again and client-go delivers OnUpdate / OnAdd / OnDelete(DeletedFinalStateUnknown by value); every write carries a resourceVersion; Snapshot() after the outages' re-lists (40%: a read in the middle) and at the end compared entry by entry with the matching objects of the cluster as it is at that moment (C02_RelistSpec.P_rl); corpus of 7 histories, thorough: every history of <=2 steps + one outage of <=2 changes over one object (168); failing histories are shortened; non-trivial = >=3 cluster operations or >=2 contexts (relist: >=1 outage with an effective change of a matching object); distinct by input"},
	Gen: Gen, Run: Run, Render: Render, PerShard: 400, Workers: 8, CaseTimout: 40 * time.Second,
}
