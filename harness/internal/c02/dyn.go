// dyn: bindings with namespace.labelSelector (dynamic namespaces).
//
// A real monitor (NewMonitor + CreateInformers + Start, its REAL namespace informer) runs on
// the fake cluster.  The history mixes object operations with namespace operations (a namespace
// is created with or without the label, gains / loses the label, is deleted) and operator
// restarts; at every "read" the cluster is quiet and Snapshot() is recorded.
//
// What the fake cluster does and does not do (found out, see runDyn):
//   - the typed fake client's Namespaces().List honours the label selector (initial list of
//     createSharedInformer and the reflector's list);
//   - its Watch does NOT filter by labels.  A real API server's filtered watch reports "starts
//     matching" as ADDED and "stops matching" as DELETED, so the harness keeps the fake's
//     Namespace objects equal to what a filtered watch shows: after the monitor exists, a
//     Namespace object is in the fake iff it matches (initial non-matching namespaces carry
//     another label value and are only ever updated INTO matching, which the reflector turns
//     into OnAdd exactly like ADDED).
//   - deleting a Namespace does not remove its objects (separate tracker): the objects of a
//     namespace that stopped matching stay in the cluster unless the history deletes them.
//   - a watch registered after a change does not replay it (no resourceVersion): after every
//     operation that creates informers the harness waits, through a sentinel object (and, for
//     the namespace informer of a started monitor, a sentinel namespace), until their watch
//     delivers, before it issues the next operation.
package c02

import (
	"context"
	"fmt"
	"sort"
	"strconv"
	"time"

	"github.com/deckhouse/deckhouse/pkg/log"
	corev1 "k8s.io/api/core/v1"
	metav1 "k8s.io/apimachinery/pkg/apis/meta/v1"

	"github.com/flant/kube-client/fake"
	kubeeventsmanager "github.com/flant/shell-operator/pkg/kube_events_manager"
	kemtypes "github.com/flant/shell-operator/pkg/kube_events_manager/types"
	metricstorage "github.com/flant/shell-operator/pkg/metric_storage"

	"verifharness/internal/core"
)

type NsState struct {
	Ns    int  `json:"ns"`
	Label bool `json:"label"` // carries the label the binding selects
}

// DynOp kinds: create modify delete (object; create/modify upsert, delete of a missing object
// is a no-op, so that every subsequence of a history is a history) | ns_set (namespace exists
// now, with or without the label) | ns_del | restart | read.
type DynOp struct {
	Kind  string `json:"kind"`
	Ns    int    `json:"ns,omitempty"`
	Name  int    `json:"name,omitempty"`
	Proj  int    `json:"proj,omitempty"`
	Label bool   `json:"label,omitempty"`
	// Inner: the changes inside a watch outage (kind "outage": histories of relist.go only)
	Inner []ObjOp `json:"inner,omitempty"`
}

func (o DynOp) obj() Obj { return Obj{o.Ns, o.Name, o.Proj} }

type DynIn struct {
	Names   []int     `json:"names"`   // nameSelector.matchNames (empty: any name)
	Initial []Obj     `json:"initial"` // objects before the monitor is created
	Nss     []NsState `json:"nss"`     // namespaces before the monitor is created
	// GhostNs: this namespace stops matching between CreateInformers (initial namespace list)
	// and Start (the namespace informer's own list)
	GhostNs  *int `json:"ghost_ns,omitempty"`
	Filter   bool `json:"filter"`
	DropFull bool `json:"drop_full"`
	SelExpr  bool `json:"sel_expr"` // the selector is written with matchExpressions instead of matchLabels
	// Comp: a second binding of the same kind and names with STATIC namespaces, in the same process
	// (model coq/theories/C02_Comp.v): its informers share the first binding's shared informers
	Comp *DynComp `json:"comp,omitempty"`
}

// DynComp: the companion binding.  First: its monitor is created and started before the first
// binding's (else after), also at every restart; SameDebug: both carry the same debug name.
type DynComp struct {
	Nss       []int `json:"nss"`
	Filter    bool  `json:"filter"`
	DropFull  bool  `json:"drop_full"`
	First     bool  `json:"first,omitempty"`
	SameDebug bool  `json:"same_debug,omitempty"`
}

const dynLabel = "c02-dyn"

type dynRun struct {
	in     DynIn
	fc     *fake.Cluster
	mstor  *metricstorage.MetricStorage
	ctx    context.Context
	cancel context.CancelFunc
	vm     *kubeeventsmanager.VerifC01Monitor
	vmc    *kubeeventsmanager.VerifC01Monitor // the companion's monitor

	objs      map[[2]int]int // the cluster's objects
	nsLab     map[int]bool   // existing namespaces -> carries the label
	inFake    map[int]bool   // a Namespace object is in the fake
	fakeMatch map[int]bool   // ... and carries the matching label
	nonce     int
	note      string
}

func (d *dynRun) setNote(s string) {
	if d.note == "" {
		d.note = s
	}
}

func (d *dynRun) nsObj(n int, match bool) *corev1.Namespace {
	d.nonce++
	v := "no"
	if match {
		v = "yes"
	}
	ns := &corev1.Namespace{}
	ns.Name = nsName(n)
	ns.Labels = map[string]string{dynLabel: v}
	ns.Annotations = map[string]string{"touch": strconv.Itoa(d.nonce)}
	return ns
}

func (d *dynRun) config() *kubeeventsmanager.MonitorConfig {
	mc := monitorConfig(SnapIn{Names: d.in.Names, Filter: d.in.Filter, DropFull: d.in.DropFull})
	sel := &metav1.LabelSelector{MatchLabels: map[string]string{dynLabel: "yes"}}
	if d.in.SelExpr {
		sel = &metav1.LabelSelector{MatchExpressions: []metav1.LabelSelectorRequirement{{Key: dynLabel, Operator: metav1.LabelSelectorOpIn, Values: []string{"yes"}}}}
	}
	mc.NamespaceSelector = &kemtypes.NamespaceSelector{LabelSelector: sel}
	return mc
}

func (d *dynRun) views() []View { return viewsOf(d.vm) }

func viewsOf(vm *kubeeventsmanager.VerifC01Monitor) []View {
	var r []View
	for _, o := range vm.M.Snapshot() {
		r = append(r, toView(o))
	}
	return r
}

func (d *dynRun) compConfig() *kubeeventsmanager.MonitorConfig {
	c := d.in.Comp
	mc := monitorConfig(SnapIn{Names: d.in.Names, Namespaces: c.Nss, Filter: c.Filter, DropFull: c.DropFull})
	mc.Metadata.MonitorId = "mc"
	if !c.SameDebug {
		mc.Metadata.DebugName = "c02-comp"
	}
	return mc
}

func (d *dynRun) compCovers(n int) bool {
	if d.in.Comp == nil || d.vmc == nil {
		return false
	}
	for _, x := range d.in.Comp.Nss {
		if x == n {
			return true
		}
	}
	return false
}

// compExpected: the harness's own bookkeeping of what the companion shows (a waiting criterion only)
func (d *dynRun) compExpected() []View {
	var r []View
	for k, p := range d.objs {
		in := false
		for _, n := range d.in.Comp.Nss {
			in = in || n == k[0]
		}
		if !in {
			continue
		}
		if len(d.in.Names) > 0 {
			ok := false
			for _, n := range d.in.Names {
				ok = ok || n == k[1]
			}
			if !ok {
				continue
			}
		}
		v := View{k[0], k[1], -1, -1}
		if d.in.Comp.Filter {
			v.Fr = p % 10
		}
		if !d.in.Comp.DropFull {
			v.Full = p
		}
		r = append(r, v)
	}
	sort.Slice(r, func(i, j int) bool {
		if r[i].Ns != r[j].Ns {
			return r[i].Ns < r[j].Ns
		}
		return r[i].Name < r[j].Name
	})
	return r
}

// expected is only a waiting criterion (what the harness's own bookkeeping says the quiet
// state is); the judgement is Coq's.
func (d *dynRun) expected() []View {
	var r []View
	for k, p := range d.objs {
		if !d.nsLab[k[0]] {
			continue
		}
		if len(d.in.Names) > 0 {
			ok := false
			for _, n := range d.in.Names {
				ok = ok || n == k[1]
			}
			if !ok {
				continue
			}
		}
		v := View{k[0], k[1], -1, -1}
		if d.in.Filter {
			v.Fr = p % 10
		}
		if !d.in.DropFull {
			v.Full = p
		}
		r = append(r, v)
	}
	sort.Slice(r, func(i, j int) bool {
		if r[i].Ns != r[j].Ns {
			return r[i].Ns < r[j].Ns
		}
		return r[i].Name < r[j].Name
	})
	return r
}

// settle waits until the snapshot has reached the expected quiet state and stays there for
// two more reads, or for the deadline, and returns the last snapshot read.
func (d *dynRun) settle() []View { return settleOf(d.vm, d.expected()) }

func settleOf(vm *kubeeventsmanager.VerifC01Monitor, expected []View) []View {
	want := fmt.Sprint(expected)
	deadline := time.Now().Add(2 * time.Second)
	same := 0
	cur := viewsOf(vm)
	for {
		if fmt.Sprint(cur) == want {
			same++
			if same >= 3 {
				return cur
			}
		} else {
			same = 0
		}
		if time.Now().After(deadline) {
			return cur
		}
		time.Sleep(2 * time.Millisecond)
		cur = viewsOf(vm)
	}
}

// waitVary waits until the namespace callback has (un)registered the namespace's informers
// (only a pacing device, like the repository's own monitor tests; on a timeout the history goes on).
func (d *dynRun) waitVary(n int, want bool) {
	deadline := time.Now().Add(500 * time.Millisecond)
	for {
		_, ok := d.vm.M.VaryingInformers.Load(nsName(n))
		if ok == want || time.Now().After(deadline) {
			return
		}
		time.Sleep(time.Millisecond)
	}
}

// syncObjWatch returns when the informers (of monitor vm) that cover namespace n deliver watch
// events: a sentinel object (name n0, outside the histories) is made visible in the snapshot,
// then deleted - its disappearance can only come through the watch.  (The fake cluster ignores
// field selectors: the sentinel is seen by name-scoped informers, too.)
func syncObjWatch(ctx context.Context, fc *fake.Cluster, vm *kubeeventsmanager.VerifC01Monitor, n int) {
	dyn := fc.Client.Dynamic().Resource(gvr).Namespace(nsName(n))
	id := nsName(n) + "/ConfigMap/" + objName(0)
	wait := func(want bool) bool {
		deadline := time.Now().Add(50 * time.Millisecond)
		for {
			seen := false
			for _, o := range vm.M.Snapshot() {
				seen = seen || o.Metadata.ResourceId == id
			}
			if seen == want {
				return true
			}
			if time.Now().After(deadline) {
				return false
			}
			time.Sleep(500 * time.Microsecond)
		}
	}
	exists, nonce := false, 0
	put := func() {
		nonce++
		o := cm(Obj{n, 0, nonce % 40})
		if exists {
			dyn.Update(ctx, o, metav1.UpdateOptions{})
		} else if _, err := dyn.Create(ctx, o, metav1.CreateOptions{}); err == nil {
			exists = true
		}
	}
	deadline := time.Now().Add(2 * time.Second)
	seen := false
	for !seen && time.Now().Before(deadline) {
		put()
		seen = wait(true)
	}
	for seen && time.Now().Before(deadline) {
		dyn.Delete(ctx, objName(0), metav1.DeleteOptions{})
		exists = false
		if wait(false) {
			return
		}
		put()
		wait(true)
	}
	if exists {
		dyn.Delete(ctx, objName(0), metav1.DeleteOptions{})
	}
}

func (d *dynRun) syncWatch(n int) { syncObjWatch(d.ctx, d.fc, d.vm, n) }

// syncNsWatch returns when the namespace informer's watch delivers: a sentinel namespace (ns0,
// never holding objects) is made visible in the informer's store, then deleted - its
// disappearance can only come through the watch.
func (d *dynRun) syncNsWatch() {
	ni := d.vm.M.NamespaceInformer
	if ni == nil || ni.SharedInformer == nil {
		return
	}
	nsc := d.fc.Client.CoreV1().Namespaces()
	has := func() bool {
		_, ok, _ := ni.SharedInformer.GetStore().GetByKey(nsName(0))
		return ok
	}
	wait := func(want bool) bool {
		deadline := time.Now().Add(50 * time.Millisecond)
		for {
			if has() == want {
				return true
			}
			if time.Now().After(deadline) {
				return false
			}
			time.Sleep(500 * time.Microsecond)
		}
	}
	exists := false
	put := func() {
		if exists {
			nsc.Update(d.ctx, d.nsObj(0, true), metav1.UpdateOptions{})
		} else if _, err := nsc.Create(d.ctx, d.nsObj(0, true), metav1.CreateOptions{}); err == nil {
			exists = true
		}
	}
	deadline := time.Now().Add(2 * time.Second)
	seen := false
	for !seen && time.Now().Before(deadline) {
		put()
		seen = wait(true)
	}
	for seen && time.Now().Before(deadline) {
		nsc.Delete(d.ctx, nsName(0), metav1.DeleteOptions{})
		exists = false
		if wait(false) {
			return
		}
		put()
		wait(true)
	}
	if exists {
		nsc.Delete(d.ctx, nsName(0), metav1.DeleteOptions{})
	}
}

func (d *dynRun) matchingNss() []int {
	var r []int
	for n, l := range d.nsLab {
		if l {
			r = append(r, n)
		}
	}
	sort.Ints(r)
	return r
}

// startMonitor: AddMonitor + StartMonitor of a fresh monitor (operator start / restart).
func (d *dynRun) startMonitor(ghost *int) bool {
	kubeeventsmanager.DefaultFactoryStore.Reset()
	d.ctx, d.cancel = context.WithCancel(context.Background())
	d.vmc = nil
	startComp := func() bool {
		if d.in.Comp == nil {
			return true
		}
		vmc, err := kubeeventsmanager.NewVerifC01Monitor(d.ctx, d.fc.Client, d.mstor, d.compConfig())
		if err != nil {
			d.setNote("create companion: " + err.Error())
			return false
		}
		vmc.M.Start(d.ctx)
		vmc.M.EnableKubeEventCb()
		d.vmc = vmc
		for _, n := range d.in.Comp.Nss {
			syncObjWatch(d.ctx, d.fc, vmc, n)
		}
		return true
	}
	if d.in.Comp != nil && d.in.Comp.First && !startComp() {
		return false
	}
	vm, err := kubeeventsmanager.NewVerifC01Monitor(d.ctx, d.fc.Client, d.mstor, d.config())
	if err != nil {
		d.setNote("create: " + err.Error())
		return false
	}
	d.vm = vm
	sync := d.matchingNss()
	if ghost != nil {
		// the namespace stops matching after the initial namespace list and before the start
		if d.inFake[*ghost] {
			d.fc.Client.CoreV1().Namespaces().Delete(d.ctx, nsName(*ghost), metav1.DeleteOptions{})
			d.inFake[*ghost], d.fakeMatch[*ghost] = false, false
		}
		d.nsLab[*ghost] = false
	}
	vm.M.Start(d.ctx)
	vm.M.EnableKubeEventCb()
	d.syncNsWatch()
	for _, n := range sync {
		d.waitVary(n, true)
		d.syncWatch(n)
	}
	if d.in.Comp != nil && !d.in.Comp.First && !startComp() {
		return false
	}
	return true
}

func runDyn(in DynIn, ops []DynOp) Obs {
	var o Obs
	log.SetDefaultLevel(log.LevelFatal)
	kubeeventsmanager.DefaultSyncTime = time.Millisecond
	d := &dynRun{in: in, fc: fake.NewFakeCluster(fake.ClusterVersionV119),
		objs: map[[2]int]int{}, nsLab: map[int]bool{}, inFake: map[int]bool{}, fakeMatch: map[int]bool{}}
	bg := context.Background()
	d.mstor = metricstorage.NewMetricStorage(bg, "c02d_", true, log.NewNop())
	nsc := d.fc.Client.CoreV1().Namespaces()
	dync := d.fc.Client.Dynamic().Resource(gvr)
	putNs := func(n int, match bool) {
		var err error
		if d.inFake[n] {
			_, err = nsc.Update(bg, d.nsObj(n, match), metav1.UpdateOptions{})
		} else {
			_, err = nsc.Create(bg, d.nsObj(n, match), metav1.CreateOptions{})
		}
		if err != nil {
			d.setNote("namespace: " + err.Error())
		}
		d.inFake[n], d.fakeMatch[n] = true, match
	}
	delNs := func(n int) {
		if d.inFake[n] {
			if err := nsc.Delete(bg, nsName(n), metav1.DeleteOptions{}); err != nil {
				d.setNote("namespace delete: " + err.Error())
			}
		}
		d.inFake[n], d.fakeMatch[n] = false, false
	}
	putObj := func(ob Obj) {
		var err error
		k := [2]int{ob.Ns, ob.Name}
		if _, ok := d.objs[k]; ok {
			_, err = dync.Namespace(nsName(ob.Ns)).Update(bg, cm(ob), metav1.UpdateOptions{})
		} else {
			_, err = dync.Namespace(nsName(ob.Ns)).Create(bg, cm(ob), metav1.CreateOptions{})
		}
		if err != nil {
			d.setNote("object: " + err.Error())
		}
		d.objs[k] = ob.Proj
	}
	// the cluster before the operator starts: non-matching namespaces are really there
	// (another label value): the label selector of the initial lists is exercised
	for _, s := range in.Nss {
		putNs(s.Ns, s.Label)
		d.nsLab[s.Ns] = s.Label
	}
	for _, ob := range in.Initial {
		putObj(ob)
	}
	if !d.startMonitor(in.GhostNs) {
		o.Note = d.note
		return o
	}
	defer func() { d.cancel() }()
	for _, op := range ops {
		switch op.Kind {
		case "create", "modify":
			putObj(op.obj())
		case "delete":
			k := [2]int{op.Ns, op.Name}
			if _, ok := d.objs[k]; ok {
				if err := dync.Namespace(nsName(op.Ns)).Delete(bg, objName(op.Name), metav1.DeleteOptions{}); err != nil {
					d.setNote("object delete: " + err.Error())
				}
				delete(d.objs, k)
			}
		case "ns_set":
			was := d.nsLab[op.Ns]
			d.nsLab[op.Ns] = op.Label
			switch {
			case op.Label:
				// create it labelled / give it the label (the filtered watch: ADDED) / a
				// change that keeps it matching (MODIFIED)
				if !was && d.compCovers(op.Ns) {
					// the namespace's shared informer already runs (for the companion) and the first
					// binding's new informers attach to it: it is brought up to date first
					syncObjWatch(d.ctx, d.fc, d.vmc, op.Ns)
				}
				putNs(op.Ns, true)
				if !was {
					d.waitVary(op.Ns, true)
					d.syncWatch(op.Ns)
				}
			case d.inFake[op.Ns] && d.fakeMatch[op.Ns]:
				// it loses the label: the filtered watch reports DELETED
				delNs(op.Ns)
				d.waitVary(op.Ns, false)
			}
		case "ns_del":
			was := d.nsLab[op.Ns]
			delete(d.nsLab, op.Ns)
			delNs(op.Ns)
			if was {
				d.waitVary(op.Ns, false)
			}
		case "restart":
			d.cancel()
			if !d.startMonitor(nil) {
				o.Note = d.note
				return o
			}
		case "read":
			v := d.settle()
			if v == nil {
				v = []View{}
			}
			o.Dyn = append(o.Dyn, v)
			if d.vmc != nil {
				cv := settleOf(d.vmc, d.compExpected())
				if cv == nil {
					cv = []View{}
				}
				o.DynC = append(o.DynC, cv)
			}
		default:
			d.setNote("unknown op " + op.Kind)
		}
	}
	o.Note = d.note
	return o
}

// ---- rendering ----

func coqDynOp(o DynOp) string {
	switch o.Kind {
	case "create", "modify", "delete":
		k := map[string]string{"create": "OCreate", "modify": "OModify", "delete": "ODelete"}[o.Kind]
		return fmt.Sprintf("DObj %s %s", k, coqObj(o.obj()))
	case "ns_set":
		return fmt.Sprintf("DNs %d %s", o.Ns, core.CoqBool(o.Label))
	case "ns_del":
		return fmt.Sprintf("DNsDel %d", o.Ns)
	case "restart":
		return "DRestart"
	case "read":
		return "DRead"
	}
	return "DUnknown"
}

func renderDyn(in DynIn, ops []DynOp, o Obs, bad string, c *core.Case) {
	ghost := "None"
	if in.GhostNs != nil {
		ghost = fmt.Sprintf("(Some %d)", *in.GhostNs)
	}
	dynIn := fmt.Sprintf("(mkDynIn %s %s %s %s %s %s %s)",
		core.CoqList(in.Names, core.CoqN), core.CoqList(in.Initial, coqObj),
		core.CoqList(in.Nss, func(s NsState) string { return fmt.Sprintf("(%d,%s)", s.Ns, core.CoqBool(s.Label)) }),
		ghost, core.CoqList(ops, coqDynOp), core.CoqBool(in.Filter), core.CoqBool(!in.DropFull))
	coqReads := func(rs [][]View) string {
		return core.CoqList(rs, func(vs []View) string { return core.CoqList(vs, coqView) })
	}
	if in.Comp == nil {
		c.Coq = fmt.Sprintf("CDyn %s %s %s", dynIn, coqReads(o.Dyn), bad)
	} else {
		c.Coq = fmt.Sprintf("CDyn2 %s (mkDComp %s %s %s %s) %s %s %s", dynIn,
			core.CoqList(in.Comp.Nss, core.CoqN), core.CoqList(in.Names, core.CoqN), core.CoqBool(in.Comp.Filter), core.CoqBool(!in.Comp.DropFull),
			coqReads(o.Dyn), coqReads(o.DynC), bad)
	}
	c.Key = "dyn" + fmt.Sprint(in.Names, in.Initial, in.Nss, in.GhostNs != nil, ops, in.Filter, in.DropFull, in.SelExpr)
	if in.Comp != nil {
		c.Key += fmt.Sprint(*in.Comp)
	}

	// what the history contains (tags): a namespace found by the initial list / by a restart's
	// initial list / at run time that stops matching while it holds objects, etc.
	objs := map[[2]int]bool{}
	lab := map[int]bool{}
	origin := map[int]string{} // how the namespace's current informers came to be: initial | restart | late
	for _, s := range in.Nss {
		lab[s.Ns] = s.Label
		if s.Label {
			origin[s.Ns] = "initial"
		}
	}
	for _, ob := range in.Initial {
		objs[[2]int{ob.Ns, ob.Name}] = true
	}
	holds := func(n int) bool {
		for k := range objs {
			if k[0] == n {
				return true
			}
		}
		return false
	}
	stops := map[string]bool{}
	rematch, startsWithObjects, restarts, reads, nsOps, objOps, touch := false, false, 0, 0, 0, 0, false
	stoppedOnce := map[int]bool{}
	stop := func(n int) {
		if lab[n] {
			w := "empty"
			if holds(n) {
				w = "holding-objects"
			}
			stops[origin[n]+"-ns-stops-"+w] = true
			stoppedOnce[n] = true
		}
	}
	for _, op := range ops {
		switch op.Kind {
		case "create", "modify":
			objs[[2]int{op.Ns, op.Name}] = true
			objOps++
		case "delete":
			delete(objs, [2]int{op.Ns, op.Name})
			objOps++
		case "ns_set":
			nsOps++
			if op.Label && !lab[op.Ns] {
				origin[op.Ns] = "late"
				rematch = rematch || stoppedOnce[op.Ns]
				startsWithObjects = startsWithObjects || holds(op.Ns)
			}
			if op.Label && lab[op.Ns] {
				touch = true
			}
			if !op.Label {
				stop(op.Ns)
			}
			lab[op.Ns] = op.Label
		case "ns_del":
			nsOps++
			stop(op.Ns)
			delete(lab, op.Ns)
		case "restart":
			restarts++
			for n, l := range lab {
				if l {
					origin[n] = "restart"
				}
			}
		case "read":
			reads++
		}
	}
	c.Tags = []string{"dyn", fmt.Sprintf("dyn-ops:%02d", len(ops)/4*4), fmt.Sprintf("dyn-reads:%d", reads), fmt.Sprintf("dyn-restarts:%d", restarts),
		fmt.Sprintf("dyn-namesel:%v", len(in.Names) > 0), fmt.Sprintf("dyn-filter:%v", in.Filter), fmt.Sprintf("dyn-keepfull:%v", !in.DropFull),
		fmt.Sprintf("dyn-selector-expressions:%v", in.SelExpr), fmt.Sprintf("dyn-ns-rematches:%v", rematch),
		fmt.Sprintf("dyn-ns-starts-matching-with-objects:%v", startsWithObjects), fmt.Sprintf("dyn-ns-touched-while-matching:%v", touch),
		fmt.Sprintf("dyn-ghost-ns:%v", in.GhostNs != nil)}
	for _, k := range []string{"initial", "restart", "late"} {
		for _, w := range []string{"holding-objects", "empty"} {
			if stops[k+"-ns-stops-"+w] {
				c.Tags = append(c.Tags, "dyn-"+k+"-ns-stops-"+w)
			}
		}
	}
	if in.Comp != nil {
		c.Tags = append(c.Tags, "dyn-companion", fmt.Sprintf("dyn-companion-first:%v", in.Comp.First), fmt.Sprintf("dyn-companion-same-debug-name:%v", in.Comp.SameDebug))
	}
	c.Nontrivial = reads >= 1 && nsOps+objOps >= 3
}

// ---- generation ----

func genDyn(r *core.Rng, nOps int) (DynIn, []DynOp) {
	var in DynIn
	onlyName := 0
	if r.Chance(25) {
		// the fake cluster ignores field selectors: one selected name, carried by every object
		onlyName = 1 + r.Intn(3)
		in.Names = []int{onlyName}
		if r.Chance(30) {
			in.Names = append(in.Names, onlyName)
		}
	}
	lab := map[int]bool{}
	exists := map[int]bool{}
	for n := 1; n <= 3; n++ {
		switch x := r.Intn(100); {
		case x < 55:
			in.Nss = append(in.Nss, NsState{n, true})
			lab[n], exists[n] = true, true
		case x < 75:
			in.Nss = append(in.Nss, NsState{n, false})
			exists[n] = true
		}
	}
	state := map[[2]int]int{}
	pick := func() (int, int) {
		if onlyName != 0 {
			return 1 + r.Intn(3), onlyName
		}
		return 1 + r.Intn(3), 1 + r.Intn(3)
	}
	for i := 0; i < r.Intn(5); i++ {
		ns, n := pick()
		if _, ok := state[[2]int{ns, n}]; !ok {
			p := r.Intn(40)
			state[[2]int{ns, n}] = p
			in.Initial = append(in.Initial, Obj{ns, n, p})
		}
	}
	var ops []DynOp
	for len(ops) < nOps {
		switch x := r.Intn(100); {
		case x < 50: // object operation
			ns, n := pick()
			cur, ok := state[[2]int{ns, n}]
			switch {
			case !ok:
				p := r.Intn(40)
				state[[2]int{ns, n}] = p
				ops = append(ops, DynOp{Kind: "create", Ns: ns, Name: n, Proj: p})
			case r.Chance(35):
				delete(state, [2]int{ns, n})
				ops = append(ops, DynOp{Kind: "delete", Ns: ns, Name: n, Proj: cur})
				if r.Chance(40) {
					// the object "moves" to another namespace
					ns2 := 1 + (ns+r.Intn(2))%3
					state[[2]int{ns2, n}] = cur
					ops = append(ops, DynOp{Kind: "create", Ns: ns2, Name: n, Proj: cur})
				}
			default:
				p := r.Intn(40)
				if r.Chance(30) {
					p = cur%10 + 10*((cur/10+1+r.Intn(3))%4)
				}
				state[[2]int{ns, n}] = p
				ops = append(ops, DynOp{Kind: "modify", Ns: ns, Name: n, Proj: p})
			}
		case x < 82: // namespace operation
			n := 1 + r.Intn(3)
			switch {
			case lab[n] && r.Chance(70): // stops matching
				if r.Bool() {
					ops = append(ops, DynOp{Kind: "ns_set", Ns: n, Label: false})
					lab[n] = false
				} else {
					ops = append(ops, DynOp{Kind: "ns_del", Ns: n})
					lab[n], exists[n] = false, false
					if r.Chance(30) { // as a real cluster does: its objects go, too
						for nm := 1; nm <= 3; nm++ {
							if p, ok := state[[2]int{n, nm}]; ok {
								ops = append(ops, DynOp{Kind: "delete", Ns: n, Name: nm, Proj: p})
								delete(state, [2]int{n, nm})
							}
						}
					}
				}
			case lab[n]: // a change that keeps it matching
				ops = append(ops, DynOp{Kind: "ns_set", Ns: n, Label: true})
			case r.Chance(75): // starts matching (created with the label, or relabelled)
				ops = append(ops, DynOp{Kind: "ns_set", Ns: n, Label: true})
				lab[n], exists[n] = true, true
			case exists[n] && r.Bool():
				ops = append(ops, DynOp{Kind: "ns_del", Ns: n})
				exists[n] = false
			default:
				ops = append(ops, DynOp{Kind: "ns_set", Ns: n, Label: false})
				exists[n] = true
			}
		case x < 88:
			ops = append(ops, DynOp{Kind: "restart"})
		default:
			ops = append(ops, DynOp{Kind: "read"})
		}
	}
	ops = append(ops, DynOp{Kind: "read"})
	in.Filter = r.Chance(50)
	in.DropFull = r.Chance(25)
	in.SelExpr = r.Chance(30)
	return in, ops
}

func dynCorpus(add func(Input, string)) {
	rd := DynOp{Kind: "read"}
	nsSet := func(n int, l bool) DynOp { return DynOp{Kind: "ns_set", Ns: n, Label: l} }
	nsDel := func(n int) DynOp { return DynOp{Kind: "ns_del", Ns: n} }
	ob := func(k string, ns, n, p int) DynOp { return DynOp{Kind: k, Ns: ns, Name: n, Proj: p} }
	c := func(in DynIn, ops ...DynOp) { add(Input{Dyn: &in, DynOps: ops}, "corpus") }
	// trigger F32 (recorded finding): the namespace stops matching between the monitor's initial
	// namespace list and the start of its namespace informer
	one := 1
	add(Input{Dyn: &DynIn{Nss: []NsState{{1, true}}, Initial: []Obj{{1, 1, 1}}, GhostNs: &one}, DynOps: []DynOp{rd, ob("create", 1, 2, 5), rd}}, "trigger-F32")
	// a namespace found by the initial list loses its label / is deleted while it holds objects
	c(DynIn{Nss: []NsState{{1, true}}, Initial: []Obj{{1, 1, 1}}}, rd, nsSet(1, false), rd, ob("create", 1, 2, 2), rd)
	c(DynIn{Nss: []NsState{{1, true}, {2, true}}, Initial: []Obj{{1, 1, 1}, {2, 1, 2}}}, nsDel(2), rd)
	// a namespace that starts matching at run time (holding objects already: they must be shown), then stops
	c(DynIn{Nss: []NsState{{1, true}, {2, false}}, Initial: []Obj{{1, 1, 1}, {2, 2, 5}}}, nsSet(2, true), rd, ob("create", 2, 3, 7), rd, nsDel(2), rd)
	c(DynIn{}, nsSet(3, true), ob("create", 3, 1, 4), rd, nsSet(3, false), rd)
	// stops matching, its objects change meanwhile, matches again
	c(DynIn{Nss: []NsState{{1, true}}, Initial: []Obj{{1, 1, 11}, {1, 2, 12}}, Filter: true}, nsSet(1, false), ob("modify", 1, 1, 21), ob("delete", 1, 2, 12), ob("create", 1, 3, 3), rd, nsSet(1, true), rd)
	// a namespace that existed at a restart stops matching afterwards
	c(DynIn{}, nsSet(1, true), ob("create", 1, 1, 1), DynOp{Kind: "restart"}, rd, nsDel(1), rd)
	c(DynIn{Nss: []NsState{{2, true}}, Initial: []Obj{{2, 1, 1}}}, DynOp{Kind: "restart"}, nsSet(2, false), rd, DynOp{Kind: "restart"}, rd)
	// an object moves from a matching namespace to one that does not match and back
	c(DynIn{Nss: []NsState{{1, true}, {2, false}}, Initial: []Obj{{1, 1, 9}}}, ob("delete", 1, 1, 9), ob("create", 2, 1, 9), rd, ob("delete", 2, 1, 9), ob("create", 1, 1, 9), rd)
	// nameSelector and namespace.labelSelector together; selector written with matchExpressions
	c(DynIn{Names: []int{2, 2}, Nss: []NsState{{1, true}, {3, true}}, Initial: []Obj{{1, 2, 1}, {3, 2, 2}}, SelExpr: true, DropFull: true}, nsSet(1, false), nsSet(2, true), ob("create", 2, 2, 3), rd, nsSet(1, true), nsSet(1, true), rd)
	// beside a companion binding with static namespaces: the namespace is emptied, deleted and re-created without the
	// label (the first binding's informers are cancelled), then changes: the companion goes on showing it
	c(DynIn{Nss: []NsState{{1, true}}, Initial: []Obj{{1, 1, 1}}, Comp: &DynComp{Nss: []int{1}}},
		rd, ob("delete", 1, 1, 1), nsDel(1), nsSet(1, false), ob("create", 1, 2, 2), rd, ob("modify", 1, 2, 3), rd)
	c(DynIn{Nss: []NsState{{1, true}, {2, true}}, Comp: &DynComp{Nss: []int{1, 2}, SameDebug: true, First: true, Filter: true}},
		ob("create", 1, 1, 11), nsSet(1, false), ob("modify", 1, 1, 22), ob("create", 2, 1, 3), rd, nsSet(2, false), ob("delete", 2, 1, 3), rd, nsSet(1, true), rd)
	c(DynIn{Nss: []NsState{{1, true}}, Comp: &DynComp{Nss: []int{1}, SameDebug: true}},
		ob("create", 1, 1, 1), DynOp{Kind: "restart"}, nsSet(1, false), ob("create", 1, 2, 2), rd)
	// no namespace matches at all
	c(DynIn{Nss: []NsState{{1, false}}, Initial: []Obj{{1, 1, 1}}}, rd, ob("create", 2, 1, 1), rd)
}
