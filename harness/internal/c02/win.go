// win: the START WINDOW of a monitor (model coq/theories/C02_Win.v).
//
// A real monitor is CREATED on the fake cluster (NewMonitor + CreateInformers: loadExistedObjects,
// LIST #1), then the cluster is CHANGED (objects modified inside / outside what the jqFilter
// selects, deleted, deleted and re-created with other content, created - several of them), then
// the monitor is STARTED (the shared informers' own LIST #2, delivered as OnAdd with
// isInInitialList, + WATCH); after that the history goes on (or not), and at quiescence
// Snapshot() is compared entry by entry with the matching objects of the cluster as it is then.
// Static bindings (named namespaces / all namespaces) and namespace.labelSelector bindings (the
// informers of the namespaces found by the initial namespace list), at an operator start and at a
// restart (a previous monitor has followed a first part of the history and was cancelled).
package c02

import (
	"context"
	"fmt"
	"sort"
	"time"

	"github.com/deckhouse/deckhouse/pkg/log"
	metav1 "k8s.io/apimachinery/pkg/apis/meta/v1"

	"github.com/flant/kube-client/fake"
	kubeeventsmanager "github.com/flant/shell-operator/pkg/kube_events_manager"
	metricstorage "github.com/flant/shell-operator/pkg/metric_storage"

	"verifharness/internal/core"
)

// WinIn: create / modify upsert, delete of a missing object is a no-op (as in the model's cluster).
type WinIn struct {
	Dyn      bool    `json:"dyn"`             // namespace.labelSelector binding
	Nss      []int   `json:"nss"`             // static: namespace.nameSelector.matchNames (empty: all); dyn: the namespaces carrying the label
	Other    []int   `json:"other,omitempty"` // dyn: namespaces that exist without the label
	Names    []int   `json:"names"`
	Initial  []Obj   `json:"initial"`
	Pre      []ObjOp `json:"pre,omitempty"` // before this monitor is created (under a previous operator instance when restart)
	Restart  bool    `json:"restart"`
	Window   []ObjOp `json:"window"` // between the creation of the monitor and its start
	After    []ObjOp `json:"after,omitempty"`
	Filter   bool    `json:"filter"`
	DropFull bool    `json:"drop_full"`
	SelExpr  bool    `json:"sel_expr,omitempty"`
}

func (in WinIn) matches(ns, name int) bool {
	member := func(x int, l []int) bool {
		for _, y := range l {
			if x == y {
				return true
			}
		}
		return false
	}
	if in.Dyn || len(in.Nss) > 0 {
		if !member(ns, in.Nss) {
			return false
		}
	}
	return len(in.Names) == 0 || member(name, in.Names)
}

// winExpected: the harness's own bookkeeping of the quiet state (a waiting criterion only).
func winExpected(in WinIn, cur map[[2]int]int) []View {
	var r []View
	for k, p := range cur {
		if !in.matches(k[0], k[1]) {
			continue
		}
		v := View{k[0], k[1], -1, -1}
		if in.Filter {
			v.Fr = p % 10
		}
		if !in.DropFull {
			v.Full = p
		}
		r = append(r, v)
	}
	sort.Slice(r, func(i, j int) bool {
		if r[i].Ns != r[j].Ns {
			return r[i].Ns < r[j].Ns
		}
		return r[i].Name < r[j].Name
	})
	return r
}

func runWin(in WinIn) Obs {
	var o Obs
	log.SetDefaultLevel(log.LevelFatal)
	kubeeventsmanager.DefaultSyncTime = time.Millisecond
	kubeeventsmanager.DefaultFactoryStore.Reset()
	fc := fake.NewFakeCluster(fake.ClusterVersionV119)
	bg := context.Background()
	mstor := metricstorage.NewMetricStorage(bg, "c02w_", true, log.NewNop())
	dync := fc.Client.Dynamic().Resource(gvr)
	note := func(s string) {
		if o.Note == "" {
			o.Note = s
		}
	}
	cur := map[[2]int]int{}
	apply := func(op ObjOp) {
		k := [2]int{op.Ns, op.Name}
		var err error
		switch op.Kind {
		case "create", "modify":
			if _, ok := cur[k]; ok {
				_, err = dync.Namespace(nsName(op.Ns)).Update(bg, cm(op.Obj), metav1.UpdateOptions{})
			} else {
				_, err = dync.Namespace(nsName(op.Ns)).Create(bg, cm(op.Obj), metav1.CreateOptions{})
			}
			cur[k] = op.Proj
		case "delete":
			if _, ok := cur[k]; ok {
				err = dync.Namespace(nsName(op.Ns)).Delete(bg, objName(op.Name), metav1.DeleteOptions{})
				delete(cur, k)
			}
		default:
			note("unknown op " + op.Kind)
		}
		if err != nil {
			note(op.Kind + ": " + err.Error())
		}
	}
	var mkConfig func() *kubeeventsmanager.MonitorConfig
	if in.Dyn {
		d := &dynRun{in: DynIn{Names: in.Names, Filter: in.Filter, DropFull: in.DropFull, SelExpr: in.SelExpr}}
		nsc := fc.Client.CoreV1().Namespaces()
		for _, n := range in.Nss {
			if _, err := nsc.Create(bg, d.nsObj(n, true), metav1.CreateOptions{}); err != nil {
				note("namespace: " + err.Error())
			}
		}
		for _, n := range in.Other {
			if _, err := nsc.Create(bg, d.nsObj(n, false), metav1.CreateOptions{}); err != nil {
				note("namespace: " + err.Error())
			}
		}
		mkConfig = d.config
	} else {
		mkConfig = func() *kubeeventsmanager.MonitorConfig {
			return monitorConfig(SnapIn{Namespaces: in.Nss, Names: in.Names, Filter: in.Filter, DropFull: in.DropFull})
		}
	}
	// the informers of vm deliver watch events (dyn.go: syncObjWatch)
	syncAll := func(ctx context.Context, vm *kubeeventsmanager.VerifC01Monitor) {
		if !in.Dyn && len(in.Nss) == 0 {
			syncObjWatch(ctx, fc, vm, 1)
			return
		}
		done := map[int]bool{}
		for _, n := range in.Nss {
			if !done[n] {
				done[n] = true
				syncObjWatch(ctx, fc, vm, n)
			}
		}
	}
	for _, ob := range in.Initial {
		apply(ObjOp{"create", ob})
	}
	if in.Restart {
		// the previous operator instance: its monitor follows the first part of the history
		ctx0, cancel0 := context.WithCancel(bg)
		vm0, err := kubeeventsmanager.NewVerifC01Monitor(ctx0, fc.Client, mstor, mkConfig())
		if err != nil {
			cancel0()
			o.Note = "create (previous instance): " + err.Error()
			return o
		}
		vm0.M.Start(ctx0)
		vm0.M.EnableKubeEventCb()
		syncAll(ctx0, vm0)
		for _, op := range in.Pre {
			apply(op)
		}
		stableSnapshot(vm0, winExpected(in, cur))
		cancel0()
		kubeeventsmanager.DefaultFactoryStore.Reset()
	} else {
		for _, op := range in.Pre {
			apply(op)
		}
	}
	ctx, cancel := context.WithCancel(bg)
	defer cancel()
	// AddMonitor: CreateInformers, loadExistedObjects (LIST #1)
	vm, err := kubeeventsmanager.NewVerifC01Monitor(ctx, fc.Client, mstor, mkConfig())
	if err != nil {
		o.Note = "create: " + err.Error()
		return o
	}
	// the window
	for _, op := range in.Window {
		apply(op)
	}
	// StartMonitor: the informers' own list (LIST #2) and watch
	vm.M.Start(ctx)
	vm.M.EnableKubeEventCb()
	syncAll(ctx, vm)
	for _, op := range in.After {
		apply(op)
	}
	o.Snap = stableSnapshot(vm, winExpected(in, cur))
	return o
}

func renderWin(in WinIn, o Obs, bad string, c *core.Case) {
	c.Coq = fmt.Sprintf("CWin (mkWinIn %s %s %s %s %s %s %s %s %s %s) %s %s",
		core.CoqBool(in.Dyn), core.CoqList(in.Nss, core.CoqN), core.CoqList(in.Names, core.CoqN), core.CoqList(in.Initial, coqObj),
		core.CoqList(in.Pre, coqOp), core.CoqBool(in.Restart), core.CoqList(in.Window, coqOp), core.CoqList(in.After, coqOp),
		core.CoqBool(in.Filter), core.CoqBool(!in.DropFull), core.CoqList(o.Snap, coqView), bad)
	c.Key = "win" + fmt.Sprint(in.Dyn, in.Nss, in.Other, in.Names, in.Initial, in.Pre, in.Restart, in.Window, in.After, in.Filter, in.DropFull, in.SelExpr)
	// what the window contains
	cur := map[[2]int]int{}
	for _, ob := range in.Initial {
		cur[[2]int{ob.Ns, ob.Name}] = ob.Proj
	}
	for _, op := range in.Pre {
		if op.Kind == "delete" {
			delete(cur, [2]int{op.Ns, op.Name})
		} else {
			cur[[2]int{op.Ns, op.Name}] = op.Proj
		}
	}
	listed := map[[2]int]int{} // LIST #1
	for k, v := range cur {
		listed[k] = v
	}
	inside, outside, created := false, false, false
	for _, op := range in.Window {
		k := [2]int{op.Ns, op.Name}
		old, ok := cur[k]
		switch {
		case op.Kind == "delete":
			delete(cur, k)
			continue
		case !ok:
			if _, was := listed[k]; !was {
				created = created || in.matches(op.Ns, op.Name)
			}
		case in.matches(op.Ns, op.Name) && old%10 != op.Proj%10:
			inside = true
		case in.matches(op.Ns, op.Name) && old != op.Proj:
			outside = true
		}
		cur[k] = op.Proj
	}
	recreated, gone := false, false
	deletedInWindow := map[[2]int]bool{}
	for _, op := range in.Window {
		if op.Kind == "delete" {
			deletedInWindow[[2]int{op.Ns, op.Name}] = true
		}
	}
	for k, v := range listed {
		if !in.matches(k[0], k[1]) {
			continue
		}
		if now, ok := cur[k]; !ok {
			gone = true
		} else if deletedInWindow[k] && now != v {
			recreated = true
		}
	}
	c.Tags = []string{"win", fmt.Sprintf("win-dyn:%v", in.Dyn), fmt.Sprintf("win-restart:%v", in.Restart),
		fmt.Sprintf("win-filter:%v", in.Filter), fmt.Sprintf("win-keepfull:%v", !in.DropFull),
		fmt.Sprintf("win-namesel:%v", len(in.Names) > 0), fmt.Sprintf("win-nssel:%v", in.Dyn || len(in.Nss) > 0),
		fmt.Sprintf("win-window-ops:%d", len(in.Window)), fmt.Sprintf("win-quiet-after-start:%v", len(in.After) == 0),
		fmt.Sprintf("win-modified-inside-filter:%v", inside), fmt.Sprintf("win-modified-outside-filter:%v", outside),
		fmt.Sprintf("win-deleted-and-recreated:%v", recreated), fmt.Sprintf("win-created:%v", created),
		fmt.Sprintf("win-gone-at-start:%v", gone)}
	c.Nontrivial = len(in.Window) >= 1
}

func genWin(r *core.Rng) WinIn {
	var in WinIn
	in.Dyn = r.Chance(40)
	if in.Dyn {
		for n := 1; n <= 3; n++ {
			switch x := r.Intn(100); {
			case x < 60:
				in.Nss = append(in.Nss, n)
			case x < 85:
				in.Other = append(in.Other, n)
			}
		}
		in.SelExpr = r.Chance(30)
	} else if r.Chance(60) {
		for n := 1; n <= 3; n++ {
			if r.Chance(55) {
				in.Nss = append(in.Nss, n)
			}
		}
		if r.Chance(15) && len(in.Nss) > 0 {
			in.Nss = append(in.Nss, in.Nss[0])
		}
	}
	// the fake cluster ignores field selectors: one selected name, carried by every object
	onlyName := 0
	if r.Chance(30) {
		onlyName = 1 + r.Intn(3)
		in.Names = []int{onlyName}
		if r.Chance(40) {
			in.Names = append(in.Names, onlyName)
		}
	}
	state := map[[2]int]int{}
	pick := func() (int, int) {
		ns := 1 + r.Intn(3)
		if len(in.Nss) > 0 && r.Chance(60) { // mostly where the binding looks
			ns = in.Nss[r.Intn(len(in.Nss))]
		}
		if onlyName != 0 {
			return ns, onlyName
		}
		return ns, 1 + r.Intn(3)
	}
	other := func(cur int, keepProj bool) int {
		if keepProj { // only what the filter does not select changes
			return cur%10 + 10*((cur/10+1+r.Intn(3))%4)
		}
		return (cur%10+1+r.Intn(9))%10 + 10*r.Intn(4)
	}
	step := func(ops *[]ObjOp, ghosts int) {
		ns, n := pick()
		k := [2]int{ns, n}
		cur, ok := state[k]
		switch x := r.Intn(100); {
		case !ok:
			p := r.Intn(40)
			state[k] = p
			*ops = append(*ops, ObjOp{"create", Obj{ns, n, p}})
		case x < 30:
			p := other(cur, false)
			state[k] = p
			*ops = append(*ops, ObjOp{"modify", Obj{ns, n, p}})
		case x < 55:
			p := other(cur, true)
			state[k] = p
			*ops = append(*ops, ObjOp{"modify", Obj{ns, n, p}})
		case x < 60: // nothing changes
			*ops = append(*ops, ObjOp{"modify", Obj{ns, n, cur}})
		case x < 60+ghosts: // deleted for good
			delete(state, k)
			*ops = append(*ops, ObjOp{"delete", Obj{ns, n, cur}})
		default: // deleted and re-created with other content
			p := other(cur, r.Chance(30))
			state[k] = p
			*ops = append(*ops, ObjOp{"delete", Obj{ns, n, cur}}, ObjOp{"create", Obj{ns, n, p}})
		}
	}
	for j, n := 0, 1+r.Intn(4); j < n; j++ {
		ns, nm := pick()
		if _, ok := state[[2]int{ns, nm}]; !ok {
			p := r.Intn(40)
			state[[2]int{ns, nm}] = p
			in.Initial = append(in.Initial, Obj{ns, nm, p})
		}
	}
	in.Restart = r.Chance(35)
	if in.Restart {
		for j, n := 0, r.Intn(5); j < n; j++ {
			step(&in.Pre, 25)
		}
	}
	for j, n := 0, 1+r.Intn(4); j < n; j++ {
		step(&in.Window, 3) // a plain delete in the window is the ghost of F26: rare
	}
	if r.Chance(45) {
		for j, n := 0, 1+r.Intn(3); j < n; j++ {
			step(&in.After, 25)
		}
	}
	in.Filter = r.Chance(60)
	in.DropFull = r.Chance(25)
	return in
}

func winCorpus(add func(Input, string)) {
	c := func(in WinIn) { add(Input{Win: &in}, "corpus") }
	op := func(k string, ns, n, p int) ObjOp { return ObjOp{k, Obj{ns, n, p}} }
	// one object, changed in the window, nothing afterwards: inside the filter's projection / outside it /
	// deleted and re-created with other content / another object created
	c(WinIn{Filter: true, Initial: []Obj{{1, 1, 13}}, Window: []ObjOp{op("modify", 1, 1, 24)}})
	c(WinIn{Filter: true, Initial: []Obj{{1, 1, 13}}, Window: []ObjOp{op("modify", 1, 1, 23)}})
	c(WinIn{Initial: []Obj{{1, 1, 5}}, Window: []ObjOp{op("delete", 1, 1, 5), op("create", 1, 1, 17)}})
	c(WinIn{Filter: true, DropFull: true, Initial: []Obj{{1, 1, 1}}, Window: []ObjOp{op("create", 1, 2, 2)}})
	// several of them, named namespaces and names, and a history afterwards
	c(WinIn{Nss: []int{1, 2, 1}, Names: []int{1, 1}, Filter: true, Initial: []Obj{{1, 1, 13}, {2, 1, 4}, {3, 1, 7}},
		Window: []ObjOp{op("modify", 1, 1, 23), op("delete", 2, 1, 4), op("create", 2, 1, 18), op("modify", 3, 1, 8), op("modify", 1, 1, 35)},
		After:  []ObjOp{op("create", 3, 1, 9), op("modify", 2, 1, 19)}})
	// at a restart
	c(WinIn{Restart: true, Filter: true, Initial: []Obj{{1, 1, 1}, {1, 2, 2}}, Pre: []ObjOp{op("modify", 1, 1, 11), op("create", 2, 2, 3)},
		Window: []ObjOp{op("modify", 1, 1, 12), op("delete", 1, 2, 2), op("create", 1, 2, 26), op("create", 2, 3, 4)}})
	// namespace.labelSelector: the informers of the namespaces found by the initial namespace list
	c(WinIn{Dyn: true, Nss: []int{1}, Other: []int{2}, Filter: true, Initial: []Obj{{1, 1, 3}, {2, 1, 4}},
		Window: []ObjOp{op("modify", 1, 1, 14), op("modify", 2, 1, 5), op("create", 1, 2, 6)}})
	c(WinIn{Dyn: true, Restart: true, SelExpr: true, Nss: []int{1, 3}, Initial: []Obj{{1, 1, 3}, {3, 2, 4}}, Pre: []ObjOp{op("modify", 3, 2, 14)},
		Window: []ObjOp{op("delete", 3, 2, 14), op("create", 3, 2, 25), op("modify", 1, 1, 13)}, After: []ObjOp{op("create", 2, 1, 1)}})
	c(WinIn{Dyn: true, Other: []int{1}, Initial: []Obj{{1, 1, 3}}, Window: []ObjOp{op("modify", 1, 1, 4)}}) // no namespace carries the label
	// the ghost of F26 as a window, and the same cured by a later change of that namespace and name
	add(Input{Win: &WinIn{Initial: []Obj{{1, 1, 1}, {1, 2, 2}}, Window: []ObjOp{op("delete", 1, 1, 1), op("modify", 1, 2, 3)}}}, "trigger-F26")
	c(WinIn{Initial: []Obj{{1, 1, 1}}, Window: []ObjOp{op("delete", 1, 1, 1)}, After: []ObjOp{op("create", 1, 1, 5), op("delete", 1, 1, 5)}})
}
