// relist: histories ACROSS WATCH OUTAGES - changes the operator learns about through a re-list
// instead of a watch event (model coq/theories/C02_Relist.v, spec C02_RelistSpec.v).
//
// A real monitor with its real client-go shared informers (Reflector + DeltaFIFO) follows a history
// on the fake cluster.  A step "outage" carries object operations (Inner).  The harness
//  1. lets everything that happened so far be delivered (sentinel round trip per watched namespace);
//  2. breaks the API server for configmaps: the open watch connections are closed, a new WATCH is
//     answered 410 Gone ("too old resource version": it cannot be resumed), a LIST 503 - and waits
//     until every reflector has run into the 410 (so that none of them can slip a fresh watch in
//     without relisting: the fake tracker's watch has no resourceVersion replay);
//  3. applies the inner operations to the cluster - nobody sees them;
//  4. repairs the API server.  client-go's reflectors come back after their back-off (0.8-1.6 s the
//     first time, doubled on each further failure of the same reflector), LIST, and the shared
//     informers hand the difference to the handlers: OnAdd / OnUpdate for what is listed,
//     OnDelete(cache.DeletedFinalStateUnknown{...}) - the tombstone, by value - for what is gone;
//  5. waits (sentinel round trip again; the sentinel's deletion can only come through the NEW watch)
//     until every informer has relisted and watches again.
// A step "read" records Snapshot() (the cluster is quiet there); one more read ends the history.
// Every object write carries a resourceVersion (a cluster-wide counter, as an API server's):
// client-go hands an OnUpdate of a re-list whose resourceVersion did not change only to handlers
// that asked for a resync.
// Nothing sleeps for a fixed time; every wait is bounded and a bound is reached only when the code
// under test (or client-go) misbehaves.
package c02

import (
	"context"
	"fmt"
	"sort"
	"strconv"
	"sync"
	"time"

	"github.com/deckhouse/deckhouse/pkg/log"
	apierrors "k8s.io/apimachinery/pkg/api/errors"
	metav1 "k8s.io/apimachinery/pkg/apis/meta/v1"
	"k8s.io/apimachinery/pkg/apis/meta/v1/unstructured"
	"k8s.io/apimachinery/pkg/runtime"
	"k8s.io/apimachinery/pkg/watch"
	dynamicfake "k8s.io/client-go/dynamic/fake"
	clienttesting "k8s.io/client-go/testing"

	"github.com/flant/kube-client/fake"
	kubeeventsmanager "github.com/flant/shell-operator/pkg/kube_events_manager"
	metricstorage "github.com/flant/shell-operator/pkg/metric_storage"

	"verifharness/internal/core"
)

// RlIn: the binding and the cluster before the monitor; the history is Input.DynOps (kinds create
// modify delete - create/modify upsert, delete of a missing object is a no-op -, outage, read).
type RlIn struct {
	Dyn      bool  `json:"dyn,omitempty"`   // namespace.labelSelector binding
	Nss      []int `json:"nss"`             // static: namespace.nameSelector.matchNames (empty: all namespaces); dyn: the namespaces carrying the label
	Other    []int `json:"other,omitempty"` // dyn: namespaces that exist without the label
	SelExpr  bool  `json:"sel_expr,omitempty"`
	Names    []int `json:"names"` // nameSelector.matchNames (empty: any name)
	Initial  []Obj `json:"initial"`
	Filter   bool  `json:"filter"`
	DropFull bool  `json:"drop_full"`
}

func (in RlIn) snapIn() SnapIn {
	return SnapIn{Namespaces: in.Nss, Names: in.Names, Filter: in.Filter, DropFull: in.DropFull}
}

func (in RlIn) expected(cur map[[2]int]int) []View {
	return winExpected(WinIn{Dyn: in.Dyn, Nss: in.Nss, Names: in.Names, Filter: in.Filter, DropFull: in.DropFull}, cur)
}

// rlOutageCtl is the switch in front of the fake API server's configmaps.
type rlOutageCtl struct {
	mu       sync.Mutex
	down     bool
	watchers []watch.Interface
	gone     map[string]int // namespace -> WATCH requests answered 410 during the current outage
}

func installRlOutageCtl(fc *fake.Cluster) (*rlOutageCtl, error) {
	dyn, ok := fc.Client.Dynamic().(*dynamicfake.FakeDynamicClient)
	if !ok {
		return nil, fmt.Errorf("the fake cluster's dynamic client is %T", fc.Client.Dynamic())
	}
	oc := &rlOutageCtl{gone: map[string]int{}}
	dyn.PrependWatchReactor("configmaps", func(action clienttesting.Action) (bool, watch.Interface, error) {
		oc.mu.Lock()
		defer oc.mu.Unlock()
		if oc.down {
			oc.gone[action.GetNamespace()]++
			return true, nil, apierrors.NewResourceExpired("too old resource version")
		}
		w, err := dyn.Tracker().Watch(action.GetResource(), action.GetNamespace())
		if err != nil {
			return true, nil, err
		}
		oc.watchers = append(oc.watchers, w)
		return true, w, nil
	})
	dyn.PrependReactor("list", "configmaps", func(action clienttesting.Action) (bool, runtime.Object, error) {
		oc.mu.Lock()
		defer oc.mu.Unlock()
		if oc.down {
			return true, nil, apierrors.NewServiceUnavailable("the API server is down")
		}
		return false, nil, nil
	})
	return oc, nil
}

func (oc *rlOutageCtl) begin() {
	oc.mu.Lock()
	defer oc.mu.Unlock()
	oc.down = true
	oc.gone = map[string]int{}
	for _, w := range oc.watchers {
		w.Stop()
	}
	oc.watchers = nil
}

func (oc *rlOutageCtl) end() {
	oc.mu.Lock()
	defer oc.mu.Unlock()
	oc.down = false
}

func (oc *rlOutageCtl) goneFor(ns string) int {
	oc.mu.Lock()
	defer oc.mu.Unlock()
	return oc.gone[ns]
}

const (
	rlBound       = 3 * time.Second
	rlOutageBound = 12 * time.Second // a reflector's second back-off can take 3.2 s
)

type rlRun struct {
	in   RlIn
	fc   *fake.Cluster
	ctx  context.Context
	vm   *kubeeventsmanager.VerifC01Monitor
	oc   *rlOutageCtl
	cur  map[[2]int]int
	rv   int
	note string
}

func (d *rlRun) setNote(s string) {
	if d.note == "" {
		d.note = s
	}
}

// stamp: every write carries the next resourceVersion of the cluster-wide counter
func (d *rlRun) stamp(o *unstructured.Unstructured) *unstructured.Unstructured {
	d.rv++
	o.SetResourceVersion(strconv.Itoa(d.rv))
	return o
}

func (d *rlRun) apply(op ObjOp) {
	dync := d.fc.Client.Dynamic().Resource(gvr)
	k := [2]int{op.Ns, op.Name}
	var err error
	switch op.Kind {
	case "create", "modify":
		if _, ok := d.cur[k]; ok {
			_, err = dync.Namespace(nsName(op.Ns)).Update(d.ctx, d.stamp(cm(op.Obj)), metav1.UpdateOptions{})
		} else {
			_, err = dync.Namespace(nsName(op.Ns)).Create(d.ctx, d.stamp(cm(op.Obj)), metav1.CreateOptions{})
		}
		d.cur[k] = op.Proj
	case "delete":
		if _, ok := d.cur[k]; ok {
			err = dync.Namespace(nsName(op.Ns)).Delete(d.ctx, objName(op.Name), metav1.DeleteOptions{})
			delete(d.cur, k)
		}
	default:
		d.setNote("unknown op " + op.Kind)
	}
	if err != nil {
		d.setNote(op.Kind + ": " + err.Error())
	}
}

// watched: the namespaces a sentinel must travel through (one per reflector scope), and the
// namespace under which the fake API server sees the reflectors' requests
func (d *rlRun) watched() (sentinelNs []int, reqNs []string) {
	if len(d.in.Nss) == 0 {
		if d.in.Dyn { // no namespace carries the label: no informer
			return nil, nil
		}
		return []int{1}, []string{""}
	}
	done := map[int]bool{}
	for _, n := range d.in.Nss {
		if !done[n] {
			done[n] = true
			sentinelNs = append(sentinelNs, n)
			reqNs = append(reqNs, nsName(n))
		}
	}
	return
}

// reflectors per namespace scope: one shared informer per distinct selected name (or one)
func (d *rlRun) reflectors() int {
	seen := map[int]bool{}
	for _, n := range d.in.Names {
		seen[n] = true
	}
	if len(seen) == 0 {
		return 1
	}
	return len(seen)
}

// syncWithin returns when the informers that cover namespace n deliver watch events: a sentinel
// object (name n0, outside the histories) is made visible in the snapshot, then deleted - its
// disappearance can only come through a working watch.
func (d *rlRun) syncWithin(n int, bound time.Duration) {
	dync := d.fc.Client.Dynamic().Resource(gvr).Namespace(nsName(n))
	id := nsName(n) + "/ConfigMap/" + objName(0)
	wait := func(want bool) bool {
		deadline := time.Now().Add(50 * time.Millisecond)
		for {
			seen := false
			for _, o := range d.vm.M.Snapshot() {
				seen = seen || o.Metadata.ResourceId == id
			}
			if seen == want {
				return true
			}
			if time.Now().After(deadline) {
				return false
			}
			time.Sleep(300 * time.Microsecond)
		}
	}
	exists, nonce := false, 0
	put := func() {
		nonce++
		o := d.stamp(cm(Obj{n, 0, nonce % 40}))
		if exists {
			dync.Update(d.ctx, o, metav1.UpdateOptions{})
		} else if _, err := dync.Create(d.ctx, o, metav1.CreateOptions{}); err == nil {
			exists = true
		}
	}
	deadline := time.Now().Add(bound)
	seen := false
	for !seen && time.Now().Before(deadline) {
		put()
		seen = wait(true)
	}
	for seen && time.Now().Before(deadline) {
		dync.Delete(d.ctx, objName(0), metav1.DeleteOptions{})
		exists = false
		if wait(false) {
			return
		}
		put()
		wait(true)
	}
	if exists {
		dync.Delete(d.ctx, objName(0), metav1.DeleteOptions{})
	}
	d.setNote(fmt.Sprintf("harness: the watch of namespace %d did not deliver within %v", n, bound))
}

func (d *rlRun) syncAll(bound time.Duration) {
	ns, _ := d.watched()
	for _, n := range ns {
		d.syncWithin(n, bound)
	}
}

func (d *rlRun) outage(inner []ObjOp) {
	d.syncAll(rlBound)
	_, req := d.watched()
	d.oc.begin()
	deadline := time.Now().Add(rlBound)
	for _, ns := range req {
		for d.oc.goneFor(ns) < d.reflectors() {
			if time.Now().After(deadline) {
				d.setNote(fmt.Sprintf("harness: the reflectors of %q did not try to resume their watch within %v", ns, rlBound))
				break
			}
			time.Sleep(200 * time.Microsecond)
		}
	}
	for _, x := range inner {
		d.apply(x)
	}
	d.oc.end()
	d.syncAll(rlOutageBound)
}

func (d *rlRun) read() []View {
	d.syncAll(rlBound)
	return stableSnapshot(d.vm, d.in.expected(d.cur))
}

func runRl(in RlIn, ops []DynOp) Obs {
	var o Obs
	log.SetDefaultLevel(log.LevelFatal)
	kubeeventsmanager.DefaultSyncTime = time.Millisecond
	kubeeventsmanager.DefaultFactoryStore.Reset()
	fc := fake.NewFakeCluster(fake.ClusterVersionV119)
	ctx, cancel := context.WithCancel(context.Background())
	defer cancel()
	d := &rlRun{in: in, fc: fc, ctx: ctx, cur: map[[2]int]int{}}
	oc, err := installRlOutageCtl(fc)
	if err != nil {
		o.Note = "harness: " + err.Error()
		return o
	}
	d.oc = oc
	for _, ob := range in.Initial {
		d.apply(ObjOp{"create", ob})
	}
	mstor := metricstorage.NewMetricStorage(ctx, "c02r_", true, log.NewNop())
	mc := monitorConfig(in.snapIn())
	if in.Dyn {
		// the namespaces exist before the monitor, with / without the label; CreateInformers finds the labelled ones
		dd := &dynRun{in: DynIn{Names: in.Names, Filter: in.Filter, DropFull: in.DropFull, SelExpr: in.SelExpr}}
		nsc := fc.Client.CoreV1().Namespaces()
		for _, n := range in.Nss {
			if _, err := nsc.Create(ctx, dd.nsObj(n, true), metav1.CreateOptions{}); err != nil {
				d.setNote("namespace: " + err.Error())
			}
		}
		for _, n := range in.Other {
			if _, err := nsc.Create(ctx, dd.nsObj(n, false), metav1.CreateOptions{}); err != nil {
				d.setNote("namespace: " + err.Error())
			}
		}
		mc = dd.config()
	}
	vm, err := kubeeventsmanager.NewVerifC01Monitor(ctx, fc.Client, mstor, mc)
	if err != nil {
		o.Note = "create: " + err.Error()
		return o
	}
	d.vm = vm
	vm.M.Start(ctx)
	vm.M.EnableKubeEventCb()
	d.syncAll(rlBound)
	o.Dyn = [][]View{}
	for _, op := range ops {
		switch op.Kind {
		case "outage":
			d.outage(op.Inner)
		case "read":
			o.Dyn = append(o.Dyn, d.read())
		default:
			d.apply(ObjOp{op.Kind, op.obj()})
		}
	}
	o.Dyn = append(o.Dyn, d.read())
	o.Note = d.note
	return o
}

// ---- rendering ----

func coqRstep(o DynOp) string {
	switch o.Kind {
	case "outage":
		return "ROut " + core.CoqList(o.Inner, coqOp)
	case "read":
		return "RRead"
	}
	return "RObj " + coqOp(ObjOp{o.Kind, o.obj()})
}

func renderRl(in RlIn, ops []DynOp, o Obs, bad string, c *core.Case) {
	reads := core.CoqList(o.Dyn, func(vs []View) string { return core.CoqList(vs, coqView) })
	c.Coq = fmt.Sprintf("CRl (mkRlIn %s %s %s %s %s %s %s) %s %s",
		core.CoqBool(in.Dyn), core.CoqList(in.Nss, core.CoqN), core.CoqList(in.Names, core.CoqN), core.CoqList(in.Initial, coqObj),
		core.CoqList(ops, coqRstep), core.CoqBool(in.Filter), core.CoqBool(!in.DropFull), reads, bad)
	c.Key = "rl" + fmt.Sprint(in.Dyn, in.Other, in.SelExpr, in.Nss, in.Names, in.Initial, in.Filter, in.DropFull, ops)
	// what the outages contain, per object: its state when the watch broke against its state when
	// the watch is back
	win := WinIn{Dyn: in.Dyn, Nss: in.Nss, Names: in.Names}
	cur := map[[2]int]int{}
	for _, ob := range in.Initial {
		cur[[2]int{ob.Ns, ob.Name}] = ob.Proj
	}
	applyTo := func(m map[[2]int]int, op ObjOp) {
		if op.Kind == "delete" {
			delete(m, [2]int{op.Ns, op.Name})
		} else {
			m[[2]int{op.Ns, op.Name}] = op.Proj
		}
	}
	seen := map[string]bool{}
	outages, effective, midReads, watchOps := 0, 0, 0, 0
	for _, op := range ops {
		switch op.Kind {
		case "read":
			midReads++
		case "outage":
			outages++
			before := map[[2]int]int{}
			for k, v := range cur {
				before[k] = v
			}
			touched := map[[2]int]int{}
			for _, x := range op.Inner {
				applyTo(cur, x)
				touched[[2]int{x.Ns, x.Name}]++
			}
			if len(op.Inner) == 0 {
				seen["rl-empty-outage"] = true
			}
			for k, n := range touched {
				if !win.matches(k[0], k[1]) {
					seen["rl-change-of-a-non-matching-object"] = true
					continue
				}
				b, was := before[k]
				a, is := cur[k]
				switch {
				case was && !is:
					seen["rl-deleted-during-outage(tombstone)"] = true
					effective++
				case !was && is:
					seen["rl-created-during-outage"] = true
					effective++
				case !was && !is:
					seen["rl-created-and-deleted-during-outage"] = true
				case a%10 != b%10:
					seen["rl-modified-during-outage-inside-filter"] = true
					effective++
				case a != b:
					seen["rl-modified-during-outage-outside-filter"] = true
					effective++
				default:
					seen["rl-same-state-again"] = true
				}
				if n > 1 {
					seen["rl-several-changes-of-one-object-collapsed"] = true
				}
			}
		default:
			watchOps++
			applyTo(cur, ObjOp{op.Kind, op.obj()})
		}
	}
	c.Tags = []string{"rl", fmt.Sprintf("rl-dyn:%v", in.Dyn), fmt.Sprintf("rl-outages:%d", outages), fmt.Sprintf("rl-mid-reads:%d", midReads),
		fmt.Sprintf("rl-filter:%v", in.Filter), fmt.Sprintf("rl-keepfull:%v", !in.DropFull),
		fmt.Sprintf("rl-namesel:%v", len(in.Names) > 0), fmt.Sprintf("rl-nssel:%v", in.Dyn || len(in.Nss) > 0),
		fmt.Sprintf("rl-watch-ops:%v", watchOps > 0)}
	var ts []string
	for t := range seen {
		ts = append(ts, t)
	}
	sort.Strings(ts)
	c.Tags = append(c.Tags, ts...)
	c.Nontrivial = outages >= 1 && effective >= 1
}

// ---- generation ----

func rlOut(inner ...ObjOp) DynOp { return DynOp{Kind: "outage", Inner: inner} }
func rlOp(k string, ns, n, p int) ObjOp { return ObjOp{k, Obj{ns, n, p}} }
func rlStep(k string, ns, n, p int) DynOp { return DynOp{Kind: k, Ns: ns, Name: n, Proj: p} }

func rlCorpus(add func(Input, string)) {
	c := func(in RlIn, ops ...DynOp) { add(Input{Rl: &in, DynOps: ops}, "corpus-relist") }
	read := DynOp{Kind: "read"}
	// the smallest one: one of two objects is deleted while the watch is down
	c(RlIn{Initial: []Obj{{1, 1, 1}, {1, 2, 2}}}, rlOut(rlOp("delete", 1, 2, 2)))
	// one outage, every kind of difference: deleted, modified inside / outside the filter, created,
	// created-and-deleted, deleted-and-recreated, untouched; named namespaces; a read in the middle, watch events afterwards
	c(RlIn{Nss: []int{1, 2, 1}, Filter: true, Initial: []Obj{{1, 1, 11}, {1, 2, 2}, {2, 1, 3}, {2, 2, 4}, {3, 1, 5}}},
		rlStep("create", 1, 3, 2),
		rlOut(rlOp("delete", 1, 1, 11), rlOp("modify", 1, 2, 5), rlOp("modify", 2, 2, 14), rlOp("create", 2, 3, 6), rlOp("create", 1, 1, 7),
			rlOp("delete", 1, 1, 7), rlOp("delete", 2, 1, 3), rlOp("create", 2, 1, 23), rlOp("delete", 3, 1, 5)),
		read, rlStep("modify", 2, 2, 5), rlStep("delete", 1, 2, 5))
	// two outages of the same reflector: what the first created the second deletes, what the first deleted the second re-creates
	c(RlIn{Filter: true, DropFull: true, Initial: []Obj{{1, 1, 1}}},
		rlOut(rlOp("delete", 1, 1, 1), rlOp("create", 2, 2, 2)), read, rlOut(rlOp("create", 1, 1, 3), rlOp("delete", 2, 2, 2)))
	// nameSelector (repeated entry), an empty outage, a deletion afterwards seen as a watch event
	c(RlIn{Names: []int{2, 2}, Initial: []Obj{{1, 2, 1}, {2, 2, 2}}}, rlOut(), read, rlStep("delete", 1, 2, 1), rlOut(rlOp("delete", 2, 2, 2)))
	// namespace.labelSelector: the informers of the labelled namespaces (VaryingInformers); a namespace without the label is not looked at
	c(RlIn{Dyn: true, Nss: []int{1, 3}, Other: []int{2}, Filter: true, Initial: []Obj{{1, 1, 3}, {2, 1, 4}, {3, 1, 5}, {3, 2, 6}}},
		rlOut(rlOp("delete", 3, 1, 5), rlOp("modify", 1, 1, 14), rlOp("delete", 2, 1, 4), rlOp("create", 3, 3, 7)), read, rlStep("modify", 3, 2, 16))
	c(RlIn{Dyn: true, SelExpr: true, Other: []int{1}, Initial: []Obj{{1, 1, 3}}}, rlOut(rlOp("delete", 1, 1, 3))) // no namespace carries the label
	// everything deleted during the outage; the ghost would be re-created and deleted afterwards
	c(RlIn{Nss: []int{2}, Initial: []Obj{{2, 1, 1}, {2, 2, 2}, {1, 1, 3}}},
		rlOut(rlOp("delete", 2, 1, 1), rlOp("delete", 2, 2, 2), rlOp("delete", 1, 1, 3)), read, rlStep("create", 2, 1, 4), rlStep("delete", 2, 1, 4))
}

// rlExhaustive: every history of at most two steps over one object of one namespace (two
// contents) with exactly one outage of one or two inner operations, beside a second object that
// nothing touches, from two start states.
func rlExhaustive(add func(Input, string)) {
	obj := []ObjOp{rlOp("create", 1, 1, 1), rlOp("create", 1, 1, 12), rlOp("delete", 1, 1, 0)}
	var outs []DynOp
	for _, a := range obj {
		outs = append(outs, rlOut(a))
		for _, b := range obj {
			outs = append(outs, rlOut(a, b))
		}
	}
	starts := []RlIn{{Filter: true, Initial: []Obj{{1, 1, 1}, {1, 2, 5}}}, {Filter: true, Initial: []Obj{{1, 2, 5}}}}
	put := func(ops ...DynOp) {
		for _, st := range starts {
			h := st
			add(Input{Rl: &h, DynOps: append([]DynOp{}, ops...)}, "relist-exhaustive")
		}
	}
	for _, o := range outs {
		put(o)
		for _, a := range obj {
			w := DynOp{Kind: a.Kind, Ns: a.Ns, Name: a.Name, Proj: a.Proj}
			put(w, o)
			put(o, w)
		}
	}
}

func genRl(r *core.Rng) (RlIn, []DynOp) {
	var in RlIn
	in.Dyn = r.Chance(30)
	if in.Dyn {
		for n := 1; n <= 3; n++ {
			switch x := r.Intn(100); {
			case x < 60:
				in.Nss = append(in.Nss, n)
			case x < 85:
				in.Other = append(in.Other, n)
			}
		}
		in.SelExpr = r.Chance(30)
	} else if r.Chance(55) {
		for n := 1; n <= 3; n++ {
			if r.Chance(55) {
				in.Nss = append(in.Nss, n)
			}
		}
		if r.Chance(15) && len(in.Nss) > 0 {
			in.Nss = append(in.Nss, in.Nss[0])
		}
	}
	// the fake cluster ignores field selectors: one selected name, carried by every object
	onlyName := 0
	if r.Chance(25) {
		onlyName = 1 + r.Intn(3)
		in.Names = []int{onlyName}
		if r.Chance(40) {
			in.Names = append(in.Names, onlyName)
		}
	}
	state := map[[2]int]int{}
	pick := func() (int, int) {
		ns := 1 + r.Intn(3)
		if len(in.Nss) > 0 && r.Chance(65) { // mostly where the binding looks
			ns = in.Nss[r.Intn(len(in.Nss))]
		}
		if onlyName != 0 {
			return ns, onlyName
		}
		return ns, 1 + r.Intn(3)
	}
	other := func(cur int, keepProj bool) int {
		if keepProj { // only what the filter does not select changes
			return cur%10 + 10*((cur/10+1+r.Intn(3))%4)
		}
		return (cur%10+1+r.Intn(9))%10 + 10*r.Intn(4)
	}
	step := func() []ObjOp {
		ns, n := pick()
		k := [2]int{ns, n}
		cur, ok := state[k]
		switch x := r.Intn(100); {
		case !ok:
			p := r.Intn(40)
			state[k] = p
			return []ObjOp{{"create", Obj{ns, n, p}}}
		case x < 25:
			p := other(cur, false)
			state[k] = p
			return []ObjOp{{"modify", Obj{ns, n, p}}}
		case x < 40:
			p := other(cur, true)
			state[k] = p
			return []ObjOp{{"modify", Obj{ns, n, p}}}
		case x < 45: // nothing changes
			return []ObjOp{{"modify", Obj{ns, n, cur}}}
		case x < 85: // deleted
			delete(state, k)
			return []ObjOp{{"delete", Obj{ns, n, cur}}}
		default: // deleted and re-created with other content
			p := other(cur, r.Chance(30))
			state[k] = p
			return []ObjOp{{"delete", Obj{ns, n, cur}}, {"create", Obj{ns, n, p}}}
		}
	}
	for j, n := 0, 1+r.Intn(5); j < n; j++ {
		ns, nm := pick()
		if _, ok := state[[2]int{ns, nm}]; !ok {
			p := r.Intn(40)
			state[[2]int{ns, nm}] = p
			in.Initial = append(in.Initial, Obj{ns, nm, p})
		}
	}
	in.Filter = r.Chance(60)
	in.DropFull = r.Chance(25)
	var ops []DynOp
	watchOps := func(max int) {
		for j, n := 0, r.Intn(max+1); j < n; j++ {
			for _, x := range step() {
				ops = append(ops, DynOp{Kind: x.Kind, Ns: x.Ns, Name: x.Name, Proj: x.Proj})
			}
		}
	}
	outages := 1
	if r.Chance(25) {
		outages = 2
	}
	watchOps(3)
	for k := 0; k < outages; k++ {
		var inner []ObjOp
		for j, n := 0, 1+r.Intn(5); j < n; j++ {
			inner = append(inner, step()...)
		}
		ops = append(ops, DynOp{Kind: "outage", Inner: inner})
		if r.Chance(40) {
			ops = append(ops, DynOp{Kind: "read"})
		}
		watchOps(2)
	}
	return in, ops
}
