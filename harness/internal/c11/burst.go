package c11

// Starting the real cron jobs of a scheduleManager in goroutines of their own, the way the
// cron library does when several entries are due at the same instant (cron.go run():
// `go e.Job.Run()`), and telling when each of them has returned or is parked.

import (
	"reflect"
	"runtime"
	"strconv"
	"strings"
	"sync"
	"time"
	"unsafe"

	"gopkg.in/robfig/cron.v2"
)

// cronOf returns the *cron.Cron the manager registers its jobs in. The field is unexported
// and the verif export of the package only runs jobs one after the other: it is looked up
// by its type.
func cronOf(sm any) *cron.Cron {
	v := reflect.ValueOf(sm)
	if v.Kind() == reflect.Ptr {
		v = v.Elem()
	}
	want := reflect.TypeOf((*cron.Cron)(nil))
	for i := 0; i < v.NumField(); i++ {
		f := v.Field(i)
		if f.Type() == want && f.CanAddr() {
			return *(**cron.Cron)(unsafe.Pointer(f.UnsafeAddr()))
		}
	}
	panic("c11 harness: the schedule manager has no *cron.Cron field")
}

// waitCronStopped waits (bounded) until the runner's `running` flag is down: cron.Stop() hands
// the stop request to the run loop and only then clears the flag; Entries() on a runner whose
// loop is gone while the flag is still up would block for ever.
func waitCronStopped(c *cron.Cron, limit time.Duration) {
	f := reflect.ValueOf(c).Elem().FieldByName("running")
	if !f.IsValid() || f.Kind() != reflect.Bool || !f.CanAddr() {
		return
	}
	running := (*bool)(unsafe.Pointer(f.UnsafeAddr()))
	deadline := time.Now().Add(limit)
	for *running && time.Now().Before(deadline) {
		time.Sleep(50 * time.Microsecond)
	}
}

// jobSet: the job goroutines started by the harness and not yet returned.
type jobSet struct {
	mu     sync.Mutex
	live   map[uint64]bool // goroutine ids
	notify chan struct{}   // a token whenever a job returns
}

func newJobSet() *jobSet { return &jobSet{live: map[uint64]bool{}, notify: make(chan struct{}, 1)} }

func (js *jobSet) outstanding() int {
	js.mu.Lock()
	defer js.mu.Unlock()
	return len(js.live)
}

// start runs the job in a new goroutine; it returns once the goroutine is registered.
func (js *jobSet) start(job cron.Job) {
	registered := make(chan struct{})
	go func() {
		id := goid()
		js.mu.Lock()
		js.live[id] = true
		js.mu.Unlock()
		close(registered)
		defer func() {
			js.mu.Lock()
			delete(js.live, id)
			js.mu.Unlock()
			select {
			case js.notify <- struct{}{}:
			default:
			}
		}()
		job.Run()
	}()
	<-registered
}

// settle waits until every started job has either returned or is parked (blocked in a
// channel send or a select without a ready case). Positive evidence from the runtime, no
// fixed sleep; bounded by limit. It returns the number of parked job goroutines and of
// those that were neither (only after the limit).
func (js *jobSet) settle(limit time.Duration) (parked, unsettled int) {
	deadline := time.Now().Add(limit)
	for spin := 0; ; spin++ {
		js.mu.Lock()
		ids := make([]uint64, 0, len(js.live))
		for id := range js.live {
			ids = append(ids, id)
		}
		js.mu.Unlock()
		if len(ids) == 0 {
			return 0, 0
		}
		states := goroutineStates()
		parked, unsettled = 0, 0
		for _, id := range ids {
			st, ok := states[id]
			if ok && (strings.HasPrefix(st, "chan send") || strings.HasPrefix(st, "select")) {
				parked++
			} else {
				unsettled++
			}
		}
		if unsettled == 0 {
			return parked, 0
		}
		if time.Now().After(deadline) {
			// those that have returned meanwhile do not count
			left := js.outstanding()
			if left < parked+unsettled {
				unsettled = left - parked
				if unsettled < 0 {
					unsettled = 0
				}
			}
			return parked, unsettled
		}
		if spin < 100 {
			runtime.Gosched()
		} else {
			time.Sleep(50 * time.Microsecond)
		}
	}
}

// drain receives from ch until every started job has returned and the channel is empty.
// It gives up when nothing happens for limit (a job that never returns); stuck = the job
// goroutines still alive then.
func (js *jobSet) drain(ch chan string, limit time.Duration) (got []string, stuck int) {
	timer := time.NewTimer(limit)
	defer timer.Stop()
	for {
		if js.outstanding() == 0 {
			// no sender is left: what is in the buffer is all there is
			for {
				select {
				case s := <-ch:
					got = append(got, s)
				default:
					return got, 0
				}
			}
		}
		select {
		case s := <-ch:
			got = append(got, s)
		case <-js.notify:
		case <-timer.C:
			return got, js.outstanding()
		}
	}
}

// goid is the id of the calling goroutine ("goroutine 18 [running]:").
func goid() uint64 {
	var buf [64]byte
	n := runtime.Stack(buf[:], false)
	f := strings.Fields(string(buf[:n]))
	if len(f) >= 2 {
		if id, err := strconv.ParseUint(f[1], 10, 64); err == nil {
			return id
		}
	}
	panic("c11 harness: cannot read the goroutine id")
}

// goroutineStates maps the id of every goroutine to its state ("chan send", "select",
// "runnable", "chan receive, 2 minutes", ...).
func goroutineStates() map[uint64]string {
	buf := make([]byte, 1<<16)
	for {
		n := runtime.Stack(buf, true)
		if n < len(buf) {
			buf = buf[:n]
			break
		}
		buf = make([]byte, 2*len(buf))
	}
	res := map[uint64]string{}
	for _, line := range strings.Split(string(buf), "\n") {
		if !strings.HasPrefix(line, "goroutine ") {
			continue
		}
		f := strings.Fields(line)
		if len(f) < 3 {
			continue
		}
		id, err := strconv.ParseUint(f[1], 10, 64)
		if err != nil {
			continue
		}
		lo, hi := strings.IndexByte(line, '['), strings.LastIndexByte(line, ']')
		if lo >= 0 && hi > lo {
			res[id] = line[lo+1 : hi]
		}
	}
	return res
}
