// Package c11: correspondence driver for C11 (schedules: one task per binding per tick;
// crontabs are reference-counted).  Drives the REAL scheduleManager (public Add/Remove,
// observed through the add-only verif export VerifC11Snapshot) shared by REAL
// ScheduleBindingsControllers (EnableScheduleBindings, DisableScheduleBindings,
// CanHandleEvent, HandleEvent).  The cron scheduler is started only by the operation SmStart
// (streams start / operator-start, crontabs due months from now); it never fires by the clock: a firing is the
// direct call of every controller's CanHandleEvent/HandleEvent with the crontab, and which
// crontab each registered cron entry sends is read by running the entry's job once.
//
// Crontabs are real strings.  Every case has its own table of crontab strings (Input.Strings);
// bindings and operations refer to a string by its index.  The tables contain different
// spellings of one schedule (double spaces, tabs, leading/trailing whitespace, other text
// for the same schedule, letter case of names) and strings whose validity depends on the
// exact spelling; whether a string is parsable is asked of the real cron.Parse.  Strings the
// implementation comes up with on its own (keys of Entries, what a cron job sends) are
// appended to the table, so the Coq side compares them as what they are.
// Firing path: Tick n runs the job of the n-th registered cron entry, receives what it
// sends on the schedule channel and hands that string to every controller the way
// hook.Manager.HandleScheduleEvent does (CanHandleEvent, then HandleEvent); TickAll does so
// for every registered cron entry once.
//
// Coinciding firings (Start / Drain, file burst.go): the cron library runs every due job in a
// goroutine of its own and all jobs send on ONE channel of capacity 1.  Start ns starts the
// REAL job closures of the cron entries at the positions ns (repeats allowed) in goroutines
// while nobody receives from Ch() and waits until each of them has returned or is parked
// (goroutine state read from runtime.Stack; bounded wait, no fixed sleeps); after every
// operation len(Ch()) and the number of parked job goroutines are reported.  Drain receives
// from Ch() until every started job has returned and the channel is empty and dispatches
// every string received like HandleScheduleEvent.  Other operations may come in between
// (then the observations are taken without running any job: Entries is an exported field,
// the cron entries are listed through the manager's *cron.Cron, reached by reflection; what
// an entry sends is remembered from the last time its job was run alone, or asked at the
// end of the case).  Stop calls sm.Stop() (context cancelled); jobs run after it are driven
// with bounded receives.
//
// Two case classes share the operations, the observations and this driver loop (rig.run):
// Input.Via == "" builds the controllers by hand as described above (ctlRig, Coq class CCtl);
// Input.Via == "operator" (file operator.go, Coq class COp) assembles the REAL operator around a
// fake cluster: hook files loaded by hook.Manager.Init, Enable = the hook's queued
// EnableScheduleBindings task handled by the operator's task handler, and every string handled
// is also given to the schedule event handler the operator registered (operator.go:163-191 ->
// hook.Manager.HandleScheduleEvent): the TASKS it returns are part of the observation.
package c11

import (
	"context"
	"fmt"
	"reflect"
	"sort"
	"strconv"
	"strings"
	"time"

	"github.com/deckhouse/deckhouse/pkg/log"
	"gopkg.in/robfig/cron.v2"

	"github.com/flant/shell-operator/pkg/hook/controller"
	htypes "github.com/flant/shell-operator/pkg/hook/types"
	schedulemanager "github.com/flant/shell-operator/pkg/schedule_manager"
	smtypes "github.com/flant/shell-operator/pkg/schedule_manager/types"

	"verifharness/internal/core"
)

type Binding struct {
	Id      int   `json:"id"`
	Crontab int   `json:"crontab"` // index into Input.Strings
	Name    int   `json:"name"`
	Group   int   `json:"group"` // 0 = ""
	AF      bool  `json:"af"`
	Snaps   []int `json:"snaps"`
	Queue   int   `json:"queue"`
}

type Op struct {
	Kind string `json:"kind"` // Add Remove Enable Disable Fire Tick TickAll Start Drain Stop SmStart (= ScheduleManager.Start())
	C    int    `json:"c"`    // Add/Remove/Fire: index into Input.Strings
	I    int    `json:"i,omitempty"`
	H    int    `json:"h"`
	N    int    `json:"n,omitempty"`  // Tick: position of the cron entry
	Ns   []int  `json:"ns,omitempty"` // Start: positions of the cron entries whose jobs are started together
}

type Input struct {
	// Via: "" = real ScheduleBindingsControllers driven directly (case class CCtl);
	// "operator" = the real operator assembled around a fake cluster, hooks loaded from files,
	// firings handled by the operator's schedule event handler (case class COp, operator.go)
	Via     string      `json:"via,omitempty"`
	Strings []string    `json:"strings"` // the case's crontab strings
	Hooks   [][]Binding `json:"hooks"`
	// V0 (operator class): the hooks that answer --config in the v0 format (no configVersion;
	// name, crontab, allowFailure only) - ignored for a hook with a binding that needs v1
	V0  []int `json:"v0,omitempty"`
	Ops []Op  `json:"ops"`
}

// TaskObs: a task returned by the operator's schedule event handler
type TaskObs struct {
	Hook     int   `json:"hook"` // position of the hook (hooks are numbered in the order of their paths)
	Queue    int   `json:"queue"`
	Binding  int   `json:"binding"`
	Group    int   `json:"group"`
	AF       bool  `json:"af"`
	CtxName  int   `json:"ctx_name"`
	CtxSnaps []int `json:"ctx_snaps"`
	CtxGroup int   `json:"ctx_group"`
}

type EntryObs struct {
	C       int   `json:"c"` // index into the alphabet (= Strings ++ Extra)
	Present bool  `json:"present"`
	EntryID int   `json:"entry_id"`
	Ids     []int `json:"ids"`
}
type CronObs struct {
	ID   int    `json:"id"`
	C    int    `json:"c"`
	Sent string `json:"sent"` // the string itself, for the reader of a replay file
}
type InfoObs struct {
	Name       int   `json:"name"`
	Group      int   `json:"group"`
	AF         bool  `json:"af"`
	Snaps      []int `json:"snaps"`
	Queue      int   `json:"queue"`
	BcName     int   `json:"bc_name"`
	BcSchedule bool  `json:"bc_schedule"`
	BcSnaps    []int `json:"bc_snaps"`
	BcGroup    int   `json:"bc_group"`
}
type FireObs struct {
	Can   bool      `json:"can"`
	Infos []InfoObs `json:"infos"`
}
type Obs struct {
	Entries []EntryObs `json:"entries"`
	Cron    []CronObs  `json:"cron"`
	Fire    []FireObs  `json:"fire"`
	Recv    []int      `json:"recv"`            // Tick/TickAll/Drain: what the consumer received (alphabet indices, sorted)
	RecvStr []string   `json:"recv_str"`        // the same as strings, in the order of arrival
	ChLen   int        `json:"ch_len"`          // len(sm.Ch()) after the operation
	Parked  int        `json:"parked"`          // job goroutines started and not returned (parked in their send)
	Tasks   []TaskObs  `json:"tasks,omitempty"` // operator class: the tasks made of the strings handled by this operation
	// Queues (queues class): the CONTENTS of every queue of the operator's TaskQueueSet after the
	// operation, by queue number (0 = "main"), head first
	Queues []QueueObs `json:"queues,omitempty"`
}

// QueueObs: one queue of the real TaskQueueSet and the tasks that sit in it
type QueueObs struct {
	Queue int       `json:"queue"`
	Name  string    `json:"name"`
	Tasks []TaskObs `json:"tasks"`
}
type Observation struct {
	Steps   []Obs    `json:"steps"`
	Extra   []string `json:"extra"`         // strings seen in the implementation that are not in Input.Strings
	Invalid []int    `json:"invalid"`       // indices (alphabet) of the strings the real cron.Parse rejects
	// Loaded (operator class): per hook and binding the REAL id the config loader produced, as the
	// number of the first (hook, binding) carrying that id string (operator.go: modelID)
	Loaded [][]int `json:"loaded,omitempty"`
	Err     string   `json:"err,omitempty"` // operator class: the rig could not be built (counts as a crash)
}

const anomaly = 999999

// families of spellings; the first of each family is the canonical single-spaced text
var families = [][]string{
	{"* * * * *", "*  * * * *", " * * * * *", "* * * * * ", "*\t* * * *", "*/1 * * * *"},
	{"*/5 * * * *", "*/5  *  *  *  *", "\t*/5 * * * *", "*/5 * * * *  "},
	{"0 * * * *", "0 *  * * *", "@hourly", "0 0 * * * *"},
	{"* * * * * *", "*  * * * * *", "  * * * * * *", "* * * * *\t*"},
	{"30 2 * * MON", "30 2 * * mon", "30  2 * * MON", "30 2 * * 1"},
}

// rejected by cron.Parse; some only because of their spelling ("@hourly" is fine)
var unparsable = []string{"not a crontab", "not  a crontab", "* * * *", "", "@hourly ", " @hourly", "@Hourly", "*  * * *"}

func wsNorm(s string) string { return strings.Join(strings.Fields(s), " ") }

func parsable(s string) (ok bool) {
	defer func() {
		if recover() != nil {
			ok = false
		}
	}()
	_, err := cron.Parse(s)
	return err == nil
}

// farFromDue: none of the parsable strings is due within the next 30 days
func farFromDue(strs []string) bool {
	now := time.Now()
	for _, s := range strs {
		if !parsable(s) {
			continue
		}
		sched, err := cron.Parse(s)
		if err != nil {
			continue
		}
		if next := sched.Next(now); !next.IsZero() && next.Sub(now) < 30*24*time.Hour {
			return false
		}
	}
	return true
}

func name(prefix string, n int) string {
	if n == 0 {
		return ""
	}
	return prefix + strconv.Itoa(n)
}
func unname(prefix, s string) int {
	if s == "" {
		return 0
	}
	if strings.HasPrefix(s, prefix) {
		if n, err := strconv.Atoi(s[len(prefix):]); err == nil {
			return n
		}
	}
	return anomaly
}
func names(prefix string, ns []int) []string {
	var r []string
	for _, n := range ns {
		r = append(r, name(prefix, n))
	}
	return r
}
func unnames(prefix string, ss []string) []int {
	r := []int{}
	for _, s := range ss {
		r = append(r, unname(prefix, s))
	}
	return r
}

func (in Input) str(c int) string {
	if c >= 0 && c < len(in.Strings) {
		return in.Strings[c]
	}
	return "bad-index-" + strconv.Itoa(c)
}

type cronRow struct {
	id       int
	fires    string
	resolved bool
}

type rawStep struct {
	entries []schedulemanager.VerifC11Entry
	cron    []cronRow
	fire    []FireObs
	recv    []string
	chlen   int
	parked  int
	tasks   []TaskObs
	queues  []QueueObs
}

// smAPI: what the driver uses of the real *scheduleManager (an unexported type)
type smAPI interface {
	Add(smtypes.ScheduleEntry)
	Remove(smtypes.ScheduleEntry)
	Ch() chan string
	Stop()
	Start()
	VerifC11Snapshot() ([]schedulemanager.VerifC11Entry, []schedulemanager.VerifC11CronEntry)
}

// entriesOf reads the exported field Entries of the manager
func entriesOf(sm smAPI) map[string]schedulemanager.CronEntry {
	v := reflect.ValueOf(sm)
	if v.Kind() == reflect.Ptr {
		v = v.Elem()
	}
	m, ok := v.FieldByName("Entries").Interface().(map[string]schedulemanager.CronEntry)
	if !ok {
		panic("c11 harness: the schedule manager has no field Entries map[string]CronEntry")
	}
	return m
}

// rig: the real code one case is run against
type rig struct {
	sm       smAPI
	nHooks   int
	enable   func(h int)
	disable  func(h int)
	can      func(h int, crontab string) bool
	handle   func(h int, crontab string) []controller.BindingExecutionInfo
	tasks    func(crontab string) []TaskObs // nil: no operator (class CCtl)
	// queues class (queues.go): place = the string is received by the operator's REAL
	// ManagerEventsHandler loop, which calls the schedule event handler and moves the tasks into
	// the queues (returns when the loop is back at its select); queues = what every queue holds
	place  func(crontab string)
	queues func() []QueueObs
	idStr    func(i int) string             // the id string of the model's id i
	idNum    func(s string) int
	queueNum func(s string) int
	bindNum  func(s string) int // the number of a binding name
	loaded   [][]int            // operator class: see Observation.Loaded
	cleanup  func()
}

const nothingSent = "<the job sent nothing>"

func Run(in Input) Observation {
	if isOperator(in) {
		r, err := operatorRig(in)
		if r != nil && r.cleanup != nil {
			defer r.cleanup()
		}
		if err != nil {
			return Observation{Steps: []Obs{}, Extra: []string{}, Invalid: []int{}, Err: err.Error()}
		}
		out := r.run(in)
		out.Loaded = r.loaded
		return out
	}
	return ctlRig(in).run(in)
}

// ctlRig: real ScheduleBindingsControllers sharing one real scheduleManager
func ctlRig(in Input) *rig {
	entry := func(c, i int) smtypes.ScheduleEntry {
		return smtypes.ScheduleEntry{Crontab: in.str(c), Id: strconv.Itoa(i)}
	}
	sm := schedulemanager.NewScheduleManager(context.Background(), log.NewNop())
	type ctl = controller.ScheduleBindingsController
	var ctls []ctl
	for _, bs := range in.Hooks {
		var cfgs []htypes.ScheduleConfig
		for _, b := range bs {
			cfg := htypes.ScheduleConfig{
				ScheduleEntry:        entry(b.Crontab, b.Id),
				IncludeSnapshotsFrom: names("s", b.Snaps),
				Queue:                name("q", b.Queue),
				Group:                name("g", b.Group),
			}
			cfg.BindingName = name("b", b.Name)
			cfg.AllowFailure = b.AF
			cfgs = append(cfgs, cfg)
		}
		c := controller.NewScheduleBindingsController()
		c.WithScheduleBindings(cfgs)
		c.WithScheduleManager(sm)
		ctls = append(ctls, c)
	}
	return &rig{
		sm: sm, nHooks: len(ctls),
		enable:  func(h int) { ctls[h].EnableScheduleBindings() },
		disable: func(h int) { ctls[h].DisableScheduleBindings() },
		can:     func(h int, crontab string) bool { return ctls[h].CanHandleEvent(crontab) },
		handle: func(h int, crontab string) []controller.BindingExecutionInfo {
			return ctls[h].HandleEvent(crontab)
		},
		idStr: strconv.Itoa,
		idNum: func(s string) int {
			n, err := strconv.Atoi(s)
			if err != nil {
				return anomaly
			}
			return n
		},
		queueNum: func(s string) int { return unname("q", s) },
		bindNum:  func(s string) int { return unname("b", s) },
	}
}

func (r *rig) run(in Input) Observation {
	entry := func(c, i int) smtypes.ScheduleEntry {
		return smtypes.ScheduleEntry{Crontab: in.str(c), Id: r.idStr(i)}
	}
	sm := r.sm
	ch := sm.Ch()
	js := newJobSet()
	stopped := false
	// started: sm.Start() was called (operation SmStart).  The cron entries are always those of
	// the runner the manager holds NOW (looked up at every use: what fires is what that runner
	// has).  A running runner keeps its entries sorted by next activation time: they are listed
	// by entry id, which is the order of registration.
	started := false
	cronEntries := func() []cron.Entry {
		es := cronOf(sm).Entries()
		if started {
			sort.SliceStable(es, func(i, j int) bool { return es[i].ID < es[j].ID })
		}
		return es
	}
	verifSnapshot := func() ([]schedulemanager.VerifC11Entry, []schedulemanager.VerifC11CronEntry) {
		ents, ce := sm.VerifC11Snapshot()
		if started {
			sort.SliceStable(ce, func(i, j int) bool { return ce[i].EntryID < ce[j].EntryID })
		}
		return ents, ce
	}
	defer func() {
		if started && !stopped {
			sm.Stop() // the runner of this case is stopped (by the goroutine of Start())
		}
	}()
	infosOf := func(infos []controller.BindingExecutionInfo) []InfoObs {
		res := []InfoObs{}
		for _, info := range infos {
			io := InfoObs{Name: r.bindNum(info.Binding), Group: unname("g", info.Group), AF: info.AllowFailure,
				Snaps: unnames("s", info.IncludeSnapshots), Queue: r.queueNum(info.QueueName),
				BcName: anomaly, BcSnaps: []int{}}
			if len(info.BindingContext) == 1 && !info.IncludeAllSnapshots {
				bc := info.BindingContext[0]
				io.BcName = r.bindNum(bc.Binding)
				io.BcSchedule = bc.Metadata.BindingType == htypes.Schedule
				io.BcSnaps = unnames("s", bc.Metadata.IncludeSnapshots)
				io.BcGroup = unname("g", bc.Metadata.Group)
			}
			res = append(res, io)
		}
		return res
	}
	// the controller ranges over a map: present its answer in a stable order
	stable := func(f *FireObs) {
		sort.SliceStable(f.Infos, func(i, j int) bool { return fmt.Sprint(f.Infos[i]) < fmt.Sprint(f.Infos[j]) })
	}
	// hook.Manager.HandleScheduleEvent(crontab): every hook whose controller can handle it;
	// operator class: the string also goes to the operator's schedule event handler
	var cur *rawStep
	dispatch := func(crontab string, fire []FireObs) {
		for h := 0; h < r.nHooks; h++ {
			if r.can(h, crontab) {
				fire[h].Can = true
				fire[h].Infos = append(fire[h].Infos, infosOf(r.handle(h, crontab))...)
			}
		}
		if r.tasks != nil {
			cur.tasks = append(cur.tasks, r.tasks(crontab)...)
		}
		if r.place != nil {
			r.place(crontab)
		}
	}
	blank := func() []FireObs {
		fire := make([]FireObs, r.nHooks)
		for h := range fire {
			fire[h].Infos = []InfoObs{}
		}
		return fire
	}
	// nothing sent and not received, no job goroutine alive
	idle := func() bool { return js.outstanding() == 0 && len(ch) == 0 }
	// what a cron entry sends, learnt by running its job alone; the job values are kept so
	// that an entry removed meanwhile can still be asked at the end of the case
	fires := map[int]string{}
	jobs := map[int]cron.Job{}
	// one job run alone on the idle channel, what it sends received at once (bounded)
	// (bounded wait: generous the first time, short once a job of this case has sent nothing)
	patience := time.Second
	fireAlone := func(job cron.Job) (string, bool) {
		go job.Run()
		select {
		case s := <-ch:
			return s, true
		case <-time.After(patience):
			patience = 50 * time.Millisecond
			return "", false
		}
	}
	snapshot := func() ([]schedulemanager.VerifC11Entry, []cronRow) {
		for _, e := range cronEntries() {
			jobs[int(e.ID)] = e.Job
		}
		if idle() && !stopped {
			// every entry's job is run once and what it sends is received right away
			ents, ce := verifSnapshot()
			rows := []cronRow{}
			for _, e := range ce {
				fires[e.EntryID] = e.Fires
				rows = append(rows, cronRow{id: e.EntryID, fires: e.Fires, resolved: true})
			}
			return ents, rows
		}
		// firings are waiting (or the context is cancelled): look without running a job
		ents := make([]schedulemanager.VerifC11Entry, 0, len(entriesOf(sm)))
		for crontab, e := range entriesOf(sm) {
			ids := make([]string, 0, len(e.Ids))
			for id := range e.Ids {
				ids = append(ids, id)
			}
			sort.Strings(ids)
			ents = append(ents, schedulemanager.VerifC11Entry{Crontab: crontab, EntryID: int(e.EntryID), Ids: ids})
		}
		sort.Slice(ents, func(i, j int) bool { return ents[i].Crontab < ents[j].Crontab })
		rows := []cronRow{}
		for _, e := range cronEntries() {
			id := int(e.ID)
			if f, ok := fires[id]; ok {
				rows = append(rows, cronRow{id: id, fires: f, resolved: true})
			} else if idle() {
				f, ok := fireAlone(e.Job)
				if !ok {
					f = nothingSent
				}
				fires[id] = f
				rows = append(rows, cronRow{id: id, fires: f, resolved: true})
			} else {
				rows = append(rows, cronRow{id: id})
			}
		}
		return ents, rows
	}
	// the consumer catches up: everything received is dispatched in the order of arrival
	catchUp := func(st *rawStep) {
		got, _ := js.drain(ch, 2*time.Second)
		for _, s := range got {
			dispatch(s, st.fire)
		}
		st.recv = append(st.recv, got...)
	}
	// the jobs of the entries at the given positions (nil = all) are run one at a time, what
	// each sends is received at once and dispatched
	tick := func(st *rawStep, only int) {
		if !stopped {
			_, ce := verifSnapshot()
			for pos, e := range ce {
				if only < 0 || only == pos {
					dispatch(e.Fires, st.fire)
					st.recv = append(st.recv, e.Fires)
				}
			}
			return
		}
		for pos, e := range cronEntries() {
			if only < 0 || only == pos {
				if s, ok := fireAlone(e.Job); ok {
					dispatch(s, st.fire)
					st.recv = append(st.recv, s)
				}
			}
		}
	}
	var raw []rawStep
	for _, op := range in.Ops {
		st := rawStep{fire: []FireObs{}, recv: []string{}}
		cur = &st
		unsettled := 0
		switch op.Kind {
		case "Add":
			sm.Add(entry(op.C, op.I))
		case "Remove":
			sm.Remove(entry(op.C, op.I))
		case "Enable":
			if op.H >= 0 && op.H < r.nHooks {
				r.enable(op.H)
			}
		case "Disable":
			if op.H >= 0 && op.H < r.nHooks {
				r.disable(op.H)
			}
		case "Fire":
			for h := 0; h < r.nHooks; h++ {
				f := FireObs{Can: r.can(h, in.str(op.C)), Infos: infosOf(r.handle(h, in.str(op.C)))}
				st.fire = append(st.fire, f)
			}
			if r.tasks != nil {
				st.tasks = append(st.tasks, r.tasks(in.str(op.C))...)
			}
			if r.place != nil {
				r.place(in.str(op.C))
			}
		case "Tick":
			// (the consumer first catches up with firings that still wait;) the job of the n-th
			// registered cron entry runs; what it sends is dispatched
			if op.N >= 0 && op.N < len(cronEntries()) {
				st.fire = blank()
				if !idle() {
					catchUp(&st)
				}
				tick(&st, op.N)
			}
		case "TickAll":
			st.fire = blank()
			if !idle() {
				catchUp(&st)
			}
			tick(&st, -1)
		case "Start":
			// the jobs fire at the same instant: each in a goroutine of its own, nobody receives
			ents := cronEntries()
			for _, n := range op.Ns {
				if n >= 0 && n < len(ents) {
					js.start(ents[n].Job)
				}
			}
			_, unsettled = js.settle(time.Second)
		case "Drain":
			st.fire = blank()
			catchUp(&st)
		case "Stop":
			sm.Stop()
			stopped = true
			if started {
				// the goroutine of Start() stops the runner; until it has, Entries() must not be asked
				waitCronStopped(cronOf(sm), 2*time.Second)
			}
		case "SmStart":
			// ScheduleManager.Start(), once per case, and only when no crontab of the case is due
			// soon (the scheduler must never fire by the clock while the case runs)
			if !started && !stopped && farFromDue(in.Strings) {
				sm.Start()
				started = true
			}
		}
		for h := range st.fire {
			stable(&st.fire[h])
		}
		if r.tasks != nil && st.tasks == nil {
			st.tasks = []TaskObs{}
		}
		st.chlen, st.parked = len(ch), js.outstanding()
		if unsettled > 0 { // a started job neither returned nor parked in a send
			st.parked = anomaly + unsettled
		}
		st.entries, st.cron = snapshot()
		if r.queues != nil {
			st.queues = r.queues()
		}
		raw = append(raw, st)
	}
	// leave nothing behind (the child process runs many cases), then ask the entries that
	// were registered while firings were waiting what they send
	if !idle() {
		js.drain(ch, 2*time.Second)
	}
	for k := range raw {
		for j := range raw[k].cron {
			row := &raw[k].cron[j]
			if row.resolved {
				continue
			}
			f, ok := fires[row.id]
			if !ok {
				if job := jobs[row.id]; job != nil && idle() {
					f, ok = fireAlone(job)
				}
				if !ok {
					f = nothingSent
				}
				fires[row.id] = f
			}
			row.fires, row.resolved = f, true
		}
	}
	// the alphabet: the case's strings and whatever else the implementation used
	out := Observation{Extra: []string{}, Invalid: []int{}}
	index := map[string]int{}
	var alphabet []string
	add := func(s string) {
		if _, ok := index[s]; !ok {
			index[s] = len(alphabet)
			alphabet = append(alphabet, s)
			if len(alphabet) > len(in.Strings) {
				out.Extra = append(out.Extra, s)
			}
		}
	}
	for _, s := range in.Strings {
		if _, dup := index[s]; dup { // a table must not repeat a string; keep positions aligned anyway
			alphabet = append(alphabet, s)
			continue
		}
		add(s)
	}
	for _, st := range raw {
		for _, e := range st.entries {
			add(e.Crontab)
		}
		for _, e := range st.cron {
			add(e.fires)
		}
		for _, s := range st.recv {
			add(s)
		}
	}
	for i, s := range alphabet {
		if !parsable(s) {
			out.Invalid = append(out.Invalid, i)
		}
	}
	for _, st := range raw {
		o := Obs{Entries: []EntryObs{}, Cron: []CronObs{}, Fire: st.fire, Recv: []int{}, RecvStr: st.recv, ChLen: st.chlen, Parked: st.parked, Tasks: st.tasks, Queues: st.queues}
		for c, s := range alphabet {
			eo := EntryObs{C: c, Ids: []int{}}
			for _, e := range st.entries {
				if e.Crontab == s {
					eo.Present = true
					eo.EntryID = e.EntryID
					for _, id := range e.Ids {
						eo.Ids = append(eo.Ids, r.idNum(id))
					}
					sort.Ints(eo.Ids)
				}
			}
			o.Entries = append(o.Entries, eo)
		}
		for _, e := range st.cron {
			o.Cron = append(o.Cron, CronObs{ID: e.id, C: index[e.fires], Sent: e.fires})
		}
		for _, s := range st.recv {
			o.Recv = append(o.Recv, index[s])
		}
		sort.Ints(o.Recv) // the order of arrival is the runtime's choice (kept in RecvStr for the reader)
		out.Steps = append(out.Steps, o)
	}
	return out
}

// ---- rendering ----

func sname(c int) string { return fmt.Sprintf("s%d", c) }

func coqBinding(b Binding) string {
	return fmt.Sprintf("Bd %d %s %d %d %s %s %d", b.Id, sname(b.Crontab), b.Name, b.Group, core.CoqBool(b.AF),
		core.CoqList(b.Snaps, core.CoqN), b.Queue)
}
func coqOp(o Op) string {
	switch o.Kind {
	case "Add":
		return fmt.Sprintf("OAdd %s %d", sname(o.C), o.I)
	case "Remove":
		return fmt.Sprintf("ORemove %s %d", sname(o.C), o.I)
	case "Enable":
		return fmt.Sprintf("OEnable %d", o.H)
	case "Disable":
		return fmt.Sprintf("ODisable %d", o.H)
	case "Tick":
		return fmt.Sprintf("OTick %d", o.N)
	case "TickAll":
		return "OTickAll"
	case "Start":
		return fmt.Sprintf("OStart %s", core.CoqList(o.Ns, func(n int) string {
			if n < 0 { // no such position either way
				n = anomaly
			}
			return core.CoqN(n)
		}))
	case "Drain":
		return "ODrain"
	case "Stop":
		return "OStop"
	case "SmStart":
		return "OSmStart"
	}
	return fmt.Sprintf("OFire %s", sname(o.C))
}
func coqInfo(i InfoObs) string {
	return fmt.Sprintf("Inf %d %d %s %s %d %d %s %s %d", i.Name, i.Group, core.CoqBool(i.AF), core.CoqList(i.Snaps, core.CoqN),
		i.Queue, i.BcName, core.CoqBool(i.BcSchedule), core.CoqList(i.BcSnaps, core.CoqN), i.BcGroup)
}
func coqObs(o Obs) string {
	ents := core.CoqList(o.Entries, func(e EntryObs) string {
		if !e.Present {
			return fmt.Sprintf("(%s, None)", sname(e.C))
		}
		return fmt.Sprintf("(%s, Some (%d, %s))", sname(e.C), e.EntryID, core.CoqList(e.Ids, core.CoqN))
	})
	cr := core.CoqList(o.Cron, func(c CronObs) string { return fmt.Sprintf("(%d, %s)", c.ID, sname(c.C)) })
	fi := core.CoqList(o.Fire, func(f FireObs) string {
		return fmt.Sprintf("(%s, %s)", core.CoqBool(f.Can), core.CoqList(f.Infos, coqInfo))
	})
	return fmt.Sprintf("mkObs %s %s %s %s %d %d", ents, cr, fi, core.CoqList(o.Recv, sname), o.ChLen, o.Parked)
}
func coqHobs(o Obs) string {
	return fmt.Sprintf("mkHobs (%s) %s", coqObs(o), core.CoqList(o.Tasks, coqTask))
}
func coqQobs(o Obs) string {
	return fmt.Sprintf("mkQobs (%s) %s", coqHobs(o), core.CoqList(o.Queues, func(q QueueObs) string {
		return fmt.Sprintf("(%d, %s)", q.Queue, core.CoqList(q.Tasks, coqTask))
	}))
}

// every index a case refers to must have a name bound by the lets
func maxIndex(in Input) int {
	m := len(in.Strings) - 1
	for _, bs := range in.Hooks {
		for _, b := range bs {
			if b.Crontab > m {
				m = b.Crontab
			}
		}
	}
	for _, o := range in.Ops {
		if (o.Kind == "Add" || o.Kind == "Remove" || o.Kind == "Fire") && o.C > m {
			m = o.C
		}
	}
	return m
}

func coqInput(in Input, alphabet []string, invalid []int) string {
	hooks := core.CoqList(in.Hooks, func(bs []Binding) string { return core.CoqList(bs, coqBinding) })
	idx := make([]int, len(alphabet))
	for i := range idx {
		idx[i] = i
	}
	return fmt.Sprintf("mkIn %s %s %s\n   %s", hooks, core.CoqList(invalid, sname), core.CoqList(idx, sname),
		core.CoqList(in.Ops, coqOp))
}

func Render(in Input, obs *Observation, crash string) core.Case {
	var steps []Obs
	alphabet := append([]string{}, in.Strings...)
	for i := len(alphabet); i <= maxIndex(in); i++ {
		alphabet = append(alphabet, in.str(i))
	}
	invalid := []int{}
	if obs != nil {
		steps = obs.Steps
		alphabet = append(alphabet, obs.Extra...)
		invalid = obs.Invalid
	}
	c := core.Case{}
	var lets strings.Builder
	for i, s := range alphabet {
		lit := core.CoqBytes(s)
		if s == "" {
			lit = "(@nil N)"
		}
		fmt.Fprintf(&lets, "let %s := %s in ", sname(i), lit)
	}
	if isOperator(in) {
		if obs != nil && obs.Err != "" && crash == "" {
			crash = "rig: " + obs.Err
		}
		var loaded [][]int
		if obs != nil {
			loaded = obs.Loaded
		}
		class, step := "COp", coqHobs
		if in.Via == "queues" {
			class, step = "CQ", coqQobs
		}
		c.Coq = fmt.Sprintf("(%s (%s\n (%s,\n  (%s,\n  %s))))", class, lets.String(), coqInput(in, alphabet, invalid),
			core.CoqList(loaded, func(l []int) string { return core.CoqList(l, core.CoqN) }), core.CoqList(steps, step))
	} else {
		c.Coq = fmt.Sprintf("(CCtl (%s\n (%s,\n  %s)))", lets.String(), coqInput(in, alphabet, invalid), core.CoqList(steps, coqObs))
	}
	js := map[string]any{"steps": steps, "alphabet": alphabet, "invalid": invalid, "crash": crash}
	if isOperator(in) && obs != nil {
		js["loaded_ids"] = obs.Loaded
	}
	c.JSON = js
	c.Key = fmt.Sprintf("%s%v %q %s", in.Via, in.V0, in.Strings, coqInput(in, in.Strings, nil))

	// which strings does the case use, and how are they spelled
	used := map[int]bool{}
	kinds := map[string]bool{}
	for _, o := range in.Ops {
		kinds[o.Kind] = true
		c.Tags = append(c.Tags, "op:"+o.Kind)
		if o.Kind == "Add" || o.Kind == "Remove" || o.Kind == "Fire" {
			used[o.C] = true
		}
	}
	dupIds := false
	seen := map[int]bool{}
	nb := 0
	bindingNoncanonical, inOneHook, acrossHooks := false, false, false
	type hs struct {
		hook int
		s    string
	}
	var spelled []hs
	for h, bs := range in.Hooks {
		for _, b := range bs {
			nb++
			if seen[b.Id] || b.Id <= 4 {
				dupIds = true
			}
			seen[b.Id] = true
			used[b.Crontab] = true
			s := in.str(b.Crontab)
			if parsable(s) && s != wsNorm(s) {
				bindingNoncanonical = true
			}
			for _, o := range spelled {
				if o.s != s && wsNorm(o.s) == wsNorm(s) {
					if o.hook == h {
						inOneHook = true
					} else {
						acrossHooks = true
					}
				}
			}
			spelled = append(spelled, hs{h, s})
		}
	}
	usesInvalid, noncanonical, validityDiffers := false, false, false
	for i := range used {
		s := in.str(i)
		if !parsable(s) {
			usesInvalid = true
			if parsable(wsNorm(s)) {
				validityDiffers = true
			}
		} else if s != wsNorm(s) {
			noncanonical = true
		}
	}
	c.Tags = append(c.Tags, fmt.Sprintf("len:%02d", len(in.Ops)/4*4), fmt.Sprintf("hooks:%d", len(in.Hooks)), fmt.Sprintf("bindings:%d", nb))
	if usesInvalid {
		c.Tags = append(c.Tags, "unparsable-crontab")
	}
	if validityDiffers {
		c.Tags = append(c.Tags, "spelling:unparsable-only-because-of-whitespace")
	}
	if noncanonical {
		c.Tags = append(c.Tags, "spelling:noncanonical-whitespace")
	} else {
		c.Tags = append(c.Tags, "spelling:canonical-only")
	}
	if bindingNoncanonical {
		c.Tags = append(c.Tags, "spelling:binding-with-noncanonical-crontab")
	}
	if inOneHook {
		c.Tags = append(c.Tags, "spelling:ws-variants-within-one-hook")
	}
	if acrossHooks {
		c.Tags = append(c.Tags, "spelling:ws-variants-across-hooks")
	}
	if obs != nil && len(obs.Extra) > 0 {
		c.Tags = append(c.Tags, "implementation-used-a-string-not-in-the-input")
	}
	if dupIds {
		c.Tags = append(c.Tags, "binding-ids-shared-or-duplicated")
	}
	hadCron, hadInfos, hadTickTasks, maxCron := false, false, false, 0
	for k, s := range steps {
		if len(s.Cron) > 0 {
			hadCron = true
		}
		if len(s.Cron) > maxCron {
			maxCron = len(s.Cron)
		}
		for _, f := range s.Fire {
			if len(f.Infos) > 0 {
				hadInfos = true
				if k < len(in.Ops) && (in.Ops[k].Kind == "Tick" || in.Ops[k].Kind == "TickAll") {
					hadTickTasks = true
				}
			}
		}
	}
	c.Tags = append(c.Tags, fmt.Sprintf("max-cron-entries:%d", maxCron))
	c.Tags = append(c.Tags, concurrencyTags(in, steps)...)
	c.Tags = append(c.Tags, operatorTags(in, steps)...)
	c.Tags = append(c.Tags, startTags(in, steps)...)
	if hadInfos {
		c.Tags = append(c.Tags, "firing-with-tasks")
	}
	if hadTickTasks {
		c.Tags = append(c.Tags, "cron-job-run-with-tasks")
	}
	c.Nontrivial = len(in.Ops) >= 3 && len(kinds) >= 2 && hadCron
	return c
}

// concurrencyTags: which of the coinciding-firings situations a case contains
func concurrencyTags(in Input, steps []Obs) []string {
	tags := map[string]bool{}
	stopped, waiting, dirty := false, false, false
	maxParked := 0
	for k, o := range in.Ops {
		var cronBefore []CronObs
		if k > 0 && k-1 < len(steps) {
			cronBefore = steps[k-1].Cron
		}
		switch o.Kind {
		case "Stop":
			stopped = true
		case "Start":
			sent := map[int]int{}
			n := 0
			for _, pos := range o.Ns {
				if pos >= 0 && pos < len(cronBefore) {
					sent[cronBefore[pos].C]++
					n++
				}
			}
			if n >= 2 {
				tags["concurrent:jobs-started-together>=2"] = true
			}
			if len(sent) >= 2 {
				tags["concurrent:different-crontabs-coincide"] = true
			}
			if len(sent) >= 3 {
				tags["concurrent:three-or-more-crontabs-coincide"] = true
			}
			for _, m := range sent {
				if m >= 2 {
					tags["concurrent:same-crontab-fires-twice"] = true
				}
			}
			if waiting && n > 0 {
				tags["concurrent:jobs-started-while-others-wait"] = true
			}
			if stopped && n > 0 {
				tags["stop:jobs-started-after-stop"] = true
			}
		case "Tick", "TickAll", "Drain":
			if waiting && k < len(steps) {
				tags["concurrent:consumer-catches-up:"+o.Kind] = true
				tasks := false
				for _, f := range steps[k].Fire {
					if len(f.Infos) > 0 {
						tasks = true
					}
				}
				if tasks {
					tags["concurrent:catch-up-with-tasks"] = true
				}
				if stopped {
					tags["concurrent:catch-up-not-judged(manager-stopped)"] = true
				} else if dirty {
					tags["concurrent:catch-up-not-judged(enable/disable-meanwhile)"] = true
				} else {
					tags["concurrent:catch-up-judged-by-spec"] = true
				}
			}
			if stopped && o.Kind != "Drain" {
				tags["stop:job-run-after-stop"] = true
			}
		case "Enable", "Disable":
			if waiting {
				dirty = true
				tags["concurrent:enable/disable-while-firings-wait"] = true
			}
		case "Add", "Remove":
			if waiting {
				tags["concurrent:add/remove-while-firings-wait"] = true
			}
		}
		if k < len(steps) {
			waiting = steps[k].ChLen > 0 || steps[k].Parked > 0
			if !waiting {
				dirty = false
			}
			if steps[k].Parked > maxParked && steps[k].Parked < anomaly {
				maxParked = steps[k].Parked
			}
		}
	}
	if maxParked > 0 {
		tags[fmt.Sprintf("concurrent:max-goroutines-parked-in-send:%d", maxParked)] = true
	}
	if len(steps) > 0 && (steps[len(steps)-1].ChLen > 0 || steps[len(steps)-1].Parked > 0) {
		tags["concurrent:case-ends-with-firings-waiting"] = true
	}
	var res []string
	for t := range tags {
		res = append(res, t)
	}
	sort.Strings(res)
	return res
}

// startTags: what a case about ScheduleManager.Start() contains
func startTags(in Input, steps []Obs) []string {
	at := -1
	for k, o := range in.Ops {
		if o.Kind == "SmStart" {
			at = k
			break
		}
	}
	if at < 0 || at >= len(steps) {
		return nil
	}
	tags := map[string]bool{"start:SmStart": true}
	atStart := steps[at].Cron
	n := len(atStart)
	if n > 3 {
		n = 3
	}
	tags[fmt.Sprintf("start:crontabs-registered-at-start:%d", n)] = true
	for k, e := range atStart {
		if e.ID != k+1 {
			tags["start:entry-ids-have-a-gap-at-start"] = true
		}
	}
	addsBefore := 0
	for _, o := range in.Ops[:at] {
		if o.Kind == "Add" || o.Kind == "Enable" {
			addsBefore++
		}
	}
	if addsBefore == 0 {
		tags["start:nothing-added-before-start"] = true
	}
	gone := map[string]bool{} // strings whose entry of before Start() went afterwards
	for k := at + 1; k < len(steps); k++ {
		if in.Ops[k].Kind == "Tick" || in.Ops[k].Kind == "TickAll" {
			tags["start:tick-after-start"] = true
			if len(steps[k].Recv) > 0 {
				tags["start:tick-after-start-delivers"] = true
			}
		}
		now := map[int]bool{}
		for _, e := range steps[k].Cron {
			now[e.ID] = true
			if gone[e.Sent] {
				tags["start:crontab-of-before-start-registered-again-after-its-entry-went"] = true
			}
		}
		for _, e := range atStart {
			if !now[e.ID] {
				gone[e.Sent] = true
				tags["start:last-binding-of-a-crontab-registered-before-start-removed-after"] = true
			}
		}
		if len(steps[k].Cron) > len(atStart) {
			tags["start:crontab-added-after-start"] = true
		}
	}
	var res []string
	for t := range tags {
		res = append(res, t)
	}
	sort.Strings(res)
	return res
}

// ---- generation ----

type gen struct {
	r    *core.Rng
	fams [][]string // nil = families
}

func (g *gen) families() [][]string {
	if g.fams != nil {
		return g.fams
	}
	return families
}

// farFamilies: schedules that are due once a year, 3, 5, 7 and 9 months from now (cases that
// start the real scheduler must never see it fire by the clock), each in several spellings;
// the first of each family is the canonical single-spaced text
func farFamilies() [][]string {
	names := []string{"JAN", "FEB", "MAR", "APR", "MAY", "JUN", "JUL", "AUG", "SEP", "OCT", "NOV", "DEC"}
	month := int(time.Now().Month())
	var out [][]string
	for k, off := range []int{3, 5, 7, 9} {
		m := (month-1+off)%12 + 1
		mi, h, d := 7*k, k+1, 1+2*k
		out = append(out, []string{
			fmt.Sprintf("%d %d %d %d *", mi, h, d, m),
			fmt.Sprintf("%d  %d %d %d *", mi, h, d, m),
			fmt.Sprintf(" %d %d %d %d *", mi, h, d, m),
			fmt.Sprintf("%d %d %d %d * ", mi, h, d, m),
			fmt.Sprintf("%d\t%d %d %d *", mi, h, d, m),
			fmt.Sprintf("%d %d %d %s *", mi, h, d, names[m-1]),
			fmt.Sprintf("%d %d %d %s *", mi, h, d, strings.ToLower(names[m-1])),
			fmt.Sprintf("0 %d %d %d %d *", mi, h, d, m),
		})
	}
	return out
}

// table draws the crontab strings of one case: nValid parsable ones first, then nInvalid
// unparsable ones.  spell = the case is about spellings: at least two spellings of one
// schedule, the others spelled any way; otherwise canonical texts of different schedules.
func (g *gen) table(spell bool, nInvalid int) (tbl []string, nValid int, focus []int) {
	perm := func(n int) []int {
		p := make([]int, n)
		for i := range p {
			p[i] = i
		}
		for i := n - 1; i > 0; i-- {
			j := g.r.Intn(i + 1)
			p[i], p[j] = p[j], p[i]
		}
		return p
	}
	families := g.families()
	fam := perm(len(families))
	main := map[string]bool{}
	if !spell {
		for _, f := range fam[:3] {
			tbl = append(tbl, families[f][0])
		}
	} else {
		f := families[fam[0]]
		sp := perm(len(f))
		n := 2 + g.r.Intn(2)
		if g.r.Chance(60) { // mostly the canonical text is among them
			tbl = append(tbl, f[0])
			n--
		}
		for _, k := range sp {
			if n > 0 && !(k == 0 && tbl != nil) {
				tbl = append(tbl, f[k])
				n--
			}
		}
		for _, s := range tbl {
			main[s] = true
		}
		for _, o := range fam[1 : 2+g.r.Intn(2)] {
			tbl = append(tbl, families[o][g.r.Intn(len(families[o]))])
		}
		// no fixed position for the canonical text
		for i, j := range perm(len(tbl)) {
			if i < j {
				tbl[i], tbl[j] = tbl[j], tbl[i]
			}
		}
	}
	nValid = len(tbl)
	for i, s := range tbl {
		if main[s] {
			focus = append(focus, i)
		}
	}
	for _, k := range perm(len(unparsable))[:nInvalid] {
		tbl = append(tbl, unparsable[k])
	}
	return tbl, nValid, focus
}

// focus: the spellings of the schedule a spelling case is about; bindings prefer them
func (g *gen) hooks(collide bool, invalidPct, nValid, nAll int, focus []int) [][]Binding {
	var hooks [][]Binding
	id, nm := 10, 100
	for h := 0; h < 1+g.r.Intn(3); h++ {
		bs := []Binding{}
		for k := 0; k < g.r.Intn(4); k++ {
			id++
			if !(k > 0 && g.r.Chance(30)) { // 30%: the same binding name as the previous binding of this hook
				nm++
			}
			b := Binding{Id: id, Crontab: g.r.Intn(nValid), Name: nm, AF: g.r.Bool(), Snaps: []int{}, Queue: g.r.Intn(3)}
			if len(focus) > 0 && g.r.Chance(60) {
				b.Crontab = focus[g.r.Intn(len(focus))]
			}
			if nAll > nValid && g.r.Chance(invalidPct) {
				b.Crontab = nValid + g.r.Intn(nAll-nValid)
			}
			if g.r.Chance(50) {
				b.Group = 5 + g.r.Intn(2)
			}
			for _, s := range []int{101, 102} {
				if g.r.Chance(40) {
					b.Snaps = append(b.Snaps, s)
				}
			}
			if collide {
				b.Id = 1 + g.r.Intn(4) // same alphabet as the direct Add/Remove calls, duplicates possible
			}
			bs = append(bs, b)
		}
		hooks = append(hooks, bs)
	}
	return hooks
}

func (g *gen) positions() []int {
	n := 1 + g.r.Intn(4)
	ns := []int{}
	for k := 0; k < n; k++ {
		p := g.r.Intn(4)
		if g.r.Chance(5) {
			p = 4 + g.r.Intn(3) // mostly no such cron entry
		}
		ns = append(ns, p)
	}
	return ns
}

func (g *gen) ops(n, nHooks, nStrings int) []Op {
	var ops []Op
	for len(ops) < n {
		k := g.r.Intn(100)
		c, i, h := g.r.Intn(nStrings), 1+g.r.Intn(4), g.r.Intn(nHooks)
		switch {
		case k < 19:
			ops = append(ops, Op{Kind: "Add", C: c, I: i})
		case k < 38:
			ops = append(ops, Op{Kind: "Remove", C: c, I: i})
		case k < 52:
			ops = append(ops, Op{Kind: "Enable", H: h})
		case k < 61:
			ops = append(ops, Op{Kind: "Disable", H: h})
		case k < 71:
			ops = append(ops, Op{Kind: "Fire", C: c})
		case k < 78:
			ops = append(ops, Op{Kind: "Tick", N: g.r.Intn(4)})
		case k < 85:
			ops = append(ops, Op{Kind: "TickAll"})
		case k < 93:
			ops = append(ops, Op{Kind: "Start", Ns: g.positions()})
		case k < 99:
			ops = append(ops, Op{Kind: "Drain"})
		default:
			ops = append(ops, Op{Kind: "Stop"})
		}
	}
	return ops
}

// coinciding: a case about firings that coincide while the consumer is busy: the hooks are
// enabled (and some pairs added directly) so that several cron entries exist, then rounds of
// Start (2-4 jobs together), sometimes operations while the firings wait, and a catching-up
// (Drain, or Tick / TickAll which catch up first)
func (g *gen) coinciding(maxLen int) Input {
	in := Input{}
	var focus []int
	in.Strings, _, focus = g.table(g.r.Chance(30), 0)
	for len(in.Hooks) == 0 || g.totalBindings(in.Hooks) == 0 {
		in.Hooks = g.hooks(false, 0, len(in.Strings), len(in.Strings), focus)
	}
	for h := range in.Hooks {
		if g.r.Chance(85) {
			in.Ops = append(in.Ops, Op{Kind: "Enable", H: h})
		}
	}
	for k := g.r.Intn(3); k > 0; k-- {
		in.Ops = append(in.Ops, Op{Kind: "Add", C: g.r.Intn(len(in.Strings)), I: 1 + g.r.Intn(4)})
	}
	if g.r.Chance(8) {
		in.Ops = append(in.Ops, Op{Kind: "Stop"})
	}
	rounds := 1 + g.r.Intn(3)
	for r := 0; r < rounds && len(in.Ops) < maxLen; r++ {
		ns := g.positions()
		for len(ns) < 2 {
			ns = append(ns, g.r.Intn(4))
		}
		in.Ops = append(in.Ops, Op{Kind: "Start", Ns: ns})
		if g.r.Chance(35) { // while the firings wait
			in.Ops = append(in.Ops, g.ops(1+g.r.Intn(2), len(in.Hooks), len(in.Strings))...)
		}
		switch k := g.r.Intn(10); {
		case k < 7:
			in.Ops = append(in.Ops, Op{Kind: "Drain"})
		case k < 8:
			in.Ops = append(in.Ops, Op{Kind: "TickAll"})
		case k < 9:
			in.Ops = append(in.Ops, Op{Kind: "Tick", N: g.r.Intn(3)})
		} // else: the next round starts while these still wait
		if g.r.Chance(30) {
			in.Ops = append(in.Ops, g.ops(1, len(in.Hooks), len(in.Strings))...)
		}
	}
	return in
}

// startHistory: WHERE ScheduleManager.Start() falls.  Before it: Add / Remove (mostly of a pair
// that is registered: ids with gaps, crontabs added and removed again) / Enable / Disable in any
// order; SmStart; after it: Remove (mostly of a registered pair: the last binding of a crontab
// registered before Start goes) / Add / Disable / Enable and ticks through the cron entries the
// manager holds then.  The crontabs are due months from now (farFamilies).
func (g *gen) startHistory(maxLen int) Input {
	fg := &gen{r: g.r, fams: farFamilies()}
	in := Input{}
	var focus []int
	nInvalid := 0
	if g.r.Chance(10) {
		nInvalid = 1
	}
	var nValid int
	in.Strings, nValid, focus = fg.table(g.r.Chance(30), nInvalid)
	for len(in.Hooks) == 0 || g.totalBindings(in.Hooks) == 0 {
		in.Hooks = g.hooks(false, 10, nValid, len(in.Strings), focus)
	}
	var reg [][2]int // pairs added by hand and not removed since
	add := func() Op {
		o := Op{Kind: "Add", C: g.r.Intn(len(in.Strings)), I: 1 + g.r.Intn(4)}
		reg = append(reg, [2]int{o.C, o.I})
		return o
	}
	remove := func() Op {
		if len(reg) > 0 && g.r.Chance(85) {
			k := g.r.Intn(len(reg))
			p := reg[k]
			reg = append(reg[:k:k], reg[k+1:]...)
			return Op{Kind: "Remove", C: p[0], I: p[1]}
		}
		return Op{Kind: "Remove", C: g.r.Intn(len(in.Strings)), I: 1 + g.r.Intn(4)}
	}
	h := func() int { return g.r.Intn(len(in.Hooks)) }
	for n := g.r.Intn(7); n > 0; n-- {
		switch k := g.r.Intn(100); {
		case k < 38:
			in.Ops = append(in.Ops, add())
		case k < 58:
			in.Ops = append(in.Ops, remove())
		case k < 82:
			in.Ops = append(in.Ops, Op{Kind: "Enable", H: h()})
		case k < 95:
			in.Ops = append(in.Ops, Op{Kind: "Disable", H: h()})
		default:
			in.Ops = append(in.Ops, Op{Kind: "TickAll"})
		}
	}
	in.Ops = append(in.Ops, Op{Kind: "SmStart"})
	for n := 2 + g.r.Intn(maxLen-8); n > 0; n-- {
		switch k := g.r.Intn(100); {
		case k < 22:
			in.Ops = append(in.Ops, remove())
		case k < 37:
			in.Ops = append(in.Ops, add())
		case k < 50:
			in.Ops = append(in.Ops, Op{Kind: "Disable", H: h()})
		case k < 62:
			in.Ops = append(in.Ops, Op{Kind: "Enable", H: h()})
		case k < 82:
			in.Ops = append(in.Ops, Op{Kind: "TickAll"})
		case k < 90:
			in.Ops = append(in.Ops, Op{Kind: "Tick", N: g.r.Intn(4)})
		case k < 94:
			in.Ops = append(in.Ops, Op{Kind: "Fire", C: g.r.Intn(len(in.Strings))})
		default:
			in.Ops = append(in.Ops, Op{Kind: "Start", Ns: g.positions()}, Op{Kind: "Drain"})
		}
	}
	return in
}

// exhaustiveStart: every sequence of <= maxLen operations over two crontabs (due months from
// now), one id added by hand each, a hook on the second one, Start() and a tick
func exhaustiveStart(maxLen int) []Input {
	ff := farFamilies()
	tbl := []string{ff[0][0], ff[1][0]}
	hook := []Binding{{Id: 11, Crontab: 1, Name: 101, Snaps: []int{}}}
	alpha := []Op{
		{Kind: "Add", C: 0, I: 1}, {Kind: "Remove", C: 0, I: 1}, {Kind: "Add", C: 1, I: 1}, {Kind: "Remove", C: 1, I: 1},
		{Kind: "Enable", H: 0}, {Kind: "Disable", H: 0}, {Kind: "SmStart"}, {Kind: "TickAll"},
	}
	var out []Input
	var rec func(ops []Op, started bool)
	rec = func(ops []Op, started bool) {
		if len(ops) > 0 && started {
			out = append(out, Input{Strings: tbl, Hooks: [][]Binding{hook}, Ops: append([]Op{}, ops...)})
		}
		if len(ops) >= maxLen {
			return
		}
		for _, o := range alpha {
			if o.Kind == "SmStart" && started {
				continue
			}
			rec(append(append([]Op{}, ops...), o), started || o.Kind == "SmStart")
		}
	}
	rec(nil, false)
	return out
}

// startCorpus: fixed cases about Start() (both classes)
func startCorpus() []Input {
	a := func(c, i int) Op { return Op{Kind: "Add", C: c, I: i} }
	r := func(c, i int) Op { return Op{Kind: "Remove", C: c, I: i} }
	en := func(h int) Op { return Op{Kind: "Enable", H: h} }
	di := func(h int) Op { return Op{Kind: "Disable", H: h} }
	tick := func(n int) Op { return Op{Kind: "Tick", N: n} }
	all := Op{Kind: "TickAll"}
	sst := Op{Kind: "SmStart"}
	ff := farFamilies()
	tbl := []string{ff[0][0], ff[1][0], ff[2][0], ff[0][1]}
	hA := []Binding{{Id: 11, Crontab: 0, Name: 101, Snaps: []int{}}}
	hB := []Binding{{Id: 21, Crontab: 1, Name: 201, Group: 5, AF: true, Snaps: []int{101}, Queue: 2}}
	hC := []Binding{{Id: 31, Crontab: 2, Name: 301, Snaps: []int{}, Queue: 1}, {Id: 32, Crontab: 1, Name: 302, Snaps: []int{102}}}
	opHooks := func(hooks ...[]Binding) [][]Binding {
		var cp [][]Binding
		for _, bs := range hooks {
			cp = append(cp, append([]Binding{}, bs...))
		}
		return assignIds(cp)
	}
	return []Input{
		// the example ex_start of C11_Properties.v: hook 0 enables and disables before Start(), hook 1 enables
		// before it; after it hook 1 disables (nothing fires), enables again (one firing, one task)
		{Strings: tbl, Hooks: [][]Binding{hA, hB}, Ops: []Op{en(0), di(0), en(1), sst, all, di(1), all, en(1), all, tick(0)}},
		// by hand: ids with a gap before Start(); the last id of a crontab registered before Start() removed after it
		{Strings: tbl, Hooks: [][]Binding{{}}, Ops: []Op{a(0, 1), r(0, 1), a(1, 1), a(2, 2), sst, all, r(1, 1), all, a(1, 1), all, r(2, 2), all, r(1, 1), all}},
		// three crontabs registered before Start() in another order than their texts; removed one by one afterwards
		{Strings: tbl, Hooks: [][]Binding{hA, hB, hC}, Ops: []Op{en(2), en(0), en(1), sst, all, di(0), all, di(2), all, tick(0), di(1), all, en(0), all}},
		// two spellings of one schedule registered before Start(); one goes after it
		{Strings: tbl, Hooks: [][]Binding{{}}, Ops: []Op{a(3, 1), a(0, 1), a(0, 2), sst, r(0, 1), all, r(0, 2), all, r(3, 1), all, a(0, 3), all}},
		// Start() before anything is registered; Start() last
		{Strings: tbl, Hooks: [][]Binding{hA, hB}, Ops: []Op{sst, en(0), en(1), all, di(0), all, en(0), all}},
		{Strings: tbl, Hooks: [][]Binding{hA, hB}, Ops: []Op{en(0), en(1), di(0), all, sst}},
		// the operator: the main queue's EnableScheduleBindings tasks are handled before ScheduleManager.Start()
		{Via: "operator", Strings: tbl, Hooks: opHooks(hA, hB), Ops: []Op{en(0), di(0), en(1), sst, all, di(1), all, en(1), all, tick(0)}},
		{Via: "operator", Strings: tbl, Hooks: opHooks(hA, hB, hC), Ops: []Op{en(0), en(1), en(2), sst, all, di(1), all, di(2), all, en(2), all, di(0), tick(0), tick(1)}},
		{Via: "operator", Strings: tbl, Hooks: opHooks(hA, hC), Ops: []Op{a(0, 1), en(1), r(0, 1), sst, all, en(0), all, di(1), all, di(0), all}},
	}
}

func (g *gen) totalBindings(hooks [][]Binding) int {
	n := 0
	for _, bs := range hooks {
		n += len(bs)
	}
	return n
}

func (g *gen) history(maxLen int, malformed bool) Input {
	in := Input{}
	spell := g.r.Chance(45)
	if malformed {
		var nValid int
		var focus []int
		in.Strings, nValid, focus = g.table(spell, 1+g.r.Intn(2))
		in.Hooks = g.hooks(g.r.Bool(), 20, nValid, len(in.Strings), focus)
	} else {
		var focus []int
		in.Strings, _, focus = g.table(spell, 0)
		in.Hooks = g.hooks(false, 0, len(in.Strings), len(in.Strings), focus)
	}
	in.Ops = g.ops(1+g.r.Intn(maxLen), len(in.Hooks), len(in.Strings))
	return in
}

func Corpus() []Input {
	a := func(c, i int) Op { return Op{Kind: "Add", C: c, I: i} }
	r := func(c, i int) Op { return Op{Kind: "Remove", C: c, I: i} }
	en := func(h int) Op { return Op{Kind: "Enable", H: h} }
	di := func(h int) Op { return Op{Kind: "Disable", H: h} }
	f := func(c int) Op { return Op{Kind: "Fire", C: c} }
	tick := func(n int) Op { return Op{Kind: "Tick", N: n} }
	all := Op{Kind: "TickAll"}
	start := func(ns ...int) Op { return Op{Kind: "Start", Ns: ns} }
	drain := Op{Kind: "Drain"}
	stop := Op{Kind: "Stop"}
	// two hooks that share no crontab, and a third one on a third crontab
	hA := []Binding{{Id: 11, Crontab: 0, Name: 101, Snaps: []int{}}}
	hB := []Binding{{Id: 21, Crontab: 1, Name: 201, Group: 5, AF: true, Snaps: []int{101}, Queue: 2}}
	hC := []Binding{{Id: 31, Crontab: 2, Name: 301, Snaps: []int{}, Queue: 1}, {Id: 32, Crontab: 0, Name: 302, Snaps: []int{102}}}
	// indices 0..3 of the first table play the part of the former crontab numbers 1..4
	base := []string{"* * * * *", "*/5 * * * *", "0 * * * *", "not a crontab"}
	bs := []Binding{{Id: 11, Crontab: 0, Name: 101, Snaps: []int{}}, {Id: 12, Crontab: 1, Name: 102, Group: 5, AF: true, Snaps: []int{101}, Queue: 3},
		{Id: 13, Crontab: 0, Name: 103, Group: 5, Snaps: []int{101, 102}}}
	other := []Binding{{Id: 21, Crontab: 0, Name: 201, Snaps: []int{}, Queue: 1}}
	// spellings of "every minute": canonical, double space, leading blank, tab, trailing blank
	sp := []string{"* * * * *", "*  * * * *", " * * * * *", "*\t* * * *", "* * * * * "}
	return []Input{
		// the non-vacuity example of C11_Properties.v
		{Strings: base, Hooks: [][]Binding{{}}, Ops: []Op{a(0, 7), a(0, 8), a(0, 7), r(0, 7), r(0, 7), r(2, 9), a(3, 7)}},
		{Strings: base, Hooks: [][]Binding{{}}, Ops: []Op{a(0, 7), a(0, 8), r(0, 7), r(0, 8), a(0, 8)}},
		{Strings: base, Hooks: [][]Binding{bs}, Ops: []Op{en(0), di(0), en(0), f(0), f(1), f(2), all, tick(0), tick(1), tick(2)}},
		// two hooks share crontab 0; disabling one keeps the entry, disabling both removes it
		{Strings: base, Hooks: [][]Binding{bs, other}, Ops: []Op{en(0), en(1), f(0), all, di(0), f(0), all, di(1), f(0), all, en(1), en(1), f(0), tick(0)}},
		// removal of unknown pairs, unparsable crontab added and removed
		{Strings: base, Hooks: [][]Binding{{}}, Ops: []Op{r(0, 1), a(3, 1), a(3, 2), all, r(3, 1), r(3, 2), a(0, 1), r(1, 1), r(0, 2), r(0, 1)}},
		// a raw Remove of a pair that belongs to an enabled binding
		{Strings: base, Hooks: [][]Binding{{{Id: 1, Crontab: 0, Name: 101, Snaps: []int{}}}}, Ops: []Op{en(0), r(0, 1), f(0), all, a(0, 1), all, di(0)}},
		// the example ex_in of C11_Properties.v: a second hook spells the first one's crontab with a double space
		{Strings: sp[:2], Hooks: [][]Binding{{{Id: 11, Crontab: 0, Name: 101, Snaps: []int{}}},
			{{Id: 21, Crontab: 1, Name: 201, AF: true, Snaps: []int{101}, Queue: 2}, {Id: 22, Crontab: 0, Name: 202, Snaps: []int{}}}},
			Ops: []Op{en(0), en(1), di(0), all, tick(0), tick(1), f(0), f(1)}},
		// one hook, every binding spelled differently
		{Strings: sp, Hooks: [][]Binding{{{Id: 11, Crontab: 0, Name: 101, Snaps: []int{}}, {Id: 12, Crontab: 1, Name: 102, Group: 5, Snaps: []int{101}, Queue: 1},
			{Id: 13, Crontab: 2, Name: 103, AF: true, Snaps: []int{}, Queue: 2}, {Id: 14, Crontab: 3, Name: 104, Snaps: []int{102}}, {Id: 15, Crontab: 4, Name: 105, Snaps: []int{}}}},
			Ops: []Op{en(0), all, tick(0), tick(4), f(1), f(3), di(0), all, en(0), all}},
		// no binding uses the canonical text
		{Strings: []string{"*  * * * * *", "\t*/5 * * * *"}, Hooks: [][]Binding{{{Id: 11, Crontab: 0, Name: 101, Snaps: []int{}, Queue: 1}}, {{Id: 21, Crontab: 1, Name: 201, Snaps: []int{}}}},
			Ops: []Op{en(0), all, en(1), all, tick(1), di(0), all}},
		// raw calls: the same id under two spellings; removing one spelling leaves the other
		{Strings: sp, Hooks: [][]Binding{{}}, Ops: []Op{a(0, 7), a(1, 7), a(1, 8), r(0, 7), all, r(1, 7), r(0, 8), r(1, 8), a(4, 1), a(2, 1)}},
		// validity depends on the spelling: "@hourly" parses, "@hourly " and " @hourly" do not
		{Strings: []string{"@hourly", "@hourly ", " @hourly", "0 * * * *"}, Hooks: [][]Binding{{{Id: 11, Crontab: 0, Name: 101, Snaps: []int{}}, {Id: 12, Crontab: 1, Name: 102, Snaps: []int{}}}},
			Ops: []Op{a(1, 1), a(0, 1), a(2, 1), all, en(0), all, f(1), r(0, 1), di(0), all}},
		// a position that has no cron entry
		{Strings: base, Hooks: [][]Binding{bs}, Ops: []Op{tick(0), all, en(0), tick(5), tick(2)}},
		// ---- firings that coincide while the consumer is busy ----
		// two hooks on different crontabs, both fire at the same instant
		{Strings: base, Hooks: [][]Binding{hA, hB}, Ops: []Op{en(0), en(1), start(0, 1), drain}},
		// the example ex_burst of C11_Properties.v: one crontab fires twice, another once
		{Strings: base, Hooks: [][]Binding{hA, hB}, Ops: []Op{en(0), en(1), start(0, 1, 0), drain}},
		// three crontabs coincide, one of them shared by two hooks; then once more
		{Strings: base, Hooks: [][]Binding{hA, hB, hC}, Ops: []Op{en(0), en(1), en(2), start(0, 1, 2), drain, start(2, 1, 0, 1), drain, all}},
		// a single job: nothing parks; jobs started while another firing still waits; Tick / TickAll catch up first
		{Strings: base, Hooks: [][]Binding{hA, hB}, Ops: []Op{en(0), en(1), start(1), start(0), start(0, 1), tick(0), start(1, 0), all, drain}},
		// while firings wait: the crontab of a waiting firing loses its last binding, a hook is disabled, another enabled
		{Strings: base, Hooks: [][]Binding{hA, hB, hC}, Ops: []Op{en(0), en(1), start(0, 1), di(1), en(2), a(2, 1), r(2, 1), f(1), drain, start(0, 1), drain}},
		// positions without a cron entry, nothing started, draining an idle channel
		{Strings: base, Hooks: [][]Binding{hA}, Ops: []Op{drain, start(), start(0), drain, en(0), start(3, 0, 7), start(5), drain, drain}},
		// direct Add only (no hook handles the firings): the strings still arrive, each once
		{Strings: base, Hooks: [][]Binding{{}}, Ops: []Op{a(0, 1), a(1, 1), a(2, 2), start(0, 1, 2, 0), drain, r(1, 1), start(1, 1), drain}},
		// the manager's context is cancelled: jobs run afterwards send all the same
		{Strings: base, Hooks: [][]Binding{hA, hB}, Ops: []Op{en(0), en(1), stop, start(0, 1), drain, tick(1), all, a(2, 1), start(2, 0), en(1), drain}},
		// a case that ends with firings still waiting
		{Strings: sp[:2], Hooks: [][]Binding{{{Id: 11, Crontab: 0, Name: 101, Snaps: []int{}}}, {{Id: 21, Crontab: 1, Name: 201, Snaps: []int{}, Queue: 1}}},
			Ops: []Op{en(0), en(1), start(0, 1, 1), a(0, 9)}},
	}
}

// exhaustiveBurst: every sequence of <= maxLen operations over two hooks on two different
// crontabs, with coinciding firings and catching-up
func exhaustiveBurst(maxLen int) []Input {
	tbl := []string{"* * * * *", "*/5 * * * *"}
	hooks := [][]Binding{{{Id: 1, Crontab: 0, Name: 101, Snaps: []int{}}}, {{Id: 3, Crontab: 1, Name: 103, Group: 5, AF: true, Snaps: []int{101}, Queue: 1}}}
	alpha := []Op{
		{Kind: "Enable", H: 0}, {Kind: "Enable", H: 1}, {Kind: "Disable", H: 1}, {Kind: "Add", C: 1, I: 2},
		{Kind: "Start", Ns: []int{0, 1}}, {Kind: "Start", Ns: []int{1, 1, 0}}, {Kind: "Drain"}, {Kind: "TickAll"},
	}
	var out []Input
	var rec func(ops []Op)
	rec = func(ops []Op) {
		if len(ops) > 0 {
			out = append(out, Input{Strings: tbl, Hooks: hooks, Ops: append([]Op{}, ops...)})
		}
		if len(ops) >= maxLen {
			return
		}
		for _, o := range alpha {
			rec(append(append([]Op{}, ops...), o))
		}
	}
	rec(nil)
	return out
}

func exhaustive(maxLen int) []Input {
	// two spellings of one schedule
	tbl := []string{"* * * * *", "*  * * * *"}
	hook := []Binding{{Id: 1, Crontab: 0, Name: 101, Snaps: []int{}}, {Id: 3, Crontab: 1, Name: 103, Group: 5, AF: true, Snaps: []int{101}, Queue: 1}}
	alpha := []Op{
		{Kind: "Add", C: 0, I: 1}, {Kind: "Add", C: 0, I: 2}, {Kind: "Add", C: 1, I: 1},
		{Kind: "Remove", C: 0, I: 1}, {Kind: "Remove", C: 0, I: 2}, {Kind: "Remove", C: 1, I: 1},
		{Kind: "Enable", H: 0}, {Kind: "Disable", H: 0}, {Kind: "Fire", C: 0}, {Kind: "TickAll"},
	}
	var out []Input
	var rec func(ops []Op)
	rec = func(ops []Op) {
		if len(ops) > 0 {
			out = append(out, Input{Strings: tbl, Hooks: [][]Binding{hook}, Ops: append([]Op{}, ops...)})
		}
		if len(ops) >= maxLen {
			return
		}
		for _, o := range alpha {
			rec(append(append([]Op{}, ops...), o))
		}
	}
	rec(nil)
	return out
}

func Gen(r *core.Rng, tier string) ([]core.In[Input], bool) {
	var ins []core.In[Input]
	for _, c := range Corpus() {
		ins = append(ins, core.In[Input]{Input: c, Stream: "corpus"})
	}
	for _, c := range operatorCorpus() {
		ins = append(ins, core.In[Input]{Input: c, Stream: "corpus"})
	}
	for _, c := range startCorpus() {
		ins = append(ins, core.In[Input]{Input: c, Stream: "corpus"})
	}
	for _, c := range queuesCorpus() {
		ins = append(ins, core.In[Input]{Input: c, Stream: "corpus"})
	}
	g := &gen{r: r}
	nRandom, maxLen := 500, 20
	nOperator := 160
	nStart, nOpStart := 120, 40
	switch tier {
	case "thorough":
		nRandom, maxLen = 20000, 30
		nOperator = 2000
		nStart, nOpStart = 6000, 800
	case "search":
		nRandom = 3000
		nOperator = 1000
		nStart, nOpStart = 1500, 400
	}
	// the operator class has a generator of its own; its cases are spread over the list (the
	// driver gives each worker a contiguous slice)
	gop := &gen{r: r.Fork()}
	opEvery := nRandom / nOperator
	if opEvery < 1 {
		opEvery = 1
	}
	opDone := 0
	for i := 0; i < nRandom; i++ {
		if i%opEvery == 0 && opDone < nOperator {
			opDone++
			ins = append(ins, core.In[Input]{Input: gop.operatorCase(maxLen), Stream: "operator"})
		}
		if i%10 == 9 {
			ins = append(ins, core.In[Input]{Input: g.history(maxLen, true), Stream: "malformed"})
		} else if i%5 == 2 {
			ins = append(ins, core.In[Input]{Input: g.coinciding(maxLen), Stream: "coinciding"})
		} else {
			ins = append(ins, core.In[Input]{Input: g.history(maxLen, false), Stream: "random"})
		}
	}
	for ; opDone < nOperator; opDone++ {
		ins = append(ins, core.In[Input]{Input: gop.operatorCase(maxLen), Stream: "operator"})
	}
	if tier == "thorough" {
		for _, in := range exhaustiveOperator(5, false) {
			ins = append(ins, core.In[Input]{Input: in, Stream: "exhaustive-operator"})
		}
		for _, in := range exhaustiveOperator(5, true) {
			ins = append(ins, core.In[Input]{Input: in, Stream: "exhaustive-operator-same-names"})
		}
	}
	if tier == "search" {
		for _, in := range exhaustiveOperator(4, false) {
			ins = append(ins, core.In[Input]{Input: in, Stream: "exhaustive-operator"})
		}
		for _, in := range exhaustiveOperator(4, true) {
			ins = append(ins, core.In[Input]{Input: in, Stream: "exhaustive-operator-same-names"})
		}
	}
	if tier == "thorough" {
		for _, in := range exhaustive(5) {
			ins = append(ins, core.In[Input]{Input: in, Stream: "exhaustive"})
		}
		for _, in := range exhaustiveBurst(5) {
			ins = append(ins, core.In[Input]{Input: in, Stream: "exhaustive-coinciding"})
		}
	}
	if tier == "search" {
		for _, in := range exhaustive(4) {
			ins = append(ins, core.In[Input]{Input: in, Stream: "exhaustive"})
		}
		for _, in := range exhaustiveBurst(4) {
			ins = append(ins, core.In[Input]{Input: in, Stream: "exhaustive-coinciding"})
		}
	}
	// the cases about Start() have generators of their own (forked: the other streams draw what
	// they drew before)
	gst := &gen{r: r.Fork()}
	gopst := &gen{r: r.Fork()}
	for k := 0; k < nStart; k++ {
		ins = append(ins, core.In[Input]{Input: gst.startHistory(maxLen), Stream: "start"})
	}
	for k := 0; k < nOpStart; k++ {
		ins = append(ins, core.In[Input]{Input: gopst.operatorStartCase(maxLen), Stream: "operator-start"})
	}
	if tier == "thorough" {
		for _, in := range exhaustiveStart(5) {
			ins = append(ins, core.In[Input]{Input: in, Stream: "exhaustive-start"})
		}
	}
	if tier == "search" {
		for _, in := range exhaustiveStart(4) {
			ins = append(ins, core.In[Input]{Input: in, Stream: "exhaustive-start"})
		}
	}
	// the queues class (forked as well)
	gq := &gen{r: r.Fork()}
	nQueues := 70
	switch tier {
	case "thorough":
		nQueues = 2500
	case "search":
		nQueues = 800
	}
	for k := 0; k < nQueues; k++ {
		ins = append(ins, core.In[Input]{Input: gq.queuesCase(14), Stream: "queues"})
	}
	if tier == "thorough" {
		for _, in := range exhaustiveQueues(5) {
			ins = append(ins, core.In[Input]{Input: in, Stream: "exhaustive-queues"})
		}
	}
	if tier == "search" {
		for _, in := range exhaustiveQueues(4) {
			ins = append(ins, core.In[Input]{Input: in, Stream: "exhaustive-queues"})
		}
	}
	return spreadOperator(ins), false
}

// spreadOperator: the cases of the operator class cost ~15 ms each (hook files are executed,
// an operator is assembled), the others well under 1 ms, and the driver gives each worker a
// contiguous slice of the list: the operator cases generated after the corpus are spread
// evenly over the list (the order within each of the two groups is kept)
func spreadOperator(ins []core.In[Input]) []core.In[Input] {
	var head, slow, fast []core.In[Input]
	for _, in := range ins {
		switch {
		case in.Stream == "corpus":
			head = append(head, in)
		case isOperator(in.Input):
			slow = append(slow, in)
		default:
			fast = append(fast, in)
		}
	}
	out := head
	n := len(slow) + len(fast)
	si, fi := 0, 0
	for k := 0; k < n; k++ {
		// the k-th place goes to a slow case when the slow ones are behind their share
		if si < len(slow) && (fi >= len(fast) || si*n <= k*len(slow)) {
			out = append(out, slow[si])
			si++
		} else {
			out = append(out, fast[fi])
			fi++
		}
	}
	return out
}

var Driver = core.Driver[Input, Observation]{
	Spec: core.Spec{Property: "C11", Imports: []string{"C11_Model", "C11_Spec", "C11_Hm", "C11_HmSpec", "C11_QModel", "C11_QSpec", "C11_Corr"}, Corr: "C11_Corr", Triggers: nil, ShrinkKey: "ops",
		Rule: "1-3 hooks (0-3 schedule bindings each: crontab STRING, uuid-like id, name, group, allowFailure, snapshots, queue) (binding names repeat within a hook in 30% of the draws) with real ScheduleBindingsControllers sharing one real scheduleManager; " +
			"every case has its own table of 3-5 crontab strings drawn from 5 schedules x 4-6 spellings (single-spaced, double spaces, tabs, leading/trailing blanks, other text for the same schedule, letter case); 45% of the cases contain at least two spellings of one schedule (tags spelling:*); parsability is asked of the real cron.Parse; " +
			"operations Add/Remove of (crontab,id) over the table x 4 ids directly on the manager, Enable/Disable of a hook's bindings, Fire of a string (CanHandleEvent/HandleEvent of every controller), " +
			"Tick n (the job of the n-th registered cron entry is run, what it sends on the channel is dispatched like hook.Manager.HandleScheduleEvent does), TickAll (every registered cron entry once); " +
			"after each operation: Entries, the cron entries registered and the string each sends when its job is run (strings not in the table are appended to it); the scheduler is started only in the streams start / operator-start (below); " +
			"streams: corpus, random (length <=20, quick; 8% Start, 6% Drain, 1% Stop), coinciding (every fifth case: hooks enabled, 1-3 rounds of Start of >=2 jobs / operations meanwhile in 35% / Drain, TickAll, Tick or nothing; tags concurrent:*, stop:*), malformed (1-2 unparsable strings, some unparsable only because of whitespace such as '@hourly '; binding ids shared with the direct calls or duplicated), " +
			"exhaustive (thorough: every sequence of <=5 operations over 10 operations on 2 spellings of one schedule x 2 ids and one hook); " +
			"operator (case class COp, tags class:operator, operator:*): the REAL operator assembled around a fake cluster - 2-4 hook files (1-3 schedule bindings each, 65% of the bindings on one of two shared strings, now and then a hook without schedule bindings; " +
			"60% of the binding names from the pool {unnamed (= \"schedule\" once loaded), b101, b102}, in 40% of the hooks with >=2 bindings all bindings are namesakes (mostly on different crontabs) with independent queue / allowFailure / group / includeSnapshotsFrom: hooks share names, positions and crontabs; 25% of the hooks have plain bindings and 60% of those answer --config in the v0 format) loaded by the real hook.Manager.Init; " +
			"the ids are the REAL ones the config loader produced (never replaced before they reach the schedule manager): their strings are numbered by first carrier, reported per (hook, binding) and compared with the model's one id per (hook, binding); the predicate P_op also demands, id-free, one cron entry per parsable crontab iff some ENABLED (hook, binding) has it or an id added by hand is still registered; " +
			"Enable h = the EnableScheduleBindings task the real bootstrapMainQueue queued for hook h handled by the operator's real task handler, Disable h = HookController.DisableScheduleBindings, every string received from the schedule channel or handed over (Fire) given to the schedule event handler the operator registered (operator.go:163-191 -> hook.Manager.HandleScheduleEvent), the returned TASKS observed; " +
			"histories: the hooks enabled in queue order with firings (Tick / TickAll / Fire) in between with probability 55% each, then disable / enable / raw Add, Remove (also of a binding's own pair) / Start+Drain / firings; " +
			"exhaustive-operator (thorough: every sequence of <=5 operations over Enable 0,1,2 / Disable 0,1 / Tick 0 / TickAll on three hooks, two of them sharing a crontab, the second sharing its other crontab with the third), exhaustive-operator-same-names (the same with every binding unnamed: same name, same position, same crontab in hooks 0 and 1; namesakes with different settings in hook 1); " +
			"start (120 quick; class CCtl) and operator-start (40 quick; class COp), tags start:*: WHERE ScheduleManager.Start() (operation SmStart -> OSmStart, the REAL Start(), at most once per case) falls - before it 0-6 operations Add / Remove (85% of a pair registered by hand: entry ids with gaps) / Enable / Disable (operator: the start-up EnableScheduleBindings tasks, a hook disabled and maybe enabled again, a pair added and removed by hand), after it Remove (mostly of a registered pair) / Add / Disable / Enable / TickAll / Tick / Fire / Start+Drain; " +
			"the crontabs of these cases are due once a year, 3-9 months from the day of the run, in 8 spellings each (the running scheduler must never fire by the clock; Start() is not called should a crontab be due within 30 days); after Start() the cron entries are those of the runner the manager holds THEN, listed by entry id, and ticks run THEIR jobs; " +
			"predicate P_start / P_op_start = P / P_op and: a TickAll while nothing waits delivers every parsable crontab with a registered id exactly once and no other string; exhaustive-start (thorough: every sequence of <=5 operations containing one SmStart over Add/Remove of 2 crontabs x 1 id, Enable/Disable of a hook on one of them, SmStart, TickAll); " +
			"queues (70 quick; case class CQ, tags class:queues, queues:*; file queues.go): WHERE the tasks of a firing end up - everything of the operator class, and the operator's REAL TaskQueueSet (\"main\" made by the real bootstrapMainQueue, its start-up tasks taken out; one queue per queue name of the loaded schedule bindings made as initAndStartHookQueues makes them, NOT started) and its REAL ManagerEventsHandler.Start() loop: every string handled (Tick / TickAll / Fire) is received by that loop (its schedule channel is a channel of the harness: proxy ScheduleManager written into the handler's unexported field; the next call of Ch() tells that the loop is back at its select), which calls the schedule event handler and moves the tasks into tqs.Queues; after every operation the CONTENTS of every queue are read and compared with the model's map queue -> list (C11_QModel) and judged by C11_QSpec.Q: every queue holds what it held before followed, firing after firing, by exactly the tasks of the enabled bindings with the fired crontab whose queue it is; " +
			"1-4 hooks with 1-3 bindings, 80% of the bindings on ONE crontab string, queue layouts all-main / one-each (one binding per queue, main used or not) / pair-shares (two bindings of one or two hooks share a named queue, the others have their own) / main-and-named / random over 4 queues; histories: hooks enabled one after the other with firings in between, then firings / Disable / Enable / raw Add, Remove; exhaustive-queues (thorough: every sequence of <=5 operations over Enable 0,1 / Disable 0 / Tick 0 / TickAll / Fire on two hooks with three bindings of one crontab in three queues); " +
			"non-trivial = >=3 operations of >=2 kinds with a cron entry registered at some point; distinct = distinct input text"},
	Gen: Gen, Run: Run, Render: Render, PerShard: 200, Workers: 8, CaseTimout: 10 * time.Second,
	Extra: func() map[string]any {
		return map[string]any{
			"exhaustive_scope": "thorough: sum_{k=1..5} 10^k = 111110 operation sequences (controllers), 2 x sum_{k=1..5} 7^k = 2 x 19607 (operator: distinct names / all bindings unnamed), sum_{k=1..5} 6^k = 9330 (queues)",
			"not_driven":       "the cron library's clock and its `go e.Job.Run()` (entries are fired by running their real job closure directly, alone or several together in goroutines started by the harness), the events handler's receive loop (the harness is the consumer of Ch()), class CCtl replays hook.Manager.HandleScheduleEvent's loop on the real controllers; class COp (operator) calls the schedule event handler the operator registered with its ManagerEventsHandler (read by reflection: unexported field scheduleCb), which runs the real hook.Manager.HandleScheduleEvent and the task construction of operator.go:163-191; in the classes CCtl / COp the queues the tasks would be appended to are not driven (the queue name carried by each task is compared); class CQ (queues) drives the real ManagerEventsHandler.Start() loop and the real TaskQueueSet: there the loop's schedule channel is a channel of the harness (the handler's scheduleManager field replaced by a proxy delegating to the real manager), the queues are created by the harness the way initAndStartHookQueues creates them but not started (no worker takes tasks out), kubernetes events are not sent",
		}
	},
}
