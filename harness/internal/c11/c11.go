// Package c11: correspondence driver for C11 (schedules: one task per binding per tick;
// crontabs are reference-counted).  Drives the REAL scheduleManager (public Add/Remove,
// observed through the add-only verif export VerifC11Snapshot) shared by REAL
// ScheduleBindingsControllers (EnableScheduleBindings, DisableScheduleBindings,
// CanHandleEvent, HandleEvent).  The cron scheduler is never started: a firing is the
// direct call of every controller's CanHandleEvent/HandleEvent with the crontab, and which
// crontab each registered cron entry sends is read by running the entry's job once.
package c11

import (
	"context"
	"fmt"
	"sort"
	"strconv"
	"strings"
	"time"

	"github.com/deckhouse/deckhouse/pkg/log"

	"github.com/flant/shell-operator/pkg/hook/controller"
	htypes "github.com/flant/shell-operator/pkg/hook/types"
	schedulemanager "github.com/flant/shell-operator/pkg/schedule_manager"
	smtypes "github.com/flant/shell-operator/pkg/schedule_manager/types"

	"verifharness/internal/core"
)

type Binding struct {
	Id      int   `json:"id"`
	Crontab int   `json:"crontab"`
	Name    int   `json:"name"`
	Group   int   `json:"group"` // 0 = ""
	AF      bool  `json:"af"`
	Snaps   []int `json:"snaps"`
	Queue   int   `json:"queue"`
}

type Op struct {
	Kind string `json:"kind"` // Add Remove Enable Disable Fire
	C    int    `json:"c,omitempty"`
	I    int    `json:"i,omitempty"`
	H    int    `json:"h"`
}

type Input struct {
	Hooks [][]Binding `json:"hooks"`
	Ops   []Op        `json:"ops"`
}

type EntryObs struct {
	C       int   `json:"c"`
	Present bool  `json:"present"`
	EntryID int   `json:"entry_id"`
	Ids     []int `json:"ids"`
}
type CronObs struct {
	ID int `json:"id"`
	C  int `json:"c"`
}
type InfoObs struct {
	Name       int   `json:"name"`
	Group      int   `json:"group"`
	AF         bool  `json:"af"`
	Snaps      []int `json:"snaps"`
	Queue      int   `json:"queue"`
	BcName     int   `json:"bc_name"`
	BcSchedule bool  `json:"bc_schedule"`
	BcSnaps    []int `json:"bc_snaps"`
	BcGroup    int   `json:"bc_group"`
}
type FireObs struct {
	Can   bool      `json:"can"`
	Infos []InfoObs `json:"infos"`
}
type Obs struct {
	Entries []EntryObs `json:"entries"`
	Cron    []CronObs  `json:"cron"`
	Fire    []FireObs  `json:"fire"`
}
type Observation struct {
	Steps []Obs `json:"steps"`
}

// crontab numbers: 1..3 parsable, 4 rejected by cron.Parse
var crontabs = map[int]string{1: "* * * * *", 2: "*/5 * * * *", 3: "0 * * * *", 4: "not a crontab"}
var alphabet = []int{1, 2, 3, 4}
var invalid = []int{4}

const anomaly = 999999

func crontabNo(s string) int {
	for n, c := range crontabs {
		if c == s {
			return n
		}
	}
	return anomaly
}

func name(prefix string, n int) string {
	if n == 0 {
		return ""
	}
	return prefix + strconv.Itoa(n)
}
func unname(prefix, s string) int {
	if s == "" {
		return 0
	}
	if strings.HasPrefix(s, prefix) {
		if n, err := strconv.Atoi(s[len(prefix):]); err == nil {
			return n
		}
	}
	return anomaly
}
func names(prefix string, ns []int) []string {
	var r []string
	for _, n := range ns {
		r = append(r, name(prefix, n))
	}
	return r
}
func unnames(prefix string, ss []string) []int {
	r := []int{}
	for _, s := range ss {
		r = append(r, unname(prefix, s))
	}
	return r
}

func entry(c, i int) smtypes.ScheduleEntry {
	return smtypes.ScheduleEntry{Crontab: crontabs[c], Id: strconv.Itoa(i)}
}

func Run(in Input) Observation {
	sm := schedulemanager.NewScheduleManager(context.Background(), log.NewNop())
	type ctl = controller.ScheduleBindingsController
	var ctls []ctl
	for _, bs := range in.Hooks {
		var cfgs []htypes.ScheduleConfig
		for _, b := range bs {
			cfg := htypes.ScheduleConfig{
				ScheduleEntry:        entry(b.Crontab, b.Id),
				IncludeSnapshotsFrom: names("s", b.Snaps),
				Queue:                name("q", b.Queue),
				Group:                name("g", b.Group),
			}
			cfg.BindingName = name("b", b.Name)
			cfg.AllowFailure = b.AF
			cfgs = append(cfgs, cfg)
		}
		c := controller.NewScheduleBindingsController()
		c.WithScheduleBindings(cfgs)
		c.WithScheduleManager(sm)
		ctls = append(ctls, c)
	}
	var out Observation
	for _, op := range in.Ops {
		o := Obs{Entries: []EntryObs{}, Cron: []CronObs{}, Fire: []FireObs{}}
		switch op.Kind {
		case "Add":
			sm.Add(entry(op.C, op.I))
		case "Remove":
			sm.Remove(entry(op.C, op.I))
		case "Enable":
			if op.H >= 0 && op.H < len(ctls) {
				ctls[op.H].EnableScheduleBindings()
			}
		case "Disable":
			if op.H >= 0 && op.H < len(ctls) {
				ctls[op.H].DisableScheduleBindings()
			}
		case "Fire":
			for _, c := range ctls {
				f := FireObs{Can: c.CanHandleEvent(crontabs[op.C]), Infos: []InfoObs{}}
				for _, info := range c.HandleEvent(crontabs[op.C]) {
					io := InfoObs{Name: unname("b", info.Binding), Group: unname("g", info.Group), AF: info.AllowFailure,
						Snaps: unnames("s", info.IncludeSnapshots), Queue: unname("q", info.QueueName),
						BcName: anomaly, BcSnaps: []int{}}
					if len(info.BindingContext) == 1 && !info.IncludeAllSnapshots {
						bc := info.BindingContext[0]
						io.BcName = unname("b", bc.Binding)
						io.BcSchedule = bc.Metadata.BindingType == htypes.Schedule
						io.BcSnaps = unnames("s", bc.Metadata.IncludeSnapshots)
						io.BcGroup = unname("g", bc.Metadata.Group)
					}
					f.Infos = append(f.Infos, io)
				}
				// the controller ranges over a map: present its answer in a stable order
				sort.SliceStable(f.Infos, func(i, j int) bool {
					return fmt.Sprint(f.Infos[i]) < fmt.Sprint(f.Infos[j])
				})
				o.Fire = append(o.Fire, f)
			}
		}
		entries, cronEntries := sm.VerifC11Snapshot()
		for _, c := range alphabet {
			eo := EntryObs{C: c, Ids: []int{}}
			for _, e := range entries {
				if e.Crontab == crontabs[c] {
					eo.Present = true
					eo.EntryID = e.EntryID
					for _, id := range e.Ids {
						n, err := strconv.Atoi(id)
						if err != nil {
							n = anomaly
						}
						eo.Ids = append(eo.Ids, n)
					}
					sort.Ints(eo.Ids)
				}
			}
			o.Entries = append(o.Entries, eo)
		}
		for _, e := range cronEntries {
			o.Cron = append(o.Cron, CronObs{ID: e.EntryID, C: crontabNo(e.Fires)})
		}
		out.Steps = append(out.Steps, o)
	}
	return out
}

// ---- rendering ----

func coqBinding(b Binding) string {
	return fmt.Sprintf("Bd %d %d %d %d %s %s %d", b.Id, b.Crontab, b.Name, b.Group, core.CoqBool(b.AF),
		core.CoqList(b.Snaps, core.CoqN), b.Queue)
}
func coqOp(o Op) string {
	switch o.Kind {
	case "Add":
		return fmt.Sprintf("OAdd %d %d", o.C, o.I)
	case "Remove":
		return fmt.Sprintf("ORemove %d %d", o.C, o.I)
	case "Enable":
		return fmt.Sprintf("OEnable %d", o.H)
	case "Disable":
		return fmt.Sprintf("ODisable %d", o.H)
	}
	return fmt.Sprintf("OFire %d", o.C)
}
func coqInfo(i InfoObs) string {
	return fmt.Sprintf("Inf %d %d %s %s %d %d %s %s %d", i.Name, i.Group, core.CoqBool(i.AF), core.CoqList(i.Snaps, core.CoqN),
		i.Queue, i.BcName, core.CoqBool(i.BcSchedule), core.CoqList(i.BcSnaps, core.CoqN), i.BcGroup)
}
func coqObs(o Obs) string {
	ents := core.CoqList(o.Entries, func(e EntryObs) string {
		if !e.Present {
			return fmt.Sprintf("(%d, None)", e.C)
		}
		return fmt.Sprintf("(%d, Some (%d, %s))", e.C, e.EntryID, core.CoqList(e.Ids, core.CoqN))
	})
	cr := core.CoqList(o.Cron, func(c CronObs) string { return fmt.Sprintf("(%d, %d)", c.ID, c.C) })
	fi := core.CoqList(o.Fire, func(f FireObs) string {
		return fmt.Sprintf("(%s, %s)", core.CoqBool(f.Can), core.CoqList(f.Infos, coqInfo))
	})
	return fmt.Sprintf("mkObs %s %s %s", ents, cr, fi)
}
func coqInput(in Input) string {
	hooks := core.CoqList(in.Hooks, func(bs []Binding) string { return core.CoqList(bs, coqBinding) })
	return fmt.Sprintf("mkIn %s %s %s\n   %s", hooks, core.CoqList(invalid, core.CoqN), core.CoqList(alphabet, core.CoqN),
		core.CoqList(in.Ops, coqOp))
}

func Render(in Input, obs *Observation, crash string) core.Case {
	var steps []Obs
	if obs != nil {
		steps = obs.Steps
	}
	c := core.Case{}
	c.Coq = fmt.Sprintf("(%s,\n  %s)", coqInput(in), core.CoqList(steps, coqObs))
	c.JSON = map[string]any{"steps": steps, "crash": crash}
	c.Key = coqInput(in)
	kinds := map[string]bool{}
	usesInvalid := false
	for _, o := range in.Ops {
		kinds[o.Kind] = true
		c.Tags = append(c.Tags, "op:"+o.Kind)
		if (o.Kind == "Add" || o.Kind == "Remove" || o.Kind == "Fire") && o.C == 4 {
			usesInvalid = true
		}
	}
	dupIds := false
	seen := map[int]bool{}
	nb := 0
	for _, bs := range in.Hooks {
		for _, b := range bs {
			nb++
			if seen[b.Id] || b.Id <= 4 {
				dupIds = true
			}
			seen[b.Id] = true
			if b.Crontab == 4 {
				usesInvalid = true
			}
		}
	}
	c.Tags = append(c.Tags, fmt.Sprintf("len:%02d", len(in.Ops)/4*4), fmt.Sprintf("hooks:%d", len(in.Hooks)), fmt.Sprintf("bindings:%d", nb))
	if usesInvalid {
		c.Tags = append(c.Tags, "unparsable-crontab")
	}
	if dupIds {
		c.Tags = append(c.Tags, "binding-ids-shared-or-duplicated")
	}
	hadCron, hadInfos, maxCron := false, false, 0
	for _, s := range steps {
		if len(s.Cron) > 0 {
			hadCron = true
		}
		if len(s.Cron) > maxCron {
			maxCron = len(s.Cron)
		}
		for _, f := range s.Fire {
			if len(f.Infos) > 0 {
				hadInfos = true
			}
		}
	}
	c.Tags = append(c.Tags, fmt.Sprintf("max-cron-entries:%d", maxCron))
	if hadInfos {
		c.Tags = append(c.Tags, "firing-with-tasks")
	}
	c.Nontrivial = len(in.Ops) >= 3 && len(kinds) >= 2 && hadCron
	return c
}

// ---- generation ----

type gen struct{ r *core.Rng }

func (g *gen) hooks(collide bool, invalidPct int) [][]Binding {
	var hooks [][]Binding
	id, nm := 10, 100
	for h := 0; h < 1+g.r.Intn(3); h++ {
		bs := []Binding{}
		for k := 0; k < g.r.Intn(4); k++ {
			id++
			if !(k > 0 && g.r.Chance(30)) { // 30%: the same binding name as the previous binding of this hook
				nm++
			}
			b := Binding{Id: id, Crontab: 1 + g.r.Intn(3), Name: nm, AF: g.r.Bool(), Snaps: []int{}, Queue: g.r.Intn(3)}
			if g.r.Chance(invalidPct) {
				b.Crontab = 4
			}
			if g.r.Chance(50) {
				b.Group = 5 + g.r.Intn(2)
			}
			for _, s := range []int{101, 102} {
				if g.r.Chance(40) {
					b.Snaps = append(b.Snaps, s)
				}
			}
			if collide {
				b.Id = 1 + g.r.Intn(4) // same alphabet as the direct Add/Remove calls, duplicates possible
			}
			bs = append(bs, b)
		}
		hooks = append(hooks, bs)
	}
	return hooks
}

func (g *gen) ops(n, nHooks, maxC int) []Op {
	var ops []Op
	for len(ops) < n {
		k := g.r.Intn(100)
		c, i, h := 1+g.r.Intn(maxC), 1+g.r.Intn(4), g.r.Intn(nHooks)
		switch {
		case k < 25:
			ops = append(ops, Op{Kind: "Add", C: c, I: i})
		case k < 50:
			ops = append(ops, Op{Kind: "Remove", C: c, I: i})
		case k < 65:
			ops = append(ops, Op{Kind: "Enable", H: h})
		case k < 77:
			ops = append(ops, Op{Kind: "Disable", H: h})
		default:
			ops = append(ops, Op{Kind: "Fire", C: c})
		}
	}
	return ops
}

func (g *gen) history(maxLen int, malformed bool) Input {
	in := Input{}
	if malformed {
		in.Hooks = g.hooks(g.r.Bool(), 20)
		in.Ops = g.ops(1+g.r.Intn(maxLen), len(in.Hooks), 4)
	} else {
		in.Hooks = g.hooks(false, 0)
		in.Ops = g.ops(1+g.r.Intn(maxLen), len(in.Hooks), 3)
	}
	return in
}

func Corpus() []Input {
	bs := []Binding{{Id: 11, Crontab: 1, Name: 101, Snaps: []int{}}, {Id: 12, Crontab: 2, Name: 102, Group: 5, AF: true, Snaps: []int{101}, Queue: 3},
		{Id: 13, Crontab: 1, Name: 103, Group: 5, Snaps: []int{101, 102}}}
	other := []Binding{{Id: 21, Crontab: 1, Name: 201, Snaps: []int{}, Queue: 1}}
	a := func(c, i int) Op { return Op{Kind: "Add", C: c, I: i} }
	r := func(c, i int) Op { return Op{Kind: "Remove", C: c, I: i} }
	en := func(h int) Op { return Op{Kind: "Enable", H: h} }
	di := func(h int) Op { return Op{Kind: "Disable", H: h} }
	f := func(c int) Op { return Op{Kind: "Fire", C: c} }
	return []Input{
		// the non-vacuity example of C11_Properties.v
		{Hooks: [][]Binding{{}}, Ops: []Op{a(1, 7), a(1, 8), a(1, 7), r(1, 7), r(1, 7), r(3, 9), a(4, 7)}},
		{Hooks: [][]Binding{{}}, Ops: []Op{a(1, 7), a(1, 8), r(1, 7), r(1, 8), a(1, 8)}},
		{Hooks: [][]Binding{bs}, Ops: []Op{en(0), di(0), en(0), f(1), f(2), f(3)}},
		// two hooks share crontab 1; disabling one keeps the entry, disabling both removes it
		{Hooks: [][]Binding{bs, other}, Ops: []Op{en(0), en(1), f(1), di(0), f(1), di(1), f(1), en(1), en(1), f(1)}},
		// removal of unknown pairs, unparsable crontab added and removed
		{Hooks: [][]Binding{{}}, Ops: []Op{r(1, 1), a(4, 1), a(4, 2), r(4, 1), r(4, 2), a(1, 1), r(2, 1), r(1, 2), r(1, 1)}},
		// a raw Remove of a pair that belongs to an enabled binding
		{Hooks: [][]Binding{{{Id: 1, Crontab: 1, Name: 101, Snaps: []int{}}}}, Ops: []Op{en(0), r(1, 1), f(1), a(1, 1), di(0)}},
	}
}

func exhaustive(maxLen int) []Input {
	hook := []Binding{{Id: 1, Crontab: 1, Name: 101, Snaps: []int{}}, {Id: 3, Crontab: 2, Name: 103, Group: 5, AF: true, Snaps: []int{101}, Queue: 1}}
	alpha := []Op{
		{Kind: "Add", C: 1, I: 1}, {Kind: "Add", C: 1, I: 2}, {Kind: "Add", C: 2, I: 1},
		{Kind: "Remove", C: 1, I: 1}, {Kind: "Remove", C: 1, I: 2}, {Kind: "Remove", C: 2, I: 1},
		{Kind: "Enable", H: 0}, {Kind: "Disable", H: 0}, {Kind: "Fire", C: 1},
	}
	var out []Input
	var rec func(ops []Op)
	rec = func(ops []Op) {
		if len(ops) > 0 {
			out = append(out, Input{Hooks: [][]Binding{hook}, Ops: append([]Op{}, ops...)})
		}
		if len(ops) >= maxLen {
			return
		}
		for _, o := range alpha {
			rec(append(append([]Op{}, ops...), o))
		}
	}
	rec(nil)
	return out
}

func Gen(r *core.Rng, tier string) ([]core.In[Input], bool) {
	var ins []core.In[Input]
	for _, c := range Corpus() {
		ins = append(ins, core.In[Input]{Input: c, Stream: "corpus"})
	}
	g := &gen{r: r}
	nRandom, maxLen := 500, 20
	switch tier {
	case "thorough":
		nRandom, maxLen = 20000, 30
	case "search":
		nRandom = 3000
	}
	for i := 0; i < nRandom; i++ {
		if i%10 == 9 {
			ins = append(ins, core.In[Input]{Input: g.history(maxLen, true), Stream: "malformed"})
		} else {
			ins = append(ins, core.In[Input]{Input: g.history(maxLen, false), Stream: "random"})
		}
	}
	if tier == "thorough" {
		for _, in := range exhaustive(5) {
			ins = append(ins, core.In[Input]{Input: in, Stream: "exhaustive"})
		}
	}
	if tier == "search" {
		for _, in := range exhaustive(4) {
			ins = append(ins, core.In[Input]{Input: in, Stream: "exhaustive"})
		}
	}
	return ins, false
}

var Driver = core.Driver[Input, Observation]{
	Spec: core.Spec{Property: "C11", Imports: []string{"C11_Model", "C11_Spec", "C11_Corr"}, Corr: "C11_Corr", Triggers: nil, ShrinkKey: "ops",
		Rule: "1-3 hooks (0-3 schedule bindings each: crontab, uuid-like id, name, group, allowFailure, snapshots, queue) (binding names repeat within a hook in 30% of the draws) with real ScheduleBindingsControllers sharing one real scheduleManager; " +
			"operations Add/Remove of (crontab,id) over 3 crontabs x 4 ids directly on the manager, Enable/Disable of a hook's bindings, Fire of a crontab (CanHandleEvent/HandleEvent of every controller); " +
			"after each operation: Entries, the cron entries registered and the crontab each sends when its job is run; the scheduler is never started; " +
			"streams: corpus, random (length <=20, quick), malformed (unparsable crontab 'not a crontab', binding ids shared with the direct calls or duplicated), " +
			"exhaustive (thorough: every sequence of <=5 operations over 9 operations on 2 crontabs x 2 ids and one hook); " +
			"non-trivial = >=3 operations of >=2 kinds with a cron entry registered at some point; distinct = distinct input text"},
	Gen: Gen, Run: Run, Render: Render, PerShard: 1000, Workers: 8, CaseTimout: 10 * time.Second,
	Extra: func() map[string]any {
		return map[string]any{
			"exhaustive_scope": "thorough: sum_{k=1..5} 9^k = 66429 operation sequences",
			"not_driven":       "the cron library's clock (entries are fired by running their job directly), HookManager.HandleScheduleEvent and the task construction in operator.go:163-191 (modelled as task_of_info, not executed)",
		}
	},
}
