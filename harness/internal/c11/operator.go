package c11

// The operator-level case class of C11 (Coq: case class COp, model C11_Hm.v, predicate
// C11_HmSpec.P_hm): schedule bindings of SEVERAL hooks sharing crontab strings, the hooks'
// bindings being enabled and disabled at different moments, interleaved with firings -
// through the REAL path that turns a fired crontab into tasks.
//
// What is real here: hook files answering --config, found and loaded by the real
// hook.Manager.Init of a real ShellOperator assembled around a fake cluster
// (shell_operator.VerifAssemble, which also runs the real initHookManager: the schedule event
// handler of operator.go:163-191 is registered with the ManagerEventsHandler); the real
// bootstrapMainQueue queues one EnableScheduleBindings task per hook with schedule bindings;
// Enable h hands THAT task to the operator's real task handler (what the main queue's worker
// does when it reaches it), Disable h calls the hook's HookController.DisableScheduleBindings;
// the operator's own scheduleManager (reference counting, cron entries, job closures, the
// channel) is the one of the other class; every string received from the schedule channel
// (Tick, TickAll, Drain) or handed over (Fire) is given to the registered schedule event
// handler - the function ManagerEventsHandler.Start calls for what it receives from
// ScheduleManager.Ch() - which calls the real hook.Manager.HandleScheduleEvent and builds the
// tasks.  The handler is an unexported field of ManagerEventsHandler (scheduleCb); it is read
// by reflection.  Not driven: ManagerEventsHandler's receive loop itself (the harness is the
// consumer of Ch(), so that "all firings handled" is a fact, not a wait) and the queues the
// tasks would be appended to (the queue name each task carries is compared).
//
// Binding ids are the uuids config.ScheduleID() drew; they are renamed to the ids of the
// case's bindings (position in the loaded config).  A binding without queue gets the
// queue "main" (number 0).

import (
	"context"
	"encoding/json"
	"fmt"
	"os"
	"path/filepath"
	"reflect"
	"sort"
	"strconv"
	"sync"
	"unsafe"

	"github.com/deckhouse/deckhouse/pkg/log"

	"github.com/flant/kube-client/fake"
	"github.com/flant/shell-operator/pkg/hook/controller"
	"github.com/flant/shell-operator/pkg/hook/task_metadata"
	htypes "github.com/flant/shell-operator/pkg/hook/types"
	kem "github.com/flant/shell-operator/pkg/kube_events_manager"
	shell_operator "github.com/flant/shell-operator/pkg/shell-operator"
	"github.com/flant/shell-operator/pkg/task"

	"verifharness/internal/core"
)

var operatorOnce sync.Once

func hookFile(h int) string { return fmt.Sprintf("%02d-hook.sh", h) }

// hookConfig is the --config answer of hook h
func hookConfig(in Input, h int) string {
	type sched struct {
		Name         string   `json:"name"`
		Crontab      string   `json:"crontab"`
		AllowFailure bool     `json:"allowFailure"`
		Include      []string `json:"includeSnapshotsFrom,omitempty"`
		Queue        string   `json:"queue,omitempty"`
		Group        string   `json:"group,omitempty"`
	}
	type kube struct {
		Name       string `json:"name"`
		ApiVersion string `json:"apiVersion"`
		Kind       string `json:"kind"`
	}
	cfg := map[string]any{"configVersion": "v1"}
	var ss []sched
	snaps := map[int]bool{}
	for _, b := range in.Hooks[h] {
		ss = append(ss, sched{Name: name("b", b.Name), Crontab: in.str(b.Crontab), AllowFailure: b.AF,
			Include: names("s", b.Snaps), Queue: name("q", b.Queue), Group: name("g", b.Group)})
		for _, s := range b.Snaps {
			snaps[s] = true
		}
	}
	if len(ss) > 0 {
		cfg["schedule"] = ss
	} else {
		cfg["onStartup"] = 1 // a hook needs some binding
	}
	// includeSnapshotsFrom must name kubernetes bindings of the hook (never enabled here)
	var ks []kube
	for s := range snaps {
		ks = append(ks, kube{Name: name("s", s), ApiVersion: "v1", Kind: "ConfigMap"})
	}
	sort.Slice(ks, func(i, j int) bool { return ks[i].Name < ks[j].Name })
	if len(ks) > 0 {
		cfg["kubernetes"] = ks
	}
	b, _ := json.Marshal(cfg)
	return string(b)
}

func operatorRig(in Input) (*rig, error) {
	operatorOnce.Do(func() {
		os.Setenv("QUEUE_ACTIONS_METRICS", "no")
		log.SetDefaultLevel(log.LevelFatal)
	})
	dir, err := os.MkdirTemp("", "c11op")
	if err != nil {
		return nil, fmt.Errorf("tmp: %w", err)
	}
	ctx, cancel := context.WithCancel(context.Background())
	r := &rig{nHooks: len(in.Hooks), cleanup: func() { cancel(); os.RemoveAll(dir) }}
	hooksDir, tmpDir := filepath.Join(dir, "hooks"), filepath.Join(dir, "tmp")
	os.MkdirAll(hooksDir, 0o755)
	os.MkdirAll(tmpDir, 0o755)
	for h := range in.Hooks {
		script := "#!/bin/sh\nif [ \"$1\" = \"--config\" ]; then\ncat <<'EOF'\n" + hookConfig(in, h) + "\nEOF\nfi\nexit 0\n"
		if err := os.WriteFile(filepath.Join(hooksDir, hookFile(h)), []byte(script), 0o755); err != nil {
			return r, fmt.Errorf("hook file: %w", err)
		}
	}
	kem.DefaultFactoryStore.Reset()
	fc := fake.NewFakeCluster(fake.ClusterVersionV119)
	op, err := shell_operator.VerifAssemble(ctx, fc.Client, hooksDir, tmpDir, log.NewNop())
	if err != nil {
		return r, fmt.Errorf("assemble: %w", err)
	}
	sm, ok := op.ScheduleManager.(smAPI)
	if !ok {
		return r, fmt.Errorf("the operator's schedule manager is not the scheduleManager with the verif export")
	}
	r.sm = sm
	hm := op.VerifHookManager()

	// the hooks as loaded, the uuids of their bindings
	hookIdx := map[string]int{}
	uuidOf := map[int]string{}
	numOf := map[string]int{}
	ctl := make([]*controller.HookController, len(in.Hooks))
	for h := range in.Hooks {
		hk := hm.GetHook(hookFile(h))
		if hk == nil {
			return r, fmt.Errorf("hook %s was not loaded", hookFile(h))
		}
		hookIdx[hk.Name] = h
		ctl[h] = hk.HookController
		cfgs := hk.GetConfig().Schedules
		if len(cfgs) != len(in.Hooks[h]) {
			return r, fmt.Errorf("hook %s: the loaded config has %d schedule bindings, the case %d", hookFile(h), len(cfgs), len(in.Hooks[h]))
		}
		for k, c := range cfgs {
			b := in.Hooks[h][k]
			if c.BindingName != name("b", b.Name) || c.ScheduleEntry.Crontab != in.str(b.Crontab) {
				return r, fmt.Errorf("hook %s: the loaded config has its bindings in another order than the case", hookFile(h))
			}
			if _, dup := numOf[c.ScheduleEntry.Id]; dup {
				return r, fmt.Errorf("two bindings share the id %s", c.ScheduleEntry.Id)
			}
			uuidOf[b.Id] = c.ScheduleEntry.Id
			numOf[c.ScheduleEntry.Id] = b.Id
		}
	}
	r.idStr = func(i int) string {
		if u, ok := uuidOf[i]; ok {
			return u
		}
		return strconv.Itoa(i)
	}
	r.idNum = func(s string) int {
		if n, ok := numOf[s]; ok {
			return n
		}
		if n, err := strconv.Atoi(s); err == nil {
			if _, clash := uuidOf[n]; !clash {
				return n
			}
		}
		return anomaly
	}
	r.queueNum = func(s string) int {
		if s == "main" {
			return 0
		}
		if s == "" {
			return anomaly
		}
		return unname("q", s)
	}

	// the EnableScheduleBindings tasks the real bootstrapMainQueue queued, by hook
	op.VerifBootstrapMainQueue()
	enableTask := map[int]task.Task{}
	var order []int
	op.TaskQueues.GetMain().Iterate(func(t task.Task) {
		if t.GetType() == task_metadata.EnableScheduleBindings {
			if h, ok := hookIdx[task_metadata.HookMetadataAccessor(t).HookName]; ok {
				enableTask[h] = t
				order = append(order, h)
			}
		}
	})
	if !sort.IntsAreSorted(order) {
		return r, fmt.Errorf("the EnableScheduleBindings tasks are not queued in the order of the hooks' paths: %v", order)
	}
	for h := range in.Hooks {
		if _, has := enableTask[h]; has != (len(in.Hooks[h]) > 0) {
			return r, fmt.Errorf("hook %s: EnableScheduleBindings task queued = %v, schedule bindings = %d", hookFile(h), has, len(in.Hooks[h]))
		}
	}
	r.enable = func(h int) {
		if t, ok := enableTask[h]; ok {
			if res := op.VerifTaskHandler(t); res.Status != "Success" {
				panic(fmt.Sprintf("EnableScheduleBindings task of hook %d: status %q", h, res.Status))
			}
		}
	}
	r.disable = func(h int) { ctl[h].DisableScheduleBindings() }
	r.can = func(h int, crontab string) bool { return ctl[h].CanHandleScheduleEvent(crontab) }
	r.handle = func(h int, crontab string) []controller.BindingExecutionInfo {
		res := []controller.BindingExecutionInfo{}
		ctl[h].HandleScheduleEvent(crontab, func(info controller.BindingExecutionInfo) { res = append(res, info) })
		return res
	}

	// the schedule event handler registered by initHookManager
	cb, err := scheduleCbOf(op.ManagerEventsHandler)
	if err != nil {
		return r, err
	}
	r.tasks = func(crontab string) []TaskObs {
		res := []TaskObs{}
		for _, t := range cb(crontab) {
			res = append(res, taskObs(t, hookIdx, r.queueNum))
		}
		// within one hook the controller iterates a map: a stable order for the reader
		for lo := 0; lo < len(res); {
			hi := lo
			for hi < len(res) && res[hi].Hook == res[lo].Hook {
				hi++
			}
			run := res[lo:hi]
			sort.SliceStable(run, func(i, j int) bool { return fmt.Sprint(run[i]) < fmt.Sprint(run[j]) })
			lo = hi
		}
		return res
	}
	return r, nil
}

// scheduleCbOf reads ManagerEventsHandler.scheduleCb (set by WithScheduleEventHandler)
func scheduleCbOf(m *shell_operator.ManagerEventsHandler) (func(string) []task.Task, error) {
	if m == nil {
		return nil, fmt.Errorf("the operator has no ManagerEventsHandler")
	}
	v := reflect.ValueOf(m).Elem()
	want := reflect.TypeOf((func(string) []task.Task)(nil))
	for i := 0; i < v.NumField(); i++ {
		f := v.Field(i)
		if f.Type() == want && f.CanAddr() {
			cb := *(*func(string) []task.Task)(unsafe.Pointer(f.UnsafeAddr()))
			if cb == nil {
				return nil, fmt.Errorf("no schedule event handler is registered")
			}
			return cb, nil
		}
	}
	return nil, fmt.Errorf("ManagerEventsHandler has no field of type func(string) []task.Task")
}

func taskObs(t task.Task, hookIdx map[string]int, queueNum func(string) int) TaskObs {
	hmeta := task_metadata.HookMetadataAccessor(t)
	o := TaskObs{Hook: anomaly, Queue: queueNum(t.GetQueueName()), Binding: unname("b", hmeta.Binding),
		Group: unname("g", hmeta.Group), AF: hmeta.AllowFailure, CtxName: anomaly, CtxSnaps: []int{}, CtxGroup: anomaly}
	if h, ok := hookIdx[hmeta.HookName]; ok {
		o.Hook = h
	}
	if t.GetType() != task_metadata.HookRun || hmeta.BindingType != htypes.Schedule {
		o.Binding = anomaly
	}
	if len(hmeta.BindingContext) == 1 {
		bc := hmeta.BindingContext[0]
		if bc.Metadata.BindingType == htypes.Schedule {
			o.CtxName = unname("b", bc.Binding)
		}
		o.CtxSnaps = unnames("s", bc.Metadata.IncludeSnapshots)
		o.CtxGroup = unname("g", bc.Metadata.Group)
	}
	return o
}

func coqTask(t TaskObs) string {
	return fmt.Sprintf("Tk %d %d %d %d %s %d %s %d", t.Hook, t.Queue, t.Binding, t.Group, core.CoqBool(t.AF),
		t.CtxName, core.CoqList(t.CtxSnaps, core.CoqN), t.CtxGroup)
}

// ---- generation ----

// operatorHooks: 2-4 hooks with 1-2 schedule bindings each (now and then a hook without any),
// crontabs drawn so that hooks SHARE strings: mostly from the first two strings of the table
func (g *gen) operatorHooks(nStrings int, focus []int) [][]Binding {
	var hooks [][]Binding
	nm := 100
	n := 2 + g.r.Intn(3)
	for h := 0; h < n; h++ {
		bs := []Binding{}
		nb := 1 + g.r.Intn(2)
		if g.r.Chance(7) {
			nb = 0
		}
		for k := 0; k < nb; k++ {
			nm++
			b := Binding{Id: 10*(h+1) + k + 1, Crontab: g.r.Intn(nStrings), Name: nm, AF: g.r.Bool(), Snaps: []int{}, Queue: g.r.Intn(3)}
			if g.r.Chance(65) {
				b.Crontab = g.r.Intn(2) // shared
			}
			if len(focus) > 0 && g.r.Chance(50) {
				b.Crontab = focus[g.r.Intn(len(focus))]
			}
			if g.r.Chance(40) {
				b.Group = 5 + g.r.Intn(2)
			}
			for _, s := range []int{101, 102} {
				if g.r.Chance(30) {
					b.Snaps = append(b.Snaps, s)
				}
			}
			bs = append(bs, b)
		}
		hooks = append(hooks, bs)
	}
	return hooks
}

// operatorCase: the hooks' EnableScheduleBindings tasks are handled one after the other, as
// the main queue's worker does, while cron fires in between; later some hooks are disabled
// and enabled again, with firings after every change
func (g *gen) operatorCase(maxLen int) Input {
	in := Input{Via: "operator"}
	var focus []int
	in.Strings, _, focus = g.table(g.r.Chance(30), 0)
	for len(in.Hooks) == 0 || g.totalBindings(in.Hooks) < 2 {
		in.Hooks = g.operatorHooks(len(in.Strings), focus)
	}
	firing := func() Op {
		switch k := g.r.Intn(10); {
		case k < 5:
			return Op{Kind: "Tick", N: g.r.Intn(3)}
		case k < 8:
			return Op{Kind: "TickAll"}
		default:
			return Op{Kind: "Fire", C: g.r.Intn(len(in.Strings))}
		}
	}
	// start-up: enable in the order of the queue, firings in between
	for h := range in.Hooks {
		if g.r.Chance(90) {
			in.Ops = append(in.Ops, Op{Kind: "Enable", H: h})
		}
		for g.r.Chance(55) {
			in.Ops = append(in.Ops, firing())
		}
	}
	// afterwards: anything
	for len(in.Ops) < maxLen && g.r.Chance(85) {
		h := g.r.Intn(len(in.Hooks))
		switch k := g.r.Intn(100); {
		case k < 25:
			in.Ops = append(in.Ops, Op{Kind: "Disable", H: h})
		case k < 45:
			in.Ops = append(in.Ops, Op{Kind: "Enable", H: h})
		case k < 50:
			in.Ops = append(in.Ops, Op{Kind: "Add", C: g.r.Intn(len(in.Strings)), I: 1 + g.r.Intn(4)})
		case k < 55:
			in.Ops = append(in.Ops, Op{Kind: "Remove", C: g.r.Intn(len(in.Strings)), I: 1 + g.r.Intn(4)})
		case k < 58:
			// a raw Remove of a pair that belongs to a binding
			bs := in.Hooks[h]
			if len(bs) > 0 {
				b := bs[g.r.Intn(len(bs))]
				in.Ops = append(in.Ops, Op{Kind: "Remove", C: b.Crontab, I: b.Id})
			}
		case k < 64:
			in.Ops = append(in.Ops, Op{Kind: "Start", Ns: g.positions()}, Op{Kind: "Drain"})
		default:
			in.Ops = append(in.Ops, firing())
		}
	}
	if len(in.Ops) > maxLen {
		in.Ops = in.Ops[:maxLen]
	}
	return in
}

// operatorCorpus: fixed cases of the operator class
func operatorCorpus() []Input {
	en := func(h int) Op { return Op{Kind: "Enable", H: h} }
	di := func(h int) Op { return Op{Kind: "Disable", H: h} }
	f := func(c int) Op { return Op{Kind: "Fire", C: c} }
	tick := func(n int) Op { return Op{Kind: "Tick", N: n} }
	all := Op{Kind: "TickAll"}
	tbl := []string{"*/5 * * * *", "*/7 * * * *", "*/5  * * * *"}
	early := []Binding{{Id: 11, Crontab: 0, Name: 101, Snaps: []int{}}}
	late := []Binding{{Id: 21, Crontab: 0, Name: 201, Snaps: []int{}, Queue: 2}}
	other := []Binding{{Id: 31, Crontab: 1, Name: 301, Snaps: []int{}}}
	rich := []Binding{{Id: 41, Crontab: 0, Name: 401, Group: 5, AF: true, Snaps: []int{101, 102}, Queue: 1},
		{Id: 42, Crontab: 2, Name: 402, Group: 6, Snaps: []int{102}}, {Id: 43, Crontab: 0, Name: 403, Snaps: []int{}}}
	return []Input{
		// the example ex_late of C11_Properties.v: a hook is enabled after the first firing of the crontab it shares
		{Via: "operator", Strings: tbl, Hooks: [][]Binding{early, late, other},
			Ops: []Op{en(0), en(2), tick(0), en(1), tick(0), di(0), tick(0), all}},
		// all enabled before the first firing; disabled one by one; the last one gone: no cron entry
		{Via: "operator", Strings: tbl, Hooks: [][]Binding{early, late, other},
			Ops: []Op{en(0), en(1), en(2), all, f(0), di(1), all, di(0), all, f(0), di(2), all, tick(0)}},
		// firings before anything is enabled; a hook with several bindings, groups, snapshots, two spellings
		{Via: "operator", Strings: tbl, Hooks: [][]Binding{rich, early, {}},
			Ops: []Op{f(0), all, en(1), f(0), f(2), en(0), f(0), f(2), all, en(2), di(1), all, en(1), en(1), all}},
		// a hook disabled and enabled again between firings
		{Via: "operator", Strings: tbl, Hooks: [][]Binding{early, late},
			Ops: []Op{en(0), tick(0), en(1), tick(0), di(1), tick(0), en(1), tick(0), di(0), di(1), all, en(1), tick(0)}},
	}
}

// exhaustiveOperator: every sequence of <= maxLen operations over three hooks - hooks 0 and 1
// share a crontab, hook 1 has a second binding on the crontab of hook 2 - with enabling,
// disabling and firings in every order
func exhaustiveOperator(maxLen int) []Input {
	tbl := []string{"*/5 * * * *", "*/7 * * * *"}
	hooks := [][]Binding{
		{{Id: 11, Crontab: 0, Name: 101, Snaps: []int{}}},
		{{Id: 21, Crontab: 0, Name: 201, Group: 5, AF: true, Snaps: []int{101}, Queue: 1}, {Id: 22, Crontab: 1, Name: 202, Snaps: []int{}}},
		{{Id: 31, Crontab: 1, Name: 301, Snaps: []int{}, Queue: 2}},
	}
	alpha := []Op{
		{Kind: "Enable", H: 0}, {Kind: "Enable", H: 1}, {Kind: "Enable", H: 2}, {Kind: "Disable", H: 0}, {Kind: "Disable", H: 1},
		{Kind: "Tick", N: 0}, {Kind: "TickAll"},
	}
	var out []Input
	var rec func(ops []Op)
	rec = func(ops []Op) {
		if len(ops) > 0 {
			out = append(out, Input{Via: "operator", Strings: tbl, Hooks: hooks, Ops: append([]Op{}, ops...)})
		}
		if len(ops) >= maxLen {
			return
		}
		for _, o := range alpha {
			rec(append(append([]Op{}, ops...), o))
		}
	}
	rec(nil)
	return out
}

// operatorTags: which of the enable / firing interleavings a case of the operator class contains
func operatorTags(in Input, steps []Obs) []string {
	if in.Via != "operator" {
		return []string{"class:controllers"}
	}
	tags := map[string]bool{"class:operator": true}
	// which hooks have a binding on which string
	users := map[int]map[int]bool{}
	for h, bs := range in.Hooks {
		for _, b := range bs {
			if users[b.Crontab] == nil {
				users[b.Crontab] = map[int]bool{}
			}
			users[b.Crontab][h] = true
		}
	}
	shared := false
	for _, hs := range users {
		if len(hs) >= 2 {
			shared = true
		}
	}
	if shared {
		tags["operator:hooks-share-a-crontab"] = true
	} else {
		tags["operator:no-crontab-shared"] = true
	}
	index := map[string]int{}
	for i, s := range in.Strings {
		if _, dup := index[s]; !dup {
			index[s] = i
		}
	}
	enabled := map[int]bool{}
	firedBefore := map[int]bool{}  // strings handled so far
	late := map[int]map[int]bool{} // string -> hooks enabled after a firing of it
	everDisabled := map[int]bool{}
	for k, o := range in.Ops {
		if k >= len(steps) {
			break
		}
		switch o.Kind {
		case "Enable":
			if o.H >= 0 && o.H < len(in.Hooks) && !enabled[o.H] {
				enabled[o.H] = true
				for _, b := range in.Hooks[o.H] {
					if firedBefore[b.Crontab] {
						tags["operator:hook-enabled-after-a-firing-of-its-crontab"] = true
						if len(users[b.Crontab]) >= 2 {
							tags["operator:hook-enabled-after-a-firing-of-a-SHARED-crontab"] = true
						}
						if late[b.Crontab] == nil {
							late[b.Crontab] = map[int]bool{}
						}
						late[b.Crontab][o.H] = true
					}
				}
			}
		case "Disable":
			if o.H >= 0 && o.H < len(in.Hooks) && enabled[o.H] {
				enabled[o.H] = false
				everDisabled[o.H] = true
			}
		case "Fire", "Tick", "TickAll", "Drain":
			var handled []int
			if o.Kind == "Fire" {
				handled = append(handled, o.C)
			}
			for _, s := range steps[k].RecvStr {
				if c, ok := index[s]; ok {
					handled = append(handled, c)
				}
			}
			hooksWithTasks := map[int]bool{}
			for _, t := range steps[k].Tasks {
				hooksWithTasks[t.Hook] = true
			}
			if len(steps[k].Tasks) > 0 {
				tags["operator:firing-with-tasks"] = true
			}
			if len(hooksWithTasks) >= 2 {
				tags["operator:one-firing-tasks-for>=2-hooks"] = true
			}
			for _, c := range handled {
				for h := range late[c] {
					if enabled[h] {
						tags["operator:crontab-fires-again-after-late-enable"] = true
					}
				}
				someDisabled, someEnabled := false, false
				for h := range users[c] {
					if enabled[h] {
						someEnabled = true
					} else if everDisabled[h] {
						someDisabled = true
					}
				}
				if someDisabled && someEnabled {
					tags["operator:shared-crontab-fires-after-one-sharer-was-disabled"] = true
				}
				if len(handled) > 0 && len(steps[k].Tasks) == 0 {
					tags["operator:firing-without-tasks"] = true
				}
				firedBefore[c] = true
			}
		}
	}
	var res []string
	for t := range tags {
		res = append(res, t)
	}
	sort.Strings(res)
	return res
}
