package c11

// The operator-level case class of C11 (Coq: case class COp, model C11_Hm.v, predicate
// C11_HmSpec.P_hm): schedule bindings of SEVERAL hooks sharing crontab strings, the hooks'
// bindings being enabled and disabled at different moments, interleaved with firings -
// through the REAL path that turns a fired crontab into tasks.
//
// What is real here: hook files answering --config, found and loaded by the real
// hook.Manager.Init of a real ShellOperator assembled around a fake cluster
// (shell_operator.VerifAssemble, which also runs the real initHookManager: the schedule event
// handler of operator.go:163-191 is registered with the ManagerEventsHandler); the real
// bootstrapMainQueue queues one EnableScheduleBindings task per hook with schedule bindings;
// Enable h hands THAT task to the operator's real task handler (what the main queue's worker
// does when it reaches it), Disable h calls the hook's HookController.DisableScheduleBindings;
// the operator's own scheduleManager (reference counting, cron entries, job closures, the
// channel) is the one of the other class; every string received from the schedule channel
// (Tick, TickAll, Drain) or handed over (Fire) is given to the registered schedule event
// handler - the function ManagerEventsHandler.Start calls for what it receives from
// ScheduleManager.Ch() - which calls the real hook.Manager.HandleScheduleEvent and builds the
// tasks.  The handler is an unexported field of ManagerEventsHandler (scheduleCb); it is read
// by reflection.  Not driven: ManagerEventsHandler's receive loop itself (the harness is the
// consumer of Ch(), so that "all firings handled" is a fact, not a wait) and the queues the
// tasks would be appended to (the queue name each task carries is compared).
//
// Binding ids: the REAL ids the config loader produced (config.ConvertSchedule / ScheduleID) are
// what the hooks' controllers hand to the schedule manager - the harness never replaces them.
// For the comparison the id STRINGS are numbered: a string gets the number the model gives the
// FIRST (hook, binding) of the loaded configurations that carries it (modelID: 11, 12, ... in
// the order of the hooks' paths and of each hook's schedule list - C11_Hm.hm_load); this
// numbering of strings is injective, so two bindings that were given ONE id string show up as
// such: in Observation.Loaded (per hook and binding, compared with the model's "one id per
// (hook, binding)") and in every id set read from the manager's Entries.  An Add / Remove by
// hand whose id number is a binding's number uses that binding's real id string.
// Hooks share binding names (an unnamed binding - number 0 - is called "schedule" once loaded),
// positions in their schedule lists and crontabs; one hook may carry several bindings of one name
// with different queue / allowFailure / group / includeSnapshotsFrom.  Hooks listed in Input.V0
// (only bindings without queue, group and snapshots) answer --config in the v0 format.
// A binding without queue gets the queue "main" (number 0).

import (
	"context"
	"encoding/json"
	"fmt"
	"os"
	"path/filepath"
	"reflect"
	"sort"
	"strconv"
	"sync"
	"unsafe"

	"github.com/deckhouse/deckhouse/pkg/log"

	"github.com/flant/kube-client/fake"
	"github.com/flant/shell-operator/pkg/hook/controller"
	"github.com/flant/shell-operator/pkg/hook/task_metadata"
	htypes "github.com/flant/shell-operator/pkg/hook/types"
	kem "github.com/flant/shell-operator/pkg/kube_events_manager"
	shell_operator "github.com/flant/shell-operator/pkg/shell-operator"
	"github.com/flant/shell-operator/pkg/task"

	"verifharness/internal/core"
)

var operatorOnce sync.Once

func hookFile(h int) string { return fmt.Sprintf("%02d-hook.sh", h) }

// firstID, modelID: the model's numbering of the loaded bindings (C11_Hm.first_id, load_from)
const firstID = 11

func modelID(hooks [][]Binding, h, k int) int {
	n := firstID
	for j := 0; j < h; j++ {
		n += len(hooks[j])
	}
	return n + k
}

// assignIds writes the model's ids into the bindings (for the reader of a case; the Coq side
// loads the hooks itself and the driver uses modelID)
func assignIds(hooks [][]Binding) [][]Binding {
	out := make([][]Binding, len(hooks))
	for h, bs := range hooks {
		out[h] = append([]Binding{}, bs...)
		for k := range out[h] {
			out[h][k].Id = modelID(hooks, h, k)
		}
	}
	return out
}

// plain: the binding can be written in a v0 configuration
func plain(b Binding) bool { return b.Queue == 0 && b.Group == 0 && len(b.Snaps) == 0 }

func isV0(in Input, h int) bool {
	for _, x := range in.V0 {
		if x == h {
			for _, b := range in.Hooks[h] {
				if !plain(b) {
					return false
				}
			}
			return len(in.Hooks[h]) > 0
		}
	}
	return false
}

// loadedName: the name a binding has once loaded
func loadedName(b Binding) string {
	if b.Name == 0 {
		return "schedule"
	}
	return name("b", b.Name)
}

// hookConfig is the --config answer of hook h
func hookConfig(in Input, h int) string {
	type sched struct {
		Name         string   `json:"name"`
		Crontab      string   `json:"crontab"`
		AllowFailure bool     `json:"allowFailure"`
		Include      []string `json:"includeSnapshotsFrom,omitempty"`
		Queue        string   `json:"queue,omitempty"`
		Group        string   `json:"group,omitempty"`
	}
	type kube struct {
		Name       string `json:"name"`
		ApiVersion string `json:"apiVersion"`
		Kind       string `json:"kind"`
	}
	if isV0(in, h) {
		type sched0 struct {
			Name         string `json:"name,omitempty"`
			Crontab      string `json:"crontab"`
			AllowFailure bool   `json:"allowFailure"`
		}
		var ss []sched0
		for _, b := range in.Hooks[h] {
			ss = append(ss, sched0{Name: name("b", b.Name), Crontab: in.str(b.Crontab), AllowFailure: b.AF})
		}
		b, _ := json.Marshal(map[string]any{"schedule": ss})
		return string(b)
	}
	cfg := map[string]any{"configVersion": "v1"}
	var ss []sched
	snaps := map[int]bool{}
	for _, b := range in.Hooks[h] {
		ss = append(ss, sched{Name: name("b", b.Name), Crontab: in.str(b.Crontab), AllowFailure: b.AF,
			Include: names("s", b.Snaps), Queue: name("q", b.Queue), Group: name("g", b.Group)})
		for _, s := range b.Snaps {
			snaps[s] = true
		}
	}
	if len(ss) > 0 {
		cfg["schedule"] = ss
	} else {
		cfg["onStartup"] = 1 // a hook needs some binding
	}
	// includeSnapshotsFrom must name kubernetes bindings of the hook (never enabled here)
	var ks []kube
	for s := range snaps {
		ks = append(ks, kube{Name: name("s", s), ApiVersion: "v1", Kind: "ConfigMap"})
	}
	sort.Slice(ks, func(i, j int) bool { return ks[i].Name < ks[j].Name })
	if len(ks) > 0 {
		cfg["kubernetes"] = ks
	}
	b, _ := json.Marshal(cfg)
	return string(b)
}

func operatorRig(in Input) (*rig, error) {
	operatorOnce.Do(func() {
		os.Setenv("QUEUE_ACTIONS_METRICS", "no")
		log.SetDefaultLevel(log.LevelFatal)
	})
	dir, err := os.MkdirTemp("", "c11op")
	if err != nil {
		return nil, fmt.Errorf("tmp: %w", err)
	}
	ctx, cancel := context.WithCancel(context.Background())
	r := &rig{nHooks: len(in.Hooks), cleanup: func() { cancel(); os.RemoveAll(dir) }}
	hooksDir, tmpDir := filepath.Join(dir, "hooks"), filepath.Join(dir, "tmp")
	os.MkdirAll(hooksDir, 0o755)
	os.MkdirAll(tmpDir, 0o755)
	for h := range in.Hooks {
		script := "#!/bin/sh\nif [ \"$1\" = \"--config\" ]; then\ncat <<'EOF'\n" + hookConfig(in, h) + "\nEOF\nfi\nexit 0\n"
		if err := os.WriteFile(filepath.Join(hooksDir, hookFile(h)), []byte(script), 0o755); err != nil {
			return r, fmt.Errorf("hook file: %w", err)
		}
	}
	kem.DefaultFactoryStore.Reset()
	fc := fake.NewFakeCluster(fake.ClusterVersionV119)
	op, err := shell_operator.VerifAssemble(ctx, fc.Client, hooksDir, tmpDir, log.NewNop())
	if err != nil {
		return r, fmt.Errorf("assemble: %w", err)
	}
	sm, ok := op.ScheduleManager.(smAPI)
	if !ok {
		return r, fmt.Errorf("the operator's schedule manager is not the scheduleManager with the verif export")
	}
	r.sm = sm
	hm := op.VerifHookManager()

	// the hooks as loaded, the real ids of their bindings
	hookIdx := map[string]int{}
	uuidOf := map[int]string{} // model id of a (hook, binding) -> the real id string of that binding
	numOf := map[string]int{}  // real id string -> model id of the first (hook, binding) carrying it
	r.loaded = make([][]int, len(in.Hooks))
	ctl := make([]*controller.HookController, len(in.Hooks))
	for h := range in.Hooks {
		hk := hm.GetHook(hookFile(h))
		if hk == nil {
			return r, fmt.Errorf("hook %s was not loaded", hookFile(h))
		}
		hookIdx[hk.Name] = h
		ctl[h] = hk.HookController
		cfgs := hk.GetConfig().Schedules
		if len(cfgs) != len(in.Hooks[h]) {
			return r, fmt.Errorf("hook %s: the loaded config has %d schedule bindings, the case %d", hookFile(h), len(cfgs), len(in.Hooks[h]))
		}
		r.loaded[h] = []int{}
		for k, c := range cfgs {
			b := in.Hooks[h][k]
			if c.BindingName != loadedName(b) || c.ScheduleEntry.Crontab != in.str(b.Crontab) {
				return r, fmt.Errorf("hook %s: the loaded config has its bindings in another order than the case", hookFile(h))
			}
			id := modelID(in.Hooks, h, k)
			uuidOf[id] = c.ScheduleEntry.Id
			if _, seen := numOf[c.ScheduleEntry.Id]; !seen {
				numOf[c.ScheduleEntry.Id] = id
			}
			r.loaded[h] = append(r.loaded[h], numOf[c.ScheduleEntry.Id])
		}
	}
	r.bindNum = func(s string) int {
		switch s {
		case "schedule":
			return 0
		case "":
			return anomaly // a loaded binding always has a name
		}
		return unname("b", s)
	}
	r.idStr = func(i int) string {
		if u, ok := uuidOf[i]; ok {
			return u
		}
		return strconv.Itoa(i)
	}
	r.idNum = func(s string) int {
		if n, ok := numOf[s]; ok {
			return n
		}
		if n, err := strconv.Atoi(s); err == nil {
			if _, clash := uuidOf[n]; !clash {
				return n
			}
		}
		return anomaly
	}
	r.queueNum = func(s string) int {
		if s == "main" {
			return 0
		}
		if s == "" {
			return anomaly
		}
		return unname("q", s)
	}

	// the EnableScheduleBindings tasks the real bootstrapMainQueue queued, by hook
	op.VerifBootstrapMainQueue()
	enableTask := map[int]task.Task{}
	var order []int
	op.TaskQueues.GetMain().Iterate(func(t task.Task) {
		if t.GetType() == task_metadata.EnableScheduleBindings {
			if h, ok := hookIdx[task_metadata.HookMetadataAccessor(t).HookName]; ok {
				enableTask[h] = t
				order = append(order, h)
			}
		}
	})
	if !sort.IntsAreSorted(order) {
		return r, fmt.Errorf("the EnableScheduleBindings tasks are not queued in the order of the hooks' paths: %v", order)
	}
	for h := range in.Hooks {
		if _, has := enableTask[h]; has != (len(in.Hooks[h]) > 0) {
			return r, fmt.Errorf("hook %s: EnableScheduleBindings task queued = %v, schedule bindings = %d", hookFile(h), has, len(in.Hooks[h]))
		}
	}
	r.enable = func(h int) {
		if t, ok := enableTask[h]; ok {
			if res := op.VerifTaskHandler(t); res.Status != "Success" {
				panic(fmt.Sprintf("EnableScheduleBindings task of hook %d: status %q", h, res.Status))
			}
		}
	}
	r.disable = func(h int) { ctl[h].DisableScheduleBindings() }
	r.can = func(h int, crontab string) bool { return ctl[h].CanHandleScheduleEvent(crontab) }
	r.handle = func(h int, crontab string) []controller.BindingExecutionInfo {
		res := []controller.BindingExecutionInfo{}
		ctl[h].HandleScheduleEvent(crontab, func(info controller.BindingExecutionInfo) { res = append(res, info) })
		return res
	}

	// the schedule event handler registered by initHookManager
	cb, err := scheduleCbOf(op.ManagerEventsHandler)
	if err != nil {
		return r, err
	}
	if in.Via == "queues" {
		if err := queuesRig(in, r, op, hookIdx); err != nil {
			return r, err
		}
	}
	r.tasks = func(crontab string) []TaskObs {
		res := []TaskObs{}
		for _, t := range cb(crontab) {
			res = append(res, taskObs(t, hookIdx, r.queueNum, r.bindNum))
		}
		// within one hook the controller iterates a map: a stable order for the reader
		for lo := 0; lo < len(res); {
			hi := lo
			for hi < len(res) && res[hi].Hook == res[lo].Hook {
				hi++
			}
			run := res[lo:hi]
			sort.SliceStable(run, func(i, j int) bool { return fmt.Sprint(run[i]) < fmt.Sprint(run[j]) })
			lo = hi
		}
		return res
	}
	return r, nil
}

// scheduleCbOf reads ManagerEventsHandler.scheduleCb (set by WithScheduleEventHandler)
func scheduleCbOf(m *shell_operator.ManagerEventsHandler) (func(string) []task.Task, error) {
	if m == nil {
		return nil, fmt.Errorf("the operator has no ManagerEventsHandler")
	}
	v := reflect.ValueOf(m).Elem()
	want := reflect.TypeOf((func(string) []task.Task)(nil))
	for i := 0; i < v.NumField(); i++ {
		f := v.Field(i)
		if f.Type() == want && f.CanAddr() {
			cb := *(*func(string) []task.Task)(unsafe.Pointer(f.UnsafeAddr()))
			if cb == nil {
				return nil, fmt.Errorf("no schedule event handler is registered")
			}
			return cb, nil
		}
	}
	return nil, fmt.Errorf("ManagerEventsHandler has no field of type func(string) []task.Task")
}

func taskObs(t task.Task, hookIdx map[string]int, queueNum, bindNum func(string) int) TaskObs {
	hmeta := task_metadata.HookMetadataAccessor(t)
	o := TaskObs{Hook: anomaly, Queue: queueNum(t.GetQueueName()), Binding: bindNum(hmeta.Binding),
		Group: unname("g", hmeta.Group), AF: hmeta.AllowFailure, CtxName: anomaly, CtxSnaps: []int{}, CtxGroup: anomaly}
	if h, ok := hookIdx[hmeta.HookName]; ok {
		o.Hook = h
	}
	if t.GetType() != task_metadata.HookRun || hmeta.BindingType != htypes.Schedule {
		o.Binding = anomaly
	}
	if len(hmeta.BindingContext) == 1 {
		bc := hmeta.BindingContext[0]
		if bc.Metadata.BindingType == htypes.Schedule {
			o.CtxName = bindNum(bc.Binding)
		}
		o.CtxSnaps = unnames("s", bc.Metadata.IncludeSnapshots)
		o.CtxGroup = unname("g", bc.Metadata.Group)
	}
	return o
}

func coqTask(t TaskObs) string {
	return fmt.Sprintf("Tk %d %d %d %d %s %d %s %d", t.Hook, t.Queue, t.Binding, t.Group, core.CoqBool(t.AF),
		t.CtxName, core.CoqList(t.CtxSnaps, core.CoqN), t.CtxGroup)
}

// ---- generation ----

// operatorHooks: 2-4 hooks with 1-3 schedule bindings each (now and then a hook without any),
// crontabs drawn so that hooks SHARE strings: mostly from the first two strings of the table.
// Binding names: 60% of the bindings take their name from a pool of three - unnamed (called
// "schedule" once loaded), b101, b102 - so that hooks carry same-named / unnamed bindings at the
// same position on the same crontab, and one hook several bindings of one name (on different
// crontabs in most draws) with different queue / allowFailure / group / snapshots; the others
// get a name of their own.  A hook is "plain" (no queue, group, snapshots: can be written in
// the v0 format) in 25% of the draws.
func (g *gen) operatorHooks(nStrings int, focus []int) ([][]Binding, []int) {
	var hooks [][]Binding
	var v0 []int
	pool := []int{0, 0, 101, 102}
	nm := 200
	n := 2 + g.r.Intn(3)
	for h := 0; h < n; h++ {
		bs := []Binding{}
		nb := 1 + g.r.Intn(2)
		if g.r.Chance(20) {
			nb = 3
		}
		if g.r.Chance(7) {
			nb = 0
		}
		isPlain := g.r.Chance(25)
		sameName := -1 // every binding of this hook has this name
		if nb >= 2 && g.r.Chance(40) {
			sameName = pool[g.r.Intn(len(pool))]
		}
		for k := 0; k < nb; k++ {
			nm++
			b := Binding{Crontab: g.r.Intn(nStrings), Name: nm, AF: g.r.Bool(), Snaps: []int{}, Queue: g.r.Intn(3)}
			if g.r.Chance(60) {
				b.Name = pool[g.r.Intn(len(pool))]
			}
			if sameName >= 0 {
				b.Name = sameName
			}
			if g.r.Chance(65) {
				b.Crontab = g.r.Intn(2) // shared
			}
			if len(focus) > 0 && g.r.Chance(50) {
				b.Crontab = focus[g.r.Intn(len(focus))]
			}
			if sameName >= 0 && k > 0 && g.r.Chance(75) {
				// namesakes of one hook on different crontabs
				for try := 0; try < 4; try++ {
					clash := false
					for _, o := range bs {
						if o.Crontab == b.Crontab {
							clash = true
						}
					}
					if !clash {
						break
					}
					b.Crontab = g.r.Intn(nStrings)
				}
			}
			if g.r.Chance(40) {
				b.Group = 5 + g.r.Intn(2)
			}
			for _, s := range []int{101, 102} {
				if g.r.Chance(30) {
					b.Snaps = append(b.Snaps, s)
				}
			}
			if isPlain {
				b.Queue, b.Group, b.Snaps = 0, 0, []int{}
			}
			bs = append(bs, b)
		}
		if isPlain && nb > 0 && g.r.Chance(60) {
			v0 = append(v0, h)
		}
		hooks = append(hooks, bs)
	}
	return assignIds(hooks), v0
}

// operatorCase: the hooks' EnableScheduleBindings tasks are handled one after the other, as
// the main queue's worker does, while cron fires in between; later some hooks are disabled
// and enabled again, with firings after every change
func (g *gen) operatorCase(maxLen int) Input {
	in := Input{Via: "operator"}
	var focus []int
	in.Strings, _, focus = g.table(g.r.Chance(30), 0)
	for len(in.Hooks) == 0 || g.totalBindings(in.Hooks) < 2 {
		in.Hooks, in.V0 = g.operatorHooks(len(in.Strings), focus)
	}
	firing := func() Op {
		switch k := g.r.Intn(10); {
		case k < 5:
			return Op{Kind: "Tick", N: g.r.Intn(3)}
		case k < 8:
			return Op{Kind: "TickAll"}
		default:
			return Op{Kind: "Fire", C: g.r.Intn(len(in.Strings))}
		}
	}
	// start-up: enable in the order of the queue, firings in between
	for h := range in.Hooks {
		if g.r.Chance(90) {
			in.Ops = append(in.Ops, Op{Kind: "Enable", H: h})
		}
		for g.r.Chance(55) {
			in.Ops = append(in.Ops, firing())
		}
	}
	// afterwards: anything
	for len(in.Ops) < maxLen && g.r.Chance(85) {
		h := g.r.Intn(len(in.Hooks))
		switch k := g.r.Intn(100); {
		case k < 25:
			in.Ops = append(in.Ops, Op{Kind: "Disable", H: h})
		case k < 45:
			in.Ops = append(in.Ops, Op{Kind: "Enable", H: h})
		case k < 50:
			in.Ops = append(in.Ops, Op{Kind: "Add", C: g.r.Intn(len(in.Strings)), I: 1 + g.r.Intn(4)})
		case k < 55:
			in.Ops = append(in.Ops, Op{Kind: "Remove", C: g.r.Intn(len(in.Strings)), I: 1 + g.r.Intn(4)})
		case k < 58:
			// a raw Remove of a pair that belongs to a binding
			bs := in.Hooks[h]
			if len(bs) > 0 {
				b := bs[g.r.Intn(len(bs))]
				in.Ops = append(in.Ops, Op{Kind: "Remove", C: b.Crontab, I: b.Id})
			}
		case k < 64:
			in.Ops = append(in.Ops, Op{Kind: "Start", Ns: g.positions()}, Op{Kind: "Drain"})
		default:
			in.Ops = append(in.Ops, firing())
		}
	}
	if len(in.Ops) > maxLen {
		in.Ops = in.Ops[:maxLen]
	}
	return in
}

// operatorStartCase: the operator's start-up order - the hooks' EnableScheduleBindings tasks are
// handled (some bindings disabled again, ids added and removed by hand) BEFORE
// ScheduleManager.Start(); afterwards hooks are disabled and enabled again with ticks through
// the cron entries the manager holds then.  Crontabs due months from now (farFamilies).
func (g *gen) operatorStartCase(maxLen int) Input {
	fg := &gen{r: g.r, fams: farFamilies()}
	in := Input{Via: "operator"}
	var focus []int
	in.Strings, _, focus = fg.table(g.r.Chance(30), 0)
	for len(in.Hooks) == 0 || g.totalBindings(in.Hooks) < 2 {
		in.Hooks, in.V0 = g.operatorHooks(len(in.Strings), focus)
	}
	h := func() int { return g.r.Intn(len(in.Hooks)) }
	for k := range in.Hooks {
		if g.r.Chance(85) {
			in.Ops = append(in.Ops, Op{Kind: "Enable", H: k})
		}
		if g.r.Chance(12) {
			in.Ops = append(in.Ops, Op{Kind: "TickAll"})
		}
	}
	if g.r.Chance(55) {
		k := h()
		in.Ops = append(in.Ops, Op{Kind: "Disable", H: k})
		if g.r.Chance(40) {
			in.Ops = append(in.Ops, Op{Kind: "Enable", H: k})
		}
	}
	if g.r.Chance(30) {
		c, i := g.r.Intn(len(in.Strings)), 1+g.r.Intn(4)
		in.Ops = append(in.Ops, Op{Kind: "Add", C: c, I: i})
		if g.r.Chance(60) {
			in.Ops = append(in.Ops, Op{Kind: "Remove", C: c, I: i})
		}
	}
	// the order of the start-up tasks is the queue's; what comes after them is shuffled a little
	if n := len(in.Ops); n > len(in.Hooks) && g.r.Chance(40) {
		j := g.r.Intn(n)
		in.Ops[n-1], in.Ops[j] = in.Ops[j], in.Ops[n-1]
	}
	in.Ops = append(in.Ops, Op{Kind: "SmStart"})
	for n := 3 + g.r.Intn(8); n > 0 && len(in.Ops) < maxLen; n-- {
		switch k := g.r.Intn(100); {
		case k < 28:
			in.Ops = append(in.Ops, Op{Kind: "Disable", H: h()})
		case k < 50:
			in.Ops = append(in.Ops, Op{Kind: "Enable", H: h()})
		case k < 74:
			in.Ops = append(in.Ops, Op{Kind: "TickAll"})
		case k < 86:
			in.Ops = append(in.Ops, Op{Kind: "Tick", N: g.r.Intn(3)})
		case k < 91:
			in.Ops = append(in.Ops, Op{Kind: "Add", C: g.r.Intn(len(in.Strings)), I: 1 + g.r.Intn(4)})
		case k < 96:
			in.Ops = append(in.Ops, Op{Kind: "Remove", C: g.r.Intn(len(in.Strings)), I: 1 + g.r.Intn(4)})
		default:
			in.Ops = append(in.Ops, Op{Kind: "Fire", C: g.r.Intn(len(in.Strings))})
		}
	}
	return in
}

// operatorCorpus: fixed cases of the operator class
func operatorCorpus() []Input {
	en := func(h int) Op { return Op{Kind: "Enable", H: h} }
	di := func(h int) Op { return Op{Kind: "Disable", H: h} }
	f := func(c int) Op { return Op{Kind: "Fire", C: c} }
	tick := func(n int) Op { return Op{Kind: "Tick", N: n} }
	all := Op{Kind: "TickAll"}
	tbl := []string{"*/5 * * * *", "*/7 * * * *", "*/5  * * * *"}
	early := []Binding{{Crontab: 0, Name: 101, Snaps: []int{}}}
	late := []Binding{{Crontab: 0, Name: 201, Snaps: []int{}, Queue: 2}}
	other := []Binding{{Crontab: 1, Name: 301, Snaps: []int{}}}
	rich := []Binding{{Crontab: 0, Name: 401, Group: 5, AF: true, Snaps: []int{101, 102}, Queue: 1},
		{Crontab: 2, Name: 402, Group: 6, Snaps: []int{102}}, {Crontab: 0, Name: 403, Snaps: []int{}}}
	// hooks that share names and positions: unnamed first bindings on one crontab
	ua := []Binding{{Crontab: 0, Snaps: []int{}, Queue: 1}}
	ub := []Binding{{Crontab: 0, Snaps: []int{}, Queue: 2}}
	uc := []Binding{{Crontab: 0, Snaps: []int{}}}
	// the same name b101 at position 0 on crontab 0, and at position 1 on crontab 1
	na := []Binding{{Crontab: 0, Name: 101, Snaps: []int{}}, {Crontab: 1, Name: 102, Snaps: []int{}}}
	nb := []Binding{{Crontab: 0, Name: 101, AF: true, Snaps: []int{}, Queue: 1}, {Crontab: 1, Name: 102, Group: 5, Snaps: []int{101}}}
	// one hook, three unnamed bindings on three crontabs, every setting different
	three := []Binding{{Crontab: 0, AF: true, Snaps: []int{}, Queue: 1}, {Crontab: 1, Group: 5, Snaps: []int{101}, Queue: 2},
		{Crontab: 2, Group: 6, AF: true, Snaps: []int{101, 102}}}
	// namesakes b101 in one hook: two on one crontab with different settings, one elsewhere
	twins := []Binding{{Crontab: 0, Name: 101, AF: true, Snaps: []int{}, Queue: 2}, {Crontab: 0, Name: 101, Group: 5, Snaps: []int{102}},
		{Crontab: 1, Name: 101, Snaps: []int{}, Queue: 1}}
	mk := func(v0 []int, hooks [][]Binding, ops ...Op) Input {
		return Input{Via: "operator", Strings: tbl, Hooks: assignIds(hooks), V0: v0, Ops: ops}
	}
	return []Input{
		// two hooks, each with an unnamed first binding on the same crontab: when one of them
		// disables its bindings the crontab keeps firing for the other, until that one goes too
		mk(nil, [][]Binding{ua, ub}, en(0), en(1), tick(0), di(0), tick(0), all, di(1), all, en(0), tick(0)),
		// three sharers (the third one written in the v0 format), disabled in another order than enabled
		mk([]int{2}, [][]Binding{ua, ub, uc}, en(2), en(0), en(1), all, di(0), all, di(2), tick(0), di(1), all, en(2), all),
		// the same names at the same positions in two hooks, two crontabs
		mk(nil, [][]Binding{na, nb}, en(0), en(1), all, di(1), all, tick(1), en(1), di(0), all, tick(0), tick(1)),
		// an Add / Remove by hand between the hooks' own: ids 1-4 are not a binding's; then a binding's own pair (12 = hook 1)
		mk(nil, [][]Binding{ua, ub}, Op{Kind: "Add", C: 0, I: 2}, en(0), en(1), di(0), di(1), all, Op{Kind: "Remove", C: 0, I: 2}, all,
			en(1), Op{Kind: "Remove", C: 0, I: 12}, all, en(0), all),
		// one hook with three unnamed bindings on three crontabs: each firing carries the settings of ITS binding
		mk(nil, [][]Binding{three}, en(0), tick(0), tick(1), tick(2), all, f(1), f(2), di(0), all),
		// namesakes in one hook (two of them on one crontab) beside a hook with a binding of that name
		mk(nil, [][]Binding{twins, early}, en(0), tick(0), tick(1), en(1), all, f(0), di(0), all, f(1)),
		// the example ex_same of C11_Properties.v
		mk(nil, [][]Binding{{{Crontab: 1, Snaps: []int{}}}, {{Crontab: 1, Snaps: []int{}, Queue: 2}},
			{{Crontab: 1, Snaps: []int{}, Queue: 1}, {Crontab: 2, Group: 5, AF: true, Snaps: []int{101}, Queue: 3}, {Crontab: 0, Group: 6, Snaps: []int{102}}}},
			en(0), en(1), tick(0), di(0), tick(0), en(2), f(2), di(1), di(2), all),
		// the example ex_late of C11_Properties.v: a hook is enabled after the first firing of the crontab it shares
		mk(nil, [][]Binding{early, late, other}, en(0), en(2), tick(0), en(1), tick(0), di(0), tick(0), all),
		// all enabled before the first firing; disabled one by one; the last one gone: no cron entry
		mk(nil, [][]Binding{early, late, other}, en(0), en(1), en(2), all, f(0), di(1), all, di(0), all, f(0), di(2), all, tick(0)),
		// firings before anything is enabled; a hook with several bindings, groups, snapshots, two spellings
		mk(nil, [][]Binding{rich, early, {}}, f(0), all, en(1), f(0), f(2), en(0), f(0), f(2), all, en(2), di(1), all, en(1), en(1), all),
		// a hook disabled and enabled again between firings (both hooks plain, the first in the v0 format)
		mk([]int{0}, [][]Binding{early, {{Crontab: 0, Name: 201, Snaps: []int{}}}},
			en(0), tick(0), en(1), tick(0), di(1), tick(0), en(1), tick(0), di(0), di(1), all, en(1), tick(0)),
	}
}

// exhaustiveOperator: every sequence of <= maxLen operations over three hooks - hooks 0 and 1
// share a crontab, hook 1 has a second binding on the crontab of hook 2 - with enabling,
// disabling and firings in every order.  same = the bindings that share a crontab also share
// their name (all unnamed) and, for hooks 0 and 1, their position; hook 1's two bindings are
// namesakes with different settings
func exhaustiveOperator(maxLen int, same bool) []Input {
	tbl := []string{"*/5 * * * *", "*/7 * * * *"}
	hooks := [][]Binding{
		{{Crontab: 0, Name: 101, Snaps: []int{}}},
		{{Crontab: 0, Name: 201, Group: 5, AF: true, Snaps: []int{101}, Queue: 1}, {Crontab: 1, Name: 202, Snaps: []int{}}},
		{{Crontab: 1, Name: 301, Snaps: []int{}, Queue: 2}},
	}
	if same {
		for h := range hooks {
			for k := range hooks[h] {
				hooks[h][k].Name = 0
			}
		}
	}
	hooks = assignIds(hooks)
	alpha := []Op{
		{Kind: "Enable", H: 0}, {Kind: "Enable", H: 1}, {Kind: "Enable", H: 2}, {Kind: "Disable", H: 0}, {Kind: "Disable", H: 1},
		{Kind: "Tick", N: 0}, {Kind: "TickAll"},
	}
	var out []Input
	var rec func(ops []Op)
	rec = func(ops []Op) {
		if len(ops) > 0 {
			out = append(out, Input{Via: "operator", Strings: tbl, Hooks: hooks, Ops: append([]Op{}, ops...)})
		}
		if len(ops) >= maxLen {
			return
		}
		for _, o := range alpha {
			rec(append(append([]Op{}, ops...), o))
		}
	}
	rec(nil)
	return out
}

// operatorTags: which of the enable / firing interleavings a case of the operator class contains
func operatorTags(in Input, steps []Obs) []string {
	if !isOperator(in) {
		return []string{"class:controllers"}
	}
	tags := map[string]bool{"class:operator": true}
	if in.Via == "queues" {
		tags = map[string]bool{"class:queues": true}
		for _, t := range queueTags(in, steps) {
			tags[t] = true
		}
	}
	// which hooks have a binding on which string
	users := map[int]map[int]bool{}
	for h, bs := range in.Hooks {
		for _, b := range bs {
			if users[b.Crontab] == nil {
				users[b.Crontab] = map[int]bool{}
			}
			users[b.Crontab][h] = true
		}
	}
	shared := false
	for _, hs := range users {
		if len(hs) >= 2 {
			shared = true
		}
	}
	if shared {
		tags["operator:hooks-share-a-crontab"] = true
	} else {
		tags["operator:no-crontab-shared"] = true
	}
	// identity: (position, name, crontab) shared by bindings of two hooks; namesakes within a hook
	type ident struct{ pos, name, crontab int }
	twinsOf := map[ident][]int{}
	for h, bs := range in.Hooks {
		for k, b := range bs {
			id := ident{k, b.Name, b.Crontab}
			twinsOf[id] = append(twinsOf[id], h)
			for j := 0; j < k; j++ {
				o := bs[j]
				if o.Name == b.Name {
					tags["operator:namesakes-in-one-hook"] = true
					if o.Queue != b.Queue || o.AF != b.AF || o.Group != b.Group || fmt.Sprint(o.Snaps) != fmt.Sprint(b.Snaps) {
						if o.Crontab != b.Crontab {
							tags["operator:namesakes-in-one-hook:different-crontabs-different-settings"] = true
						} else {
							tags["operator:namesakes-in-one-hook:same-crontab-different-settings"] = true
						}
					}
				}
			}
			if b.Name == 0 {
				tags["operator:unnamed-binding"] = true
			}
		}
		if isV0(in, h) {
			tags["operator:v0-config"] = true
		}
	}
	twinCrontab := map[int][]int{} // crontab -> hooks having a binding whose (position, name, crontab) another hook has too
	for id, hs := range twinsOf {
		if len(hs) >= 2 {
			tags["operator:same-name-same-position-same-crontab-in-two-hooks"] = true
			twinCrontab[id.crontab] = append(twinCrontab[id.crontab], hs...)
		}
	}
	index := map[string]int{}
	for i, s := range in.Strings {
		if _, dup := index[s]; !dup {
			index[s] = i
		}
	}
	// after a Disable: is the crontab of a twin still held by an enabled twin
	twinCheck := func(enabled, everDisabled map[int]bool) {
		for _, hs := range twinCrontab {
			someDisabled, someEnabled := false, false
			for _, h := range hs {
				if enabled[h] {
					someEnabled = true
				} else if everDisabled[h] {
					someDisabled = true
				}
			}
			if someDisabled && someEnabled {
				tags["operator:twin-disabled-while-its-twin-stays-enabled"] = true
			}
		}
	}
	enabled := map[int]bool{}
	firedBefore := map[int]bool{}  // strings handled so far
	late := map[int]map[int]bool{} // string -> hooks enabled after a firing of it
	everDisabled := map[int]bool{}
	for k, o := range in.Ops {
		if k >= len(steps) {
			break
		}
		switch o.Kind {
		case "Enable":
			if o.H >= 0 && o.H < len(in.Hooks) && !enabled[o.H] {
				enabled[o.H] = true
				for _, b := range in.Hooks[o.H] {
					if firedBefore[b.Crontab] {
						tags["operator:hook-enabled-after-a-firing-of-its-crontab"] = true
						if len(users[b.Crontab]) >= 2 {
							tags["operator:hook-enabled-after-a-firing-of-a-SHARED-crontab"] = true
						}
						if late[b.Crontab] == nil {
							late[b.Crontab] = map[int]bool{}
						}
						late[b.Crontab][o.H] = true
					}
				}
			}
		case "Disable":
			if o.H >= 0 && o.H < len(in.Hooks) && enabled[o.H] {
				enabled[o.H] = false
				everDisabled[o.H] = true
				twinCheck(enabled, everDisabled)
			}
		case "Fire", "Tick", "TickAll", "Drain":
			var handled []int
			if o.Kind == "Fire" {
				handled = append(handled, o.C)
			}
			for _, s := range steps[k].RecvStr {
				if c, ok := index[s]; ok {
					handled = append(handled, c)
				}
			}
			hooksWithTasks := map[int]bool{}
			for _, t := range steps[k].Tasks {
				hooksWithTasks[t.Hook] = true
			}
			if len(steps[k].Tasks) > 0 {
				tags["operator:firing-with-tasks"] = true
			}
			if len(hooksWithTasks) >= 2 {
				tags["operator:one-firing-tasks-for>=2-hooks"] = true
			}
			for _, c := range handled {
				for _, t := range steps[k].Tasks {
					// a task of a binding that has an earlier namesake in its hook
					if t.Hook >= 0 && t.Hook < len(in.Hooks) {
						first := true
						for _, b := range in.Hooks[t.Hook] {
							if b.Name == t.Binding {
								if !first && b.Crontab == c {
									tags["operator:firing-of-a-later-namesake"] = true
								}
								first = false
							}
						}
					}
				}
				someDis, someEn := false, false
				for _, h := range twinCrontab[c] {
					if enabled[h] {
						someEn = true
					} else if everDisabled[h] {
						someDis = true
					}
				}
				if someDis && someEn {
					tags["operator:twin-crontab-fires-after-one-twin-was-disabled"] = true
				}
				for h := range late[c] {
					if enabled[h] {
						tags["operator:crontab-fires-again-after-late-enable"] = true
					}
				}
				someDisabled, someEnabled := false, false
				for h := range users[c] {
					if enabled[h] {
						someEnabled = true
					} else if everDisabled[h] {
						someDisabled = true
					}
				}
				if someDisabled && someEnabled {
					tags["operator:shared-crontab-fires-after-one-sharer-was-disabled"] = true
				}
				if len(handled) > 0 && len(steps[k].Tasks) == 0 {
					tags["operator:firing-without-tasks"] = true
				}
				firedBefore[c] = true
			}
		}
	}
	var res []string
	for t := range tags {
		res = append(res, t)
	}
	sort.Strings(res)
	return res
}
