package c11

// The queues class of C11 (Input.Via == "queues"; Coq: case class CQ, model C11_QModel.v,
// predicate C11_QSpec.P_q): WHERE the tasks of a firing really end up.
//
// Property text: "exactly one task for every enabled schedule binding with that crontab ...
// PLACED IN THAT BINDING'S QUEUE".  That is a statement about the contents of the queues of the
// operator's TaskQueueSet after the events handler has moved the tasks of the firing - not about
// task.GetQueueName() or the BindingExecutionInfo, which can both be right while the task sits
// in a foreign queue.
//
// What is real here, on top of everything of the operator class (operator.go): the operator's
// TaskQueueSet with the queue "main" made by the real bootstrapMainQueue and one queue per
// `queue:` value of the loaded schedule bindings, made the way initAndStartHookQueues makes them
// (hooks in the order of hooksInOrder[Schedule], a queue is made when GetByName says it does not
// exist yet) but NOT started, so that whatever is put into a queue stays there and can be read
// after every operation; the start-up tasks bootstrapMainQueue put into "main" are taken out
// (the EnableScheduleBindings tasks are kept and handled by the real task handler at Enable h);
// and the operator's REAL ManagerEventsHandler.Start() loop: every string handled in a case
// (Tick, TickAll, Fire) is RECEIVED BY THAT LOOP, which calls the registered schedule event
// handler and moves the returned tasks into tqs.Queues under DoWithLock.
//
// How the loop is fed: the loop receives from m.scheduleManager.Ch(), evaluated anew every time
// it enters its select.  The harness must stay the consumer of the real manager's channel (it
// learns what each cron entry sends by running its job), so the handler's scheduleManager field
// (unexported; written through reflect + unsafe, like scheduleCb is read) is replaced by a proxy
// that delegates Add / Remove / Start / Stop to the real manager and whose Ch() returns a
// channel of the harness - and reports that it was called.  place(s): send s on that
// (unbuffered) channel, then wait for the next call of Ch(): the loop has finished the
// iteration for s (callback, DoWithLock) and is parked in its select again.  No sleeps, no
// sentinel strings, nothing runs concurrently with the harness.

import (
	"fmt"
	"reflect"
	"sort"
	"time"
	"unsafe"

	"github.com/flant/shell-operator/pkg/hook/task_metadata"
	schedulemanager "github.com/flant/shell-operator/pkg/schedule_manager"
	shell_operator "github.com/flant/shell-operator/pkg/shell-operator"
	"github.com/flant/shell-operator/pkg/task"
	"github.com/flant/shell-operator/pkg/task/queue"
)

func isOperator(in Input) bool { return in.Via == "operator" || in.Via == "queues" }

// smProxy: the schedule manager the events handler listens to
type smProxy struct {
	schedulemanager.ScheduleManager
	feed    chan string
	entered chan struct{}
}

func (p *smProxy) Ch() chan string {
	select {
	case p.entered <- struct{}{}:
	default:
	}
	return p.feed
}

func setHandlerScheduleManager(m *shell_operator.ManagerEventsHandler, sm schedulemanager.ScheduleManager) error {
	v := reflect.ValueOf(m).Elem()
	want := reflect.TypeOf((*schedulemanager.ScheduleManager)(nil)).Elem()
	for i := 0; i < v.NumField(); i++ {
		f := v.Field(i)
		if f.Type() == want && f.CanAddr() {
			*(*schedulemanager.ScheduleManager)(unsafe.Pointer(f.UnsafeAddr())) = sm
			return nil
		}
	}
	return fmt.Errorf("ManagerEventsHandler has no field of type schedulemanager.ScheduleManager")
}

func queueNumber(s string) int {
	if s == "main" {
		return 0
	}
	if s == "" {
		return anomaly
	}
	return unname("q", s)
}

// queuesRig completes the operator rig r: queues, the running events handler, place / queues
func queuesRig(in Input, r *rig, op *shell_operator.ShellOperator, hookIdx map[string]int) error {
	tqs := op.TaskQueues
	mainQ := tqs.GetMain()
	if mainQ == nil {
		return fmt.Errorf("bootstrapMainQueue made no main queue")
	}
	// the worker of "main" would have taken the start-up tasks out one by one
	for mainQ.Length() > 0 {
		mainQ.RemoveFirst()
	}
	// initAndStartHookQueues without the Start(): one queue per queue name of the schedule bindings
	hm := op.VerifHookManager()
	for h := range in.Hooks {
		hk := hm.GetHook(hookFile(h))
		for _, b := range hk.GetConfig().Schedules {
			if tqs.GetByName(b.Queue) == nil {
				tqs.NewNamedQueue(b.Queue, op.VerifTaskHandler)
			}
		}
	}
	proxy := &smProxy{ScheduleManager: op.ScheduleManager, feed: make(chan string), entered: make(chan struct{}, 1)}
	if err := setHandlerScheduleManager(op.ManagerEventsHandler, proxy); err != nil {
		return err
	}
	op.ManagerEventsHandler.Start()
	wait := func(what string) {
		select {
		case <-proxy.entered:
		case <-time.After(5 * time.Second):
			panic("c11 queues: the events handler did not come back to its select " + what)
		}
	}
	wait("after Start()")
	r.place = func(crontab string) {
		select {
		case proxy.feed <- crontab:
		case <-time.After(5 * time.Second):
			panic("c11 queues: the events handler does not receive from the schedule channel")
		}
		wait("after a firing")
	}
	r.queues = func() []QueueObs {
		out := []QueueObs{}
		tqs.DoWithLock(func(s *queue.TaskQueueSet) {
			for qname, q := range s.Queues {
				qo := QueueObs{Queue: queueNumber(qname), Name: qname, Tasks: []TaskObs{}}
				q.Iterate(func(t task.Task) {
					to := taskObs(t, hookIdx, r.queueNum, r.bindNum)
					if t.GetType() != task_metadata.HookRun {
						to.Binding = anomaly
					}
					qo.Tasks = append(qo.Tasks, to)
				})
				out = append(out, qo)
			}
		})
		sort.Slice(out, func(i, j int) bool {
			if out[i].Queue != out[j].Queue {
				return out[i].Queue < out[j].Queue
			}
			return out[i].Name < out[j].Name
		})
		return out
	}
	return nil
}

// ---- generation ----

// queueLayouts: how the bindings of a case are spread over queues.  0 = "main".
//
//	"all-main"        every binding in main
//	"one-each"        every binding a queue of its own (the first one main in half of the draws)
//	"pair-shares"     two bindings (of one hook or of two) share one named queue, the others have their own
//	"main-and-named"  main and one or two named queues, drawn per binding
//	"random"          0..3 per binding
var queueLayouts = []string{"all-main", "one-each", "pair-shares", "main-and-named", "random"}

// queuesHooks: 1-4 hooks with 1-3 schedule bindings each, at least two bindings in all; 80% of
// the bindings are on string 0, so that one firing makes several tasks; the queues by layout
func (g *gen) queuesHooks(nStrings int, layout string) [][]Binding {
	for {
		var hooks [][]Binding
		n := 1 + g.r.Intn(4)
		nm := 300
		total := 0
		for h := 0; h < n; h++ {
			nb := 1 + g.r.Intn(3)
			if n == 1 && nb == 1 {
				nb = 2
			}
			if g.r.Chance(5) {
				nb = 0
			}
			bs := []Binding{}
			for k := 0; k < nb; k++ {
				nm++
				b := Binding{Crontab: 0, Name: nm, AF: g.r.Bool(), Snaps: []int{}}
				if g.r.Chance(20) {
					b.Crontab = g.r.Intn(nStrings)
				}
				if g.r.Chance(25) {
					b.Name = []int{0, 101, 102}[g.r.Intn(3)]
				}
				if g.r.Chance(30) {
					b.Group = 5 + g.r.Intn(2)
				}
				if g.r.Chance(20) {
					b.Snaps = append(b.Snaps, 101)
				}
				bs = append(bs, b)
				total++
			}
			hooks = append(hooks, bs)
		}
		if total < 2 {
			continue
		}
		// the queues
		type pos struct{ h, k int }
		var all []pos
		for h, bs := range hooks {
			for k := range bs {
				all = append(all, pos{h, k})
			}
		}
		set := func(p pos, q int) { hooks[p.h][p.k].Queue = q }
		switch layout {
		case "all-main":
		case "one-each":
			first := g.r.Intn(2) // 0: the first binding stays in main
			for i, p := range all {
				set(p, i+first)
			}
		case "pair-shares":
			for i, p := range all {
				set(p, i+1)
			}
			a := g.r.Intn(len(all))
			b := g.r.Intn(len(all) - 1)
			if b >= a {
				b++
			}
			set(all[b], hooks[all[a].h][all[a].k].Queue)
			if g.r.Chance(40) { // and one of the others in main
				set(all[g.r.Intn(len(all))], 0)
			}
		case "main-and-named":
			for _, p := range all {
				set(p, g.r.Intn(3))
			}
		default:
			for _, p := range all {
				set(p, g.r.Intn(4))
			}
		}
		return assignIds(hooks)
	}
}

// queuesCase: hooks enabled one after the other as the main queue's worker does, firings (Tick /
// TickAll / Fire) in between and afterwards, hooks disabled and enabled again.  Only operations
// whose firings are handled one at a time in a known order (no Start / Drain / Stop).
func (g *gen) queuesCase(maxLen int) Input {
	in := Input{Via: "queues"}
	in.Strings, _, _ = g.table(g.r.Chance(20), 0)
	layout := queueLayouts[g.r.Intn(len(queueLayouts))]
	in.Hooks = g.queuesHooks(len(in.Strings), layout)
	firing := func() Op {
		switch k := g.r.Intn(10); {
		case k < 4:
			return Op{Kind: "Tick", N: g.r.Intn(2)}
		case k < 8:
			return Op{Kind: "TickAll"}
		default:
			return Op{Kind: "Fire", C: g.r.Intn(2)}
		}
	}
	for h := range in.Hooks {
		if g.r.Chance(92) {
			in.Ops = append(in.Ops, Op{Kind: "Enable", H: h})
		}
		for g.r.Chance(35) {
			in.Ops = append(in.Ops, firing())
		}
	}
	in.Ops = append(in.Ops, firing())
	for len(in.Ops) < maxLen && g.r.Chance(80) {
		h := g.r.Intn(len(in.Hooks))
		switch k := g.r.Intn(100); {
		case k < 18:
			in.Ops = append(in.Ops, Op{Kind: "Disable", H: h})
		case k < 33:
			in.Ops = append(in.Ops, Op{Kind: "Enable", H: h})
		case k < 37:
			in.Ops = append(in.Ops, Op{Kind: "Add", C: g.r.Intn(len(in.Strings)), I: 1 + g.r.Intn(4)})
		case k < 40:
			in.Ops = append(in.Ops, Op{Kind: "Remove", C: g.r.Intn(len(in.Strings)), I: 1 + g.r.Intn(4)})
		default:
			in.Ops = append(in.Ops, firing())
		}
	}
	if len(in.Ops) > maxLen {
		in.Ops = in.Ops[:maxLen]
	}
	return in
}

// queuesCorpus: fixed cases of the queues class
func queuesCorpus() []Input {
	en := func(h int) Op { return Op{Kind: "Enable", H: h} }
	di := func(h int) Op { return Op{Kind: "Disable", H: h} }
	f := func(c int) Op { return Op{Kind: "Fire", C: c} }
	tick := func(n int) Op { return Op{Kind: "Tick", N: n} }
	all := Op{Kind: "TickAll"}
	tbl := []string{"*/5 * * * *", "*/7 * * * *"}
	b := func(c, nm, q int) Binding { return Binding{Crontab: c, Name: nm, Snaps: []int{}, Queue: q} }
	mk := func(hooks [][]Binding, ops ...Op) Input {
		return Input{Via: "queues", Strings: tbl, Hooks: assignIds(hooks), Ops: ops}
	}
	return []Input{
		// one hook, two bindings on one crontab: main and a named queue
		mk([][]Binding{{b(0, 301, 0), b(0, 302, 1)}}, en(0), tick(0), tick(0), di(0), all),
		// two hooks on one crontab: fast in main, slow ones in queues of their own
		mk([][]Binding{{b(0, 301, 0), b(0, 302, 1)}, {b(0, 303, 2)}}, en(0), en(1), tick(0), all, f(0), di(0), tick(0)),
		// one binding per queue, none in main; the first task of a firing goes to a named queue
		mk([][]Binding{{b(0, 301, 1)}, {b(0, 302, 2)}, {b(0, 303, 3)}}, en(0), tick(0), en(1), tick(0), en(2), tick(0), di(0), all),
		// two bindings (of two hooks) share one named queue, a third has its own, a fourth is in main
		mk([][]Binding{{b(0, 301, 1), b(0, 302, 2)}, {b(0, 303, 1), b(0, 304, 0)}}, en(0), en(1), all, tick(0), di(1), all, en(1), f(0)),
		// all in one named queue / all in main: a firing fills one queue
		mk([][]Binding{{b(0, 301, 2)}, {b(0, 302, 2), b(0, 303, 2)}}, en(0), en(1), all, all),
		mk([][]Binding{{b(0, 301, 0)}, {b(0, 302, 0), b(1, 303, 0)}}, en(0), en(1), all, tick(1), f(0)),
		// two crontabs, each with bindings in two queues, crosswise
		mk([][]Binding{{b(0, 301, 1), b(1, 302, 2)}, {b(0, 303, 2), b(1, 304, 1)}}, en(0), en(1), all, tick(1), tick(0), di(0), all),
		// a queue whose only binding is never enabled stays empty; firings before anything is enabled
		mk([][]Binding{{b(0, 301, 1)}, {b(0, 302, 3)}}, f(0), all, en(0), all, f(0), f(1)),
	}
}

// exhaustiveQueues: every sequence of <= maxLen operations over two hooks with three bindings on
// one crontab in three queues (and one binding elsewhere)
func exhaustiveQueues(maxLen int) []Input {
	tbl := []string{"*/5 * * * *", "*/7 * * * *"}
	hooks := assignIds([][]Binding{
		{{Crontab: 0, Name: 301, Snaps: []int{}, Queue: 1}, {Crontab: 0, Name: 302, Snaps: []int{}}},
		{{Crontab: 0, Name: 303, Snaps: []int{}, Queue: 2}, {Crontab: 1, Name: 304, Snaps: []int{}, Queue: 1}},
	})
	alpha := []Op{{Kind: "Enable", H: 0}, {Kind: "Enable", H: 1}, {Kind: "Disable", H: 0}, {Kind: "Tick", N: 0}, {Kind: "TickAll"}, {Kind: "Fire", C: 0}}
	var out []Input
	var rec func(ops []Op)
	rec = func(ops []Op) {
		if len(ops) > 0 {
			out = append(out, Input{Via: "queues", Strings: tbl, Hooks: hooks, Ops: append([]Op{}, ops...)})
		}
		if len(ops) >= maxLen {
			return
		}
		for _, o := range alpha {
			rec(append(append([]Op{}, ops...), o))
		}
	}
	rec(nil)
	return out
}

// queueTags: the queue layout of a case and what its firings did to the queues
func queueTags(in Input, steps []Obs) []string {
	tags := map[string]bool{}
	// bindings per (crontab, queue)
	type cq struct{ c, q int }
	perCQ := map[cq]int{}
	queuesOf := map[int]map[int]bool{}  // crontab -> queues
	hooksOf := map[int]map[int]bool{}   // crontab -> hooks
	perQueue := map[int]int{}           // queue -> bindings
	hookQueues := map[int]map[int]bool{} // hook -> queues
	for h, bs := range in.Hooks {
		for _, b := range bs {
			perCQ[cq{b.Crontab, b.Queue}]++
			if queuesOf[b.Crontab] == nil {
				queuesOf[b.Crontab] = map[int]bool{}
				hooksOf[b.Crontab] = map[int]bool{}
			}
			queuesOf[b.Crontab][b.Queue] = true
			hooksOf[b.Crontab][h] = true
			perQueue[b.Queue]++
			if hookQueues[h] == nil {
				hookQueues[h] = map[int]bool{}
			}
			hookQueues[h][b.Queue] = true
		}
	}
	for c, qs := range queuesOf {
		if len(qs) >= 2 {
			tags["queues:one-crontab-bindings-in->=2-queues"] = true
			if len(hooksOf[c]) >= 2 {
				tags["queues:one-crontab->=2-hooks->=2-queues"] = true
			}
			if !qs[0] {
				tags["queues:shared-crontab-no-binding-in-main"] = true
			}
		}
		if len(qs) >= 3 {
			tags["queues:one-crontab-bindings-in->=3-queues"] = true
		}
	}
	for k, n := range perCQ {
		if n >= 2 && k.q != 0 {
			tags["queues:two-bindings-of-a-crontab-share-a-named-queue"] = true
		}
	}
	for _, qs := range hookQueues {
		if len(qs) >= 2 {
			tags["queues:one-hook-bindings-in->=2-queues"] = true
		}
	}
	onlyMain, oneEach := true, true
	for q, n := range perQueue {
		if q != 0 {
			onlyMain = false
		}
		if n > 1 {
			oneEach = false
		}
	}
	if onlyMain {
		tags["queues:all-bindings-in-main"] = true
	}
	if oneEach {
		tags["queues:one-binding-per-queue"] = true
	}
	// what the firings did
	prev := map[int]int{}
	for k, st := range steps {
		grew := 0
		for _, q := range st.Queues {
			if len(q.Tasks) > prev[q.Queue] {
				grew++
			}
			prev[q.Queue] = len(q.Tasks)
		}
		if grew >= 2 {
			tags["queues:one-operation-fills->=2-queues"] = true
			if k < len(in.Ops) && (in.Ops[k].Kind == "Tick" || in.Ops[k].Kind == "Fire") {
				tags["queues:ONE-firing-fills->=2-queues"] = true
			}
		}
		if grew >= 3 {
			tags["queues:one-operation-fills->=3-queues"] = true
		}
	}
	nonEmpty := 0
	if len(steps) > 0 {
		for _, q := range steps[len(steps)-1].Queues {
			if len(q.Tasks) > 0 {
				nonEmpty++
			}
		}
	}
	tags[fmt.Sprintf("queues:non-empty-at-the-end:%d", nonEmpty)] = true
	var res []string
	for t := range tags {
		res = append(res, t)
	}
	sort.Strings(res)
	return res
}
