package c16

// Batches arriving at the same time: hooks in different queues run in parallel, so
// MetricStorage.SendBatch is called from several goroutines.  The round's batches are sent
// by one goroutine each to the REAL storage.  The interleaving is steered, not left to luck:
// the storage registers new collectors through a prometheus.Registerer, and ours (gate) is a
// yield point - it can hold a Register call until another goroutine has entered Register too
// (or every other goroutine of the round is parked or has returned, or a bound has passed:
// where registration is serialised by a lock of the code nobody else can enter) and then
// decides who registers first.  The start order of the goroutines and whether the next one
// is started only after the previous one parked or returned are choices as well.  All
// choices come from Input.Sched.  Nothing is compared before every goroutine has returned.

import (
	"runtime"
	"sync"
	"time"

	"github.com/prometheus/client_golang/prometheus"

	metricstorage "github.com/flant/shell-operator/pkg/metric_storage"
	"github.com/flant/shell-operator/pkg/metric_storage/operation"
)

// holdBound: how long a held Register call waits for company when the others can neither
// arrive nor finish (they wait for a lock the holder has).  Only costs time, never changes
// what a correct storage ends up with.
const holdBound = 3 * time.Millisecond

type ConcObs struct {
	Failed []bool   `json:"failed"`
	Errors []string `json:"errors,omitempty"`
	Series []Series `json:"series"`
	Broken string   `json:"broken,omitempty"`
	// informational (timing dependent, never compared): Register calls that were held, and how
	// often two of them were inside Register at the same time
	Held     int `json:"held"`
	Overlaps int `json:"overlaps"`
}

type ticket struct {
	goCh     chan struct{}
	done     chan struct{}
	prev     *ticket
	released bool
}

type gate struct {
	inner prometheus.Registerer

	mu       sync.Mutex
	active   bool
	sched    []int
	pos      int
	held     []*ticket
	live     int // goroutines of the round that have not returned yet
	target   int // release as soon as this many calls are held
	nHeld    int
	overlaps int
	event    chan struct{}
}

func newGate(inner prometheus.Registerer, sched []int) *gate {
	return &gate{inner: inner, sched: sched, event: make(chan struct{}, 64)}
}

// next choice (call with mu held)
func (g *gate) next() int {
	if len(g.sched) == 0 {
		return 1
	}
	v := g.sched[g.pos%len(g.sched)]
	g.pos++
	if v < 0 {
		v = -v
	}
	return v
}

func (g *gate) signal() {
	select {
	case g.event <- struct{}{}:
	default:
	}
}

// releaseLocked lets all held calls go on, one after the other in an order chosen by the schedule.
func (g *gate) releaseLocked() {
	h := g.held
	g.held = nil
	for i := len(h) - 1; i > 0; i-- {
		j := g.next() % (i + 1)
		h[i], h[j] = h[j], h[i]
	}
	for i, t := range h {
		if i > 0 {
			t.prev = h[i-1]
		}
		t.released = true
	}
	for _, t := range h {
		close(t.goCh)
	}
}

func (g *gate) Register(c prometheus.Collector) error {
	g.mu.Lock()
	if !g.active || g.live <= 1 || g.next()%4 == 0 {
		g.mu.Unlock()
		return g.inner.Register(c)
	}
	t := &ticket{goCh: make(chan struct{}), done: make(chan struct{})}
	g.held = append(g.held, t)
	g.nHeld++
	if len(g.held) >= 2 {
		g.overlaps++
	}
	g.signal()
	if len(g.held) >= g.target || len(g.held) >= g.live {
		g.releaseLocked()
	}
	g.mu.Unlock()

	select {
	case <-t.goCh:
	case <-time.After(holdBound):
		g.mu.Lock()
		if !t.released {
			g.releaseLocked()
		}
		g.mu.Unlock()
		<-t.goCh
	}
	if t.prev != nil {
		<-t.prev.done
	}
	err := g.inner.Register(c)
	close(t.done)
	return err
}

func (g *gate) MustRegister(cs ...prometheus.Collector) {
	for _, c := range cs {
		if err := g.Register(c); err != nil {
			panic(err)
		}
	}
}

func (g *gate) Unregister(c prometheus.Collector) bool { return g.inner.Unregister(c) }

// finished: a goroutine of the round has returned from SendBatch
func (g *gate) finished() {
	g.mu.Lock()
	g.live--
	if len(g.held) > 0 && len(g.held) >= g.live {
		g.releaseLocked()
	}
	g.signal()
	g.mu.Unlock()
}

func runRound(ms *metricstorage.MetricStorage, g *gate, in Input) *ConcObs {
	n := len(in.Round)
	co := &ConcObs{Failed: make([]bool, n), Errors: make([]string, n), Series: []Series{}}
	parsed := make([][]operation.MetricOperation, n)
	for i, b := range in.Round {
		ops, err := operation.MetricOperationsFromBytes([]byte(fileText(b.Ops)))
		if err != nil {
			co.Broken = "metrics file does not parse: " + err.Error()
			return co
		}
		parsed[i] = ops
	}

	g.mu.Lock()
	g.active = true
	g.live = n
	g.target = 2
	if n > 2 && g.next()%2 == 1 {
		g.target = n
	}
	order := make([]int, n)
	for i := range order {
		order[i] = i
	}
	for i := n - 1; i > 0; i-- {
		j := g.next() % (i + 1)
		order[i], order[j] = order[j], order[i]
	}
	stagger := g.next()%2 == 1
	g.mu.Unlock()

	start := make([]chan struct{}, n)
	errs := make([]error, n)
	var wg sync.WaitGroup
	for i := 0; i < n; i++ {
		start[i] = make(chan struct{})
		wg.Add(1)
		go func(i int) {
			defer wg.Done()
			defer g.finished()
			<-start[i]
			errs[i] = ms.SendBatch(parsed[i], map[string]string{"hook": valStr(in.Round[i].Hook)})
		}(i)
	}
	for _, i := range order {
		close(start[i])
		if stagger {
			// go on when the goroutine just started is parked in Register or has returned
			select {
			case <-g.event:
			case <-time.After(holdBound):
			}
		} else {
			runtime.Gosched()
		}
	}
	wg.Wait()

	g.mu.Lock()
	g.active = false
	co.Held, co.Overlaps = g.nHeld, g.overlaps
	g.mu.Unlock()

	for i, err := range errs {
		if err != nil {
			co.Failed[i] = true
			co.Errors[i] = err.Error()
			if len(co.Errors[i]) > 200 {
				co.Errors[i] = co.Errors[i][:200]
			}
		}
	}
	fams, gerr := ms.Gatherer.Gather()
	if gerr != nil {
		co.Broken = "Gather: " + gerr.Error()
		return co
	}
	co.Series, co.Broken = canon(fams)
	if co.Series == nil {
		co.Series = []Series{}
	}
	return co
}
