// Package c16: correspondence driver for C16 (hook metrics: batch validation, grouped
// metrics replaced not accumulated).  Histories of batches are written the way hooks
// write their metrics file (JSON lines), parsed by the real operation package and sent
// to a real MetricStorage with its own prometheus registry; Gather() is canonicalised
// after every batch.
package c16

import (
	"context"
	"encoding/json"
	"fmt"
	"math"
	"sort"
	"strconv"
	"strings"
	"sync"
	"time"

	"github.com/deckhouse/deckhouse/pkg/log"
	dto "github.com/prometheus/client_model/go"

	metricstorage "github.com/flant/shell-operator/pkg/metric_storage"
	"github.com/flant/shell-operator/pkg/metric_storage/operation"
	"github.com/flant/shell-operator/pkg/metric_storage/vault"

	"verifharness/internal/core"
)

// numbers are the hook's values times 8
const scale = 8

// label names, numbered in the order of their strings
var labelNameOf = map[int]string{1: "a", 2: "b", 3: "c", 10: "hook", 11: "x", 12: "z"}
var labelIdOf = map[string]int{"a": 1, "b": 2, "c": 3, "hook": 10, "x": 11, "z": 12}

// label values: 0 is the empty string, 1 and 2 plain words; 3-6 are values whose CONTENT matters to
// any encoding of a label tuple into one string - a value that is a prefix of another, values that
// begin or end with a character an encoder may use as a separator (U+00FF: the key hashing writes a
// byte 255 between values), the separator alone.  A series is identified by its exact tuple of
// values: (a="vÿ", b="v1") and (a="v", b="ÿv1") are different series.
var exoticVals = map[int]string{3: "v", 4: "v\u00ff", 5: "\u00ffv1", 6: "\u00ff"}

func valStr(v int) string {
	if v == 0 {
		return ""
	}
	if s, ok := exoticVals[v]; ok {
		return s
	}
	return "v" + strconv.Itoa(v)
}
func valId(s string) int {
	if s == "" {
		return 0
	}
	for id, x := range exoticVals {
		if x == s {
			return id
		}
	}
	n, err := strconv.Atoi(strings.TrimPrefix(s, "v"))
	if err != nil {
		return 9999
	}
	return n
}
func nameStr(n int) string {
	if n == 0 {
		return ""
	}
	return "m" + strconv.Itoa(n)
}
func groupStr(g int) string {
	if g == 0 {
		return ""
	}
	return "g" + strconv.Itoa(g)
}

type Op struct {
	Group   int      `json:"group,omitempty"`
	Name    int      `json:"name,omitempty"`
	Action  string   `json:"action,omitempty"` // "", set, add, observe, expire, or anything else
	Value   *int     `json:"value,omitempty"`  // scaled
	Add     *int     `json:"add,omitempty"`
	Set     *int     `json:"set,omitempty"`
	Buckets []int    `json:"buckets,omitempty"` // scaled; nil = absent
	Labels  [][2]int `json:"labels,omitempty"`  // (label name id, label value id), sorted by name id
}

type Batch struct {
	Hook int  `json:"hook"`
	Ops  []Op `json:"ops"`
}

type Input struct {
	Batches []Batch `json:"batches"`
	Judged  bool    `json:"judged"`
	// after the history: batches handed in AT THE SAME TIME, one goroutine each (none = no round)
	Round []Batch `json:"round,omitempty"`
	// choices taken at the yield points of the round (start order, hold a Register call or not,
	// who registers first when several are inside); read cyclically
	Sched []int `json:"sched,omitempty"`
	// after the round: batches one after the other again
	After []Batch `json:"after,omitempty"`
}

type Series struct {
	Kind   int      `json:"kind"`
	Name   int      `json:"name"`
	Labels [][2]int `json:"labels"`
	Value  int64    `json:"value"`          // scaled; histograms: sum
	Hist   []int    `json:"hist,omitempty"` // histograms: count, cumulative bucket counts
}

type Step struct {
	Failed bool     `json:"failed"`
	Error  string   `json:"error,omitempty"`
	Series []Series `json:"series"`
	Broken string   `json:"broken,omitempty"`
}

type Observation struct {
	Steps []Step   `json:"steps"`
	Conc  *ConcObs `json:"conc,omitempty"`
	After []Step   `json:"after,omitempty"`
}

// the metrics file a hook would write
func fileText(ops []Op) string {
	var b strings.Builder
	for _, o := range ops {
		m := map[string]any{}
		if o.Group != 0 {
			m["group"] = groupStr(o.Group)
		}
		if o.Name != 0 {
			m["name"] = nameStr(o.Name)
		}
		if o.Action != "" {
			m["action"] = o.Action
		}
		if o.Value != nil {
			m["value"] = float64(*o.Value) / scale
		}
		if o.Add != nil {
			m["add"] = float64(*o.Add) / scale
		}
		if o.Set != nil {
			m["set"] = float64(*o.Set) / scale
		}
		if o.Buckets != nil {
			bs := []float64{}
			for _, x := range o.Buckets {
				bs = append(bs, float64(x)/scale)
			}
			m["buckets"] = bs
		}
		if o.Labels != nil {
			ls := map[string]string{}
			for _, kv := range o.Labels {
				ls[labelNameOf[kv[0]]] = valStr(kv[1])
			}
			m["labels"] = ls
		}
		j, _ := json.Marshal(m)
		b.Write(j)
		b.WriteByte('\n')
	}
	return b.String()
}

func scaled(x float64) (int64, bool) {
	y := x * scale
	if y != math.Trunc(y) || math.Abs(y) > 1e15 {
		return 0, false
	}
	return int64(y), true
}

func canon(fams []*dto.MetricFamily) ([]Series, string) {
	var out []Series
	for _, f := range fams {
		name := 9999
		if n, err := strconv.Atoi(strings.TrimPrefix(f.GetName(), "m")); err == nil {
			name = n
		}
		for _, m := range f.Metric {
			s := Series{Name: name, Labels: [][2]int{}}
			for _, lp := range m.Label {
				if lp.GetValue() == "" {
					continue
				}
				id, ok := labelIdOf[lp.GetName()]
				if !ok {
					id = 9999
				}
				s.Labels = append(s.Labels, [2]int{id, valId(lp.GetValue())})
			}
			sort.Slice(s.Labels, func(i, j int) bool { return s.Labels[i][0] < s.Labels[j][0] })
			var v float64
			switch f.GetType() {
			case dto.MetricType_COUNTER:
				s.Kind, v = 1, m.GetCounter().GetValue()
			case dto.MetricType_GAUGE:
				s.Kind, v = 2, m.GetGauge().GetValue()
			case dto.MetricType_HISTOGRAM:
				s.Kind, v = 3, m.GetHistogram().GetSampleSum()
				s.Hist = []int{int(m.GetHistogram().GetSampleCount())}
				for _, b := range m.GetHistogram().Bucket {
					s.Hist = append(s.Hist, int(b.GetCumulativeCount()))
				}
			default:
				return nil, "unexpected metric type " + f.GetType().String()
			}
			sv, ok := scaled(v)
			if !ok {
				return nil, fmt.Sprintf("value %v of %s is not a multiple of 1/8", v, f.GetName())
			}
			s.Value = sv
			out = append(out, s)
		}
	}
	sort.Slice(out, func(i, j int) bool { return seriesKey(out[i]) < seriesKey(out[j]) })
	return out, ""
}

func seriesKey(s Series) string {
	return fmt.Sprintf("%d/%04d/%v", s.Kind, s.Name, s.Labels)
}

var quietOnce sync.Once

// Run sends the history to a fresh MetricStorage.
func Run(in Input) Observation {
	quietOnce.Do(func() { log.SetDefault(log.NewNop()) })
	ms := metricstorage.NewMetricStorage(context.Background(), "p_", true, log.NewNop())
	var o Observation
	var gt *gate
	if len(in.Round) > 0 {
		// the storage takes a prometheus.Registerer: ours passes everything through until the round starts
		gt = newGate(ms.Registry, in.Sched)
		gv, ok := ms.Grouped().(*vault.GroupedVault)
		if !ok {
			o.Conc = &ConcObs{Broken: "MetricStorage.Grouped() is not a *vault.GroupedVault"}
			return o
		}
		gv.SetRegisterer(gt)
		ms.Registerer = gt
	}
	for _, b := range in.Batches {
		o.Steps = append(o.Steps, sendOne(ms, b))
	}
	if len(in.Round) > 0 {
		o.Conc = runRound(ms, gt, in)
		for _, b := range in.After {
			o.After = append(o.After, sendOne(ms, b))
		}
	}
	return o
}

// sendOne: one batch, then Gather
func sendOne(ms *metricstorage.MetricStorage, b Batch) Step {
	var st Step
	st.Series = []Series{}
	ops, err := operation.MetricOperationsFromBytes([]byte(fileText(b.Ops)))
	if err != nil {
		st.Broken = "metrics file does not parse: " + err.Error()
		return st
	}
	err = ms.SendBatch(ops, map[string]string{"hook": valStr(b.Hook)})
	if err != nil {
		st.Failed = true
		st.Error = err.Error()
		if len(st.Error) > 200 {
			st.Error = st.Error[:200]
		}
	}
	fams, gerr := ms.Gatherer.Gather()
	if gerr != nil {
		st.Broken = "Gather: " + gerr.Error()
	} else {
		st.Series, st.Broken = canon(fams)
	}
	if st.Series == nil {
		st.Series = []Series{}
	}
	return st
}

// ---- rendering ----

func coqZ(x int64) string { return fmt.Sprintf("(%d)%%Z", x) }
func coqOZ(p *int) string {
	if p == nil {
		return "None"
	}
	return "(Some " + coqZ(int64(*p)) + ")"
}
func coqLabels(ls [][2]int) string {
	return core.CoqList(ls, func(kv [2]int) string { return fmt.Sprintf("(%d,%d)", kv[0], kv[1]) })
}
func coqAction(a string) string {
	switch a {
	case "":
		return "ANone"
	case "set":
		return "ASet"
	case "add":
		return "AAdd"
	case "observe":
		return "AObserve"
	case "expire":
		return "AExpire"
	}
	return "AOther"
}
func coqOp(o Op) string {
	b := "None"
	if o.Buckets != nil {
		b = "(Some " + core.CoqList(o.Buckets, func(x int) string { return coqZ(int64(x)) }) + ")"
	}
	return fmt.Sprintf("mkOp %d %d %s %s %s %s %s %s", o.Group, o.Name, coqAction(o.Action), coqOZ(o.Value), coqOZ(o.Add), coqOZ(o.Set), b, coqLabels(o.Labels))
}
func coqSeries(s Series) string {
	return fmt.Sprintf("(%d,%d,%s,(%s,%s))", s.Kind, s.Name, coqLabels(s.Labels), coqZ(s.Value), core.CoqList(s.Hist, core.CoqN))
}

func effAction(o Op) string {
	if o.Set != nil && o.Add == nil {
		return "set"
	}
	if o.Add != nil && o.Set == nil {
		return "add"
	}
	return o.Action
}

func Render(in Input, obs *Observation, crash string) core.Case {
	var steps []Step
	if obs != nil {
		steps = obs.Steps
	}
	if crash != "" {
		steps = append(steps, Step{Broken: "crash: " + crash})
	}
	c := core.Case{}
	var sb strings.Builder
	sb.WriteString(core.CoqList(in.Batches, func(b Batch) string {
		return fmt.Sprintf("(%d, %s)", b.Hook, core.CoqList(b.Ops, coqOp))
	}))
	input := sb.String()
	stepTerm := func(s Step) string {
		ser := s.Series
		if s.Broken != "" {
			// an impossible series makes the case fail visibly
			ser = append(append([]Series{}, ser...), Series{Kind: 9, Name: 9999, Labels: [][2]int{}})
		}
		return fmt.Sprintf("(%s, %s)", core.CoqBool(s.Failed), core.CoqList(ser, coqSeries))
	}
	obsTerm := core.CoqList(steps, stepTerm)
	roundTerm, concTerm, afterTerm, aobsTerm := "[]", "([], [])", "[]", "[]"
	if len(in.Round) > 0 {
		afterTerm = core.CoqList(in.After, func(b Batch) string {
			return fmt.Sprintf("(%d, %s)", b.Hook, core.CoqList(b.Ops, coqOp))
		})
		if obs != nil {
			aobsTerm = core.CoqList(obs.After, stepTerm)
		}
		roundTerm = core.CoqList(in.Round, func(b Batch) string {
			return fmt.Sprintf("(%d, %s)", b.Hook, core.CoqList(b.Ops, coqOp))
		})
		var co ConcObs
		if obs != nil && obs.Conc != nil {
			co = *obs.Conc
		} else {
			co.Broken = "the round was not run"
		}
		ser := co.Series
		if co.Broken != "" || crash != "" {
			ser = append(append([]Series{}, ser...), Series{Kind: 9, Name: 9999, Labels: [][2]int{}})
		}
		concTerm = fmt.Sprintf("(%s, %s)", core.CoqList(co.Failed, core.CoqBool), core.CoqList(ser, coqSeries))
	}
	c.Coq = fmt.Sprintf("(%s, %s,\n  %s,\n  (%s,\n   %s),\n  (%s,\n   %s))", core.CoqBool(in.Judged), input, obsTerm, roundTerm, concTerm, afterTerm, aobsTerm)
	c.JSON = map[string]any{"steps": steps}
	if obs != nil && obs.Conc != nil {
		c.JSON = map[string]any{"steps": steps, "conc": obs.Conc, "after": obs.After}
	}
	c.Key = input + " || " + roundTerm + " || " + afterTerm
	grouped, valid, replaced := 0, 0, false
	seenGroup := map[int]int{}
	for bi, b := range in.Batches {
		c.Tags = append(c.Tags, fmt.Sprintf("batch-ops:%02d", len(b.Ops)/2*2))
		for _, o := range b.Ops {
			a := effAction(o)
			if a == "" {
				a = "none"
			}
			if o.Group != 0 {
				grouped++
				c.Tags = append(c.Tags, "op:grouped-"+a)
				if prev, ok := seenGroup[o.Group]; ok && prev != bi {
					replaced = true
				}
				seenGroup[o.Group] = bi
			} else {
				c.Tags = append(c.Tags, "op:ungrouped-"+a)
			}
			if o.Add != nil || o.Set != nil {
				c.Tags = append(c.Tags, "op:shortcut-field")
			}
			for _, p := range []*int{o.Value, o.Add, o.Set} {
				if p != nil && *p%scale != 0 {
					c.Tags = append(c.Tags, "value:fraction")
				}
			}
		}
	}
	for _, s := range steps {
		if s.Failed {
			c.Tags = append(c.Tags, "batch:rejected")
		} else {
			valid++
			c.Tags = append(c.Tags, "batch:accepted")
		}
		if s.Broken != "" {
			c.Tags = append(c.Tags, "broken")
		}
	}
	c.Tags = append(c.Tags, fmt.Sprintf("batches:%02d", len(in.Batches)/2*2))
	if !in.Judged {
		c.Tags = append(c.Tags, "informational(out-of-domain)")
	}
	// non-trivial: judged, at least two accepted batches, grouped operations, and some
	// group reported again in a later batch (replacement actually happens)
	c.Nontrivial = in.Judged && valid >= 2 && grouped >= 1 && replaced
	if len(in.Round) > 0 {
		c.Nontrivial = concTags(&c, in, obs)
	}
	return c
}

// concTags: distribution of the concurrent rounds; non-trivial = judged, at least two accepted
// batches of the round carry grouped set/add operations
func concTags(c *core.Case, in Input, obs *Observation) bool {
	c.Tags = append(c.Tags, fmt.Sprintf("conc:goroutines-%d", len(in.Round)))
	known := map[int]bool{}
	for _, b := range in.Batches {
		for _, o := range b.Ops {
			if o.Group != 0 && o.Name != 0 {
				known[o.Name] = true
			}
		}
	}
	users := map[int]map[int]bool{} // new grouped name -> goroutines using it
	hooks := map[int]bool{}
	writers := 0
	for i, b := range in.Round {
		hooks[b.Hook] = true
		writes, groups := false, map[int]bool{}
		for _, o := range b.Ops {
			a := effAction(o)
			if o.Group == 0 {
				c.Tags = append(c.Tags, "conc:op-ungrouped")
				continue
			}
			groups[o.Group] = true
			if a == "expire" {
				c.Tags = append(c.Tags, "conc:op-expire")
				continue
			}
			if a == "set" || a == "add" {
				writes = true
				if known[o.Name] {
					c.Tags = append(c.Tags, "conc:op-known-name")
				} else {
					c.Tags = append(c.Tags, "conc:op-new-name")
					if users[o.Name] == nil {
						users[o.Name] = map[int]bool{}
					}
					users[o.Name][i] = true
				}
			}
		}
		if len(groups) > 1 {
			c.Tags = append(c.Tags, "conc:batch-with-several-groups")
		}
		accepted := obs != nil && obs.Conc != nil && i < len(obs.Conc.Failed) && !obs.Conc.Failed[i]
		if accepted {
			c.Tags = append(c.Tags, "conc:batch-accepted")
			if writes {
				writers++
			}
		} else {
			c.Tags = append(c.Tags, "conc:batch-rejected")
		}
	}
	shared := false
	for _, u := range users {
		if len(u) > 1 {
			shared = true
		}
	}
	if shared {
		c.Tags = append(c.Tags, "conc:same-new-name-from-several")
	} else if len(users) > 1 {
		c.Tags = append(c.Tags, "conc:different-new-names")
	}
	if len(hooks) == 1 {
		c.Tags = append(c.Tags, "conc:one-hook")
	} else {
		c.Tags = append(c.Tags, "conc:several-hooks")
	}
	if len(in.Batches) == 0 {
		c.Tags = append(c.Tags, "conc:fresh-storage")
	}
	c.Tags = append(c.Tags, fmt.Sprintf("conc:batches-after-%d", len(in.After)))
	return in.Judged && writers >= 2
}

// ---- generation ----

type schema struct {
	kind    int // 1 counter, 2 gauge, 3 histogram
	grouped bool
	names   []int // ungrouped: label names (without hook)
	buckets []int
	group   int // disjoint mode: the single group using this name (0 = any group, label x tells groups apart)
}

type gen struct {
	r      *core.Rng
	exotic bool // this history draws label values whose content matters to an encoding of the tuple
}

func ip(x int) *int { return &x }

var bucketLists = [][]int{{8, 16, 40}, {4}, {0, 8, 80, 800}, {12, 20}}
var freeLabelNames = []int{1, 2, 3, 11, 12}

func (g *gen) value(kind int, fractions bool) int {
	v := g.r.Intn(7) * scale
	if fractions && g.r.Chance(35) {
		v = g.r.Intn(60)
	}
	if kind == 2 && g.r.Chance(25) {
		v = -v
	}
	return v
}

// labelValue: a value id for label name n
func (g *gen) labelValue(n int, emptyPct int) int {
	v := 1 + g.r.Intn(2)
	if g.r.Chance(emptyPct) {
		v = 0
	}
	if g.exotic && (n == 1 || n == 2 || n == 11 || n == 12) && g.r.Chance(75) {
		// a and b, x and z are neighbours in label-name order
		v = []int{1, 3, 4, 5, 6}[g.r.Intn(5)]
	}
	return v
}

func (g *gen) subsetLabels(pool []int, emptyPct int) [][2]int {
	ls := [][2]int{}
	for _, n := range pool {
		if g.r.Chance(45) || g.exotic && (n == 1 || n == 2) && g.r.Chance(70) {
			v := g.labelValue(n, emptyPct)
			ls = append(ls, [2]int{n, v})
		}
	}
	return ls
}

func setLabel(ls [][2]int, k, v int) [][2]int {
	out := [][2]int{}
	done := false
	for _, kv := range ls {
		if kv[0] == k {
			out = append(out, [2]int{k, v})
			done = true
		} else {
			out = append(out, kv)
		}
	}
	if !done {
		out = append(out, [2]int{k, v})
	}
	sort.Slice(out, func(i, j int) bool { return out[i][0] < out[j][0] })
	return out
}

func (g *gen) invalidOp() Op {
	switch g.r.Intn(9) {
	case 0:
		return Op{Name: 1 + g.r.Intn(6), Labels: [][2]int{}} // no action
	case 1:
		return Op{Name: 1 + g.r.Intn(6), Action: "bogus", Value: ip(8)}
	case 2:
		return Op{Name: 1 + g.r.Intn(6), Action: "expire"} // expire without a group
	case 3:
		return Op{Group: 1 + g.r.Intn(3), Name: 1 + g.r.Intn(6), Action: "observe", Value: ip(8), Buckets: []int{8}}
	case 4:
		return Op{Group: g.r.Intn(3), Name: 1 + g.r.Intn(6), Action: "set"} // no value
	case 5:
		return Op{Group: g.r.Intn(3), Name: 1 + g.r.Intn(6), Set: ip(8), Add: ip(8)}
	case 6:
		return Op{Group: g.r.Intn(3), Action: "add", Value: ip(8)} // no name
	case 7:
		return Op{Name: 1 + g.r.Intn(6), Action: "observe", Value: ip(8)} // no buckets
	default:
		return Op{Group: 1 + g.r.Intn(3), Action: "add"} // grouped, neither name nor value
	}
}

// history builds an in-domain history. collide: groups may share (name, labels);
// fractions: dyadic fractions occur.
func (g *gen) history(nBatches int, collide, fractions bool) Input {
	in, _ := g.historySch(nBatches, collide, fractions)
	return in
}

func (g *gen) historySch(nBatches int, collide, fractions bool) (Input, map[int]*schema) {
	g.exotic = g.r.Chance(25)
	sch := map[int]*schema{}
	for n := 1; n <= 6; n++ {
		s := &schema{kind: 1 + g.r.Intn(2), grouped: g.r.Chance(65)}
		if !s.grouped {
			if g.r.Chance(30) {
				s.kind = 3
				s.buckets = bucketLists[g.r.Intn(len(bucketLists))]
			}
			for _, ln := range freeLabelNames {
				if g.r.Chance(35) {
					s.names = append(s.names, ln)
				}
			}
			if g.r.Chance(15) {
				s.names = append(s.names, 10) // the hook's own `hook` label (overridden)
				sort.Ints(s.names)
			}
		} else if !collide && g.r.Chance(50) {
			s.group = 1 + g.r.Intn(3)
		}
		sch[n] = s
	}
	in := Input{Judged: true}
	for b := 0; b < nBatches; b++ {
		bt := Batch{Hook: 1 + g.r.Intn(2)}
		nOps := 1 + g.r.Intn(6)
		for len(bt.Ops) < nOps {
			n := 1 + g.r.Intn(6)
			s := sch[n]
			var o Op
			if s.grouped {
				grp := 1 + g.r.Intn(3)
				if s.group != 0 {
					grp = s.group
				}
				if g.r.Chance(12) {
					o = Op{Group: grp, Action: "expire"}
					if g.r.Chance(30) {
						o.Name = n
					}
					bt.Ops = append(bt.Ops, o)
					continue
				}
				o = Op{Group: grp, Name: n, Labels: g.subsetLabels([]int{1, 2, 3, 12}, 20)}
				if !collide && s.group == 0 {
					o.Labels = setLabel(o.Labels, 11, grp) // label x tells the groups apart
				} else if g.r.Chance(30) {
					o.Labels = setLabel(o.Labels, 11, 1+g.r.Intn(2))
				}
				if g.r.Chance(8) {
					o.Labels = setLabel(o.Labels, 10, 1+g.r.Intn(2))
				}
			} else {
				o = Op{Name: n, Labels: [][2]int{}}
				for _, ln := range s.names {
					v := g.labelValue(ln, 15)
					o.Labels = append(o.Labels, [2]int{ln, v})
				}
			}
			v := g.value(s.kind, fractions)
			shortcutField := g.r.Chance(30)
			switch s.kind {
			case 1:
				if shortcutField {
					o.Add = ip(v)
				} else {
					o.Action, o.Value = "add", ip(v)
				}
			case 2:
				if shortcutField {
					o.Set = ip(v)
				} else {
					o.Action, o.Value = "set", ip(v)
				}
			case 3:
				o.Action, o.Value, o.Buckets = "observe", ip(g.r.Intn(100)), s.buckets
			}
			if len(o.Labels) == 0 && g.r.Chance(50) {
				o.Labels = nil // no labels member at all
			}
			bt.Ops = append(bt.Ops, o)
		}
		if g.r.Chance(15) {
			k := g.r.Intn(len(bt.Ops) + 1)
			ops := append([]Op{}, bt.Ops[:k]...)
			ops = append(ops, g.invalidOp())
			bt.Ops = append(ops, bt.Ops[k:]...)
		}
		in.Batches = append(in.Batches, bt)
	}
	return in, sch
}

// the groups a goroutine of a round may use (pairwise different between goroutines)
var roundGroups = [][]int{{1, 4}, {2, 5}, {3, 6}}

// concurrent builds an in-domain history followed by a round of 2-3 batches handed in at the same
// time: grouped set/add on names nobody has reported before (7, 8: the same new name from several
// goroutines, or different ones), on names the history knows, explicit expire, some ungrouped
// operations, now and then an invalid operation; every goroutine has groups of its own, the label
// x tells the groups apart (value 10+group: never used by the history), so no F5a collision.
func (g *gen) concurrent() Input {
	nBefore, nAfter := g.r.Intn(4), g.r.Intn(3)
	in, sch := g.historySch(nBefore+nAfter, false, true)
	in.After = append([]Batch{}, in.Batches[nBefore:]...)
	in.Batches = in.Batches[:nBefore]
	sch[7] = &schema{kind: 1 + g.r.Intn(2), grouped: true}
	sch[8] = &schema{kind: 1 + g.r.Intn(2), grouped: true}
	s9 := &schema{kind: 1 + g.r.Intn(3)}
	if s9.kind == 3 {
		s9.buckets = bucketLists[g.r.Intn(len(bucketLists))]
	}
	for _, ln := range freeLabelNames {
		if g.r.Chance(35) {
			s9.names = append(s9.names, ln)
		}
	}
	sch[9] = s9
	var groupedNames, freeNames []int
	for n := 1; n <= 6; n++ {
		if sch[n].grouped {
			groupedNames = append(groupedNames, n)
		} else {
			freeNames = append(freeNames, n)
		}
	}
	nT := 2
	if g.r.Chance(35) {
		nT = 3
	}
	oneHook := g.r.Chance(20)
	sharedNew := 7 + g.r.Intn(2)
	for t := 0; t < nT; t++ {
		bt := Batch{Hook: 1 + t}
		if oneHook {
			bt.Hook = 1
		}
		nOps := 1 + g.r.Intn(4)
		for len(bt.Ops) < nOps {
			grp := roundGroups[t][g.r.Intn(2)]
			switch {
			case g.r.Chance(12):
				o := Op{Group: grp, Action: "expire"}
				if g.r.Chance(30) {
					o.Name = 7
				}
				bt.Ops = append(bt.Ops, o)
				continue
			case g.r.Chance(15):
				// outside groups: mostly a name nobody has reported before (9), from several goroutines
				n := 9
				if len(freeNames) > 0 && g.r.Chance(40) {
					n = freeNames[g.r.Intn(len(freeNames))]
				}
				s := sch[n]
				o := Op{Name: n, Labels: [][2]int{}}
				for _, ln := range s.names {
					o.Labels = append(o.Labels, [2]int{ln, g.labelValue(ln, 15)})
				}
				g.fill(&o, s)
				bt.Ops = append(bt.Ops, o)
				continue
			}
			n := sharedNew
			if g.r.Chance(25) {
				n = 7 + g.r.Intn(2)
			} else if len(groupedNames) > 0 && g.r.Chance(45) {
				n = groupedNames[g.r.Intn(len(groupedNames))]
			}
			o := Op{Group: grp, Name: n, Labels: g.subsetLabels([]int{1, 2, 3, 12}, 20)}
			o.Labels = setLabel(o.Labels, 11, 10+grp)
			g.fill(&o, sch[n])
			bt.Ops = append(bt.Ops, o)
		}
		if g.r.Chance(10) {
			k := g.r.Intn(len(bt.Ops) + 1)
			ops := append([]Op{}, bt.Ops[:k]...)
			ops = append(ops, g.invalidOp())
			bt.Ops = append(ops, bt.Ops[k:]...)
		}
		in.Round = append(in.Round, bt)
	}
	for k := 0; k < 8; k++ {
		in.Sched = append(in.Sched, g.r.Intn(12))
	}
	// the batches after the round also report groups and new names of the round again (replacement)
	for i := range in.After {
		if g.r.Chance(60) {
			grp := roundGroups[g.r.Intn(nT)][g.r.Intn(2)]
			n := 7 + g.r.Intn(2)
			o := Op{Group: grp, Name: n, Labels: g.subsetLabels([]int{1, 2, 3, 12}, 20)}
			o.Labels = setLabel(o.Labels, 11, 10+grp)
			g.fill(&o, sch[n])
			in.After[i].Ops = append(in.After[i].Ops, o)
		}
	}
	return in
}

// sameGroup: batches handed in at the same time that report the SAME group (two bindings of a hook, or two hooks, in
// different queues).  A batch replaces its group's series as a whole: whatever the interleaving, the group must show
// the series of ONE of the batches afterwards (P_case: the registry after SOME order of the round).  The batches are long
// (12-24 series each) so that the calls really overlap; an optional short history reports the group before.
func (g *gen) sameGroup() Input {
	in, sch := g.historySch(0, false, true)
	sch[7] = &schema{kind: 1 + g.r.Intn(2), grouped: true}
	grp := 1 + g.r.Intn(3)
	nT := 2
	if g.r.Chance(30) {
		nT = 3
	}
	oneHook := g.r.Chance(35)
	mk := func(hook, n, off int) Batch {
		bt := Batch{Hook: hook}
		for k := 0; k < n; k++ {
			o := Op{Group: grp, Name: 7, Labels: [][2]int{{1, off + k}, {11, 10 + grp}}}
			g.fill(&o, sch[7])
			bt.Ops = append(bt.Ops, o)
		}
		return bt
	}
	if g.r.Chance(50) {
		in.Batches = append(in.Batches, mk(1, 1+g.r.Intn(3), 50))
	}
	for t := 0; t < nT; t++ {
		hook := 1 + t%2
		if oneHook {
			hook = 1
		}
		off := 1
		if g.r.Chance(50) {
			off = 1 + 30*t // the batches name different series
		}
		in.Round = append(in.Round, mk(hook, 12+g.r.Intn(13), off))
	}
	in.Sched = []int{g.r.Intn(12), 0, 0, 0, g.r.Intn(12), g.r.Intn(12)} // all goroutines started at once (no staggered start)
	return in
}

// fill gives the operation its action and value according to the name's schema
func (g *gen) fill(o *Op, s *schema) {
	v := g.value(s.kind, true)
	shortcutField := g.r.Chance(30)
	switch s.kind {
	case 1:
		if shortcutField {
			o.Add = ip(v)
		} else {
			o.Action, o.Value = "add", ip(v)
		}
	case 2:
		if shortcutField {
			o.Set = ip(v)
		} else {
			o.Action, o.Value = "set", ip(v)
		}
	case 3:
		o.Action, o.Value, o.Buckets = "observe", ip(g.r.Intn(100)), s.buckets
	}
}

// wild builds an out-of-domain history (informational stream, never judged).
func (g *gen) wild(nBatches int) Input {
	in := Input{Judged: false}
	for b := 0; b < nBatches; b++ {
		bt := Batch{Hook: 1 + g.r.Intn(2)}
		for k := 0; k < 1+g.r.Intn(5); k++ {
			o := Op{Group: g.r.Intn(3), Name: 1 + g.r.Intn(3), Labels: g.subsetLabels(freeLabelNames, 20)}
			switch g.r.Intn(4) {
			case 0:
				o.Action, o.Value = "add", ip((g.r.Intn(9)-2)*scale)
			case 1:
				o.Action, o.Value = "set", ip(g.r.Intn(50))
			case 2:
				o.Action, o.Value, o.Buckets = "observe", ip(g.r.Intn(50)), bucketLists[g.r.Intn(len(bucketLists))]
			default:
				o.Action = "expire"
			}
			bt.Ops = append(bt.Ops, o)
		}
		in.Batches = append(in.Batches, bt)
	}
	return in
}

func lbl(kv ...int) [][2]int {
	ls := [][2]int{}
	for i := 0; i+1 < len(kv); i += 2 {
		ls = append(ls, [2]int{kv[i], kv[i+1]})
	}
	return ls
}

// Corpus: witnesses and past failures; runs first.
func Corpus() []Input {
	j := func(bs ...Batch) Input { return Input{Judged: true, Batches: bs} }
	return []Input{
		// a group is replaced, another group and an ungrouped series stay
		j(Batch{1, []Op{{Group: 1, Name: 1, Action: "set", Value: ip(8), Labels: lbl(1, 1)}, {Group: 1, Name: 1, Action: "set", Value: ip(16), Labels: lbl(1, 2)},
			{Group: 2, Name: 2, Action: "add", Value: ip(24), Labels: lbl(2, 1)}, {Name: 3, Action: "add", Value: ip(12), Labels: lbl(1, 1)}}},
			Batch{1, []Op{{Group: 1, Name: 1, Action: "set", Value: ip(40), Labels: lbl(1, 2, 2, 1)}, {Name: 3, Action: "add", Value: ip(4), Labels: lbl(1, 1)}}},
			Batch{2, []Op{{Group: 2, Action: "expire"}}}),
		// label values whose content matters to any one-string encoding of the tuple: ("vÿ","v1") and ("v","ÿv1") are
		// two series of one group; another group reports the second tuple; a counter with both
		j(Batch{1, []Op{{Group: 1, Name: 1, Action: "set", Value: ip(8), Labels: lbl(1, 4, 2, 1)}, {Group: 1, Name: 1, Action: "set", Value: ip(16), Labels: lbl(1, 3, 2, 5)},
			{Group: 2, Name: 2, Action: "add", Value: ip(8), Labels: lbl(1, 4, 2, 1)}, {Group: 2, Name: 2, Action: "add", Value: ip(8), Labels: lbl(1, 3, 2, 5)}}},
			Batch{2, []Op{{Group: 3, Name: 1, Action: "set", Value: ip(24), Labels: lbl(1, 3, 2, 5, 11, 6)}}},
			Batch{2, []Op{{Group: 3, Action: "expire"}}}),
		// an invalid operation anywhere rejects the whole batch
		j(Batch{1, []Op{{Group: 1, Name: 1, Set: ip(8), Labels: lbl(1, 1)}}},
			Batch{1, []Op{{Group: 1, Name: 1, Set: ip(16), Labels: lbl(1, 2)}, {Name: 2, Action: "add", Value: ip(8)}, {Name: 3, Action: "bogus", Value: ip(8)}}},
			Batch{1, []Op{{Name: 2, Action: "expire"}}}),
		// explicit expire in the middle of a group's operations; varying label shapes
		j(Batch{1, []Op{{Group: 1, Name: 1, Action: "set", Value: ip(8), Labels: lbl(1, 1)}, {Group: 1, Action: "expire"},
			{Group: 1, Name: 1, Action: "set", Value: ip(16), Labels: lbl(2, 1, 12, 2)}, {Group: 1, Name: 1, Action: "set", Value: ip(24), Labels: lbl(1, 1, 2, 0)}}}),
		// histogram, gauge and counter outside groups, hook label overridden
		j(Batch{1, []Op{{Name: 4, Action: "observe", Value: ip(12), Buckets: []int{8, 16, 40}, Labels: lbl(1, 1)},
			{Name: 4, Action: "observe", Value: ip(100), Buckets: []int{8, 16, 40}, Labels: lbl(1, 1)}, {Name: 5, Set: ip(-20), Labels: lbl(10, 2)}}},
			Batch{2, []Op{{Name: 4, Action: "observe", Value: ip(8), Buckets: []int{8, 16, 40}, Labels: lbl(1, 1)}, {Name: 5, Set: ip(4), Labels: lbl(10, 1)}}}),
		// F5a: two groups report the same name and labels; expiring the first removes the second's series
		j(Batch{1, []Op{{Group: 2, Name: 1, Action: "set", Value: ip(8), Labels: lbl(1, 1)}}},
			Batch{1, []Op{{Group: 3, Name: 1, Action: "set", Value: ip(16), Labels: lbl(1, 1)}}},
			Batch{1, []Op{{Group: 2, Action: "expire"}}}),
		// F5b (repaired): a fractional increment of a grouped counter
		j(Batch{1, []Op{{Group: 1, Name: 1, Action: "add", Value: ip(12), Labels: lbl(1, 1)}, {Group: 1, Name: 1, Action: "add", Value: ip(12), Labels: lbl(1, 1)}}}),
		// F5c (repaired): the `add` shortcut on a grouped counter was applied twice
		j(Batch{1, []Op{{Group: 1, Name: 1, Add: ip(8), Labels: lbl(1, 1)}}}),
		// two hooks report the same NEW metric name at the same time, each in a group of its own, on a fresh storage
		{Judged: true, Batches: []Batch{}, Sched: []int{1, 1, 1, 1},
			Round: []Batch{{1, []Op{{Group: 1, Name: 7, Action: "set", Value: ip(24), Labels: lbl(1, 1)}}},
				{2, []Op{{Group: 2, Name: 7, Action: "set", Value: ip(12), Labels: lbl(1, 2)}}}}},
		// ... and afterwards each hook replaces its group
		{Judged: true, Batches: []Batch{}, Sched: []int{1, 1, 1, 1},
			Round: []Batch{{1, []Op{{Group: 1, Name: 7, Action: "set", Value: ip(24), Labels: lbl(1, 1)}}},
				{2, []Op{{Group: 2, Name: 7, Action: "set", Value: ip(12), Labels: lbl(1, 2)}}}},
			After: []Batch{{1, []Op{{Group: 1, Name: 7, Action: "set", Value: ip(32), Labels: lbl(1, 3)}}},
				{2, []Op{{Group: 2, Name: 7, Action: "set", Value: ip(20), Labels: lbl(2, 1)}}}}},
		// the same, the other one registers first; counters; three goroutines
		{Judged: true, Batches: []Batch{}, Sched: []int{1, 2, 3, 1, 5, 2},
			Round: []Batch{{1, []Op{{Group: 1, Name: 8, Action: "add", Value: ip(8), Labels: lbl(1, 1)}}},
				{2, []Op{{Group: 2, Name: 8, Add: ip(12), Labels: lbl(2, 2)}}},
				{3, []Op{{Group: 3, Name: 8, Action: "add", Value: ip(16)}, {Group: 3, Name: 7, Action: "set", Value: ip(4)}}}}},
		// after a history: a known name, a new one, replacement of a group of the history, expire of another, an ungrouped add
		{Judged: true, Sched: []int{3, 1, 2, 1, 1, 7},
			Batches: []Batch{{1, []Op{{Group: 1, Name: 1, Action: "set", Value: ip(8), Labels: lbl(1, 1)}, {Group: 2, Name: 1, Action: "set", Value: ip(16), Labels: lbl(1, 2)},
				{Name: 3, Action: "add", Value: ip(4), Labels: lbl(2, 1)}}}},
			Round: []Batch{{1, []Op{{Group: 1, Name: 1, Action: "set", Value: ip(40), Labels: lbl(1, 1, 2, 1)}, {Group: 4, Name: 7, Action: "set", Value: ip(12), Labels: lbl(11, 14)}}},
				{2, []Op{{Group: 2, Action: "expire"}, {Group: 5, Name: 7, Action: "set", Value: ip(20), Labels: lbl(11, 15)}, {Name: 3, Action: "add", Value: ip(4), Labels: lbl(2, 1)}}}}},
		// one of the concurrent batches is invalid: nothing of it is applied, the other one is
		{Judged: true, Batches: []Batch{}, Sched: []int{2, 1, 1},
			Round: []Batch{{1, []Op{{Group: 1, Name: 7, Action: "set", Value: ip(8)}, {Group: 1, Name: 8, Action: "observe", Value: ip(8), Buckets: []int{8}}}},
				{2, []Op{{Group: 2, Name: 7, Action: "set", Value: ip(16)}}}}},
	}
}

func Gen(r *core.Rng, tier string) ([]core.In[Input], bool) {
	var ins []core.In[Input]
	for _, c := range Corpus() {
		ins = append(ins, core.In[Input]{Input: c, Stream: "corpus"})
	}
	// the rounds of the corpus under EVERY list of choices of a small scope (start order, staggered
	// start, hold or pass, who registers first): quick {0,1}^5 on the first round, thorough {0,1,2}^5 on all
	alphabet, rounds := 2, 1
	if tier == "thorough" {
		alphabet, rounds = 3, 1000
	}
	for _, c := range Corpus() {
		if len(c.Round) == 0 || rounds == 0 {
			continue
		}
		rounds--
		total := 1
		for k := 0; k < 5; k++ {
			total *= alphabet
		}
		for code := 0; code < total; code++ {
			cc := c
			cc.Sched = nil
			for k, x := 0, code; k < 5; k, x = k+1, x/alphabet {
				cc.Sched = append(cc.Sched, x%alphabet)
			}
			ins = append(ins, core.In[Input]{Input: cc, Stream: "schedules"})
		}
	}
	g := &gen{r: r}
	n, maxB := 400, 6
	switch tier {
	case "thorough":
		n, maxB = 13000, 9
	case "search":
		n, maxB = 3200, 6
	}
	for i := 0; i < n/10; i++ {
		ins = append(ins, core.In[Input]{Input: g.sameGroup(), Stream: "same-group"})
	}
	for i := 0; i < n; i++ {
		nb := 1 + g.r.Intn(maxB)
		switch {
		case i%4 == 3:
			ins = append(ins, core.In[Input]{Input: g.concurrent(), Stream: "concurrent"})
		case i%10 == 9:
			ins = append(ins, core.In[Input]{Input: g.wild(nb), Stream: "informational"})
		case i%10 >= 6:
			ins = append(ins, core.In[Input]{Input: g.history(nb, true, true), Stream: "trigger"})
		default:
			ins = append(ins, core.In[Input]{Input: g.history(nb, false, true), Stream: "random"})
		}
	}
	return ins, false
}

var Driver = core.Driver[Input, Observation]{
	Spec: core.Spec{Property: "C16", Imports: []string{"C16_Model", "C16_Spec", "C16_Corr"}, Corr: "C16_Corr", Triggers: []string{"F5a"}, ShrinkKey: "batches",
		Rule: "histories of metric batches written as hooks write them (JSON lines, parsed by the real operation package) sent to a real MetricStorage with its own registry, Gather() canonicalised after every batch; 2 hooks, 3 groups, 6 metric names with a per-history schema (kind, grouped or not, ungrouped label names, buckets), varying label shapes with empty values for grouped metrics, integer and dyadic values, add/set shortcut fields, explicit expire, 15% of batches with one invalid operation; streams: corpus, schedules (the corpus rounds under every choice list of a small scope), random (groups never share (name, labels)), trigger (they may: F5a), informational (out-of-domain, never judged); the implementation's observations are judged against the model run with EVERY order of the batch's groups (Go map iteration); non-trivial = judged, >= 2 accepted batches, grouped operations, some group reported again in a later batch; stream concurrent (every 4th): a history, then a ROUND of 2-3 batches handed in at the same time by one goroutine each (groups pairwise different between goroutines; grouped set/add on the same new metric name from several goroutines, on different new names, on names the history knows, explicit expire, some ungrouped operations - mostly on one new ungrouped name -, 10% with an invalid operation; one hook or several), the interleaving steered through a prometheus.Registerer wrapper (a Register call is held until another goroutine is inside Register too, or all others are parked or have returned, or 3 ms have passed; who registers first, start order and staggered start are choices from the input's sched list); then 0-2 batches one after the other again (reporting groups and new names of the round again); compared only after all goroutines have returned: failure flags, and Gather() judged against the model with the round's batches as atomic steps in EVERY order, P_case = the reference registry after SOME order; non-trivial there = judged and >= 2 accepted batches of the round with grouped set/add; distinct = distinct input term (history and round); stream same-group (a tenth of the random cases): 2-3 long batches (12-24 series each) handed in at the same time for the SAME group by one hook or two, all goroutines started at once - whatever the interleaving the group must show the series of ONE of them (F36, repaired)"},
	Gen: Gen, Run: Run, Render: Render, PerShard: 700, Workers: 8, CaseTimout: 30 * time.Second,
}
