// Package opsim runs the REAL shell-operator (assembled in-process around a fake
// cluster through the verif exports) on a generated set of hooks and a scripted
// sequence of actions, and records after every action what is observable: the
// content of every task queue, the hook executions that are open, what each hook
// was shown, which monitors are unlocked, which workers have stopped.
// Hooks are copies of cmd/hookstub; every execution blocks until the script ends it.
package opsim

import (
	"context"
	"encoding/json"
	"fmt"
	"net"
	"os"
	"path/filepath"
	"regexp"
	"sort"
	"strconv"
	"strings"
	"sync"
	"time"

	"github.com/deckhouse/deckhouse/pkg/log"
	"k8s.io/apimachinery/pkg/apis/meta/v1/unstructured"

	"github.com/flant/kube-client/fake"
	"github.com/flant/shell-operator/pkg/hook/task_metadata"
	kubeeventsmanager "github.com/flant/shell-operator/pkg/kube_events_manager"
	kemtypes "github.com/flant/shell-operator/pkg/kube_events_manager/types"
	metricstorage "github.com/flant/shell-operator/pkg/metric_storage"
	shell_operator "github.com/flant/shell-operator/pkg/shell-operator"
	"github.com/flant/shell-operator/pkg/task"
	"github.com/flant/shell-operator/pkg/task/queue"
)

// ---- input ----

type KB struct {
	Name     int  `json:"name"`
	Queue    int  `json:"queue"`
	Group    int  `json:"group"`
	Allow    bool `json:"allow"`
	ExecSync bool `json:"execsync"`
}
type SB struct {
	Name  int  `json:"name"`
	Queue int  `json:"queue"`
	Group int  `json:"group"`
	Allow bool `json:"allow"`
	Cron  int  `json:"cron"`
}
type Hook struct {
	Id      int  `json:"id"`
	V0      bool `json:"v0"`
	Startup *int `json:"startup,omitempty"`
	Kube    []KB `json:"kube,omitempty"`
	Sched   []SB `json:"sched,omitempty"`
	// rate limit settings (C18 placement); 0 = absent
	IntervalMs int `json:"interval_ms,omitempty"`
	Burst      int `json:"burst,omitempty"`
	// Path (optional): path of the hook file relative to the hooks directory; it must contain
	// the usual h<id> name (the last h<3 digits> in it identifies the hook), and the paths of a
	// configuration must be in lexical order when the hooks are in id order. Default: h<id>.
	Path string `json:"path,omitempty"`
}
type Action struct {
	Kind string `json:"kind"` // Boot Tick KubeEv Finish Stop FinishWait Elapse
	C    int    `json:"c,omitempty"`
	Mon  int    `json:"mon,omitempty"`
	Obj  int    `json:"obj,omitempty"`
	Q    int    `json:"q,omitempty"`
	Ok   bool   `json:"ok,omitempty"`
	// optional details of a Finish: exit code (overrides Ok when non-zero) and file contents
	// keyed by the environment variable that names the file
	Exit  int               `json:"exit,omitempty"`
	Files map[string]string `json:"files,omitempty"`
	// a failing Finish / FinishWait whose process exits 0: the failure lies in what it wrote (Files)
	Exit0 bool `json:"exit0,omitempty"`
	// FinishWait only: the positive back-off delay is a short one (shorter than the queue's
	// wait-loop check interval) that elapses by itself; the next action must then be Stop or
	// Elapse of the same queue (RunScenario clears the flag otherwise)
	Short bool `json:"short,omitempty"`
	// FinishWait only: the long delay is waited for with a wait-loop check interval of 300 ms, so that
	// the harness can place a request between two looks of the worker (see Cancel)
	Slow bool `json:"slow,omitempty"`
	// Stop only: queue Q waits in a Slow back-off delay; CancelTaskDelay() is called on it between two
	// looks of its worker and Shutdown() is requested at once - the worker finds the stop request and
	// the unconsumed cancellation together.  To the model this is a plain Stop: a cancellation
	// the worker has not acted upon when the stop request arrives starts nothing
	Cancel bool `json:"cancel,omitempty"`
	// Idle only: the operator is left alone for Ms milliseconds (real time: workers poll their
	// empty queues, wait in handlers and delays).  Not an action of the model: rendered as a tick
	// of the crontab IdleCron, which no binding uses (a stutter step, C17_time_is_stutter)
	Ms int `json:"ms,omitempty"`
}

// IdleCron numbers a crontab no generated configuration uses.
const IdleCron = 999

type Input struct {
	Cfg  []Hook   `json:"cfg"`
	Acts []Action `json:"acts"`
}

// ---- observation ----

type CtxObs struct {
	Binding int    `json:"b"`
	Kind    string `json:"k"` // Startup Sync Event Schedule | Group (hook's view) | V0
	Group   int    `json:"g"`
	Obj     int    `json:"o"`
}
type TaskObs struct {
	Type     string   `json:"type"`
	Hook     int      `json:"hook"`
	BType    string   `json:"btype"`
	Ctxs     []CtxObs `json:"ctxs"`
	Allow    bool     `json:"allow"`
	Group    int      `json:"group"`
	Mids     []int    `json:"mids"`
	ExecSync bool     `json:"execsync"`
	Queue    int      `json:"queue"`
	Fail     int      `json:"fail"`
}
type QObs struct {
	Name          int       `json:"name"`
	Items         []TaskObs `json:"items"`
	Running       bool      `json:"running"`
	WorkerStopped bool      `json:"worker_stopped"`
	Delayed       bool      `json:"delayed,omitempty"` // the worker waits in a back-off delay
}
type ExecObs struct {
	Queue int      `json:"queue"`
	Hook  int      `json:"hook"`
	Ctxs  []CtxObs `json:"ctxs"` // what the hook was shown (parsed from its binding-context file)
}
type StepObs struct {
	Queues   []QObs    `json:"queues"`
	Execs    []ExecObs `json:"execs"`
	Unlocked []int     `json:"unlocked"`
	Started  []ExecObs `json:"started,omitempty"` // executions that started during this step, in order
	Note     string    `json:"note,omitempty"`
	Bad      string    `json:"bad,omitempty"` // a positive observation that is wrong whatever the model says
}
type Observation struct {
	Steps   []StepObs `json:"steps"`
	InitErr string    `json:"init_err,omitempty"`
}

// ---- naming ----

func HookName(id int) string { return fmt.Sprintf("h%03d", id) }
func BindingName(n int) string {
	if n == 0 {
		return "onStartup"
	}
	return "b" + strconv.Itoa(n)
}
func QueueName(n int) string {
	if n == 0 {
		return "main"
	}
	return "q" + strconv.Itoa(n)
}
func GroupName(n int) string {
	if n == 0 {
		return ""
	}
	return "g" + strconv.Itoa(n)
}

// CronName: crontab number c as a crontab that never fires by itself (the 30th of February),
// so that the operator's real cron scheduler can run; ticks are injected by the harness.
func CronName(c int) string { return fmt.Sprintf("%d 0 30 2 *", c) }

var hookIdRe = regexp.MustCompile(`h(\d{3})`)

// hookIdOf finds the hook number in a hook name (relative path of the hook file).
func hookIdOf(name string) int {
	ms := hookIdRe.FindAllStringSubmatch(name, -1)
	if len(ms) == 0 {
		return -1
	}
	n, _ := strconv.Atoi(ms[len(ms)-1][1])
	return n
}

// HookFile is the hook's name in the operator: the path of its file relative to the hooks directory.
func HookFile(h Hook) string {
	if h.Path != "" {
		return h.Path
	}
	return HookName(h.Id)
}

func parseNum(prefix, s string) int {
	if !strings.HasPrefix(s, prefix) {
		return -1
	}
	digits := s[len(prefix):]
	end := 0
	for end < len(digits) && digits[end] >= '0' && digits[end] <= '9' {
		end++
	}
	if end == 0 {
		return -1
	}
	if prefix != "h" && end != len(digits) {
		return -1 // only hook file names may carry a suffix after the number
	}
	n, err := strconv.Atoi(digits[:end])
	if err != nil {
		return -1
	}
	return n
}
func bindingNum(s string) int {
	if s == "onStartup" {
		return 0
	}
	return parseNum("b", s)
}
func queueNum(s string) int {
	if s == "main" {
		return 0
	}
	return parseNum("q", s)
}
func groupNum(s string) int {
	if s == "" {
		return 0
	}
	return parseNum("g", s)
}

// HookConfigJSON renders the --config output of one hook.
func HookConfigJSON(h Hook) string {
	m := map[string]interface{}{}
	if !h.V0 {
		m["configVersion"] = "v1"
	}
	if h.Startup != nil {
		m["onStartup"] = *h.Startup
	}
	if h.V0 {
		var ks []interface{}
		for _, b := range h.Kube {
			ks = append(ks, map[string]interface{}{"name": BindingName(b.Name), "kind": "ConfigMap", "event": []string{"add", "update", "delete"},
				"namespaceSelector": map[string]interface{}{"matchNames": []string{"ns" + strconv.Itoa(b.Name)}}, "allowFailure": b.Allow})
		}
		if len(ks) > 0 {
			m["onKubernetesEvent"] = ks
		}
		var ss []interface{}
		for _, b := range h.Sched {
			ss = append(ss, map[string]interface{}{"name": BindingName(b.Name), "crontab": CronName(b.Cron), "allowFailure": b.Allow})
		}
		if len(ss) > 0 {
			m["schedule"] = ss
		}
	} else {
		var ks []interface{}
		for _, b := range h.Kube {
			k := map[string]interface{}{"name": BindingName(b.Name), "kind": "ConfigMap",
				"namespace":                    map[string]interface{}{"nameSelector": map[string]interface{}{"matchNames": []string{"ns" + strconv.Itoa(b.Name)}}},
				"allowFailure":                 b.Allow,
				"executeHookOnSynchronization": b.ExecSync}
			if b.Queue != 0 {
				k["queue"] = QueueName(b.Queue)
			}
			if b.Group != 0 {
				k["group"] = GroupName(b.Group)
			}
			ks = append(ks, k)
		}
		if len(ks) > 0 {
			m["kubernetes"] = ks
		}
		var ss []interface{}
		for _, b := range h.Sched {
			s := map[string]interface{}{"name": BindingName(b.Name), "crontab": CronName(b.Cron), "allowFailure": b.Allow}
			if b.Queue != 0 {
				s["queue"] = QueueName(b.Queue)
			}
			if b.Group != 0 {
				s["group"] = GroupName(b.Group)
			}
			ss = append(ss, s)
		}
		if len(ss) > 0 {
			m["schedule"] = ss
		}
		if h.IntervalMs != 0 || h.Burst != 0 {
			st := map[string]interface{}{}
			if h.IntervalMs != 0 {
				st["executionMinInterval"] = fmt.Sprintf("%dms", h.IntervalMs)
			}
			if h.Burst != 0 {
				st["executionBurst"] = h.Burst
			}
			m["settings"] = st
		}
	}
	b, _ := json.Marshal(m)
	return string(b)
}

// ---- hook stub server ----

type Hello struct {
	Argv0    string            `json:"argv0"`
	Args     []string          `json:"args"`
	Cwd      string            `json:"cwd"`
	Env      map[string]string `json:"env"`
	Context  string            `json:"context"`
	Files    map[string]string `json:"files"`
	TmpFiles []string          `json:"tmp_files"`
	Pid      int               `json:"pid"`
}
type Reply struct {
	Stdout string            `json:"stdout"`
	Exit   int               `json:"exit"`
	Files  map[string]string `json:"files"`
}
type Call struct {
	Hello Hello
	Hook  int
	conn  net.Conn
	Seq   int
}

func (c *Call) Reply(r Reply) {
	json.NewEncoder(c.conn).Encode(r)
	c.conn.Close()
}

type Server struct {
	ln      net.Listener
	Path    string
	Execs   chan *Call
	configs map[string]string // hook name -> config text ("" = fail)
	mu      sync.Mutex
	seq     int
	// ConfigCalls counts --config invocations per hook name
	ConfigCalls map[string]int
	ConfigFail  map[string]bool
}

func NewServer(dir string, configs map[string]string) (*Server, error) {
	p := filepath.Join(dir, "s.sock")
	ln, err := net.Listen("unix", p)
	if err != nil {
		return nil, err
	}
	s := &Server{ln: ln, Path: p, Execs: make(chan *Call, 64), configs: configs, ConfigCalls: map[string]int{}, ConfigFail: map[string]bool{}}
	go s.loop()
	return s, nil
}

func (s *Server) Close() { s.ln.Close() }

func (s *Server) loop() {
	for {
		conn, err := s.ln.Accept()
		if err != nil {
			return
		}
		go func() {
			var h Hello
			if err := json.NewDecoder(conn).Decode(&h); err != nil {
				conn.Close()
				return
			}
			name := filepath.Base(h.Argv0)
			isConfig := false
			for _, a := range h.Args {
				if a == "--config" {
					isConfig = true
				}
			}
			if isConfig {
				s.mu.Lock()
				s.ConfigCalls[name]++
				cfg, ok := s.configs[name]
				fail := s.ConfigFail[name]
				s.mu.Unlock()
				r := Reply{Stdout: cfg}
				if !ok || fail {
					r = Reply{Stdout: "", Exit: 1}
				}
				json.NewEncoder(conn).Encode(r)
				conn.Close()
				return
			}
			s.mu.Lock()
			s.seq++
			c := &Call{Hello: h, Hook: hookIdOf(name), conn: conn, Seq: s.seq}
			s.mu.Unlock()
			s.Execs <- c
		}()
	}
}

// ParseContexts turns the hook's binding-context file into canonical CtxObs.
func ParseContexts(text string, v0 bool) []CtxObs {
	var arr []map[string]interface{}
	if err := json.Unmarshal([]byte(text), &arr); err != nil {
		return []CtxObs{{Binding: -1, Kind: "unparsable"}}
	}
	var out []CtxObs
	for _, m := range arr {
		c := CtxObs{}
		b, _ := m["binding"].(string)
		c.Binding = bindingNum(b)
		ty, _ := m["type"].(string)
		objName := func(o interface{}) int {
			om, _ := o.(map[string]interface{})
			md, _ := om["metadata"].(map[string]interface{})
			n, _ := md["name"].(string)
			if n == "" {
				return 0
			}
			return parseNum("o", n)
		}
		switch {
		case v0:
			c.Kind = "V0"
			if rn, ok := m["resourceName"].(string); ok {
				c.Obj = parseNum("o", rn)
			}
		case ty == "Group":
			c.Kind = "Group"
			g, _ := m["groupName"].(string)
			c.Group = groupNum(g)
		case ty == "Synchronization":
			c.Kind = "Sync"
		case ty == "Event":
			c.Kind = "Event"
			c.Obj = objName(m["object"])
		case ty == "Schedule":
			c.Kind = "Schedule"
		case ty == "" && b == "onStartup":
			c.Kind = "Startup"
		default:
			c.Kind = "other:" + ty
		}
		out = append(out, c)
	}
	return out
}

// ---- the run ----

var timingOnce sync.Once

func setTimings() {
	timingOnce.Do(func() {
		queue.DefaultWaitLoopCheckInterval = 200 * time.Microsecond
		queue.DefaultDelayOnQueueIsEmpty = 200 * time.Microsecond
		queue.DefaultDelayOnRepeat = 200 * time.Microsecond
		queue.DefaultInitialDelayOnFailedTask = 0
		kubeeventsmanager.DefaultSyncTime = time.Millisecond
		shell_operator.WaitQueuesTimeout = 20 * time.Millisecond
		os.Setenv("QUEUE_ACTIONS_METRICS", "no")
		log.SetDefaultLevel(log.LevelFatal)
	})
}

func stubPath() string {
	if p := os.Getenv("VERIF_HOOKSTUB"); p != "" {
		return p
	}
	self, _ := os.Executable()
	return filepath.Join(filepath.Dir(self), "hookstub")
}

func linkStub(dst string) error {
	src := stubPath()
	if err := os.Link(src, dst); err == nil {
		return os.Chmod(dst, 0o755)
	}
	b, err := os.ReadFile(src)
	if err != nil {
		return err
	}
	return os.WriteFile(dst, b, 0o755)
}

// Sim is one running operator instance.
type Sim struct {
	In          Input
	Cluster     *fake.Cluster // the fake cluster the operator runs on (drivers may install reactors before Boot)
	Op          *shell_operator.ShellOperator
	Srv         *Server
	Dir         string
	open        map[int]*Call // queue -> open execution
	monNum      map[string]int
	hookV0      map[int]bool
	bindingQ    map[int]int
	stopped     bool
	booted      bool
	Backoffs    []int // failure counts passed to the queues' back-off function
	boMu        sync.Mutex
	waitNext    map[int]int        // queue -> 1: the next back-off is long, 2: short
	delayed     map[int]*delayInfo // queues whose worker waits in a back-off delay
	elapsing    map[int]bool       // long delays being cancelled
	Timing      string             // a short delay could not be hit in time (the run is repeated)
	metricsStop chan struct{}
	cancel      context.CancelFunc
	// ExitFiles lets a property driver decide what a finishing hook writes
	ExitFiles func(q int, ok bool) map[string]string
}

type delayInfo struct {
	short bool
	slow  bool
	since time.Time
}

const (
	shortDelay    = 150 * time.Millisecond
	shortInterval = 300 * time.Millisecond
	fastInterval  = 200 * time.Microsecond
)

func NewSim(in Input) (*Sim, error) {
	setTimings()
	dir, err := os.MkdirTemp("", "opsim")
	if err != nil {
		return nil, err
	}
	s := &Sim{In: in, Dir: dir, open: map[int]*Call{}, monNum: map[string]int{}, hookV0: map[int]bool{}, bindingQ: map[int]int{},
		waitNext: map[int]int{}, delayed: map[int]*delayInfo{}, elapsing: map[int]bool{}}
	hooksDir := filepath.Join(dir, "hooks")
	tmpDir := filepath.Join(dir, "tmp")
	os.MkdirAll(hooksDir, 0o755)
	os.MkdirAll(tmpDir, 0o755)
	configs := map[string]string{}
	for _, h := range in.Cfg {
		configs[HookName(h.Id)] = HookConfigJSON(h)
		s.hookV0[h.Id] = h.V0
		for _, b := range h.Kube {
			if h.V0 {
				s.bindingQ[b.Name] = 0
			} else {
				s.bindingQ[b.Name] = b.Queue
			}
		}
		for _, b := range h.Sched {
			if h.V0 {
				s.bindingQ[b.Name] = 0
			} else {
				s.bindingQ[b.Name] = b.Queue
			}
		}
		rel := HookName(h.Id)
		if h.Path != "" {
			rel = h.Path
			configs[filepath.Base(rel)] = HookConfigJSON(h)
			os.MkdirAll(filepath.Dir(filepath.Join(hooksDir, rel)), 0o755)
		}
		if err := linkStub(filepath.Join(hooksDir, rel)); err != nil {
			return nil, err
		}
	}
	s.Srv, err = NewServer(dir, configs)
	if err != nil {
		return nil, err
	}
	os.Setenv("VERIF_SOCK", s.Srv.Path)
	fc := fake.NewFakeCluster(fake.ClusterVersionV119)
	s.Cluster = fc
	kubeeventsmanager.DefaultFactoryStore.Reset()
	ctx, cancel := context.WithCancel(context.Background())
	s.cancel = cancel
	op, err := shell_operator.VerifAssemble(ctx, fc.Client, hooksDir, tmpDir, log.NewNop())
	s.Op = op
	if err != nil {
		return s, err
	}
	for _, h := range in.Cfg {
		hk := op.VerifHookManager().GetHook(HookFile(h))
		if hk == nil {
			continue
		}
		for _, kc := range hk.GetConfig().OnKubernetesEvents {
			s.monNum[kc.Monitor.Metadata.MonitorId] = bindingNum(kc.BindingName)
		}
	}
	return s, nil
}

func (s *Sim) Close() {
	if s.metricsStop != nil {
		close(s.metricsStop)
		s.metricsStop = nil
	}
	for _, c := range s.open {
		c.Reply(Reply{Exit: 1})
	}
	if s.Op != nil && s.booted && !s.stopped {
		s.Op.Shutdown()
	}
	// drain late executions so that hook processes do not linger
	deadline := time.After(50 * time.Millisecond)
drain:
	for {
		select {
		case c := <-s.Srv.Execs:
			c.Reply(Reply{Exit: 1})
		case <-deadline:
			break drain
		}
	}
	if s.cancel != nil {
		s.cancel()
	}
	s.Srv.Close()
	os.RemoveAll(s.Dir)
}

func (s *Sim) queueNames() []string {
	var names []string
	s.Op.TaskQueues.DoWithLock(func(tqs *queue.TaskQueueSet) {
		for n := range tqs.Queues {
			names = append(names, n)
		}
	})
	sort.Slice(names, func(i, j int) bool { return queueNum(names[i]) < queueNum(names[j]) })
	return names
}

func (s *Sim) taskObs(t task.Task) TaskObs {
	o := TaskObs{Type: string(t.GetType()), Queue: queueNum(t.GetQueueName()), Fail: t.GetFailureCount()}
	hm := task_metadata.HookMetadataAccessor(t)
	o.Hook = hookIdOf(hm.HookName)
	switch string(hm.BindingType) {
	case "onStartup":
		o.BType = "BOnStartup"
	case "kubernetes":
		o.BType = "BKube"
	case "schedule":
		o.BType = "BSchedule"
	default:
		o.BType = "B?" + string(hm.BindingType)
	}
	if t.GetType() == task_metadata.EnableKubernetesBindings {
		o.BType = "BKube"
	}
	if t.GetType() == task_metadata.EnableScheduleBindings {
		o.BType = "BSchedule"
	}
	o.Allow = hm.AllowFailure
	o.Group = groupNum(hm.Group)
	o.ExecSync = hm.ExecuteOnSynchronization
	for _, m := range hm.MonitorIDs {
		o.Mids = append(o.Mids, s.monNum[m])
	}
	for _, bc := range hm.BindingContext {
		c := CtxObs{Binding: bindingNum(bc.Binding), Group: groupNum(bc.Metadata.Group)}
		switch {
		case string(bc.Metadata.BindingType) == "onStartup":
			c.Kind = "Startup"
		case string(bc.Metadata.BindingType) == "schedule":
			c.Kind = "Schedule"
		case bc.Type == kemtypes.TypeSynchronization:
			c.Kind = "Sync"
		case bc.Type == kemtypes.TypeEvent:
			c.Kind = "Event"
			if len(bc.Objects) > 0 && bc.Objects[0].Object != nil {
				c.Obj = parseNum("o", bc.Objects[0].Object.GetName())
			}
		default:
			c.Kind = "?"
		}
		o.Ctxs = append(o.Ctxs, c)
	}
	return o
}

func (s *Sim) snapshotQueue(name string) (items []task.Task, status string) {
	q := s.Op.TaskQueues.GetByName(name)
	if q == nil {
		return nil, ""
	}
	q.Iterate(func(t task.Task) { items = append(items, t) })
	return items, q.GetStatus()
}

// settle waits until every queue is empty, or has an open execution, or its worker has
// stopped (after Shutdown); new executions are collected on the way.
func (s *Sim) settle(step *StepObs) {
	deadline := time.Now().Add(4 * time.Second)
	for {
		// collect started executions
	collect:
		for {
			select {
			case c := <-s.Srv.Execs:
				s.place(c, step)
			default:
				break collect
			}
		}
		if !s.booted {
			return
		}
		quiet := true
		for _, n := range s.queueNames() {
			qn := queueNum(n)
			items, status := s.snapshotQueue(n)
			if _, isOpen := s.open[qn]; isOpen {
				delete(s.elapsing, qn)
				if q := s.Op.TaskQueues.GetByName(n); q != nil && q.WaitLoopCheckInterval != fastInterval {
					q.WaitLoopCheckInterval = fastInterval // the worker is inside the handler
				}
				continue
			}
			if s.elapsing[qn] && !s.stopped {
				if q := s.Op.TaskQueues.GetByName(n); q != nil {
					q.CancelTaskDelay()
				}
			}
			s.boMu.Lock()
			_, isDelayed := s.delayed[qn]
			s.boMu.Unlock()
			if isDelayed && !s.stopped {
				continue
			}
			if s.stopped {
				if status != "stop" {
					quiet = false
				}
				continue
			}
			if len(items) != 0 {
				quiet = false
			}
		}
		if quiet {
			// a short grace period: nothing else may start
			select {
			case c := <-s.Srv.Execs:
				s.place(c, step)
				continue
			case <-time.After(300 * time.Microsecond):
			}
			return
		}
		if time.Now().After(deadline) {
			step.Note = "not quiescent after 4s"
			return
		}
		select {
		case c := <-s.Srv.Execs:
			s.place(c, step)
		case <-time.After(200 * time.Microsecond):
		}
	}
}

// place registers a started execution.  The queue is found by looking for the queue whose
// head task belongs to this hook and whose worker is in the handler.
func (s *Sim) place(c *Call, step *StepObs) {
	ctxs := ParseContexts(c.Hello.Context, s.hookV0[c.Hook])
	cand := -1
	// Synchronization / onStartup executions are in main; others in their binding's queue.
	if len(ctxs) > 0 {
		first := ctxs[0]
		switch {
		case first.Kind == "Startup" || first.Kind == "Sync" || first.Binding == 0:
			cand = 0
		default:
			if q, ok := s.bindingQ[first.Binding]; ok {
				cand = q
			}
		}
		// a Group context may stem from a grouped Synchronization (queue main): check the head of main
		if first.Kind == "Group" {
			items, _ := s.snapshotQueue("main")
			if len(items) > 0 {
				h := s.taskObs(items[0])
				if h.Hook == c.Hook && len(h.Ctxs) > 0 && h.Ctxs[0].Kind == "Sync" {
					s.boMu.Lock()
					_, mainDelayed := s.delayed[0]
					s.boMu.Unlock()
					// a main queue waiting in a back-off delay cannot have started this execution
					if _, busy := s.open[0]; !busy && !(mainDelayed && !s.elapsing[0]) {
						cand = 0
					}
				}
			}
		}
	}
	e := ExecObs{Queue: cand, Hook: c.Hook, Ctxs: ctxs}
	step.Started = append(step.Started, e)
	if _, busy := s.open[cand]; busy {
		step.Bad = fmt.Sprintf("second execution started in queue %d while one is open", cand)
		// keep it anyway under a synthetic key so that it can be closed at the end
		s.open[-1000-c.Seq] = c
		return
	}
	s.open[cand] = c
}

func (s *Sim) observe(step *StepObs) {
	if !s.booted {
		return
	}
	for _, n := range s.queueNames() {
		qn := queueNum(n)
		items, status := s.snapshotQueue(n)
		qo := QObs{Name: qn}
		for _, t := range items {
			qo.Items = append(qo.Items, s.taskObs(t))
		}
		_, qo.Running = s.open[qn]
		qo.WorkerStopped = status == "stop"
		s.boMu.Lock()
		_, qo.Delayed = s.delayed[qn]
		s.boMu.Unlock()
		qo.Delayed = qo.Delayed && !s.stopped
		step.Queues = append(step.Queues, qo)
	}
	var keys []int
	for q := range s.open {
		keys = append(keys, q)
	}
	sort.Ints(keys)
	for _, q := range keys {
		c := s.open[q]
		step.Execs = append(step.Execs, ExecObs{Queue: q, Hook: c.Hook, Ctxs: ParseContexts(c.Hello.Context, s.hookV0[c.Hook])})
	}
	// unlocked monitors
	for _, h := range s.In.Cfg {
		hk := s.Op.VerifHookManager().GetHook(HookFile(h))
		if hk == nil {
			continue
		}
		for _, kc := range hk.GetConfig().OnKubernetesEvents {
			m := s.Op.KubeEventsManager.GetMonitor(kc.Monitor.Metadata.MonitorId)
			if m == nil {
				continue
			}
			en, flags := kubeeventsmanager.VerifEventsEnabled(m)
			all := en
			for _, f := range flags {
				all = all && f
			}
			if all {
				step.Unlocked = append(step.Unlocked, bindingNum(kc.BindingName))
			}
		}
	}
	sort.Ints(step.Unlocked)
}

func (s *Sim) monitorUnlocked(id string) bool {
	m := s.Op.KubeEventsManager.GetMonitor(id)
	if m == nil {
		return false
	}
	en, flags := kubeeventsmanager.VerifEventsEnabled(m)
	for _, f := range flags {
		en = en && f
	}
	return en
}

func (s *Sim) sentinelTick() {
	ch := s.Op.ScheduleManager.Ch()
	ch <- "VERIF_SENTINEL"
	ch <- "VERIF_SENTINEL"
	ch <- "VERIF_SENTINEL"
}

func (s *Sim) sentinelKube() {
	ch := s.Op.KubeEventsManager.Ch()
	ev := kemtypes.KubeEvent{MonitorId: "VERIF_SENTINEL", Type: kemtypes.TypeEvent}
	ch <- ev
	ch <- ev
	ch <- ev
}

func (s *Sim) monitorIdOf(binding int) string {
	for id, n := range s.monNum {
		if n == binding {
			return id
		}
	}
	return ""
}

// OpenCall returns the execution open in queue q, if any.
func (s *Sim) OpenCall(q int) *Call { return s.open[q] }

// TmpDir is the operator's temp directory for hook files.
func (s *Sim) TmpDir() string { return filepath.Join(s.Dir, "tmp") }

// HooksDir is the hooks directory.
func (s *Sim) HooksDir() string { return filepath.Join(s.Dir, "hooks") }

// Do applies one action and returns the observation at the next quiescent point.
func (s *Sim) Do(a Action) StepObs {
	var step StepObs
	switch a.Kind {
	case "Boot":
		if !s.booted {
			s.Op.VerifStartReal()
			s.booted = true
			// the operator's metrics loop (runMetrics) walks the queue set periodically while the
			// events handler adds tasks: do the same, much more often
			s.metricsStop = make(chan struct{})
			go func(stop chan struct{}) {
				for {
					select {
					case <-stop:
						return
					default:
					}
					s.Op.TaskQueues.Iterate(func(q *queue.TaskQueue) { _ = q.Length() })
					time.Sleep(100 * time.Microsecond)
				}
			}(s.metricsStop)
			s.Op.TaskQueues.DoWithLock(func(tqs *queue.TaskQueueSet) {
				for _, q := range tqs.Queues {
					qq, qn := q, queueNum(q.Name)
					q.ExponentialBackoffFn = func(failureCount int) time.Duration {
						// runs in the worker of queue qn, between the handler's return and waitForTask
						s.boMu.Lock()
						defer s.boMu.Unlock()
						s.Backoffs = append(s.Backoffs, failureCount)
						switch s.waitNext[qn] {
						case 1:
							delete(s.waitNext, qn)
							s.delayed[qn] = &delayInfo{since: time.Now()}
							return time.Hour
						case 2:
							delete(s.waitNext, qn)
							s.delayed[qn] = &delayInfo{short: true, since: time.Now()}
							qq.WaitLoopCheckInterval = shortInterval
							return shortDelay
						case 3:
							delete(s.waitNext, qn)
							s.delayed[qn] = &delayInfo{slow: true, since: time.Now()}
							qq.WaitLoopCheckInterval = shortInterval
							return time.Hour
						}
						return 0
					}
				}
			})
		}
	case "Tick":
		if s.booted {
			s.Op.ScheduleManager.Ch() <- CronName(a.C)
			s.sentinelTick()
		}
	case "KubeEv":
		if s.booted {
			id := s.monitorIdOf(a.Mon)
			// the action is "an UNLOCKED monitor emits an event": a locked monitor keeps its events
			// to itself (explicit / shrunk action lists may name one)
			if id != "" && !s.monitorUnlocked(id) {
				id = ""
			}
			if id != "" {
				obj := &unstructured.Unstructured{Object: map[string]interface{}{
					"apiVersion": "v1", "kind": "ConfigMap",
					"metadata": map[string]interface{}{"name": "o" + strconv.Itoa(a.Obj), "namespace": "ns" + strconv.Itoa(a.Mon)},
				}}
				ev := kemtypes.KubeEvent{MonitorId: id, Type: kemtypes.TypeEvent,
					WatchEvents: []kemtypes.WatchEventType{kemtypes.WatchEventAdded},
					Objects:     []kemtypes.ObjectAndFilterResult{{Object: obj}}}
				ev.Objects[0].Metadata.ResourceId = "ns" + strconv.Itoa(a.Mon) + "/ConfigMap/o" + strconv.Itoa(a.Obj)
				s.Op.KubeEventsManager.Ch() <- ev
				s.sentinelKube()
			}
		}
	case "Idle":
		if s.booted {
			time.Sleep(time.Duration(a.Ms) * time.Millisecond)
		}
	case "Elapse":
		s.boMu.Lock()
		d, ok := s.delayed[a.Q]
		delete(s.delayed, a.Q)
		s.boMu.Unlock()
		if ok && !s.stopped && !d.short {
			s.elapsing[a.Q] = true // settle cancels the delay until the worker has picked its task
		}
		// a short delay elapses by itself: settle waits for the execution
	case "Finish", "FinishWait":
		if a.Kind == "FinishWait" {
			a.Ok = false
			if _, isOpen := s.open[a.Q]; isOpen {
				s.boMu.Lock()
				s.waitNext[a.Q] = 1
				if a.Short {
					s.waitNext[a.Q] = 2
				} else if a.Slow {
					s.waitNext[a.Q] = 3
				}
				s.boMu.Unlock()
			}
		}
		if c, ok := s.open[a.Q]; ok {
			r := Reply{}
			if !a.Ok && !a.Exit0 {
				r.Exit = 1
			}
			if a.Exit != 0 {
				r.Exit = a.Exit
			}
			if a.Files != nil {
				r.Files = a.Files
			}
			if s.ExitFiles != nil {
				r.Files = s.ExitFiles(a.Q, a.Ok)
			}
			delete(s.open, a.Q)
			c.Reply(r)
		}
	case "Stop":
		if !s.stopped { // also before Boot: Shutdown() racing Start()
			var slowD *delayInfo
			if a.Cancel && s.booted {
				s.boMu.Lock()
				if d := s.delayed[a.Q]; d != nil && d.slow {
					slowD = d
				}
				s.boMu.Unlock()
			}
			var period time.Duration
			if slowD != nil {
				// the worker looks at since + k*300 ms (a little later): go to 60..120 ms after a look
				for {
					ph := time.Since(slowD.since) % shortInterval
					if ph >= 60*time.Millisecond && ph <= 120*time.Millisecond {
						break
					}
					time.Sleep(5 * time.Millisecond)
				}
				period = time.Since(slowD.since) / shortInterval
				if q := s.Op.TaskQueues.GetByName(QueueName(a.Q)); q != nil {
					q.CancelTaskDelay()
				}
			}
			s.Op.Shutdown()
			if slowD != nil {
				el := time.Since(slowD.since)
				if el/shortInterval != period || el%shortInterval > 250*time.Millisecond {
					s.Timing = "Shutdown returned too late to be sure it landed before the worker's next look at its cancelled delay"
				}
			}
			s.stopped = true
			s.boMu.Lock()
			for _, d := range s.delayed {
				if d.short && time.Since(d.since) > shortDelay-10*time.Millisecond {
					s.Timing = "Shutdown returned too late to be sure it landed inside a short back-off delay"
				}
			}
			s.boMu.Unlock()
		}
	}
	if a.Kind != "Stop" && a.Kind != "Elapse" {
		s.boMu.Lock()
		for _, d := range s.delayed {
			if d.short && !s.stopped {
				s.Timing = "an action other than Stop / Elapse while a short back-off delay is pending"
			}
		}
		s.boMu.Unlock()
	}
	s.settle(&step)
	if a.Kind == "FinishWait" {
		s.boMu.Lock()
		delete(s.waitNext, a.Q) // not consumed: the failure was allowed, or the queue was stopped
		s.boMu.Unlock()
	}
	s.observe(&step)
	return step
}

// Run executes a whole input.
func Run(in Input) Observation {
	var out Observation
	s, err := NewSim(in)
	if s != nil {
		defer s.Close()
	}
	if err != nil {
		out.InitErr = err.Error()
		return out
	}
	for _, a := range in.Acts {
		out.Steps = append(out.Steps, s.Do(a))
	}
	return out
}

// HookMetricPresent tells whether the hooks' metric storage exposes a metric family whose
// name ends with the given name.
func HookMetricPresent(s *Sim, name string) bool {
	ms, ok := s.Op.HookMetricStorage.(*metricstorage.MetricStorage)
	if !ok || ms == nil {
		return false
	}
	fams, err := ms.Gatherer.Gather()
	if err != nil {
		return false
	}
	for _, f := range fams {
		if strings.HasSuffix(f.GetName(), name) {
			return true
		}
	}
	return false
}
