package opsim

import (
	"fmt"
	"strings"

	"verifharness/internal/core"
)

// Profile steers configuration and action generation for one property's driver.
type Profile struct {
	Name       string
	MaxHooks   int
	Steps      int
	PFail      int // % of Finish actions that fail
	PStop      int // % chance per step (once booted) to request Shutdown, at most once
	PHold      int // % chance to skip finishing (keeps executions open longer)
	PWait      int // % of failing Finish actions after which the queue's back-off delay is positive (FinishWait)
	PShort     int // % of those whose delay is a short one, followed at once by Stop or its natural end
	ManyOrders bool
	V0         bool
	AfterStop  int // extra steps generated after Stop
	PFiles     int // % of Finish actions whose hook writes output files (see OutputFiles): a failing one then exits 0 and fails by what it wrote
}

// The ways a hook run fails although its process exits 0 (C04: "its patch/metric/response output cannot be
// parsed or applied"), and what a succeeding hook may write.
const (
	validPatchDoc   = `{"operation":"CreateOrUpdate","object":{"apiVersion":"v1","kind":"ConfigMap","metadata":{"name":"out-%d","namespace":"default"},"data":{"k":"v"}}}`
	validMetricLine = `{"name":"opsim_out","set":%d,"labels":{"l":"v"}}`
)

var FailWays = []string{"metrics-unparsable", "patch-broken-from-the-first-byte", "patch-json-truncated-tail", "patch-yaml-broken-tail",
	"patch-invalid-document-among-valid", "patch-cannot-be-applied", "metrics-invalid-operation", "metrics-grouped-operation-without-value", "admission-response-unparsable", "conversion-response-unparsable", "admission-response-two-documents"}

// OutputFiles: the files of a Finish action; way < 0: a succeeding hook's valid outputs.
func OutputFiles(way, n int) map[string]string {
	valid := fmt.Sprintf(validPatchDoc, n)
	switch way {
	case 0:
		return map[string]string{"METRICS_PATH": `{"name":"opsim_out","set":` + "\n"}
	case 1:
		return map[string]string{"KUBERNETES_PATCH_PATH": "}{ :\n\t- [ not a document"}
	case 2:
		return map[string]string{"KUBERNETES_PATCH_PATH": valid + "\n" + `{"operation":"CreateOrUpdate","object":{"apiVersion":"v1","kind":"ConfigMap","metadata":{"name":"second-` + fmt.Sprint(n)}
	case 3:
		return map[string]string{"KUBERNETES_PATCH_PATH": "operation: CreateOrUpdate\nobject:\n  apiVersion: v1\n  kind: ConfigMap\n  metadata:\n    name: y-" + fmt.Sprint(n) + "\n    namespace: default\n---\noperation: CreateOrUpdate\nobject: [ {\n"}
	case 4:
		return map[string]string{"KUBERNETES_PATCH_PATH": valid + "\n" + `{"operation":"NoSuchOperation","name":"x"}` + "\n"}
	case 5:
		return map[string]string{"KUBERNETES_PATCH_PATH": valid + "\n" + `{"operation":"MergePatch","kind":"ConfigMap","namespace":"default","name":"absent-object","mergePatch":{"data":{"a":"b"}}}` + "\n"}
	case 6:
		return map[string]string{"METRICS_PATH": fmt.Sprintf(validMetricLine, n) + "\n" + `{"name":"opsim_out","group":"g","action":"nosuchaction","value":1}` + "\n"}
	case 8:
		return map[string]string{"ADMISSION_RESPONSE_PATH": `{"allowed": tru`, "METRICS_PATH": fmt.Sprintf(validMetricLine, n) + "\n"}
	case 9:
		return map[string]string{"CONVERSION_RESPONSE_PATH": `{"convertedObjects": [ {`, "KUBERNETES_PATCH_PATH": valid + "\n"}
	case 10:
		return map[string]string{"VALIDATING_RESPONSE_PATH": `{"allowed":true}` + "\n" + `{"allowed":false,"message":"denied"}` + "\n"}
	case 7:
		return map[string]string{"METRICS_PATH": fmt.Sprintf(validMetricLine, n) + "\n" + `{"name":"opsim_grouped","group":"g","action":"set","labels":{"l":"v"}}` + "\n"}
	}
	return map[string]string{"KUBERNETES_PATCH_PATH": valid + "\n", "METRICS_PATH": fmt.Sprintf(validMetricLine, n) + "\n"}
}

// Scenario is the driver input: a configuration and either explicit actions or a seed
// from which actions are chosen on the fly (looking only at what is observable).
type Scenario struct {
	Cfg     []Hook   `json:"cfg"`
	Acts    []Action `json:"acts,omitempty"`
	Seed    int64    `json:"seed,omitempty"`
	Steps   int      `json:"steps,omitempty"`
	Profile string   `json:"profile,omitempty"`
}

// Trace is what a scenario run yields.
type Trace struct {
	Acts    []Action  `json:"acts"`
	Steps   []StepObs `json:"steps"`
	InitErr string    `json:"init_err,omitempty"`
	Backoff []int     `json:"backoff,omitempty"`
}

var Profiles = map[string]Profile{}

func RegisterProfile(p Profile) { Profiles[p.Name] = p }

func GenConfig(r *core.Rng, p Profile) []Hook {
	n := 1 + r.Intn(p.MaxHooks)
	var cfg []Hook
	binding := 0
	for i := 1; i <= n; i++ {
		h := Hook{Id: i}
		if p.V0 && r.Chance(15) {
			h.V0 = true
		}
		if r.Chance(55) {
			o := r.Intn(3)
			if p.ManyOrders {
				o = r.Intn(2)
			}
			if r.Chance(10) {
				o = r.Intn(40) - 5
			}
			h.Startup = &o
		}
		nk := r.Intn(4)
		if r.Chance(30) {
			nk = 0
		}
		for k := 0; k < nk; k++ {
			binding++
			b := KB{Name: binding, ExecSync: !r.Chance(20), Allow: r.Chance(25)}
			if r.Chance(50) {
				b.Queue = r.Intn(4)
			}
			if r.Chance(45) {
				b.Group = 1 + r.Intn(2)
			}
			if h.V0 {
				b.Queue, b.Group, b.ExecSync = 0, 0, true
			}
			h.Kube = append(h.Kube, b)
		}
		crons := []int{1, 2, 3}
		ns := r.Intn(3)
		if r.Chance(30) {
			ns = 0
		}
		for k := 0; k < ns && k < len(crons); k++ {
			binding++
			b := SB{Name: binding, Cron: crons[k], Allow: r.Chance(25)}
			if r.Chance(60) {
				b.Queue = r.Intn(4)
			}
			if r.Chance(40) {
				b.Group = 1 + r.Intn(2)
			}
			if h.V0 {
				b.Queue, b.Group = 0, 0
			}
			h.Sched = append(h.Sched, b)
		}
		if h.Startup == nil && len(h.Kube) == 0 && len(h.Sched) == 0 {
			o := r.Intn(3)
			h.Startup = &o // a hook needs at least one binding
		}
		cfg = append(cfg, h)
	}
	return cfg
}

type genState struct {
	booted  bool
	stopped bool
	after   int
	obj     int
	forced  *Action // the action that must follow a short back-off delay
	slow    map[int]bool // queues last put into a Slow back-off delay
	outN    int          // numbers the output files written
}

// finishAction: the end of the execution open in queue q
func finishAction(r *core.Rng, p Profile, g *genState, q int) Action {
	ok := !r.Chance(p.PFail)
	// how a failing hook process ends: mostly `exit 1`, also other statuses and death by a signal
	// (no exit status at all: SIGKILL as the OOM killer sends it, SIGTERM); every one is a failure
	exit := 0
	if !ok && r.Chance(40) {
		exit = []int{2, 137, 255, -9, -9, -15}[r.Intn(6)]
	}
	var files map[string]string
	exit0 := false
	if p.PFiles > 0 && r.Chance(p.PFiles) {
		g.outN++
		if ok {
			files = OutputFiles(-1, g.outN)
		} else {
			files, exit, exit0 = OutputFiles(r.Intn(len(FailWays)), g.outN), 0, true
		}
	}
	if !ok && p.PWait > 0 && r.Chance(p.PWait) {
		a := Action{Kind: "FinishWait", Q: q, Exit: exit, Files: files, Exit0: exit0}
		if p.PShort > 0 && r.Chance(p.PShort) && !g.stopped {
			a.Short = true
			if p.PStop > 0 && r.Chance(60) {
				g.forced = &Action{Kind: "Stop"}
			} else {
				g.forced = &Action{Kind: "Elapse", Q: q}
			}
		} else if p.PShort > 0 && p.PStop > 0 && r.Chance(30) && !g.stopped {
			a.Slow = true
			if g.slow == nil {
				g.slow = map[int]bool{}
			}
			g.slow[q] = true
		} else {
			delete(g.slow, q)
		}
		return a
	}
	return Action{Kind: "Finish", Q: q, Ok: ok, Exit: exit, Files: files, Exit0: exit0}
}

// nextAction chooses an action that makes sense in the observable state.
func nextAction(r *core.Rng, p Profile, cfg []Hook, last *StepObs, g *genState) (Action, bool) {
	if !g.booted {
		if !g.stopped && p.PStop > 0 && r.Chance(6) {
			g.stopped = true // Shutdown() requested before Start() has created the queues
			return Action{Kind: "Stop"}, true
		}
		g.booted = true
		return Action{Kind: "Boot"}, true
	}
	if g.forced != nil {
		a := *g.forced
		g.forced = nil
		if a.Kind == "Stop" {
			g.stopped = true
		}
		return a, true
	}
	if g.stopped {
		g.after++
		if g.after > p.AfterStop {
			return Action{}, false
		}
	}
	// queues waiting in a back-off delay: let some delays end
	if last != nil {
		var delayed []int
		for _, q := range last.Queues {
			if q.Delayed {
				delayed = append(delayed, q.Name)
			}
		}
		// Shutdown together with a cancellation of a delay its worker has not seen yet
		if !g.stopped && p.PStop > 0 {
			for _, q := range delayed {
				if g.slow[q] && r.Chance(35) {
					g.stopped = true
					return Action{Kind: "Stop", Cancel: true, Q: q}, true
				}
			}
		}
		if len(delayed) > 0 && r.Chance(30) {
			q := delayed[r.Intn(len(delayed))]
			delete(g.slow, q)
			return Action{Kind: "Elapse", Q: q}, true
		}
	}
	if !g.stopped && p.PStop > 0 && r.Chance(p.PStop) {
		g.stopped = true
		return Action{Kind: "Stop"}, true
	}
	var open []int
	if last != nil {
		for _, e := range last.Execs {
			if e.Queue >= 0 {
				open = append(open, e.Queue)
			}
		}
	}
	mainBusy := false
	if last != nil {
		for _, q := range last.Queues {
			if q.Name == 0 && len(q.Items) > 0 {
				mainBusy = true
			}
		}
	}
	// during start-up mostly finish executions
	wFinish := 50
	if mainBusy {
		wFinish = 80
	}
	if len(open) > 0 && r.Chance(wFinish) && !r.Chance(p.PHold) {
		q := open[r.Intn(len(open))]
		return finishAction(r, p, g, q), true
	}
	// events: ticks any time; kube events only for unlocked monitors
	if last != nil && len(last.Unlocked) > 0 && r.Chance(50) {
		g.obj++
		return Action{Kind: "KubeEv", Mon: last.Unlocked[r.Intn(len(last.Unlocked))], Obj: g.obj}, true
	}
	if r.Chance(70) {
		return Action{Kind: "Tick", C: 1 + r.Intn(3)}, true
	}
	if len(open) > 0 {
		q := open[r.Intn(len(open))]
		return finishAction(r, p, g, q), true
	}
	return Action{Kind: "Tick", C: 1 + r.Intn(3)}, true
}

// RunScenario executes a scenario on the real operator.
func RunScenario(sc Scenario) Trace {
	var tr Trace
	for attempt := 0; attempt < 3; attempt++ {
		var timing string
		tr, timing = runScenarioOnce(sc)
		if timing == "" {
			return tr
		}
		if attempt == 2 && len(tr.Steps) > 0 {
			tr.Steps[len(tr.Steps)-1].Note = "timing: " + timing
		}
	}
	return tr
}

func runScenarioOnce(sc Scenario) (Trace, string) {
	var tr Trace
	s, err := NewSim(Input{Cfg: sc.Cfg})
	if s != nil {
		defer s.Close()
	}
	if err != nil {
		tr.InitErr = err.Error()
		return tr, ""
	}
	if len(sc.Acts) > 0 {
		for i, a := range sc.Acts {
			if a.Kind == "FinishWait" && a.Short {
				// a short delay must be followed at once by Stop or its own end
				okNext := i+1 < len(sc.Acts) && (sc.Acts[i+1].Kind == "Stop" || (sc.Acts[i+1].Kind == "Elapse" && sc.Acts[i+1].Q == a.Q))
				if !okNext {
					a.Short = false
				}
			}
			tr.Acts = append(tr.Acts, a)
			tr.Steps = append(tr.Steps, s.Do(a))
		}
	} else {
		p := Profiles[sc.Profile]
		r := core.NewRng(sc.Seed)
		g := &genState{}
		var last *StepObs
		for i := 0; i < sc.Steps+p.AfterStop; i++ {
			a, ok := nextAction(r, p, sc.Cfg, last, g)
			if !ok {
				break
			}
			st := s.Do(a)
			tr.Acts = append(tr.Acts, a)
			tr.Steps = append(tr.Steps, st)
			last = &tr.Steps[len(tr.Steps)-1]
			if st.Note != "" || st.Bad != "" {
				break
			}
		}
	}
	s.boMu.Lock()
	tr.Backoff = append(tr.Backoff, s.Backoffs...)
	s.boMu.Unlock()
	return tr, s.Timing
}

// ---- Coq rendering ----

func coqBool(b bool) string { return core.CoqBool(b) }

func coqKindOfCtx(k string) string {
	switch k {
	case "Startup":
		return "KStartup"
	case "Sync":
		return "KSync"
	case "Event":
		return "KEvent"
	case "Schedule":
		return "KSchedule"
	}
	return "KStartup"
}

func qnum(n int) int {
	if n < 0 {
		return 1000 // "" (no queue name)
	}
	return n
}

func coqTask(t TaskObs) string {
	ty := map[string]string{"HookRun": "HookRun", "EnableKubernetesBindings": "EnableKube", "EnableScheduleBindings": "EnableSched"}[t.Type]
	if ty == "" {
		ty = "HookRun"
	}
	bt := t.BType
	if !strings.HasPrefix(bt, "B") || strings.HasPrefix(bt, "B?") {
		bt = "BOnStartup"
	}
	ctxs := core.CoqList(t.Ctxs, func(c CtxObs) string {
		return fmt.Sprintf("mkCtx %d %s %d %d", c.Binding, coqKindOfCtx(c.Kind), c.Group, c.Obj)
	})
	return fmt.Sprintf("mkTask %s %d %s %s %s %d %s %s %d %d", ty, t.Hook, bt, ctxs, coqBool(t.Allow), t.Group,
		core.CoqList(t.Mids, core.CoqN), coqBool(t.ExecSync), qnum(t.Queue), t.Fail)
}

func hookKindCode(k string) int {
	switch k {
	case "Startup":
		return 0
	case "Sync":
		return 1
	case "Event":
		return 2
	case "Schedule":
		return 3
	case "Group":
		return 4
	case "V0":
		return 5
	}
	return 99
}

func coqExec(e ExecObs) string {
	q := e.Queue
	if q < 0 {
		q = 2000
	}
	return fmt.Sprintf("mkEO %d %d %s", q, e.Hook, core.CoqList(e.Ctxs, func(c CtxObs) string {
		b := c.Binding
		if b < 0 {
			b = 3000
		}
		o := c.Obj
		if o < 0 {
			o = 3000
		}
		return fmt.Sprintf("(%d,%d,%d,%d)", b, hookKindCode(c.Kind), c.Group, o)
	}))
}

func coqStep(s StepObs) string {
	qs := core.CoqList(s.Queues, func(q QObs) string {
		return fmt.Sprintf("mkQO %d %s %s %s %s", q.Name, core.CoqList(q.Items, coqTask), coqBool(q.Running), coqBool(q.WorkerStopped), coqBool(q.Delayed))
	})
	var execs []ExecObs
	for _, e := range s.Execs {
		execs = append(execs, e)
	}
	return fmt.Sprintf("mkSO %s %s %s %s %s", qs, core.CoqList(execs, coqExec), core.CoqList(s.Unlocked, core.CoqN),
		core.CoqList(s.Started, coqExec), coqBool(s.Bad != "" || s.Note != ""))
}

func coqAction(a Action) string {
	switch a.Kind {
	case "Boot":
		return "Boot"
	case "Tick":
		return fmt.Sprintf("Tick %d", a.C)
	case "KubeEv":
		return fmt.Sprintf("KubeEv %d %d", a.Mon, a.Obj)
	case "Finish":
		return fmt.Sprintf("Finish %d %s", a.Q, coqBool(a.Ok))
	case "Stop":
		return "Stop"
	case "FinishWait":
		return fmt.Sprintf("FinishWait %d", a.Q)
	case "Elapse":
		return fmt.Sprintf("Elapse %d", a.Q)
	case "Idle":
		return fmt.Sprintf("Tick %d", IdleCron)
	}
	return "Stop"
}

func coqHook(h Hook) string {
	st := "None"
	if h.Startup != nil {
		st = fmt.Sprintf("(Some (%d)%%Z)", *h.Startup)
	}
	ks := core.CoqList(h.Kube, func(b KB) string {
		q, g, es := b.Queue, b.Group, b.ExecSync
		if h.V0 {
			q, g = 0, 0
		}
		return fmt.Sprintf("mkKb %d %d %d %s %s %d", b.Name, q, g, coqBool(b.Allow), coqBool(es), b.Name)
	})
	ss := core.CoqList(h.Sched, func(b SB) string {
		q, g := b.Queue, b.Group
		if h.V0 {
			q, g = 0, 0
		}
		return fmt.Sprintf("mkSb %d %d %d %s %d", b.Name, q, g, coqBool(b.Allow), b.Cron)
	})
	return fmt.Sprintf("mkHook %d %s %s %s %s", h.Id, coqBool(h.V0), st, ks, ss)
}

// CoqCase prints (config, actions, observations).
func CoqCase(cfg []Hook, tr Trace, crash string) string {
	steps := tr.Steps
	acts := tr.Acts
	extra := ""
	if crash != "" || tr.InitErr != "" {
		// one more (impossible) observation so that model and implementation differ and P fails
		extra = "crash"
	}
	obs := core.CoqList(steps, coqStep)
	if extra != "" {
		obs = "(" + obs + " ++ [mkSO [] [] [] [] true])"
	}
	return fmt.Sprintf("(%s,\n %s,\n %s)", core.CoqList(cfg, coqHook), core.CoqList(acts, coqAction), obs)
}

// Render builds the Case for a property driver.
func Render(sc Scenario, tr *Trace, crash string) core.Case {
	var t Trace
	if tr != nil {
		t = *tr
	}
	c := core.Case{}
	c.Coq = CoqCase(sc.Cfg, t, crash)
	c.JSON = map[string]any{"acts": t.Acts, "steps": t.Steps, "init_err": t.InitErr, "crash": crash, "backoff": t.Backoff}
	var kb strings.Builder
	for _, h := range sc.Cfg {
		kb.WriteString(coqHook(h))
	}
	kinds := map[string]int{}
	execs := 0
	for i, a := range t.Acts {
		kb.WriteString(coqAction(a))
		kinds[a.Kind]++
		c.Tags = append(c.Tags, "act:"+a.Kind)
		if a.Kind == "Finish" && !a.Ok {
			c.Tags = append(c.Tags, "finish:fail")
		}
		if a.Kind == "FinishWait" && a.Short {
			c.Tags = append(c.Tags, "backoff:short")
		}
		if a.Kind == "Stop" && i > 0 && i <= len(t.Steps) {
			for _, q := range t.Steps[i-1].Queues {
				if q.Delayed {
					c.Tags = append(c.Tags, "stop-during-backoff")
					break
				}
			}
		}
		if i < len(t.Steps) {
			execs += len(t.Steps[i].Started)
		}
	}
	c.Key = kb.String()
	c.Tags = append(c.Tags, fmt.Sprintf("hooks:%d", len(sc.Cfg)), fmt.Sprintf("steps:%02d", len(t.Acts)/10*10), fmt.Sprintf("execs:%02d", execs/5*5))
	c.Nontrivial = len(t.Acts) >= 4 && execs >= 2 && len(kinds) >= 2
	return c
}

// ExplicitInput turns a finished trace into a scenario with explicit actions (for replay files
// and shrinking: the shrink key is "acts").
func ExplicitInput(sc Scenario, tr *Trace) Scenario {
	out := Scenario{Cfg: sc.Cfg, Profile: sc.Profile}
	if tr != nil {
		out.Acts = tr.Acts
	}
	return out
}
