// locks.go: the TRANSLATOR of the lock model (coq/theories/C17_Locks.v).  From the source of the
// repository's working tree (go/ast, no type information) it derives, for the functions that take
// the locks Shutdown() has to get through - the kube events manager's mgr.m and the queue set's
// tqs.m - the list of operations in program order: lock / unlock operations, operations that
// may never return (LBlock), everything else (LStep).  Calls to functions of the set are inlined,
// deferred calls are moved to the end, bodies of `go` statements are left out (they run in another
// thread).  The term is part of every case of class CHang, where Coq evaluates lock_ok on it.
//
// Classification of calls (trusted table, conservative): a call is LStep only if its name is in
// stepCalls (logging, formatting, builtins, map / sync.Map operations, context cancellation,
// constructors and setters, starting or stopping a queue worker - which only spawns / cancels -
// and the callbacks handed to Iterate / DoWithLock / RangeValue by their callers); channel
// operations, select statements, the calls in blockCalls (API calls, waits) and EVERY call the
// table does not know are LBlock.  Unknown calls are reported in the case's JSON.
package c17

import (
	"fmt"
	"go/ast"
	"go/parser"
	"go/token"
	"os"
	"path/filepath"
	"sort"
	"strings"
)

type LOp struct {
	K string `json:"k"` // Lock RLock Unlock RUnlock Block Step Call
	L int    `json:"l,omitempty"`
	N string `json:"n,omitempty"` // lock path / call name (for reading; Coq gets numbers)
}
type LFunc struct {
	Name string `json:"name"`
	Ops  []LOp  `json:"ops"`
}
type LProg struct {
	Funcs   []LFunc  `json:"funcs"`
	Locks   []string `json:"locks"`
	Unknown []string `json:"unknown_calls,omitempty"`
	Err     string   `json:"err,omitempty"`
}

type lockTarget struct {
	file  string
	recvs []string // receiver type names whose methods are taken ("" = plain functions listed in funcs)
	funcs []string // "Recv.Name": only these (empty = every method of recvs)
}

var lockSet = []lockTarget{
	{"pkg/shell-operator/operator.go", nil, []string{"ShellOperator.Shutdown"}},
	{"pkg/kube_events_manager/kube_events_manager.go", []string{"kubeEventsManager"}, nil},
	{"pkg/kube_events_manager/monitor.go", nil, []string{"monitor.PauseHandleEvents", "varyingInformers.RangeValue"}},
	{"pkg/kube_events_manager/resource_informer.go", nil, []string{"resourceInformer.pauseHandleEvents"}},
	{"pkg/kube_events_manager/namespace_informer.go", nil, []string{"namespaceInformer.pauseHandleEvents"}},
	{"pkg/task/queue/queue_set.go", []string{"TaskQueueSet"}, nil},
	{"pkg/schedule_manager/schedule_manager.go", nil, []string{"scheduleManager.Stop"}},
}

// receiver expressions -> receiver type, for calls whose method name several types of the set have
var recvHints = map[string]string{
	"op.ScheduleManager": "scheduleManager", "op.KubeEventsManager": "kubeEventsManager", "op.TaskQueues": "TaskQueueSet",
	"tqs": "TaskQueueSet", "mgr": "kubeEventsManager", "monitor": "monitor", "m": "monitor",
	"informer": "resourceInformer", "ei": "resourceInformer", "m.NamespaceInformer": "namespaceInformer", "ni": "namespaceInformer",
	"m.VaryingInformers": "varyingInformers", "v": "varyingInformers", "sm": "scheduleManager",
}

var stepCalls = map[string]bool{
	// builtins, formatting, logging
	"append": true, "len": true, "delete": true, "make": true, "new": true, "cap": true, "copy": true, "panic": true,
	"Sprintf": true, "Errorf": true, "String": true, "Err": true, "Error": true,
	"Named": true, "Debug": true, "Info": true, "Warn": true, "Debugf": true, "Infof": true, "Warnf": true, "Int": true, "Any": true, "Bool": true,
	// contexts, tickers, tracing
	"cancel": true, "WithCancel": true, "Background": true, "NewTicker": true, "StartRegion": true, "End": true,
	// sync.Map
	"Load": true, "Store": true, "Delete": true, "Range": true,
	// constructors and setters of this repository that only fill in fields
	"NewTasksQueue": true, "WithName": true, "WithHandler": true, "WithContext": true, "WithMetricStorage": true, "NewMonitor": true,
	// a queue worker: Start spawns a goroutine, Stop cancels its context; a monitor's Stop cancels, too
	"q.Start": true, "tqs.GetByName().Start": true, "ts.Stop": true, "monitor.Stop": true, "checkTick.Stop": true, "timeoutTick.Stop": true,
	// callbacks handed in by callers (Iterate, DoWithLock, RangeValue): assumed not to block - the
	// operator's callers read queue lengths and statuses
	"fn": true, "doFn": true, "f": true,
}

var blockCalls = map[string]bool{
	"CreateInformers": true, "monitor.Start": true, "Wait": true, "Run": true, "HandleEvents": true,
	"WaitForCacheSync": true, "List": true, "Watch": true, "Get": true, "PollUntilContextCancel": true,
}

func recvOf(fd *ast.FuncDecl) string {
	if fd.Recv == nil || len(fd.Recv.List) == 0 {
		return ""
	}
	t := fd.Recv.List[0].Type
	if s, ok := t.(*ast.StarExpr); ok {
		t = s.X
	}
	if id, ok := t.(*ast.Ident); ok {
		return id.Name
	}
	return ""
}

func exprPath(e ast.Expr) string {
	switch x := e.(type) {
	case *ast.Ident:
		return x.Name
	case *ast.SelectorExpr:
		return exprPath(x.X) + "." + x.Sel.Name
	case *ast.CallExpr:
		return exprPath(x.Fun) + "()"
	case *ast.IndexExpr:
		return exprPath(x.X) + "[]"
	case *ast.StarExpr:
		return exprPath(x.X)
	case *ast.ParenExpr:
		return exprPath(x.X)
	}
	return "?"
}

type rawOp struct {
	k      string
	lock   string // lock path
	call   string // full path of the callee
	callee string // resolved "Recv.Name" when it is a function of the set
}

// TranslateLocks reads the lock set from the repository at repo.
func TranslateLocks(repo string) LProg {
	var prog LProg
	decls := map[string]*ast.FuncDecl{}
	var order []string
	byName := map[string][]string{} // method name -> functions of the set
	for _, t := range lockSet {
		fset := token.NewFileSet()
		f, err := parser.ParseFile(fset, filepath.Join(repo, t.file), nil, 0)
		if err != nil {
			prog.Err = fmt.Sprintf("parse %s: %v", t.file, err)
			return prog
		}
		want := map[string]bool{}
		for _, n := range t.funcs {
			want[n] = true
		}
		recvs := map[string]bool{}
		for _, r := range t.recvs {
			recvs[r] = true
		}
		found := map[string]bool{}
		for _, d := range f.Decls {
			fd, ok := d.(*ast.FuncDecl)
			if !ok || fd.Body == nil {
				continue
			}
			name := recvOf(fd) + "." + fd.Name.Name
			if want[name] || recvs[recvOf(fd)] {
				decls[name] = fd
				order = append(order, name)
				byName[fd.Name.Name] = append(byName[fd.Name.Name], name)
				found[name] = true
			}
		}
		for n := range want {
			if !found[n] {
				prog.Err = fmt.Sprintf("%s: function %s not found", t.file, n)
				return prog
			}
		}
	}
	sort.Strings(order)
	resolve := func(path string) string {
		last := path
		recv := ""
		if i := strings.LastIndex(path, "."); i >= 0 {
			last, recv = path[i+1:], path[:i]
		}
		cands := byName[last]
		if len(cands) == 0 {
			return ""
		}
		if h, ok := recvHints[recv]; ok {
			for _, c := range cands {
				if c == h+"."+last {
					return c
				}
			}
			return ""
		}
		if len(cands) == 1 && recv != "" {
			// an unknown receiver expression: only when the method name is unique in the set and
			// not a common word
			if last != "Stop" && last != "Start" && last != "Add" && last != "Remove" {
				return cands[0]
			}
		}
		return ""
	}
	unknown := map[string]bool{}
	raw := map[string][]rawOp{}
	for _, name := range order {
		fd := decls[name]
		var ops, deferred []rawOp
		classify := func(call *ast.CallExpr) rawOp {
			p := exprPath(call.Fun)
			last := p
			if i := strings.LastIndex(p, "."); i >= 0 {
				last = p[i+1:]
			}
			switch last {
			case "Lock", "RLock", "Unlock", "RUnlock":
				return rawOp{k: last, lock: strings.TrimSuffix(p, "."+last)}
			}
			if c := resolve(p); c != "" {
				return rawOp{k: "Call", call: p, callee: c}
			}
			if blockCalls[p] || blockCalls[last] {
				return rawOp{k: "Block", call: p}
			}
			if stepCalls[p] || stepCalls[last] {
				return rawOp{k: "Step", call: p}
			}
			unknown[name+": "+p] = true
			return rawOp{k: "Block", call: p}
		}
		ast.Inspect(fd.Body, func(n ast.Node) bool {
			switch x := n.(type) {
			case *ast.GoStmt:
				ops = append(ops, rawOp{k: "Step", call: "go"})
				return false
			case *ast.DeferStmt:
				deferred = append([]rawOp{classify(x.Call)}, deferred...)
				return false
			case *ast.SendStmt:
				ops = append(ops, rawOp{k: "Block", call: "send " + exprPath(x.Chan)})
			case *ast.UnaryExpr:
				if x.Op == token.ARROW {
					ops = append(ops, rawOp{k: "Block", call: "receive " + exprPath(x.X)})
				}
			case *ast.SelectStmt:
				ops = append(ops, rawOp{k: "Block", call: "select"})
			case *ast.CallExpr:
				ops = append(ops, classify(x))
			case *ast.AssignStmt, *ast.IncDecStmt:
				ops = append(ops, rawOp{k: "Step", call: "assign"})
			}
			return true
		})
		raw[name] = append(ops, deferred...)
	}
	// lock numbering: the two locks of the shutdown path first
	lockId := map[string]int{"mgr.m": 1, "tqs.m": 2}
	prog.Locks = []string{"mgr.m", "tqs.m"}
	var inline func(name string, depth int, stack map[string]bool) []LOp
	inline = func(name string, depth int, stack map[string]bool) []LOp {
		var out []LOp
		for _, o := range raw[name] {
			switch o.k {
			case "Lock", "RLock", "Unlock", "RUnlock":
				id, ok := lockId[o.lock]
				if !ok {
					id = len(lockId) + 1
					lockId[o.lock] = id
					prog.Locks = append(prog.Locks, o.lock)
				}
				out = append(out, LOp{K: o.k, L: id, N: o.lock})
			case "Call":
				if depth >= 5 || stack[o.callee] {
					out = append(out, LOp{K: "Block", N: "recursion " + o.callee})
					continue
				}
				stack[o.callee] = true
				out = append(out, inline(o.callee, depth+1, stack)...)
				delete(stack, o.callee)
			case "Block":
				out = append(out, LOp{K: "Block", N: o.call})
			default:
				out = append(out, LOp{K: "Step"})
			}
		}
		return out
	}
	for _, name := range order {
		prog.Funcs = append(prog.Funcs, LFunc{Name: name, Ops: inline(name, 0, map[string]bool{name: true})})
	}
	for u := range unknown {
		prog.Unknown = append(prog.Unknown, u)
	}
	sort.Strings(prog.Unknown)
	return prog
}

// CoqProgram renders the program as a C17_Locks.program term.
func CoqProgram(p LProg) string {
	var fs []string
	for i, f := range p.Funcs {
		var ops []string
		for _, o := range f.Ops {
			switch o.K {
			case "Lock":
				ops = append(ops, fmt.Sprintf("LLock %d", o.L))
			case "RLock":
				ops = append(ops, fmt.Sprintf("LRLock %d", o.L))
			case "Unlock":
				ops = append(ops, fmt.Sprintf("LUnlock %d", o.L))
			case "RUnlock":
				ops = append(ops, fmt.Sprintf("LRUnlock %d", o.L))
			case "Block":
				ops = append(ops, "LBlock 0")
			default:
				ops = append(ops, "LStep")
			}
		}
		fs = append(fs, fmt.Sprintf("(%d, [%s])", i+1, strings.Join(ops, "; ")))
	}
	return "[" + strings.Join(fs, ";\n   ") + "]"
}

func repoDir() string {
	if r := os.Getenv("VERIF_REPO"); r != "" {
		return r
	}
	return "/repo"
}
