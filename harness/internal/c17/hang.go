// hang.go: case class CHang - Shutdown() requested while the main queue's worker is in the middle of an
// EnableKubernetesBindings handler whose API call does not return (a reactor on the fake cluster
// blocks the LIST of one hook's binding until the case is over), other queues having work.
//
// The real operator is assembled and started as in every operator-level case (opsim).  Hooks
// before the hanging one have schedule bindings in queues of their own: they are enabled by the time
// main reaches the hanging hook.  Then: ticks put tasks into their queues (executions open), Shutdown()
// is called from a goroutine of its own (it may not return), the open executions are ended, further
// ticks arrive.  Observed within a bound: Shutdown() returned; every other queue's worker has
// stopped; no execution started after the stop request.  The case also carries the lock program
// translated from the current source (locks.go): Coq evaluates lock_ok on it.
package c17

import (
	"fmt"
	"time"

	k8sruntime "k8s.io/apimachinery/pkg/runtime"
	dynamicfake "k8s.io/client-go/dynamic/fake"
	clienttesting "k8s.io/client-go/testing"

	"verifharness/internal/core"
	"verifharness/internal/opsim"
)

// HangIn: Workers hooks (ids 1..Workers) have one schedule binding each, in queue i on crontab i;
// the hook with id Workers+1 has a kubernetes binding whose LIST hangs.  Open: how many of the
// workers' queues have an execution open when Shutdown is requested (the others are idle);
// Late: ticks sent after the stop request (one per worker queue, Late rounds).
type HangIn struct {
	Workers int  `json:"workers"`
	Open    int  `json:"open"`
	Late    int  `json:"late"`
	Queued  bool `json:"queued"` // a second task waits behind every open execution
}

type HangObs struct {
	Reached      bool   `json:"reached"`       // the main worker is inside the hanging LIST
	Returned     bool   `json:"returned"`      // Shutdown() returned within the bound
	Stopped      bool   `json:"stopped"`       // every worker queue's status is "stop" within the bound
	StartedAfter int    `json:"started_after"` // executions started after Shutdown was requested
	Note         string `json:"note,omitempty"`
	Prog         LProg  `json:"lock_program"`
}

const hangBound = 1500 * time.Millisecond

func RunHang(in HangIn) HangObs {
	o := HangObs{Prog: TranslateLocks(repoDir())}
	var cfg []opsim.Hook
	for i := 1; i <= in.Workers; i++ {
		cfg = append(cfg, opsim.Hook{Id: i, Sched: []opsim.SB{{Name: i, Queue: i, Cron: i}}})
	}
	hang := in.Workers + 1
	cfg = append(cfg, opsim.Hook{Id: hang, Kube: []opsim.KB{{Name: hang, ExecSync: true}}})
	sim, err := opsim.NewSim(opsim.Input{Cfg: cfg})
	if sim != nil {
		defer sim.Close()
	}
	if err != nil {
		o.Note = "assemble: " + err.Error()
		return o
	}
	dyn, ok := sim.Cluster.Client.Dynamic().(*dynamicfake.FakeDynamicClient)
	if !ok {
		o.Note = "the fake cluster's dynamic client is not a FakeDynamicClient"
		return o
	}
	entered := make(chan struct{}, 16)
	release := make(chan struct{})
	defer func() {
		select {
		case <-release:
		default:
			close(release)
		}
	}()
	hangNs := fmt.Sprintf("ns%d", hang)
	dyn.PrependReactor("list", "*", func(action clienttesting.Action) (bool, k8sruntime.Object, error) {
		if action.GetNamespace() != hangNs {
			return false, nil, nil
		}
		select {
		case entered <- struct{}{}:
		default:
		}
		<-release // the API server does not answer
		return false, nil, nil
	})
	sim.Op.VerifStartReal()
	select {
	case <-entered:
		o.Reached = true
	case <-time.After(4 * time.Second):
		o.Note = "the main worker never reached the hanging LIST"
		return o
	}
	// work for the other queues
	open := map[int]*opsim.Call{}
	tick := func(i int) { sim.Op.ScheduleManager.Ch() <- opsim.CronName(i) }
	for i := 1; i <= in.Open && i <= in.Workers; i++ {
		tick(i)
		select {
		case c := <-sim.Srv.Execs:
			open[c.Hook] = c
		case <-time.After(2 * time.Second):
			o.Note = fmt.Sprintf("no execution started in queue %d before the stop request", i)
			return o
		}
		if in.Queued {
			tick(i)
		}
	}
	time.Sleep(2 * time.Millisecond) // let the events handler queue the second tasks
	// the stop request
	done := make(chan struct{})
	go func() { sim.Op.Shutdown(); close(done) }()
	time.Sleep(5 * time.Millisecond)
	// the open executions end, more ticks arrive
	for _, c := range open {
		c.Reply(opsim.Reply{})
	}
	for r := 0; r < in.Late; r++ {
		for i := 1; i <= in.Workers; i++ {
			select {
			case sim.Op.ScheduleManager.Ch() <- opsim.CronName(i):
			case <-time.After(50 * time.Millisecond): // nobody reads the channel any more
			}
		}
	}
	deadline := time.After(hangBound)
	stopped := func() bool {
		for i := 1; i <= in.Workers; i++ {
			q := sim.Op.TaskQueues.GetByName(opsim.QueueName(i))
			if q == nil || q.GetStatus() != "stop" {
				return false
			}
		}
		return true
	}
wait:
	for {
		select {
		case c := <-sim.Srv.Execs:
			o.StartedAfter++
			c.Reply(opsim.Reply{})
		case <-done:
			o.Returned = true
			done = nil
		case <-deadline:
			break wait
		case <-time.After(time.Millisecond):
			if o.Returned && stopped() {
				// a little longer: nothing may start any more
				select {
				case c := <-sim.Srv.Execs:
					o.StartedAfter++
					c.Reply(opsim.Reply{})
				case <-time.After(30 * time.Millisecond):
				}
				break wait
			}
		}
	}
	o.Stopped = stopped()
	close(release)
	if !o.Returned {
		select {
		case <-done:
		case <-time.After(2 * time.Second):
		}
	}
	return o
}

func RenderHang(in HangIn, obs *HangObs, crash string) core.Case {
	var o HangObs
	if obs != nil {
		o = *obs
	}
	c := core.Case{}
	bad := crash != "" || o.Note != "" || o.Prog.Err != ""
	c.Coq = fmt.Sprintf("CHang %s\n (mkHangObs %s %s %s %d %s)", CoqProgram(o.Prog),
		core.CoqBool(o.Reached), core.CoqBool(o.Returned), core.CoqBool(o.Stopped), o.StartedAfter, core.CoqBool(bad))
	c.JSON = map[string]any{"hang": o, "crash": crash}
	c.Key = fmt.Sprint("hang", in)
	c.Tags = []string{"class:hang", fmt.Sprintf("hang-workers:%d", in.Workers), fmt.Sprintf("hang-open:%d", in.Open),
		fmt.Sprintf("hang-late-rounds:%d", in.Late), fmt.Sprintf("hang-queued:%v", in.Queued),
		fmt.Sprintf("lock-program-functions:%d", len(o.Prog.Funcs)), fmt.Sprintf("lock-program-unknown-calls:%d", len(o.Prog.Unknown))}
	c.Nontrivial = o.Reached && in.Workers >= 1
	return c
}

func HangCases(tier string) []HangIn {
	out := []HangIn{{Workers: 1, Open: 1, Late: 1, Queued: true}, {Workers: 2, Open: 1, Late: 2}, {Workers: 2, Open: 2, Late: 1, Queued: true}, {Workers: 1, Open: 0, Late: 2}}
	if tier == "thorough" {
		for w := 1; w <= 3; w++ {
			for op := 0; op <= w; op++ {
				for late := 0; late <= 2; late++ {
					for _, q := range []bool{false, true} {
						out = append(out, HangIn{Workers: w, Open: op, Late: late, Queued: q})
					}
				}
			}
		}
	}
	return out
}
