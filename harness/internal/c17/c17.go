// Package c17: correspondence driver for C17 (shutdown stops the queues).  Shutdown is
// requested at a random point of operator-level scenarios — queues empty, executions open
// in several queues, tasks waiting — and ticks, events and the ends of the open executions
// keep arriving afterwards; see internal/opsim.
package c17

import (
	"encoding/json"
	"time"

	"verifharness/internal/core"
	"verifharness/internal/opsim"
)

// Input is either an operator scenario or a case of class CHang (hang.go).
type Input struct {
	Scenario *opsim.Scenario `json:"scenario,omitempty"`
	Hang     *HangIn         `json:"hang,omitempty"`
	Acts     []opsim.Action  `json:"acts,omitempty"` // shrink key: mirrors Scenario.Acts
}

// UnmarshalJSON also accepts the earlier replay files of C17, whose input is a bare scenario.
func (in *Input) UnmarshalJSON(b []byte) error {
	var probe map[string]json.RawMessage
	if err := json.Unmarshal(b, &probe); err != nil {
		return err
	}
	_, isScenario := probe["scenario"]
	_, isHang := probe["hang"]
	if !isScenario && !isHang {
		var sc opsim.Scenario
		if err := json.Unmarshal(b, &sc); err != nil {
			return err
		}
		*in = Input{Scenario: &sc}
		return nil
	}
	type plain Input
	var p plain
	if err := json.Unmarshal(b, &p); err != nil {
		return err
	}
	*in = Input(p)
	return nil
}

type Obs struct {
	Trace *opsim.Trace `json:"trace,omitempty"`
	Hang  *HangObs     `json:"hang,omitempty"`
}

func Run(in Input) Obs {
	if in.Hang != nil {
		o := RunHang(*in.Hang)
		return Obs{Hang: &o}
	}
	sc := *in.Scenario
	if len(in.Acts) > 0 {
		sc.Acts = in.Acts
	}
	tr := opsim.RunScenario(sc)
	return Obs{Trace: &tr}
}

func Render(in Input, obs *Obs, crash string) core.Case {
	if in.Hang != nil {
		var o *HangObs
		if obs != nil {
			o = obs.Hang
		}
		return RenderHang(*in.Hang, o, crash)
	}
	sc := *in.Scenario
	if len(in.Acts) > 0 {
		sc.Acts = in.Acts
	}
	var tr *opsim.Trace
	if obs != nil {
		tr = obs.Trace
	}
	c := opsim.Render(sc, tr, crash)
	c.Coq = "COp " + c.Coq
	return c
}

func Explicit(in Input, obs *Obs) Input {
	if in.Hang != nil || obs == nil || obs.Trace == nil {
		return in
	}
	base := *in.Scenario
	if len(in.Acts) > 0 {
		base.Acts = in.Acts
	}
	sc := opsim.ExplicitInput(base, obs.Trace)
	acts := sc.Acts
	sc.Acts = nil
	return Input{Scenario: &sc, Acts: acts}
}

func scen(sc opsim.Scenario, stream string) core.In[Input] {
	s := sc
	return core.In[Input]{Input: Input{Scenario: &s}, Stream: stream}
}

var profile = opsim.Profile{Name: "c17", MaxHooks: 3, Steps: 24, PFail: 35, PHold: 50, PStop: 9, AfterStop: 10, V0: false, PWait: 60, PShort: 35}

func init() { opsim.RegisterProfile(profile) }

func Corpus() []opsim.Scenario {
	cfg := []opsim.Hook{{Id: 1, Sched: []opsim.SB{{Name: 1, Queue: 1, Cron: 1}, {Name: 2, Queue: 2, Cron: 2}}}}
	return []opsim.Scenario{
		// stop with an execution open and tasks waiting; then finish it: nothing else may start
		{Cfg: cfg, Acts: []opsim.Action{{Kind: "Boot"}, {Kind: "Tick", C: 1}, {Kind: "Tick", C: 1}, {Kind: "Tick", C: 2}, {Kind: "Stop"}, {Kind: "Tick", C: 2}, {Kind: "Finish", Q: 1, Ok: true}, {Kind: "Finish", Q: 2, Ok: false}, {Kind: "Tick", C: 1}}},
		// stop with empty queues
		{Cfg: cfg, Acts: []opsim.Action{{Kind: "Boot"}, {Kind: "Stop"}, {Kind: "Tick", C: 1}, {Kind: "Tick", C: 2}}},
		// stop while queue 1 waits in a long back-off delay: the end of the delay and later ticks start nothing
		{Cfg: cfg, Acts: []opsim.Action{{Kind: "Boot"}, {Kind: "Tick", C: 1}, {Kind: "Tick", C: 1}, {Kind: "FinishWait", Q: 1}, {Kind: "Tick", C: 1}, {Kind: "Stop"}, {Kind: "Elapse", Q: 1}, {Kind: "Tick", C: 1}}},
		// the same with a delay shorter than the wait loop's check interval, Shutdown landing inside it
		{Cfg: cfg, Acts: []opsim.Action{{Kind: "Boot"}, {Kind: "Tick", C: 1}, {Kind: "Tick", C: 2}, {Kind: "FinishWait", Q: 1, Short: true}, {Kind: "Stop"}, {Kind: "Elapse", Q: 1}, {Kind: "Finish", Q: 2, Ok: true}}},
		// a short delay that ends by itself, then stop inside the retried execution
		{Cfg: cfg, Acts: []opsim.Action{{Kind: "Boot"}, {Kind: "Tick", C: 1}, {Kind: "FinishWait", Q: 1, Short: true}, {Kind: "Elapse", Q: 1}, {Kind: "Stop"}, {Kind: "Finish", Q: 1, Ok: true}}},
		// stop while queue 1 waits in a long delay that has just been cancelled (CancelTaskDelay) and whose worker has
		// not looked yet: the worker finds the stop request and the cancellation together and must start nothing
		{Cfg: cfg, Acts: []opsim.Action{{Kind: "Boot"}, {Kind: "Tick", C: 1}, {Kind: "Tick", C: 1}, {Kind: "FinishWait", Q: 1, Slow: true}, {Kind: "Stop", Cancel: true, Q: 1}, {Kind: "Tick", C: 1}}},
		{Cfg: cfg, Acts: []opsim.Action{{Kind: "Boot"}, {Kind: "Tick", C: 2}, {Kind: "Tick", C: 1}, {Kind: "FinishWait", Q: 2, Slow: true}, {Kind: "Tick", C: 2}, {Kind: "Stop", Cancel: true, Q: 2}, {Kind: "Finish", Q: 1, Ok: true}, {Kind: "Tick", C: 2}}},
		// a Slow delay ended in the ordinary way, then stop inside the retried execution
		{Cfg: cfg, Acts: []opsim.Action{{Kind: "Boot"}, {Kind: "Tick", C: 1}, {Kind: "FinishWait", Q: 1, Slow: true}, {Kind: "Elapse", Q: 1}, {Kind: "Stop"}, {Kind: "Finish", Q: 1, Ok: true}}},
		// Shutdown() before Start(): the queues created afterwards must not run anything
		{Cfg: []opsim.Hook{{Id: 1, Startup: new(int), Sched: []opsim.SB{{Name: 1, Queue: 1, Cron: 1}}}},
			Acts: []opsim.Action{{Kind: "Stop"}, {Kind: "Boot"}, {Kind: "Tick", C: 1}, {Kind: "Finish", Q: 0, Ok: true}}},
		// stop during start-up
		{Cfg: []opsim.Hook{{Id: 1, Startup: new(int), Kube: []opsim.KB{{Name: 1, ExecSync: true}}}},
			Acts: []opsim.Action{{Kind: "Boot"}, {Kind: "Stop"}, {Kind: "Finish", Q: 0, Ok: true}}},
	}
}

// IdleCorpus: Shutdown after the operator has been left alone for a long time (real seconds):
// queues that have been empty for long, a worker that has been inside a handler for long, and
// ticks arriving after the stop request.  One in the quick tier, more and longer ones in thorough.
func IdleCorpus(tier string) []opsim.Scenario {
	cfg := []opsim.Hook{{Id: 1, Sched: []opsim.SB{{Name: 1, Queue: 1, Cron: 1}, {Name: 2, Queue: 2, Cron: 2}}}}
	idle := func(ms int) opsim.Action { return opsim.Action{Kind: "Idle", Ms: ms} }
	out := []opsim.Scenario{
		{Cfg: cfg, Acts: []opsim.Action{{Kind: "Boot"}, {Kind: "Tick", C: 1}, {Kind: "Finish", Q: 1, Ok: true}, idle(31000), {Kind: "Stop"}, {Kind: "Tick", C: 1}, {Kind: "Tick", C: 2}}},
	}
	if tier == "thorough" {
		out = append(out,
			opsim.Scenario{Cfg: cfg, Acts: []opsim.Action{{Kind: "Boot"}, {Kind: "Tick", C: 1}, idle(45000), {Kind: "Tick", C: 2}, {Kind: "Stop"}, {Kind: "Tick", C: 2}, {Kind: "Finish", Q: 1, Ok: true}, {Kind: "Finish", Q: 2, Ok: true}, {Kind: "Tick", C: 1}}},
			opsim.Scenario{Cfg: cfg, Acts: []opsim.Action{{Kind: "Boot"}, idle(65000), {Kind: "Tick", C: 1}, {Kind: "Stop"}, {Kind: "Tick", C: 2}, {Kind: "Finish", Q: 1, Ok: false}}},
			opsim.Scenario{Cfg: cfg, Acts: []opsim.Action{{Kind: "Boot"}, {Kind: "Tick", C: 1}, {Kind: "FinishWait", Q: 1}, idle(35000), {Kind: "Stop"}, {Kind: "Elapse", Q: 1}, {Kind: "Tick", C: 2}}})
	}
	return out
}

func Gen(r *core.Rng, tier string) ([]core.In[Input], bool) {
	var ins []core.In[Input]
	if tier != "search" {
		// first: they take real time and run beside everything else
		for _, sc := range IdleCorpus(tier) {
			ins = append(ins, scen(sc, "long-idle"))
		}
	}
	for _, sc := range Corpus() {
		ins = append(ins, scen(sc, "corpus"))
	}
	for _, h := range HangCases(tier) {
		hh := h
		ins = append(ins, core.In[Input]{Input: Input{Hang: &hh}, Stream: "hang"})
	}
	n := 60
	switch tier {
	case "thorough":
		n = 3000
	case "search":
		n = 400
	}
	for i := 0; i < n; i++ {
		sc := opsim.Scenario{Cfg: opsim.GenConfig(r, profile), Seed: int64(r.Next() >> 1), Steps: 6 + r.Intn(profile.Steps), Profile: "c17"}
		ins = append(ins, scen(sc, "random"))
	}
	return ins, false
}

var Driver = core.Driver[Input, Obs]{
	Spec: core.Spec{Property: "C17", Imports: []string{"Op_Model", "Op_Corr", "C17_Spec", "C17_Locks", "C17_Corr"}, Corr: "C17_Corr", ShrinkKey: "acts",
		Rule: "operator-level scenarios (see C03) in which Shutdown() is requested at a random step (9% per step) and up to 10 further ticks / kube events / ends of open executions follow; 60% of the failing executions put their queue into a positive back-off delay (a long one, ended by the harness, or - 35% - one shorter than the wait loop's check interval, followed at once by Shutdown or by its natural end), so Shutdown also lands while workers wait in a back-off delay; 30% of the long delays are waited for with a 300 ms check interval and Shutdown then arrives, in 35% of the steps, together with a CancelTaskDelay() the worker has not seen yet (placed 60-120 ms after one of its looks; to the model a plain Stop); stream long-idle: Shutdown after the operator has been left alone for 31 s of real time (thorough: also 35, 45, 65 s, with an execution open / a queue in its back-off delay meanwhile), time passing being a stutter step of the model (C17_time_is_stutter); class hang: Shutdown() requested while the main worker is inside an EnableKubernetesBindings handler whose LIST does not return (a reactor on the fake cluster), 1-3 other queues with open executions, queued tasks and ticks arriving afterwards - Shutdown must return, the other workers stop, nothing starts; every such case carries the lock program translated from the current source (the functions taking mgr.m and tqs.m, go/ast) on which Coq evaluates lock_ok (C17_blocked_threads_hold_no_lock); non-trivial = >=4 actions of >=2 kinds with >=2 executions; distinct = distinct (config, action list)"},
	Gen:      Gen,
	Run:      Run,
	Render:   Render,
	Explicit: Explicit,
	PerShard: 40, Workers: 8, CaseTimout: 120 * time.Second,
}
