// Package c20: correspondence driver for C20 (hook discovery and the --config round).
// Trees are created ON DISK in a temporary directory; discovery is the real
// utils_file.RecursiveGetExecutablePaths, the --config round is the real
// hook.Manager.Init running generated bash scripts that log their own invocation.
// names.go holds the generators for the file-name rule (names around every excluded extension).
package c20

import (
	"fmt"
	"os"
	"path/filepath"
	"regexp"
	"sort"
	"strings"
	"sync"
	"syscall"
	"time"

	"github.com/deckhouse/deckhouse/pkg/log"

	"github.com/flant/shell-operator/pkg/app"
	"github.com/flant/shell-operator/pkg/hook"
	utils_file "github.com/flant/shell-operator/pkg/utils/file"
	"github.com/flant/shell-operator/pkg/webhook/admission"
	"github.com/flant/shell-operator/pkg/webhook/conversion"

	"verifharness/internal/core"
)

// Node is a file (Dir=false, Mode = permission bits) or a directory.
// Kind "link": a symbolic link; To names what it points to: a path relative to the hooks directory
// ("lib/multicall.sh", possibly naming a directory, another link or nothing) or "^/<name>" = an entry of
// the directory <tmp>/outside, out of the tree (see outsideEntries).  Kind "fifo": a named pipe with
// permission bits Mode.  The T* fields (what the link resolves to) are filled in by Run (resolveLinks)
// and checked against os.Stat on the tree built on disk.
type Node struct {
	Name     string `json:"name"`
	Dir      bool   `json:"dir,omitempty"`
	Mode     int    `json:"mode,omitempty"`
	Children []Node `json:"children,omitempty"`
	Kind     string `json:"kind,omitempty"`
	To       string `json:"to,omitempty"`
	TKind    string `json:"tkind,omitempty"` // file | dir | dangling | fifo
	TMode    int    `json:"tmode,omitempty"`
	TCode    int    `json:"tcode,omitempty"`
	TNoStart bool   `json:"tnostart,omitempty"` // the target is a script that cannot be started
	Text     string `json:"text,omitempty"`     // the text of the link as written
}

// Beh: what the file at Path (relative to the hooks directory) does on --config.
// Code 1 = the run fails, 2 = prints an invalid configuration; Variant selects the concrete script.
// Code 0 = prints a VALID configuration: the one of shape Shape (configs.go; 0 = the default onStartup one).
type Beh struct {
	Path    string `json:"path"`
	Code    int    `json:"code"`
	Variant int    `json:"variant,omitempty"`
	Shape   int    `json:"shape,omitempty"`
}

// A Name (and an element of a Beh.Path) of the form "@k", k >= 1, is a PLACEHOLDER for the last k
// elements of the hooks directory's own absolute path (all of them when k exceeds their number, "@99" =
// the whole absolute path): the node stands for that chain of nested directories and its kind (file, or
// directory with Children) is the kind of the innermost one.  The absolute path is known only when the
// case runs (the tree lives in a fresh temporary directory), so Run expands the placeholders; Coq sees
// the expanded tree (with the random element of the temporary directory renamed, see symTmp).
type Input struct {
	Root  string `json:"root"`  // name of the hooks directory itself
	Nodes []Node `json:"nodes"` // its entries
	Beh   []Beh  `json:"beh,omitempty"`
	Init  bool   `json:"init,omitempty"` // run hook.Manager.Init (files are bash scripts)
}

type InitObs struct {
	Asked  []string `json:"asked"`
	Status int      `json:"status"`
	Named  string   `json:"named"`
	Names  []string `json:"names"`
	Error  string   `json:"error,omitempty"` // informational (symbolic paths)
}

// IndexEntry: what hm.GetHook(Name) returned: the Path of the hook, "" for nil.
type IndexEntry struct {
	Name string `json:"name"`
	Path string `json:"path"`
}

type Observation struct {
	Paths  []string     `json:"paths"`
	Init   *InitObs     `json:"init,omitempty"`
	Bound  [][]string   `json:"bound,omitempty"`  // after Init: GetHooksInOrder for each binding type, in the order of bindingTypes
	Index  []IndexEntry `json:"index,omitempty"`  // after Init: GetHook for every name of GetHookNames(), then for the relative path of every discovered file
	Broken string       `json:"broken,omitempty"` // the harness itself could not set the case up
	// the input as it was on disk, in the symbolic naming shown to Coq (placeholders expanded)
	SymParent string `json:"sym_parent,omitempty"`
	SymNodes  []Node `json:"sym_nodes,omitempty"`
	SymBeh    []Beh  `json:"sym_beh,omitempty"`
	Recur     int    `json:"recur,omitempty"` // number of placeholder chains in the tree
}

// The temporary directory is <os.TempDir()>/verif-c20-<random digits>; towards Coq (and in every
// recorded string) the random element is renamed to symTmp, everything else is shown as it is.  No
// generated name starts with "verif-c20-", so the renaming preserves the bytewise order of all paths.
const symTmp = "verif-c20-T"

// parent directory shown to Coq when the case could not be set up at all
const symParentFallback = "/w"

var placeholder = regexp.MustCompile(`^@([0-9]+)$`)

// chainOf returns the last k elements of comps ("@k"), nil when name is not a placeholder.
func chainOf(name string, comps []string) []string {
	m := placeholder.FindStringSubmatch(name)
	if m == nil {
		return nil
	}
	k := 0
	fmt.Sscanf(m[1], "%d", &k)
	if k < 1 {
		k = 1
	}
	if k > len(comps) {
		k = len(comps)
	}
	return comps[len(comps)-k:]
}

// expandNodes replaces placeholders by chains of directories named after the elements of the hooks
// directory's path (comps).  Of two siblings with the same name (a chain can collide with a pool name) the
// first is kept.
func expandNodes(ns []Node, comps []string, recur *int) []Node {
	var out []Node
	seen := map[string]bool{}
	for _, n := range ns {
		e := n
		if ch := chainOf(n.Name, comps); ch != nil {
			e = Node{Name: ch[len(ch)-1], Dir: n.Dir, Mode: n.Mode, Children: n.Children}
			for k := len(ch) - 2; k >= 0; k-- {
				e = Node{Name: ch[k], Dir: true, Children: []Node{e}}
			}
			if recur != nil {
				*recur++
			}
		}
		if seen[e.Name] {
			continue
		}
		seen[e.Name] = true
		if e.Dir {
			e.Children = expandNodes(e.Children, comps, recur)
		}
		out = append(out, e)
	}
	return out
}

func expandPath(p string, comps []string) string {
	var out []string
	for _, el := range strings.Split(p, "/") {
		if ch := chainOf(el, comps); ch != nil {
			out = append(out, ch...)
		} else {
			out = append(out, el)
		}
	}
	return strings.Join(out, "/")
}

func expandBeh(bs []Beh, comps []string) []Beh {
	// two entries can name the same file once placeholders are expanded ("@1/a" and "hooks/a"): the first
	// one counts (Coq's beh_code also takes the first), later ones are dropped
	var out []Beh
	seen := map[string]bool{}
	for _, b := range bs {
		b.Path = expandPath(b.Path, comps)
		if seen[b.Path] {
			continue
		}
		seen[b.Path] = true
		out = append(out, b)
	}
	return out
}

// elements of a clean absolute path
func elements(abs string) []string { return strings.Split(strings.TrimPrefix(abs, "/"), "/") }

var quietOnce sync.Once

const validConfig = `{"configVersion":"v1","onStartup":1}`

func script(logPath string, b *Beh) string {
	s := "#!/bin/bash\necho \"$0\" >> '" + logPath + "'\n"
	if b == nil {
		return s + "echo '" + validConfig + "'\n"
	}
	switch b.Code {
	case 1:
		switch b.Variant % 5 {
		case 3:
			// cannot even be started: the interpreter named by the shebang does not exist (ENOENT)
			return "#!/nonexistent/verif-interpreter\nexit 0\n"
		case 4:
			// cannot be started: an executable file that is neither a script nor a binary (ENOEXEC)
			return "\x7fEL\x00\x01not really an executable\n"
		case 0:
			return s + "exit 1\n"
		case 1:
			return s + "echo '" + validConfig + "'\nexit 3\n" // valid output, failing run
		default:
			if b.Variant%10 == 7 {
				// a complete valid configuration on stdout, then death by a signal: a failed run all the same
				return s + "echo '" + validConfig + "'\nkill -9 $$\n"
			}
			return s + "echo oops >&2\nkill -9 $$\n"
		}
	case 0:
		return s + printConfig(shapeText(b.Shape))
	case 2:
		if b.Variant >= 100 {
			// an invalid configuration that declares no binding
			return s + printConfig(invalidEmptyConfigs[(b.Variant-100)%len(invalidEmptyConfigs)])
		}
		switch b.Variant % 4 {
		case 0:
			return s + "echo 'this is not a config'\n"
		case 1:
			return s + "echo '{\"configVersion\":\"v1\",\"onStartupp\":1}'\n" // unknown field
		case 2:
			return s + "echo '{\"configVersion\":\"v7\",\"onStartup\":1}'\n" // unknown version
		default:
			return s + "echo '{\"configVersion\":\"v1\",\"onStartup\":\"soon\"}'\n" // wrong type
		}
	}
	return s + "echo '" + validConfig + "'\n"
}

func build(dir, rel string, nodes []Node, in *Input, logPath string) error {
	for _, n := range nodes {
		p := filepath.Join(dir, n.Name)
		r := n.Name
		if rel != "" {
			r = rel + "/" + n.Name
		}
		if n.Dir {
			if err := os.Mkdir(p, 0o755); err != nil {
				return err
			}
			if err := build(p, r, n.Children, in, logPath); err != nil {
				return err
			}
			continue
		}
		if n.Kind == "link" {
			if err := os.Symlink(n.Text, p); err != nil {
				return err
			}
			continue
		}
		if n.Kind == "fifo" {
			if err := syscall.Mkfifo(p, uint32(n.Mode)); err != nil {
				return err
			}
			if err := os.Chmod(p, os.FileMode(n.Mode)); err != nil {
				return err
			}
			continue
		}
		content := ""
		if in.Init {
			var b *Beh
			for k := range in.Beh {
				if in.Beh[k].Path == r {
					b = &in.Beh[k]
					break
				}
			}
			content = script(logPath, b)
		}
		if err := os.WriteFile(p, []byte(content), 0o600); err != nil {
			return err
		}
		if err := os.Chmod(p, os.FileMode(n.Mode)); err != nil {
			return err
		}
	}
	return nil
}

var quoted = regexp.MustCompile(`hook '([^']*)'`)

// Run creates the tree, calls the real discovery and (for Init cases) the real hook manager.
func Run(in Input) Observation {
	quietOnce.Do(func() { log.SetDefault(log.NewNop()) })
	var o Observation
	tmp, err := os.MkdirTemp("", "verif-c20-")
	if err != nil {
		o.Broken = "mkdtemp: " + err.Error()
		return o
	}
	defer os.RemoveAll(tmp)
	tmp, _ = filepath.EvalSymlinks(tmp)
	parent := filepath.Join(tmp, "p")
	wd := filepath.Join(parent, in.Root)
	logPath := filepath.Join(tmp, "config-calls.log")
	if err := os.MkdirAll(wd, 0o755); err != nil {
		o.Broken = "mkdir: " + err.Error()
		return o
	}
	// symbolic naming: the random element of the temporary directory is renamed, consistently everywhere
	rnd := filepath.Base(tmp)
	sym := func(p string) string { return strings.ReplaceAll(p, rnd, symTmp) }
	o.SymParent = sym(parent)
	o.SymNodes = expandNodes(in.Nodes, elements(sym(wd)), &o.Recur)
	o.SymBeh = expandBeh(in.Beh, elements(sym(wd)))
	// the tree on disk: placeholders expanded with the real elements of the hooks directory's path
	real := in
	real.Nodes = expandNodes(in.Nodes, elements(wd), nil)
	real.Beh = expandBeh(in.Beh, elements(wd))
	resolveLinks(real.Nodes, real.Beh)
	resolveLinks(o.SymNodes, o.SymBeh)
	if err := buildOutside(filepath.Join(tmp, "outside"), logPath); err != nil {
		o.Broken = "outside: " + err.Error()
		return o
	}
	if err := build(wd, "", real.Nodes, &real, logPath); err != nil {
		o.Broken = "build: " + err.Error()
		return o
	}
	if msg := checkKinds(wd, real.Nodes); msg != "" {
		o.Broken = "kinds: " + msg
		return o
	}
	noStart := map[string]bool{}
	collectNoStart(real.Nodes, "", noStart)

	paths, err := utils_file.RecursiveGetExecutablePaths(wd)
	if err != nil {
		o.Broken = "RecursiveGetExecutablePaths: " + err.Error()
		return o
	}
	o.Paths = []string{}
	for _, p := range paths {
		o.Paths = append(o.Paths, sym(p))
	}
	if !in.Init {
		return o
	}

	cm := conversion.NewWebhookManager()
	cm.Settings = app.ConversionWebhookSettings
	am := admission.NewWebhookManager(nil)
	am.Settings = app.ValidatingWebhookSettings
	hm := hook.NewHookManager(&hook.ManagerConfig{
		WorkingDir: wd, TempDir: filepath.Join(tmp, "t"),
		Wmgr: am, Cmgr: cm, Logger: log.NewNop(),
	})
	ierr := hm.Init()
	io := &InitObs{Asked: []string{}, Names: []string{}}
	if b, err := os.ReadFile(logPath); err == nil {
		for _, l := range strings.Split(strings.TrimRight(string(b), "\n"), "\n") {
			if l != "" {
				io.Asked = append(io.Asked, sym(l))
			}
		}
	}
	for _, n := range hm.GetHookNames() {
		io.Names = append(io.Names, sym(n))
	}
	// the by-name index: look up every loaded name, then the relative path of every discovered file
	// (its path without the hooks directory and the separator in front) in load order
	lookup := func(name string) {
		e := IndexEntry{Name: sym(name)}
		if h := hm.GetHook(name); h != nil {
			e.Path = sym(h.Path)
		}
		o.Index = append(o.Index, e)
	}
	for _, n := range hm.GetHookNames() {
		lookup(n)
	}
	// the index by binding type
	for _, bt := range bindingTypes {
		names, err := hm.GetHooksInOrder(bt)
		row := []string{}
		if err != nil {
			row = append(row, "ERROR "+err.Error())
		}
		for _, n := range names {
			row = append(row, sym(n))
		}
		o.Bound = append(o.Bound, row)
	}
	sorted := append([]string{}, paths...)
	sort.Strings(sorted)
	for _, p := range sorted {
		lookup(strings.TrimPrefix(p, wd+string(os.PathSeparator)))
	}
	// a hook that cannot be started cannot write the log line: it counts as asked when Init
	// reports its --config run as failed
	if ierr != nil {
		if m := quoted.FindStringSubmatch(ierr.Error()); m != nil {
			for _, b := range real.Beh {
				// (the file this harness wrote for b, not any path that merely ends like it: with the hooks
				// directory's name repeated below it, "hooks/a" is also the end of <parent>/hooks/a)
				if b.Code == 1 && b.Variant%5 >= 3 && m[1] == wd+"/"+b.Path && !noStart[b.Path] {
					io.Asked = append(io.Asked, sym(m[1]))
					break
				}
			}
			// likewise an entry that execve refuses (FIFO, link to a directory / to nothing / to a file without
			// execute bits / to an un-startable script)
			if rel := strings.TrimPrefix(m[1], wd+"/"); rel != m[1] && noStart[rel] {
				io.Asked = append(io.Asked, sym(m[1]))
			}
		}
	}
	if ierr != nil {
		msg := ierr.Error()
		io.Error = sym(msg)
		if len(io.Error) > 300 {
			io.Error = io.Error[:300]
		}
		switch {
		case strings.HasPrefix(msg, "cannot get config for hook '"):
			io.Status = 1
		case strings.HasPrefix(msg, "creating hook '"):
			io.Status = 2
		default:
			io.Status = 3
		}
		if m := quoted.FindStringSubmatch(msg); m != nil {
			io.Named = sym(m[1])
		}
	}
	o.Init = io
	return o
}

// ---- rendering ----

func coqNode(n Node) string {
	switch {
	case n.Dir:
		return fmt.Sprintf("XDir %s %s", core.CoqBytes(n.Name), core.CoqList(n.Children, coqNode))
	case n.Kind == "link":
		t := "TDangling"
		switch n.TKind {
		case "file":
			t = fmt.Sprintf("(TFile %d %d)", n.TMode, n.TCode)
		case "dir":
			t = "TDir"
		case "fifo":
			t = "TFifo"
		}
		return fmt.Sprintf("XLink %s %s", core.CoqBytes(n.Name), t)
	case n.Kind == "fifo":
		return fmt.Sprintf("XFifo %s %d", core.CoqBytes(n.Name), n.Mode)
	}
	return fmt.Sprintf("XFile %s %d", core.CoqBytes(n.Name), n.Mode)
}

func coqPaths(ps []string) string { return core.CoqList(ps, core.CoqBytes) }

func countNodes(ns []Node) (files, dirs, depth int) {
	for _, n := range ns {
		if n.Dir {
			f, d, dp := countNodes(n.Children)
			files += f
			dirs += d + 1
			if dp+1 > depth {
				depth = dp + 1
			}
		} else {
			files++
			if depth < 1 {
				depth = 1
			}
		}
	}
	return
}

func hasName(ns []Node, pred func(Node) bool) bool {
	for _, n := range ns {
		if pred(n) || (n.Dir && hasName(n.Children, pred)) {
			return true
		}
	}
	return false
}

func Render(in Input, obs *Observation, crash string) core.Case {
	var o Observation
	if obs != nil {
		o = *obs
	}
	if crash != "" {
		o.Broken = "crash: " + crash
	}
	if o.Broken != "" {
		// make the case fail visibly: an impossible path
		o.Paths = []string{"BROKEN " + o.Broken}
	}
	c := core.Case{}
	// what Coq sees: the tree as it was on disk (placeholders expanded), in the symbolic naming
	symParent, nodes, beh := symParentFallback, in.Nodes, in.Beh
	if o.SymParent != "" {
		symParent, nodes, beh = o.SymParent, o.SymNodes, o.SymBeh
	}
	behs := core.CoqList(beh, func(b Beh) string { return fmt.Sprintf("(%s, %d)", core.CoqBytes(b.Path), b.coqCode()) })
	initObs := "None"
	if o.Init != nil {
		initObs = fmt.Sprintf("(Some (mkInitObs %s %d %s %s))", coqPaths(o.Init.Asked), o.Init.Status, core.CoqBytes(o.Init.Named), coqPaths(o.Init.Names))
	}
	inputTerm := fmt.Sprintf("mkXInput %s %s %s %s %s", core.CoqBytes(symParent), core.CoqBytes(in.Root),
		core.CoqList(nodes, coqNode), behs, core.CoqBool(in.Init))
	index := core.CoqList(o.Index, func(e IndexEntry) string {
		return fmt.Sprintf("(%s, %s)", core.CoqBytes(e.Name), core.CoqBytes(e.Path))
	})
	bound := core.CoqList(o.Bound, coqPaths)
	c.Coq = fmt.Sprintf("(%s,\n  mkObs %s %s %s,\n  %s)", inputTerm, coqPaths(o.Paths), initObs, index, bound)
	c.JSON = o
	c.Key = inputTerm
	files, dirs, depth := countNodes(nodes)
	if depth > 9 {
		depth = 9
	}
	if dirs > 12 {
		dirs = 12
	}
	if o.Recur > 0 {
		c.Tags = append(c.Tags, fmt.Sprintf("recur:%d", o.Recur))
		colliding := false
		names := map[string]bool{}
		for _, e := range o.Index {
			names[e.Name] = true
		}
		// a file whose name is what is left of another file's relative path when a chain is cut out of it
		wdRel := strings.TrimPrefix(symParent+"/"+in.Root, "/")
		for n := range names {
			for k := 1; k <= strings.Count(wdRel, "/")+1; k++ {
				el := strings.Split(wdRel, "/")
				chain := strings.Join(el[len(el)-k:], "/") + "/"
				if strings.Contains(n, chain) && names[strings.ReplaceAll(n, chain, "")] {
					colliding = true
				}
				if strings.Contains(n, "/"+chain) && names[strings.ReplaceAll(n, "/"+chain, "")] {
					colliding = true
				}
			}
		}
		if colliding {
			c.Tags = append(c.Tags, "has:sibling-named-like-a-cut-path")
		}
	}
	c.Tags = append(c.Tags, fmt.Sprintf("files:%02d", files/3*3), fmt.Sprintf("dirs:%d", dirs), fmt.Sprintf("depth:%d", depth),
		fmt.Sprintf("found:%02d", len(o.Paths)/2*2))
	switch {
	case in.Root == "lib":
		c.Tags = append(c.Tags, "root:lib")
	case strings.HasPrefix(in.Root, "."):
		c.Tags = append(c.Tags, "root:hidden")
	default:
		c.Tags = append(c.Tags, "root:plain")
	}
	if hasName(nodes, func(n Node) bool { return n.Dir && n.Name == "lib" }) {
		c.Tags = append(c.Tags, "has:lib-dir")
	}
	if hasName(nodes, func(n Node) bool { return n.Dir && strings.HasPrefix(n.Name, ".") }) {
		c.Tags = append(c.Tags, "has:hidden-dir")
	}
	if hasName(nodes, func(n Node) bool { return !n.Dir && strings.HasPrefix(n.Name, ".") }) {
		c.Tags = append(c.Tags, "has:hidden-file")
	}
	if hasName(nodes, func(n Node) bool {
		e := filepath.Ext(n.Name)
		return !n.Dir && n.Mode&0o111 != 0 && (e == ".yaml" || e == ".json" || e == ".md" || e == ".txt")
	}) {
		c.Tags = append(c.Tags, "has:exec-file-with-excluded-ext")
	}
	c.Tags = append(c.Tags, nameTags(nodes)...)
	c.Tags = append(c.Tags, kindTags(nodes, o.Paths)...)
	if hasName(nodes, func(n Node) bool { return !n.Dir && n.Mode&0o111 != 0 && n.Mode&0o100 == 0 }) {
		c.Tags = append(c.Tags, "has:group/other-x-only")
	}
	if in.Init && o.Init != nil {
		c.Tags = append(c.Tags, configTags(beh, stripAll(o.Paths, symParent+"/"+in.Root+"/"))...)
	}
	if in.Init {
		c.Tags = append(c.Tags, "init")
		if o.Init != nil {
			c.Tags = append(c.Tags, fmt.Sprintf("init-status:%d", o.Init.Status), fmt.Sprintf("asked:%02d", len(o.Init.Asked)/2*2))
		}
	}
	// non-trivial: something is discovered and something is left out
	c.Nontrivial = len(o.Paths) >= 1 && files > len(o.Paths) && o.Broken == ""
	return c
}

// ---- generation ----

var namePool = []string{
	"lib", ".hidden", ".h", "a.yaml", "x.json.sh", "b.txt", "c.md", "a", "b", "hook.sh", "a.sh",
	"lib.sh", "libx", "a.json", "yaml", "x.yaml.d", "001-a", "a-b", "A", ".yaml", "b.", "c.mdx",
	"d.YAML", "e.txt.bak", "sub", "hooks", "zz", "json", "a.b.md", "lib.txt",
}
var modePool = []int{0o644, 0o755, 0o100, 0o010, 0o001, 0o600, 0o755, 0o755, 0o700, 0o666, 0o111, 0o444, 0o750}
var rootPool = []string{"hooks", "hooks", "hooks", "hooks", "h", "lib", ".h", ".hidden", "lib.d", "xlib"}

type gen struct{ r *core.Rng }

func (g *gen) forest(depth, maxChildren int, small bool) []Node {
	n := g.r.Intn(maxChildren + 1)
	if depth == 1 && n == 0 {
		n = 1
	}
	used := map[string]bool{}
	var out []Node
	for len(out) < n {
		name := namePool[g.r.Intn(len(namePool))]
		if small {
			name = namePool[g.r.Intn(12)]
		}
		if used[name] {
			n--
			continue
		}
		used[name] = true
		if depth < 4 && g.r.Chance(38) {
			out = append(out, Node{Name: name, Dir: true, Children: g.forest(depth+1, maxChildren, small)})
		} else {
			out = append(out, Node{Name: name, Mode: modePool[g.r.Intn(len(modePool))]})
		}
	}
	return out
}

func allFiles(ns []Node, rel string, acc *[]string) {
	for _, n := range ns {
		r := n.Name
		if rel != "" {
			r = rel + "/" + n.Name
		}
		if n.Dir {
			allFiles(n.Children, r, acc)
		} else {
			*acc = append(*acc, r)
		}
	}
}

func (g *gen) tree() Input {
	in := Input{Root: rootPool[g.r.Intn(len(rootPool))]}
	in.Nodes = g.forest(1, 2+g.r.Intn(4), g.r.Chance(30))
	return in
}

func (g *gen) initCase() Input {
	in := Input{Root: rootPool[g.r.Intn(len(rootPool))], Init: true}
	in.Nodes = g.forest(1, 2+g.r.Intn(3), g.r.Chance(50))
	// make most files executable so that several hooks are loaded
	var fix func(ns []Node)
	fix = func(ns []Node) {
		for k := range ns {
			if ns[k].Dir {
				fix(ns[k].Children)
			} else if g.r.Chance(60) {
				ns[k].Mode = 0o755
			}
		}
	}
	fix(in.Nodes)
	if g.r.Chance(35) {
		// a directory and a sibling whose name sorts between "<dir>" and "<dir>/": walk order differs from load order
		var top []Node
		for _, n := range in.Nodes {
			if n.Name != "a" && n.Name != "a.sh" && n.Name != "a-b" {
				top = append(top, n)
			}
		}
		top = append(top, d("a", f("b", 0o755), f("hook.sh", 0o755)), f([]string{"a.sh", "a-b"}[g.r.Intn(2)], 0o755))
		in.Nodes = top
	}
	if g.r.Chance(65) {
		var fs []string
		allFiles(in.Nodes, "", &fs)
		for _, f := range fs {
			if g.r.Chance(22) {
				in.Beh = append(in.Beh, Beh{Path: f, Code: 1 + g.r.Intn(2), Variant: g.r.Intn(12)})
			}
		}
	}
	return in
}

// ---- trees in which the hooks directory's own path occurs again below it ----

func ph(k int) string { return fmt.Sprintf("@%d", k) }

// chain lengths: the hooks directory's own name, two / three trailing elements, the whole absolute path
var chainLens = []int{1, 2, 3, 99}

// nestedCase: [prefix/](@k/){rep}{b.sh,start.sh} with a file x at every intermediate level, and - next to
// the directory that holds the outermost chain and at the top - files named like the paths below the chain
// with the chain cut out ("modb.sh" for "mod/<chain>/b.sh"), so that a wrongly computed relative path
// collides with the name of another hook.  scenario: 0 = discovery only, 1 = Init, every --config fine,
// 2 = Init, the innermost b.sh prints an invalid configuration, 3 = Init, the glued sibling's run fails.
func nestedCase(root string, k, reps int, prefix string, scenario int) Input {
	inner := d(ph(k), f("b.sh", 0o755), f("start.sh", 0o755))
	path := ph(k)
	for i := 1; i < reps; i++ {
		inner = d(ph(k), inner, f("x", 0o755))
		path = ph(k) + "/" + path
	}
	var in Input
	glued := "b.sh"
	if prefix != "" {
		in = tr(root, d(prefix, inner, f("b.sh", 0o755)), f(prefix+"b.sh", 0o755), f(prefix+"start.sh", 0o755), f(prefix+"x", 0o644), f("b.sh", 0o755))
		path = prefix + "/" + path
		glued = prefix + "b.sh"
	} else {
		in = tr(root, inner, f("b.sh", 0o755), f("start.sh", 0o755), f("x", 0o644))
	}
	switch scenario {
	case 1:
		in = withInit(in)
	case 2:
		in = withInit(in, Beh{Path: path + "/b.sh", Code: 2, Variant: k})
	case 3:
		in = withInit(in, Beh{Path: glued, Code: 1, Variant: reps})
	}
	return in
}

func nestedSystematic(roots []string, ks []int, maxReps int) []Input {
	var out []Input
	for _, root := range roots {
		for _, k := range ks {
			for reps := 1; reps <= maxReps; reps++ {
				for _, prefix := range []string{"", "mod"} {
					for sc := 0; sc < 4; sc++ {
						out = append(out, nestedCase(root, k, reps, prefix, sc))
					}
				}
			}
		}
	}
	return out
}

// slots: every list of siblings of a forest (the top level and the children of every directory)
func slots(ns *[]Node, acc *[]*[]Node) {
	*acc = append(*acc, ns)
	for k := range *ns {
		if (*ns)[k].Dir {
			slots(&(*ns)[k].Children, acc)
		}
	}
}

// nestedRandom: a random forest with 1-3 chains put at random places: as a directory with a small random
// forest (or a further chain) below it, wrapped in a directory with a glued sibling, or as a FILE named like
// the hooks directory.
func (g *gen) nestedRandom() Input {
	in := Input{Root: rootPool[g.r.Intn(len(rootPool))], Init: g.r.Chance(50)}
	in.Nodes = g.forest(1, 1+g.r.Intn(3), true)
	for n := 1 + g.r.Intn(3); n > 0; n-- {
		var sl []*[]Node
		slots(&in.Nodes, &sl)
		at := sl[g.r.Intn(len(sl))]
		k := chainLens[g.r.Intn(len(chainLens))]
		if g.r.Chance(15) {
			k = 1 + g.r.Intn(6)
		}
		leaf := []string{"b.sh", "start.sh", "a", "hook.sh"}[g.r.Intn(4)]
		below := []Node{f(leaf, 0o755)}
		if g.r.Chance(40) {
			below = append(below, g.forest(3, 2, true)...)
		}
		if g.r.Chance(35) {
			below = []Node{d(ph(chainLens[g.r.Intn(len(chainLens))]), below...), f(leaf, 0o755)}
		}
		switch {
		case g.r.Chance(12):
			*at = append([]Node{f(ph(1), modePool[g.r.Intn(len(modePool))])}, *at...)
		case g.r.Chance(50):
			dir := []string{"mod", "001-mod", "a", "sub"}[g.r.Intn(4)]
			*at = append([]Node{d(dir, d(ph(k), below...)), f(dir+leaf, 0o755)}, *at...)
		default:
			*at = append([]Node{d(ph(k), below...), f(leaf, 0o755)}, *at...)
		}
	}
	if in.Init {
		var fix func(ns []Node)
		fix = func(ns []Node) {
			for k := range ns {
				if ns[k].Dir {
					fix(ns[k].Children)
				} else if g.r.Chance(50) {
					ns[k].Mode = 0o755
				}
			}
		}
		fix(in.Nodes)
		if g.r.Chance(50) {
			var fs []string
			allFiles(in.Nodes, "", &fs)
			for _, f := range fs {
				if g.r.Chance(15) {
					in.Beh = append(in.Beh, Beh{Path: f, Code: 1 + g.r.Intn(2), Variant: g.r.Intn(12)})
				}
			}
		}
	}
	return in
}

// stripAll: the paths with the prefix cut off, sorted (the load order)
func stripAll(ps []string, prefix string) []string {
	var out []string
	for _, p := range ps {
		out = append(out, strings.TrimPrefix(p, prefix))
	}
	sort.Strings(out)
	return out
}

func f(name string, mode int) Node         { return Node{Name: name, Mode: mode} }
func d(name string, children ...Node) Node { return Node{Name: name, Dir: true, Children: children} }
func tr(root string, nodes ...Node) Input  { return Input{Root: root, Nodes: nodes} }
func withInit(in Input, beh ...Beh) Input  { in.Init = true; in.Beh = beh; return in }

// Corpus: witnesses and past failures; runs first.
func Corpus() []Input {
	// the file-name rule (seeded change C20-6): names that end in the LETTERS of an excluded extension, first
	return append(append(append(namesCorpus(), corpusTrees()...), kindsCorpus()...), configsCorpus()...)
}

func corpusTrees() []Input {
	return []Input{
		// the hooks directory's own path occurs again below it (seeded change C20-5): the whole absolute path
		// nested under mod/ next to a file named like that path with the chain cut out; the stock layout
		// hooks/001-mod/hooks/start.sh; the chain directly at the top; a FILE named like the hooks directory
		withInit(tr("hooks", d("mod", d(ph(99), f("b.sh", 0o755))), f("modb.sh", 0o755))),
		withInit(tr("hooks", d("001-mod", d(ph(1), f("start.sh", 0o755))), f("001-modstart.sh", 0o755))),
		tr("hooks", d(ph(99), f("b.sh", 0o755)), f("b.sh", 0o755)),
		withInit(tr("hooks", d("a", f(ph(1), 0o755)), f(ph(1), 0o755), f("ahooks", 0o755))),
		withInit(tr("lib", d("mod", d(ph(2), f("b.sh", 0o755)), d(ph(99), f("c.sh", 0o755))), f("modb.sh", 0o755))),
		// past failure of the harness itself: two un-startable files, <root>/a and <root>/<root>/a - the error for the
		// first also ENDS like the path of the second
		withInit(tr("hooks", d(ph(1), f("a", 0o755), f("a.yaml", 0o755)), f("a", 0o755)),
			Beh{Path: ph(1) + "/a", Code: 1, Variant: 8}, Beh{Path: "a", Code: 1, Variant: 3}),
		// past failure of the harness itself: two scenario entries for one file (the first counts)
		withInit(tr("hooks", f("a", 0o755), d(ph(1), f("a", 0o755))), Beh{Path: ph(1) + "/a", Code: 2, Variant: 11}, Beh{Path: "hooks/a", Code: 1, Variant: 8}),
		// F10 (repaired): the hooks directory itself is named lib / is hidden
		tr("lib", f("hook.sh", 0o755)),
		tr(".h", d("a", f("x", 0o755))),
		withInit(tr("lib", f("hook.sh", 0o755), d("lib", f("not-a-hook", 0o755)))),
		// a hook whose --config run cannot even be started (missing interpreter, not an executable format)
		withInit(tr("hooks", f("10-good", 0o755), d("nested", f("20-broken", 0o755), f("30-good", 0o755))), Beh{Path: "nested/20-broken", Code: 1, Variant: 3}),
		withInit(tr("hooks", f("a", 0o755), f("b", 0o755)), Beh{Path: "a", Code: 1, Variant: 4}),
		// walk order differs from the lexical order of the paths: a/b is visited before a.sh
		withInit(tr("hooks", d("a", f("b", 0o755)), f("a.sh", 0o755), f("a-b", 0o755))),
		// the conditions of the statement one by one
		tr("hooks", f("x.json.sh", 0o755), f("a.yaml", 0o755), f("b.txt", 0o755), f("c.md", 0o755), f("a.json", 0o755),
			f(".hidden", 0o755), f("yaml", 0o755), f("b.", 0o755), f("c.mdx", 0o755), f("d.YAML", 0o755)),
		tr("hooks", d("lib", f("x", 0o755)), d("sub", d("lib", f("y", 0o755)), d(".hid", f("z", 0o755)), f("libx", 0o755)),
			d("libx", f("w", 0o755), f("lib", 0o755)), d(".h", d("deep", f("v", 0o755))), d("x.yaml.d", f("u", 0o755))),
		tr("hooks", f("m100", 0o100), f("m010", 0o010), f("m001", 0o001), f("m644", 0o644), f("m600", 0o600), f("m666", 0o666)),
		// name collisions across directories
		tr("hooks", d("a", f("hook.sh", 0o755), d("a", f("hook.sh", 0o755))), d("b", f("hook.sh", 0o644)), f("hook.sh", 0o755)),
		// --config round: first / middle hook misbehaves
		withInit(tr("hooks", f("a", 0o755), f("b", 0o755), f("c", 0o755)), Beh{Path: "a", Code: 1}),
		withInit(tr("hooks", f("a", 0o755), f("b", 0o755), f("c", 0o755)), Beh{Path: "b", Code: 2, Variant: 1}),
		withInit(tr("hooks", f("a", 0o755), d("s", f("b", 0o755)), f("c", 0o755), d("lib", f("z", 0o755))),
			Beh{Path: "s/b", Code: 1, Variant: 1}, Beh{Path: "c", Code: 2}, Beh{Path: "lib/z", Code: 1}),
		withInit(tr("hooks", f("a", 0o755), f("b.txt", 0o755), f("c", 0o644)), Beh{Path: "b.txt", Code: 1}, Beh{Path: "c", Code: 2}),
	}
}

// exhaustive small scope: every forest with at most maxNodes nodes over a small pool
var exNames = []string{".h", "a", "a.md", "lib"}

type leafKind struct {
	dir  bool
	mode int
}

func exForests(budget, minName int) [][]Node {
	res := [][]Node{nil}
	if budget == 0 {
		return res
	}
	for ni := minName; ni < len(exNames); ni++ {
		// files
		for _, m := range []int{0o644, 0o755} {
			for _, rest := range exForests(budget-1, ni+1) {
				res = append(res, append([]Node{f(exNames[ni], m)}, rest...))
			}
		}
		// directories with s nodes inside
		for s := 0; s <= budget-1; s++ {
			for _, sub := range exForestsExact(s, 0) {
				for _, rest := range exForests(budget-1-s, ni+1) {
					res = append(res, append([]Node{d(exNames[ni], sub...)}, rest...))
				}
			}
		}
	}
	return res
}

func size(ns []Node) int {
	k := 0
	for _, n := range ns {
		k += 1 + size(n.Children)
	}
	return k
}

func exForestsExact(n, minName int) [][]Node {
	var out [][]Node
	for _, fo := range exForests(n, minName) {
		if size(fo) == n {
			out = append(out, fo)
		}
	}
	return out
}

func Gen(r *core.Rng, tier string) ([]core.In[Input], bool) {
	var ins []core.In[Input]
	for _, c := range Corpus() {
		ins = append(ins, core.In[Input]{Input: c, Stream: "corpus"})
	}
	g := &gen{r: r}
	nTrees, nInit, nNested := 150, 30, 60
	nKinds := 70
	nConfigs := 60
	sysRoots, sysKs, sysReps := []string{"hooks"}, chainLens, 2
	nNames, seps, exLen := 120, sepQuick, 4
	switch tier {
	case "thorough":
		nTrees, nInit, nNested = 5000, 600, 3000
		nKinds = 4000
		nConfigs = 4000
		sysRoots, sysKs, sysReps = []string{"hooks", "h", "lib", ".h"}, []int{1, 2, 3, 4, 5, 6, 99}, 3
		nNames, seps, exLen = 8000, sepThorough(), 5
	case "search":
		nTrees, nInit, nNested = 1500, 150, 800
		nKinds = 1500
		nConfigs = 1500
		sysReps = 3
		nNames = 1500
	}
	for _, c := range nestedSystematic(sysRoots, sysKs, sysReps) {
		ins = append(ins, core.In[Input]{Input: c, Stream: "nested-systematic"})
	}
	for i := 0; i < nInit; i++ {
		ins = append(ins, core.In[Input]{Input: g.initCase(), Stream: "init"})
	}
	for i := 0; i < nTrees; i++ {
		ins = append(ins, core.In[Input]{Input: g.tree(), Stream: "random"})
	}
	// after the older streams, so that those draw the same cases from the seed as before
	for i := 0; i < nNested; i++ {
		ins = append(ins, core.In[Input]{Input: g.nestedRandom(), Stream: "nested-random"})
	}
	// the file-name rule (after the older streams, see above): systematic families around every excluded
	// extension, every name over a small alphabet, random names
	for _, c := range namesSystematic(seps, namesPerDir) {
		ins = append(ins, core.In[Input]{Input: c, Stream: "names-systematic"})
	}
	for _, c := range flatCases(exhaustiveNames(".mdx", exLen), namesPerDir, true) {
		ins = append(ins, core.In[Input]{Input: c, Stream: "names-exhaustive"})
	}
	if tier == "thorough" {
		for _, c := range flatCases(exhaustiveNames(".txa", exLen), namesPerDir, true) {
			ins = append(ins, core.In[Input]{Input: c, Stream: "names-exhaustive"})
		}
		for _, alphabet := range []string{".jsonx", ".yamlx"} {
			for _, c := range flatCases(exhaustiveNames(alphabet, exLen), namesPerDir, false) {
				ins = append(ins, core.In[Input]{Input: c, Stream: "names-exhaustive"})
			}
		}
	}
	for i := 0; i < nNames; i++ {
		ins = append(ins, core.In[Input]{Input: g.namesRandom(), Stream: "names-random"})
	}
	// entry kinds (after the older streams, see above): symbolic links and FIFOs in every position
	for _, c := range kindsSystematic(tier == "thorough") {
		ins = append(ins, core.In[Input]{Input: c, Stream: "kinds-systematic"})
	}
	for i := 0; i < nKinds; i++ {
		ins = append(ins, core.In[Input]{Input: g.kindsRandom(), Stream: "kinds-random"})
	}
	// configuration shapes (after the older streams, see above)
	for _, c := range configsSystematic(tier == "thorough") {
		ins = append(ins, core.In[Input]{Input: c, Stream: "configs-systematic"})
	}
	for i := 0; i < nConfigs; i++ {
		ins = append(ins, core.In[Input]{Input: g.configsRandom(), Stream: "configs-random"})
	}
	if tier == "thorough" || tier == "search" {
		maxNodes := 4
		if tier == "search" {
			maxNodes = 3
		}
		for _, root := range []string{"hooks", "lib"} {
			for _, fo := range exForests(maxNodes, 0) {
				ins = append(ins, core.In[Input]{Input: Input{Root: root, Nodes: fo}, Stream: "exhaustive"})
			}
		}
	}
	return ins, false
}

// files per directory in the flat name cases (the shrinker removes one entry at a time: keep it short)
const namesPerDir = 10

func Extra() map[string]any {
	return map[string]any{
		"names_scope": "names-systematic: for each of yaml, json, md, txt the family of names around the extension (bare letters, with the dot, prefixes, suffixes, case variants, near misses, one character out of " + strings.Join(sepQuick, "") + " (thorough: every printable ASCII character but / ' \\ and three non-ASCII letters) in place of / in front of / behind the dot and behind the extension, double extensions, look-alike words) in flat directories of " + fmt.Sprint(namesPerDir) + " files 0755 + two controls, all through Init; placement cases: the names below sub, lib, hidden directories and directories that carry the extension in their own name, 4 scenarios; names-exhaustive: every name of length <= 4 (thorough: 5) over the alphabet .mdx (thorough also .txa with Init, .jsonx and .yamlx discovery only); names-random: 4-9 names over the alphabet '" + randomAlphabet + "' (60% built as <0-3 chars><one char or the dot><letters of an extension, possibly upper/mixed case or one letter short>[<1-2 chars>]), a sub-directory in 40%, Init in 2 of 3",
		"family_sizes": func() map[string]int {
			m := map[string]int{}
			for _, l := range extLetters {
				m[l] = len(nameFamily(l, sepQuick))
			}
			return m
		}(),
		"kinds_scope":   kindsScope,
		"configs_scope": configsScope,
		"config_shapes": func() []string {
			var out []string
			for k, sh := range shapes {
				out = append(out, fmt.Sprintf("%d %s: %s", k, sh.label, sh.text))
			}
			return out
		}(),
		"nested_scope":     "nested-systematic: [mod/](<chain>/){1..reps}{b.sh,start.sh} + a file x per level + siblings named like the paths with the chain cut out; <chain> = the last k elements of the hooks directory's own absolute path, k in 1,2,3,whole (thorough: 1..6,whole; roots hooks,h,lib,.h; reps <= 3), 4 scenarios each (discovery, Init ok, Init with the innermost hook invalid, Init with the glued sibling failing); nested-random: 1-3 chains at random places of a random forest",
		"exhaustive_scope": "thorough: every forest with <= 4 nodes (files 0644/0755, directories) over the names " + strings.Join(exNames, ",") + " with sibling names distinct, under the roots hooks and lib",
		"name_pool":        namePool,
		"mode_pool":        fmt.Sprintf("%o", modePool),
		"root_pool":        func() []string { s := append([]string{}, rootPool...); sort.Strings(s); return s }(),
	}
}

var Driver = core.Driver[Input, Observation]{
	Spec: core.Spec{Property: "C20", Imports: []string{"C20_Model", "C20_Spec", "C20_Corr"}, Corr: "C20_Corr", Triggers: nil, ShrinkKey: "nodes",
		Rule: "configuration shapes: what a hook answers to --config (no binding at all, one binding of each kind alone, several, v0 and v1, JSON and YAML) at every position of the tree and of the load order, GetHooksInOrder read for every binding type (streams configs-systematic, configs-random; C20_Spec.P_hook_set judges GetHookNames / GetHook against the discovery whatever the configurations declare); entry kinds: real symbolic links and FIFOs on disk in every position (top level, nested, below lib and hidden directories) pointing to scripts below lib / hidden directories / next to them / out of the tree, to directories, to nothing, to files without execute bits, to other links (streams kinds-systematic, kinds-random; what each link resolves to is checked with os.Stat; every entry judged by kind by C20_Spec.PX_kinds); directory trees created on disk (depth <= 4, names from a pool with lib, hidden names, excluded and near-excluded extensions, collisions across directories, 13 modes, hooks directory itself named lib/hidden in ~40%); trees in which the hooks directory's own path (last element, trailing elements, whole absolute path) occurs again below it, once or several times, with siblings named like a cut path (streams nested-systematic, nested-random); by-name index looked up after every Init run (GetHook for every loaded name and for the relative path of every discovered file); file names around every excluded extension, character by character (streams names-systematic, names-exhaustive, names-random; every file of every tree judged one by one by C20_Spec.P_files); streams: corpus, random (RecursiveGetExecutablePaths only), init (real hook.Manager.Init on bash scripts that log their --config invocation; 65% of them with misbehaving files), exhaustive (thorough); non-trivial = at least one hook discovered and at least one file left out; distinct = distinct input term"},
	Gen: Gen, Run: Run, Render: Render, PerShard: 30, Workers: 8, CaseTimout: 30 * time.Second, Extra: Extra,
}
