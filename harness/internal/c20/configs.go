package c20

// Configuration shapes (seeded change C20-8): WHAT a hook answers to --config, as long as the answer is a
// valid configuration, must not matter for its membership in the hook set.  A Beh entry with Code 0 selects
// the shape the generated script prints; towards Coq the shape travels in the --config code of the file
// (10 + shape; C20_Model.shape_of_code), so that a symbolic link to a script with a binding-less
// configuration is covered as well.

import (
	"fmt"
	"sort"
	"strings"

	htypes "github.com/flant/shell-operator/pkg/hook/types"
)

// the binding types in the order of config.validBindingTypes (what HookConfig.Bindings() iterates over)
var bindingTypes = []htypes.BindingType{htypes.OnStartup, htypes.Schedule, htypes.OnKubernetesEvent,
	htypes.KubernetesValidating, htypes.KubernetesMutating, htypes.KubernetesConversion}

const (
	bStartup = 1 << iota
	bSchedule
	bKube
	bValidating
	bMutating
	bConversion
)

type shape struct {
	label string
	decl  int // the binding kinds the configuration declares (documentation and tags only; Coq has its own table)
	text  string
}

const (
	tSchedule   = `"schedule":[{"name":"every-minute","crontab":"* * * * *"}]`
	tKube       = `"kubernetes":[{"name":"pods","kind":"Pod"}]`
	tValidating = `"kubernetesValidating":[{"name":"policy.example.com","rules":[{"apiGroups":[""],"apiVersions":["v1"],"operations":["CREATE"],"resources":["pods"],"scope":"Namespaced"}]}]`
	tMutating   = `"kubernetesMutating":[{"name":"mutate.example.com","rules":[{"apiGroups":[""],"apiVersions":["v1"],"operations":["CREATE"],"resources":["pods"],"scope":"Namespaced"}]}]`
	tConversion = `"kubernetesCustomResourceConversion":[{"name":"up","crdName":"crontabs.stable.example.com","conversions":[{"fromVersion":"alpha","toVersion":"beta"}]}]`
	tSettings   = `"settings":{"executionMinInterval":"1s","executionBurst":1}`
)

// The table is append-only: the index is the shape number recorded in replay files and known to
// C20_Model.shape_bindings.
var shapes = []shape{
	0:  {"v1-onStartup", bStartup, validConfig},
	1:  {"v1-settings-only", 0, `{"configVersion":"v1",` + tSettings + `}`},
	2:  {"v0-empty-schedule", 0, `{"schedule":[]}`},
	3:  {"v0-empty-onKubernetesEvent", 0, `{"onKubernetesEvent":[]}`},
	4:  {"v0-every-list-empty", 0, `{"schedule":[],"onKubernetesEvent":[]}`},
	5:  {"v1-schedule", bSchedule, `{"configVersion":"v1",` + tSchedule + `}`},
	6:  {"v1-kubernetes", bKube, `{"configVersion":"v1",` + tKube + `}`},
	7:  {"v1-validating", bValidating, `{"configVersion":"v1",` + tValidating + `}`},
	8:  {"v1-mutating", bMutating, `{"configVersion":"v1",` + tMutating + `}`},
	9:  {"v1-conversion", bConversion, `{"configVersion":"v1",` + tConversion + `}`},
	10: {"v1-startup-schedule-kubernetes", bStartup | bSchedule | bKube, `{"configVersion":"v1","onStartup":1,` + tSchedule + `,` + tKube + `}`},
	11: {"v1-all-six", bStartup | bSchedule | bKube | bValidating | bMutating | bConversion,
		`{"configVersion":"v1","onStartup":1,` + tSettings + `,` + tSchedule + `,` + tKube + `,` + tValidating + `,` + tMutating + `,` + tConversion + `}`},
	12: {"v0-onStartup", bStartup, `{"onStartup":1}`},
	13: {"v0-startup-schedule-kube", bStartup | bSchedule | bKube, `{"onStartup":1,"schedule":[{"name":"m","crontab":"* * * * *"}],"onKubernetesEvent":[{"kind":"pod"}]}`},
	14: {"v1-settings-and-onStartup", bStartup, `{"configVersion":"v1","onStartup":1,` + tSettings + `}`},
	15: {"v1-yaml-settings-only", 0, "configVersion: v1\nsettings:\n  executionMinInterval: 3s\n  executionBurst: 2\n"},
	16: {"v1-yaml-schedule-kubernetes", bSchedule | bKube, "configVersion: v1\nschedule:\n- crontab: \"*/5 * * * *\"\nkubernetes:\n- kind: ConfigMap\n  apiVersion: v1\n"},
}

// shapes without any binding, one binding alone, several
var (
	shapesNoBinding = []int{1, 2, 3, 4, 15}
	shapesAll       = func() []int {
		var s []int
		for k := range shapes {
			s = append(s, k)
		}
		return s
	}()
)

// invalid configurations that declare nothing (Code 2, Variant 100+k): only these abort Init
var invalidEmptyConfigs = []string{
	`{"configVersion":"v1"}`,
	`{"configVersion":"v1","kubernetes":[]}`,
	`{"configVersion":"v1","schedule":[]}`,
	`{"configVersion":"v1","settings":{"executionBurst":"many"}}`,
	// settings with executionBurst alone: passes the schema, rejected by the conversion (empty duration)
	"configVersion: v1\nsettings:\n  executionBurst: 2\n",
}

func shapeText(k int) string {
	if k < 0 || k >= len(shapes) {
		k = 0
	}
	return shapes[k].text
}

// coqCode: the --config code of a file as C20_Spec / C20_Model read it: 1 = the run fails, 2 = invalid
// configuration, 10+k = valid configuration of shape k (0 and 10 are the same: the default shape)
func (b Beh) coqCode() int {
	if b.Code == 0 {
		if b.Shape < 0 || b.Shape >= len(shapes) {
			return 10
		}
		return 10 + b.Shape
	}
	return b.Code
}

func printConfig(text string) string { return "cat <<'VERIF_EOF'\n" + text + "\nVERIF_EOF\n" }

// ---- generation ----

func shaped(path string, k int) Beh { return Beh{Path: path, Shape: k} }

// the trees of the systematic stream: where the hook under test stands among the discovered files and in
// the walk order (first, last, only hook, in a sub-directory, between, before a sibling that sorts between
// "<dir>" and "<dir>/")
var configPositions = []struct {
	label string
	nodes func() []Node
	at    string   // the hook under test
	rest  []string // the other hooks
}{
	{"only", func() []Node { return []Node{f("only.sh", 0o755), f("notes.txt", 0o755), d("lib", f("x.sh", 0o755))} }, "only.sh", nil},
	{"first", func() []Node { return []Node{f("001-a.sh", 0o755), f("002-b.sh", 0o755), f("003-c.sh", 0o755)} }, "001-a.sh", []string{"002-b.sh", "003-c.sh"}},
	{"middle", func() []Node { return []Node{f("001-a.sh", 0o755), f("002-b.sh", 0o755), f("003-c.sh", 0o755)} }, "002-b.sh", []string{"001-a.sh", "003-c.sh"}},
	{"last", func() []Node { return []Node{f("001-a.sh", 0o755), f("002-b.sh", 0o755), f("003-c.sh", 0o755)} }, "003-c.sh", []string{"001-a.sh", "002-b.sh"}},
	{"subdir", func() []Node {
		return []Node{f("001-a.sh", 0o755), d("sub", f("idle.sh", 0o755), f("readme.md", 0o644)), f("zzz.sh", 0o755)}
	}, "sub/idle.sh", []string{"001-a.sh", "zzz.sh"}},
	{"deep-only", func() []Node { return []Node{d("a", d("b", f("h", 0o711))), d(".hid", f("x.sh", 0o755))} }, "a/b/h", nil},
	{"walk-order", func() []Node { return []Node{d("a", f("b", 0o755)), f("a.sh", 0o755), f("a-b", 0o755)} }, "a/b", []string{"a.sh", "a-b"}},
}

func configsSystematic(thorough bool) []Input {
	var out []Input
	for _, pos := range configPositions {
		for k := range shapes {
			// the hook under test answers with shape k, the others with the default configuration
			out = append(out, Input{Root: "hooks", Init: true, Nodes: pos.nodes(), Beh: []Beh{shaped(pos.at, k)}})
		}
		// every hook of the tree without a binding; the others without a binding and the one under test with several
		for _, k := range shapesNoBinding {
			all := []Beh{shaped(pos.at, k)}
			for j, r := range pos.rest {
				all = append(all, shaped(r, shapesNoBinding[(j+k)%len(shapesNoBinding)]))
			}
			out = append(out, Input{Root: "hooks", Init: true, Nodes: pos.nodes(), Beh: all})
			if !thorough {
				break
			}
		}
		if len(pos.rest) > 0 {
			inv := []Beh{shaped(pos.at, 10)}
			for _, r := range pos.rest {
				inv = append(inv, shaped(r, 1))
			}
			out = append(out, Input{Root: "hooks", Init: true, Nodes: pos.nodes(), Beh: inv})
		}
		// only an INVALID configuration aborts Init: the hook under test prints an invalid configuration that declares
		// nothing, the others valid ones without a binding
		for v := range invalidEmptyConfigs {
			bad := []Beh{{Path: pos.at, Code: 2, Variant: 100 + v}}
			for _, r := range pos.rest {
				bad = append(bad, shaped(r, 1+v%2))
			}
			out = append(out, Input{Root: "hooks", Init: true, Nodes: pos.nodes(), Beh: bad})
			if !thorough {
				break
			}
		}
	}
	// a symbolic link to a script whose configuration declares nothing: a hook in its own right
	for _, k := range []int{1, 2, 10} {
		out = append(out, Input{Root: "hooks", Init: true,
			Nodes: []Node{l("001-linked.sh", "lib/multicall.sh"), f("002-b.sh", 0o755), d("lib", f("multicall.sh", 0o755))},
			Beh:   []Beh{shaped("lib/multicall.sh", k)}})
	}
	out = append(out, Input{Root: "hooks", Init: true, Nodes: []Node{f("001-a.sh", 0o755), l("out.sh", "^/nobind.sh")}})
	return out
}

// configsRandom: a random forest (most files executable) through Init; every file gets a random shape - a
// binding-less one in 45% - and in 25% of the cases one file misbehaves.
func (g *gen) configsRandom() Input {
	in := Input{Root: rootPool[g.r.Intn(len(rootPool))], Init: true}
	in.Nodes = g.forest(1, 2+g.r.Intn(3), g.r.Chance(60))
	var fix func(ns []Node)
	fix = func(ns []Node) {
		for k := range ns {
			if ns[k].Dir {
				fix(ns[k].Children)
			} else if g.r.Chance(70) {
				ns[k].Mode = 0o755
			}
		}
	}
	fix(in.Nodes)
	if g.r.Chance(30) {
		in.Nodes = insertAt(in.Nodes, "", l("010-l.sh", "lib/multicall.sh"))
		if findChild(in.Nodes, "lib") == nil {
			in.Nodes = append(in.Nodes, d("lib", f("multicall.sh", 0o755)))
		} else if n := findChild(in.Nodes, "lib"); n.Dir && findChild(n.Children, "multicall.sh") == nil {
			n.Children = append(n.Children, f("multicall.sh", 0o755))
		}
	}
	var fs []string
	allFiles(in.Nodes, "", &fs)
	noneRate := []int{45, 100, 10}[g.r.Intn(3)]
	for _, p := range fs {
		if n, _ := lookup(in.Nodes, strings.Split(p, "/"), 0); n == nil || n.Kind != "" {
			continue
		}
		switch {
		case g.r.Chance(noneRate):
			in.Beh = append(in.Beh, shaped(p, shapesNoBinding[g.r.Intn(len(shapesNoBinding))]))
		case g.r.Chance(85):
			in.Beh = append(in.Beh, shaped(p, shapesAll[g.r.Intn(len(shapesAll))]))
		}
	}
	if g.r.Chance(25) && len(in.Beh) > 0 {
		k := g.r.Intn(len(in.Beh))
		if g.r.Chance(50) {
			in.Beh[k] = Beh{Path: in.Beh[k].Path, Code: 2, Variant: 100 + g.r.Intn(len(invalidEmptyConfigs))}
		} else {
			in.Beh[k] = Beh{Path: in.Beh[k].Path, Code: 1 + g.r.Intn(2), Variant: g.r.Intn(12)}
		}
	}
	return in
}

// configsCorpus: the layout of the demonstration (a hook that prints its bindings only when a feature is
// switched on), and the two binding-less shapes alone
func configsCorpus() []Input {
	return []Input{
		withInit(tr("hooks", f("001-startup.sh", 0o755), d("sub", f("idle.sh", 0o755)), f("zzz-schedule.sh", 0o755)),
			shaped("sub/idle.sh", 1), shaped("zzz-schedule.sh", 5)),
		withInit(tr("hooks", f("a", 0o755)), shaped("a", 2)),
		withInit(tr("lib", f("a", 0o755), f("b", 0o755)), shaped("a", 1), shaped("b", 15)),
	}
}

func configTags(beh []Beh, names []string) []string {
	acc := map[string]bool{}
	nonDefault, none := 0, 0
	for _, b := range beh {
		if b.Code != 0 {
			if b.Code == 2 && b.Variant >= 100 {
				acc["config:invalid-without-binding"] = true
			}
			continue
		}
		k := b.Shape
		if k < 0 || k >= len(shapes) {
			k = 0
		}
		if k != 0 {
			nonDefault++
		}
		isHook := false
		for _, n := range names {
			if n == b.Path {
				isHook = true
			}
		}
		if !isHook {
			continue
		}
		acc["config:"+shapes[k].label] = true
		if shapes[k].decl == 0 {
			none++
			switch {
			case len(names) == 1:
				acc["config:no-binding-only-hook"] = true
			case names[0] == b.Path:
				acc["config:no-binding-first"] = true
			case names[len(names)-1] == b.Path:
				acc["config:no-binding-last"] = true
			default:
				acc["config:no-binding-between"] = true
			}
			if strings.Contains(b.Path, "/") {
				acc["config:no-binding-in-subdir"] = true
			}
		}
	}
	if none > 0 && none == len(names) {
		acc["config:no-hook-has-a-binding"] = true
	}
	if nonDefault > 0 {
		if nonDefault > 6 {
			nonDefault = 6
		}
		acc[fmt.Sprintf("config-shaped:%d", nonDefault)] = true
	}
	var out []string
	for k := range acc {
		out = append(out, k)
	}
	sort.Strings(out)
	return out
}

const configsScope = "configs-systematic: 7 positions of the hook under test (only hook, first, middle, last of three, in a sub-directory, alone three levels down, in a directory that the walk visits before a sibling that sorts in front of it) x every configuration shape of the table (no binding at all: v1 configVersion+settings in JSON and YAML, v0 with empty schedule / onKubernetesEvent lists / both; one binding of each of the six kinds alone; several; all six; v0 forms), the others printing the default; every hook of the tree binding-less; the others binding-less and the one under test with bindings; an INVALID configuration that declares nothing (configVersion alone, empty v1 lists, a wrong settings type) at each position; a symbolic link to a binding-less script below lib and out of the tree; configs-random: a random forest through Init, every file with a random shape (binding-less in 10% / 45% / 100% of the files), a link to lib/multicall.sh in 30%, one misbehaving file in 25%.  After every Init run GetHooksInOrder is read for each of the six binding types and compared with the model's binding index."
