// names.go: the FILE-NAME rule of C20, character by character (seeded change C20-6).
//
// "whose name neither starts with a dot nor ends in .yaml, .json, .md or .txt": the generators of this file
// put file names AROUND every excluded extension into real hooks directories - the bare letters with and
// without the dot, with one arbitrary character in place of the dot, prefixes, suffixes, case variants,
// double extensions, near misses, the interplay with hidden names and lib - systematically (nameFamily),
// exhaustively over a four-letter alphabet (exhaustiveNames) and at random over an alphabet made of the
// extension letters, the dot and a few other characters (randomName).  Every case is a directory tree run
// through the real RecursiveGetExecutablePaths and (streams names-*, most cases) the real hook.Manager.Init;
// Coq judges every file of the tree one by one (C20_Spec.P_files) besides the model comparison.
package c20

import (
	"sort"
	"strings"
)

// the letters of the excluded extensions
var extLetters = []string{"yaml", "json", "md", "txt"}

// characters put in place of the dot, in front of and behind an extension.  No '/', no NUL (not part of a
// file name), no '\'' and no newline (the harness quotes paths with ' in its scripts and reads its log by lines).
var sepQuick = []string{"-", "_", "x", "c", "e", "0", " ", ",", "~", ":", "+", "é", "Y", "@", "#", "%", "="}

func sepThorough() []string {
	var out []string
	for c := 0x20; c <= 0x7e; c++ {
		if c == '/' || c == '\'' || c == '\\' || c == '.' {
			continue
		}
		out = append(out, string(rune(c)))
	}
	return append(out, "é", "я", "名")
}

func title(s string) string { return strings.ToUpper(s[:1]) + s[1:] }

// mixed case: every second letter upper-case
func mixed(s string) string {
	b := []byte(s)
	for i := 1; i < len(b); i += 2 {
		b[i] = strings.ToUpper(string(b[i]))[0]
	}
	return string(b)
}

// look-alike extensions and words per extension
var lookAlikes = map[string][]string{
	"yaml": {"a.yml", "a.yaml2", "a.yam", "a.aml", "a.yamll", "values.yaml", "dump-yaml", "xyaml"},
	"json": {"a.jsonl", "a.json5", "a.js", "a.jso", "a.son", "a.jsonn", "schema.json", "to_json", "bjson"},
	"md":   {"a.markdown", "a.mdx", "a.md5", "a.cmd", "cmd", "a.m", "a.d", "a.mdd", "README.md", "001-restart-systemd", "amd"},
	"txt":  {"a.text", "a.tx", "a.xt", "a.txtt", "a.txt~", "notes.txt", "ctxt", "a.TXT"},
}

// nameFamily: the names around the extension with the letters l, in a fixed order.
func nameFamily(l string, seps []string) []string {
	L := strings.ToUpper(l)
	out := []string{
		// the bare letters, with the dot, the usual form
		l, "." + l, "a." + l, "A." + l, "a-b." + l, "0." + l,
		// prefixes
		"x" + l, "to_" + l, "dump-" + l, "lib" + l, "lib." + l, "a.b." + l, "a.." + l, ".a." + l, "a.sh." + l, ".." + l, "a ." + l,
		// suffixes
		"a." + l + "x", "a." + l + ".", "a." + l + ".sh", "a." + l + "~", "a." + l + ".bak", l + ".", l + ".sh", "." + l + ".sh",
		"a." + l + l, "a." + l + " ", "a." + l + "-", "a." + l + "_1",
		// case variants
		"a." + L, "a." + title(l), "a." + mixed(l), L, "x" + L, strings.ToUpper("a."+l), "a." + l[:1] + strings.ToUpper(l[1:]),
		// near misses: a letter missing, a letter doubled
		"a." + l[:len(l)-1], "a." + l[1:], "a." + l + l[len(l)-1:], "a." + l[:1] + l, "a" + l[:1] + "." + l[1:],
	}
	// one arbitrary character in place of the dot, in front of the dot, behind the dot, behind the extension
	for _, c := range seps {
		out = append(out, "a"+c+l, c+l, "a."+c+l, "a"+c+"."+l, "a."+l+c, c+"."+l)
	}
	// double extensions
	for _, l2 := range extLetters {
		out = append(out, "a."+l+"."+l2, "a"+l+"."+l2, "a."+l+l2, "a."+l+"-"+l2)
	}
	out = append(out, lookAlikes[l]...)
	return dedupNames(out)
}

func validName(n string) bool {
	return n != "" && n != "." && n != ".." && !strings.ContainsAny(n, "/\x00'\n\\") && len(n) <= 200 && !placeholder.MatchString(n)
}

func dedupNames(ns []string) []string {
	seen := map[string]bool{}
	var out []string
	for _, n := range ns {
		if !validName(n) || seen[n] {
			continue
		}
		seen[n] = true
		out = append(out, n)
	}
	return out
}

// flatCases: the names in directories of at most per files (all 0755) plus two controls - an ordinary hook
// and a file without an execute bit - so that something is discovered and something is left out in every case.
func flatCases(names []string, per int, init bool) []Input {
	var out []Input
	for at := 0; at < len(names); at += per {
		end := at + per
		if end > len(names) {
			end = len(names)
		}
		var nodes []Node
		has := map[string]bool{}
		for _, n := range names[at:end] {
			nodes = append(nodes, f(n, 0o755))
			has[n] = true
		}
		if !has["hook.sh"] {
			nodes = append(nodes, f("hook.sh", 0o755))
		}
		if !has["plain"] {
			nodes = append(nodes, f("plain", 0o644))
		}
		in := tr("hooks", nodes...)
		if init {
			in = withInit(in)
		}
		out = append(out, in)
	}
	return out
}

// placementCase: the names of one extension below ordinary, lib, hidden directories and below directories
// that carry the extension (or its letters) in their OWN name - a directory is left out only when it is
// hidden or named lib, never for its extension.
func placementCase(l string, scenario int) Input {
	leaf := func() []Node {
		return []Node{f("a."+l, 0o755), f("a-"+l, 0o755), f(l, 0o755), f("."+l, 0o755), f("run", 0o755), f("a."+strings.ToUpper(l), 0o755)}
	}
	in := tr("hooks",
		d("sub", leaf()...),
		d("lib", leaf()...),
		d(".hid", leaf()...),
		d("a."+l, leaf()...),
		d(l, leaf()...),
		d("."+l, leaf()...),
		d("x"+l, d("lib", f("a-"+l, 0o755)), d("lib."+l, f("a_"+l, 0o755), f("b."+l, 0o755))),
		f("lib."+l, 0o755), f("lib-"+l, 0o755), f("a."+l+".sh", 0o644),
	)
	switch scenario {
	case 1:
		in = withInit(in)
	case 2:
		in = withInit(in, Beh{Path: "sub/a-" + l, Code: 1}, Beh{Path: "sub/a." + l, Code: 1}) // the second one is never run
	case 3:
		in = withInit(in, Beh{Path: l + "/" + l, Code: 2, Variant: 1}, Beh{Path: "lib/" + l, Code: 1})
	}
	return in
}

// namesSystematic: the families of the four extensions in flat directories (Init run), and the placement cases.
func namesSystematic(seps []string, per int) []Input {
	var out []Input
	for _, l := range extLetters {
		out = append(out, flatCases(nameFamily(l, seps), per, true)...)
	}
	for _, l := range extLetters {
		for sc := 0; sc < 4; sc++ {
			out = append(out, placementCase(l, sc))
		}
	}
	return out
}

// exhaustiveNames: every name of length 1..maxLen over the alphabet (minus "." and "..").
func exhaustiveNames(alphabet string, maxLen int) []string {
	var out []string
	level := []string{""}
	for k := 1; k <= maxLen; k++ {
		var next []string
		for _, p := range level {
			for _, c := range alphabet {
				next = append(next, p+string(c))
			}
		}
		out = append(out, next...)
		level = next
	}
	return dedupNames(out)
}

// ---- random names ----

// the letters of the extensions, the dot (heavy), a few other characters
const randomAlphabet = "yamljsondtx...-_AMDLN 0é"

var randomRunes = []rune(randomAlphabet)

func (g *gen) randomChars(n int) string {
	var b strings.Builder
	for i := 0; i < n; i++ {
		b.WriteRune(randomRunes[g.r.Intn(len(randomRunes))])
	}
	return b.String()
}

func (g *gen) randomName() string {
	for {
		var n string
		switch {
		case g.r.Chance(60):
			// something, one character where the dot belongs, the letters of an extension (or nearly), maybe more
			l := extLetters[g.r.Intn(len(extLetters))]
			switch g.r.Intn(8) {
			case 0:
				l = strings.ToUpper(l)
			case 1:
				l = mixed(l)
			case 2:
				l = l[:len(l)-1]
			case 3:
				l = l[1:]
			}
			sep := "."
			if g.r.Chance(60) {
				sep = g.randomChars(1)
			}
			if g.r.Chance(8) {
				sep = ""
			}
			n = g.randomChars(g.r.Intn(4)) + sep + l
			if g.r.Chance(25) {
				n += g.randomChars(1 + g.r.Intn(2))
			}
		default:
			n = g.randomChars(1 + g.r.Intn(7))
		}
		if validName(n) {
			return n
		}
	}
}

func (g *gen) randomFiles(n int, used map[string]bool) []Node {
	var out []Node
	for tries := 0; len(out) < n && tries < 4*n+8; tries++ {
		name := g.randomName()
		if used[name] {
			continue
		}
		used[name] = true
		mode := 0o755
		if g.r.Chance(15) {
			mode = modePool[g.r.Intn(len(modePool))]
		}
		out = append(out, f(name, mode))
	}
	return out
}

// namesRandom: 4-9 random names directly in the hooks directory, sometimes a directory (ordinary, lib, hidden,
// or itself randomly named) with 2-4 more; Init in two cases of three, a misbehaving file now and then.
func (g *gen) namesRandom() Input {
	in := Input{Root: "hooks"}
	if g.r.Chance(15) {
		in.Root = rootPool[g.r.Intn(len(rootPool))]
	}
	used := map[string]bool{}
	in.Nodes = g.randomFiles(4+g.r.Intn(6), used)
	if g.r.Chance(40) {
		dir := []string{"sub", "lib", ".h", ""}[g.r.Intn(4)]
		if dir == "" {
			dir = g.randomName()
		}
		if !used[dir] {
			used[dir] = true
			in.Nodes = append(in.Nodes, d(dir, g.randomFiles(2+g.r.Intn(3), map[string]bool{})...))
		}
	}
	if g.r.Chance(66) {
		in.Init = true
		if g.r.Chance(30) {
			var fs []string
			allFiles(in.Nodes, "", &fs)
			for _, p := range fs {
				if g.r.Chance(15) {
					in.Beh = append(in.Beh, Beh{Path: p, Code: 1 + g.r.Intn(2), Variant: g.r.Intn(3)})
				}
			}
		}
	}
	return in
}

// ---- tags: where a case sits relative to the rule ----

func extOf(name string) string {
	if i := strings.LastIndex(name, "."); i >= 0 {
		return name[i:]
	}
	return ""
}

func isExcludedExt(e string) bool { return e == ".yaml" || e == ".json" || e == ".md" || e == ".txt" }

// nameKinds: the classes of names (of executable files) present in the tree
func nameKinds(ns []Node, acc map[string]bool) {
	for _, n := range ns {
		if n.Dir {
			e := extOf(n.Name)
			if isExcludedExt(e) && !strings.HasPrefix(n.Name, ".") {
				acc["name:dir-with-excluded-ext"] = true
			}
			nameKinds(n.Children, acc)
			continue
		}
		if n.Mode&0o111 == 0 {
			continue
		}
		e := extOf(n.Name)
		for _, l := range extLetters {
			switch {
			case n.Name == l:
				acc["name:bare-ext-letters"] = true
			case n.Name == "."+l:
				acc["name:hidden-ext-only"] = true
			case strings.HasSuffix(n.Name, l) && !strings.HasSuffix(n.Name, "."+l):
				acc["name:ext-letters-without-dot"] = true
			}
			if strings.Contains(n.Name, "."+l) && !isExcludedExt(e) {
				acc["name:ext-then-more"] = true
			}
			if strings.Contains(n.Name, "."+l+".") && isExcludedExt(e) {
				acc["name:double-ext"] = true
			}
		}
		if !isExcludedExt(e) && isExcludedExt(strings.ToLower(e)) {
			acc["name:ext-case-variant"] = true
		}
		if isExcludedExt(e) && strings.HasPrefix(n.Name, ".") {
			acc["name:hidden-with-excluded-ext"] = true
		}
		if e == "." {
			acc["name:trailing-dot"] = true
		}
	}
}

func nameTags(ns []Node) []string {
	acc := map[string]bool{}
	nameKinds(ns, acc)
	var out []string
	for k := range acc {
		out = append(out, k)
	}
	sort.Strings(out)
	return out
}

// namesCorpus: readable witnesses, first in the corpus.  The first one holds the names of the task statement.
func namesCorpus() []Input {
	return []Input{
		withInit(tr("hooks",
			f("a.yaml", 0o755), f("b.json", 0o755), f("README.md", 0o755), f("notes.txt", 0o755), f(".yaml", 0o755),
			f("yaml", 0o755), f("md", 0o755), f("a.YAML", 0o755), f("a.yaml.sh", 0o755), f("a.yamlx", 0o755), f("xyaml", 0o755),
			f("hook.sh", 0o755), f("001-restart-systemd", 0o755), f("ctxt", 0o755), f("dump-yaml", 0o755), f("to_json", 0o755), f("cmd", 0o755))),
		withInit(tr("hooks", d("export", f("ctxt", 0o755), f("dump-yaml", 0o755), f("to_json", 0o755), f("schema.json", 0o755), f("notes.txt", 0o755)),
			d("lib", f("cmd", 0o755)), d("conf.yaml", f("apply", 0o755), f("amd", 0o755)), f("values.yaml", 0o755), f("hook.sh", 0o755)),
			Beh{Path: "export/to_json", Code: 2}),
		tr("hooks", f("a.md", 0o755), f("a.md.", 0o755), f("a..md", 0o755), f(".a.md", 0o755), f("md.", 0o755), f("a.mdmd", 0o755), f("a md", 0o755), f("a. md", 0o755), f("a.md ", 0o755)),
	}
}
