package c20

// Entry kinds (seeded change C20-7): symbolic links and FIFOs as entries of the hooks directory.

import (
	"fmt"
	"os"
	"path/filepath"
	"sort"
	"strings"
)

const kindsScope = "kinds-systematic: a fixed tree (hooks at the top, below sub/, sub/deep/, lib/, .hid/, ..data/, sub/lib/) with, at each of the positions top, sub, sub/deep, lib, .hid, sub/lib: one discovery case holding a link to every target (script below lib, below ..data, below .hid, a sibling hook, files without execute bits, directories, nothing, scripts / a directory / nothing out of the tree, a link to a link, itself) under an ordinary name, links named l.yaml, .l and lib, FIFOs 0755 / 0644 / 0755 named p.md; and one Init case per target with the link as the only special entry (for script targets also with the target failing, printing an invalid configuration, being un-startable), plus an executable FIFO; kinds-random: a random forest with lib, .hid and sub added, 1-5 links / FIFOs at random places (name from the pool, also `lib`), 60% to a random entry of the tree (file, directory, earlier link), 25% out of the tree, 10% to nothing, 5% to itself; Init in 60%.  What every link resolves to is computed by the harness and checked against os.Stat on the real tree."

// what <tmp>/outside holds: name -> (kind, mode, --config code)
type outsideEntry struct {
	kind string
	mode int
	code int
}

var outsideEntries = map[string]outsideEntry{
	"ok.sh":      {"file", 0o755, 0},
	"fail.sh":    {"file", 0o755, 1},
	"invalid.sh": {"file", 0o755, 2},
	"noexec.sh":  {"file", 0o644, 0},
	"dir":        {"dir", 0, 0},
	"nobind.sh":  {"file", 0o755, 11}, // a valid configuration without any binding (shape 1)
}

func buildOutside(dir, logPath string) error {
	if err := os.Mkdir(dir, 0o755); err != nil {
		return err
	}
	for name, e := range outsideEntries {
		p := filepath.Join(dir, name)
		if e.kind == "dir" {
			if err := os.Mkdir(p, 0o755); err != nil {
				return err
			}
			continue
		}
		var b *Beh
		if e.code >= 10 {
			b = &Beh{Shape: e.code - 10}
		} else if e.code != 0 {
			b = &Beh{Code: e.code}
		}
		if err := os.WriteFile(p, []byte(script(logPath, b)), 0o600); err != nil {
			return err
		}
		if err := os.Chmod(p, os.FileMode(e.mode)); err != nil {
			return err
		}
	}
	return nil
}

func findChild(ns []Node, name string) *Node {
	for k := range ns {
		if ns[k].Name == name {
			return &ns[k]
		}
	}
	return nil
}

// lookup finds the entry at a path relative to the hooks directory, following links in the directory part
// (not the last element).  Returns nil when there is none; the second result is the path without links.
func lookup(root []Node, parts []string, hops int) (*Node, string) {
	cur := root
	var path []string
	for i, part := range parts {
		n := findChild(cur, part)
		if n == nil {
			return nil, ""
		}
		if i == len(parts)-1 {
			return n, strings.Join(append(path, part), "/")
		}
		switch {
		case n.Dir:
			cur = n.Children
			path = append(path, part)
		case n.Kind == "link" && hops > 0 && !strings.HasPrefix(n.To, "^/"):
			return lookup(root, append(strings.Split(n.To, "/"), parts[i+1:]...), hops-1)
		default:
			return nil, ""
		}
	}
	return nil, ""
}

// describe what following the link text `to` ends at
func describe(root []Node, beh []Beh, to string, hops int) (kind string, mode, code int, noStart bool) {
	if strings.HasPrefix(to, "^/") {
		e, ok := outsideEntries[to[2:]]
		if !ok {
			return "dangling", 0, 0, false
		}
		return e.kind, e.mode, e.code, false
	}
	if hops <= 0 {
		return "dangling", 0, 0, false
	}
	n, canon := lookup(root, strings.Split(to, "/"), hops)
	switch {
	case n == nil:
		return "dangling", 0, 0, false
	case n.Dir:
		return "dir", 0, 0, false
	case n.Kind == "fifo":
		return "fifo", 0, 0, false
	case n.Kind == "link":
		return describe(root, beh, n.To, hops-1)
	}
	for _, b := range beh {
		if b.Path == canon {
			return "file", n.Mode, b.coqCode(), b.Code == 1 && b.Variant%5 >= 3
		}
	}
	return "file", n.Mode, 0, false
}

func resolveLinks(root []Node, beh []Beh) {
	var walk func(ns []Node, depth int)
	walk = func(ns []Node, depth int) {
		for k := range ns {
			n := &ns[k]
			if n.Dir {
				walk(n.Children, depth+1)
				continue
			}
			if n.Kind != "link" {
				continue
			}
			if strings.HasPrefix(n.To, "^/") {
				n.Text = strings.Repeat("../", depth+2) + "outside/" + n.To[2:]
			} else {
				n.Text = strings.Repeat("../", depth) + n.To
			}
			n.TKind, n.TMode, n.TCode, n.TNoStart = describe(root, beh, n.To, 12)
			if n.TKind != "file" {
				n.TMode, n.TCode, n.TNoStart = 0, 0, false
			}
		}
	}
	walk(root, 0)
}

// checkKinds compares the harness's description of every link and FIFO with the tree on disk.
func checkKinds(dir string, ns []Node) string {
	for _, n := range ns {
		p := filepath.Join(dir, n.Name)
		switch {
		case n.Dir:
			if msg := checkKinds(p, n.Children); msg != "" {
				return msg
			}
		case n.Kind == "link":
			li, err := os.Lstat(p)
			if err != nil || li.Mode() != os.ModeSymlink|0o777 {
				return fmt.Sprintf("%s: lstat %v %v", n.Name, li, err)
			}
			st, err := os.Stat(p)
			got := "dangling"
			switch {
			case err != nil:
			case st.IsDir():
				got = "dir"
			case st.Mode()&os.ModeNamedPipe != 0:
				got = "fifo"
			case st.Mode().IsRegular():
				got = "file"
			default:
				got = "other"
			}
			if got != n.TKind || (got == "file" && int(st.Mode().Perm()) != n.TMode) {
				return fmt.Sprintf("%s -> %s: described as %s %o, is %s", n.Name, n.Text, n.TKind, n.TMode, got)
			}
		case n.Kind == "fifo":
			li, err := os.Lstat(p)
			if err != nil || li.Mode() != os.ModeNamedPipe|os.FileMode(n.Mode) {
				return fmt.Sprintf("%s: fifo lstat %v %v", n.Name, li, err)
			}
		}
	}
	return ""
}

// entries execve refuses: they cannot write the invocation log
func collectNoStart(ns []Node, rel string, acc map[string]bool) {
	for _, n := range ns {
		r := n.Name
		if rel != "" {
			r = rel + "/" + n.Name
		}
		switch {
		case n.Dir:
			collectNoStart(n.Children, r, acc)
		case n.Kind == "fifo":
			acc[r] = true
		case n.Kind == "link":
			if n.TKind != "file" || n.TMode&0o111 == 0 || n.TNoStart {
				acc[r] = true
			}
		}
	}
}

func kindTags(ns []Node, found []string) []string {
	acc := map[string]bool{}
	var walk func(ns []Node, rel string, lib, hid bool)
	walk = func(ns []Node, rel string, lib, hid bool) {
		for _, n := range ns {
			r := n.Name
			if rel != "" {
				r = rel + "/" + n.Name
			}
			switch {
			case n.Dir:
				walk(n.Children, r, lib || n.Name == "lib", hid || strings.HasPrefix(n.Name, "."))
			case n.Kind == "fifo":
				acc["kind:fifo"] = true
				if n.Mode&0o111 != 0 {
					acc["kind:fifo-exec"] = true
				}
			case n.Kind == "link":
				acc["kind:link->"+n.TKind] = true
				if n.TKind == "file" && n.TMode&0o111 == 0 {
					acc["kind:link->file-noexec"] = true
				}
				if n.TKind == "file" && (n.TCode == 1 || n.TCode == 2) {
					acc["kind:link->misbehaving-script"] = true
				}
				switch {
				case lib:
					acc["kind:link-below-lib"] = true
				case hid:
					acc["kind:link-below-hidden"] = true
				case rel == "":
					acc["kind:link-at-top"] = true
				default:
					acc["kind:link-nested"] = true
				}
				switch {
				case strings.HasPrefix(n.To, "^/"):
					acc["kind:link-out-of-tree"] = true
				case strings.HasPrefix(n.To, "lib/") || strings.Contains(n.To, "/lib/"):
					acc["kind:link-into-lib"] = true
				case strings.HasPrefix(n.To, ".") || strings.Contains(n.To, "/."):
					acc["kind:link-into-hidden"] = true
				}
				if n.Name == "lib" {
					acc["kind:link-named-lib"] = true
				}
				for _, p := range found {
					if strings.HasSuffix(p, "/"+r) {
						acc["kind:link-discovered"] = true
					}
				}
			}
		}
	}
	walk(ns, "", false, false)
	var out []string
	for k := range acc {
		out = append(out, k)
	}
	sort.Strings(out)
	return out
}

// ---- generation ----

func l(name, to string) Node       { return Node{Name: name, Kind: "link", To: to} }
func pipe(name string, m int) Node { return Node{Name: name, Kind: "fifo", Mode: m} }

// insertAt adds nodes to the directory at dirPath ("" = top)
func insertAt(ns []Node, dirPath string, add ...Node) []Node {
	if dirPath == "" {
		return append(ns, add...)
	}
	parts := strings.SplitN(dirPath, "/", 2)
	rest := ""
	if len(parts) == 2 {
		rest = parts[1]
	}
	out := append([]Node{}, ns...)
	for k := range out {
		if out[k].Dir && out[k].Name == parts[0] {
			out[k].Children = insertAt(out[k].Children, rest, add...)
			return out
		}
	}
	return append(out, Node{Name: parts[0], Dir: true, Children: insertAt(nil, rest, add...)})
}

func kindsBase() []Node {
	return []Node{
		f("000-first.sh", 0o755),
		d("sub", f("s.sh", 0o755), d("deep", f("d.sh", 0o755)), d("lib", f("sl.sh", 0o755))),
		d("lib", f("multicall.sh", 0o755), f("noexec.sh", 0o644), l("chain", "lib/multicall.sh")),
		d(".hid", f("h.sh", 0o755)),
		d("..data", f("cm.sh", 0o755)),
		f("plain", 0o644),
		f("zz-last.sh", 0o755),
	}
}

var kindsPositions = []string{"", "sub", "sub/deep", "lib", ".hid", "sub/lib"}

// targets of the systematic links; script = a path of kindsBase that is a script (its --config can be made to misbehave)
var kindsTargets = []struct {
	to     string
	script bool
}{
	{"lib/multicall.sh", true}, {"..data/cm.sh", true}, {".hid/h.sh", true}, {"000-first.sh", true},
	{"plain", false}, {"lib/noexec.sh", false}, {"sub", false}, {"lib", false}, {"nowhere/x.sh", false},
	{"^/ok.sh", false}, {"^/fail.sh", false}, {"^/invalid.sh", false}, {"^/noexec.sh", false}, {"^/dir", false}, {"^/missing", false},
	{"lib/chain", false}, {"@self", false},
}

func kindsSystematic(thorough bool) []Input {
	var out []Input
	for pi, pos := range kindsPositions {
		self := func(name string) string {
			if pos == "" {
				return name
			}
			return pos + "/" + name
		}
		// discovery: every target at once, names that are excluded, FIFOs
		var add []Node
		for ti, t := range kindsTargets {
			name := fmt.Sprintf("L%02d.sh", ti)
			to := t.to
			if to == "@self" {
				to = self(name)
			}
			add = append(add, l(name, to))
		}
		add = append(add, l("l.yaml", "lib/multicall.sh"), l(".l", "lib/multicall.sh"), l("readme.md", "sub"),
			pipe("p755", 0o755), pipe("p644", 0o644), pipe("p.md", 0o755), pipe("p001", 0o001))
		if pos != "" && pos != "sub" {
			add = append(add, l("lib", "sub"), l(".hidden-link", "sub"))
		}
		out = append(out, Input{Root: "hooks", Nodes: insertAt(kindsBase(), pos, add...)})
		if !thorough && (pi == 1 || pi == 5) {
			continue
		}
		// Init: one special entry at a time
		for _, t := range kindsTargets {
			to := t.to
			if to == "@self" {
				to = self("050-l.sh")
			}
			base := Input{Root: "hooks", Init: true, Nodes: insertAt(kindsBase(), pos, l("050-l.sh", to))}
			out = append(out, base)
			if t.script {
				for _, b := range []Beh{{Path: to, Code: 1}, {Path: to, Code: 2, Variant: 1}, {Path: to, Code: 1, Variant: 3}} {
					c := base
					c.Beh = []Beh{b}
					out = append(out, c)
				}
			}
		}
		out = append(out, Input{Root: "hooks", Init: true, Nodes: insertAt(kindsBase(), pos, pipe("050-p", 0o755))})
		out = append(out, Input{Root: "hooks", Init: true, Nodes: insertAt(kindsBase(), pos, pipe("050-p", 0o644), l("lib", "sub"))})
	}
	return out
}

func kindsCorpus() []Input {
	demo := func(beh ...Beh) Input {
		return withInit(tr("hooks", l("001-from-lib.sh", "lib/multicall.sh"), f("002-regular.sh", 0o755),
			d("010-mod", l("hook.sh", "..data/hook.sh"), f("values.txt", 0o644)),
			d("lib", f("multicall.sh", 0o755)), d("..data", f("hook.sh", 0o755)), f("README.md", 0o755)), beh...)
	}
	return []Input{
		// multi-call hook + a hook linked into a hidden directory; the same with the linked hook failing
		demo(),
		demo(Beh{Path: "..data/hook.sh", Code: 1}),
		// a ConfigMap volume: ..data -> ..2024 (a link to a hidden directory), every visible entry a link through it
		withInit(tr("hooks", d("..2024", f("a.sh", 0o755), f("b.sh", 0o755)), l("..data", "..2024"), l("a.sh", "..data/a.sh"), l("b.sh", "..data/b.sh")),
			Beh{Path: "..2024/b.sh", Code: 2}),
		// a link NAMED lib that points to a directory: not a sub-directory for the walk
		withInit(tr("hooks", l("lib", "shared"), d("shared", f("x.sh", 0o755)), f("a.sh", 0o755))),
		// links that cannot be run, FIFOs
		tr("hooks", l("dangling.sh", "nowhere"), l("noexec.sh", "plain"), f("plain", 0o644), l("dir.sh", "sub"), d("sub", f("x", 0o644)),
			pipe("p755", 0o755), pipe("p644", 0o644), l("a", "b"), l("b", "a"), l("out.sh", "^/ok.sh")),
		withInit(tr("hooks", f("a.sh", 0o755), l("b.sh", "nowhere"), f("c.sh", 0o755))),
		withInit(tr("hooks", f("a.sh", 0o755), pipe("b", 0o755), f("c.sh", 0o755))),
		// F34 (repaired 93bd8af): a link named lib that cannot be resolved (a loop; a dangling one is "not exist") made
		// Init panic in DirExists; also nested, where only the top-level lib is looked at
		withInit(tr("lib.d", l("010-l.sh", "010-l.sh"), l("A", "hook.sh"), l("lib", "010-l.sh"))),
		withInit(tr("hooks", f("a.sh", 0o755), l("lib", "lib"))),
		withInit(tr("hooks", f("a.sh", 0o755), l("x", "y"), l("y", "x"), l("lib", "x"), d("sub", l("lib", "lib"), f("b.sh", 0o755)))),
	}
}

func (g *gen) kindsRandom() Input {
	in := Input{Root: rootPool[g.r.Intn(len(rootPool))], Init: g.r.Chance(60)}
	in.Nodes = g.forest(1, 2+g.r.Intn(3), true)
	for _, dn := range []string{"lib", ".hid", "sub"} {
		if findChild(in.Nodes, dn) == nil && g.r.Chance(75) {
			in.Nodes = append(in.Nodes, d(dn, f([]string{"multicall.sh", "h.sh", "x"}[g.r.Intn(3)], modePool[g.r.Intn(len(modePool))])))
		}
	}
	if in.Init {
		var fix func(ns []Node)
		fix = func(ns []Node) {
			for k := range ns {
				if ns[k].Dir {
					fix(ns[k].Children)
				} else if g.r.Chance(65) {
					ns[k].Mode = 0o755
				}
			}
		}
		fix(in.Nodes)
	}
	// the entries a link can point to: files and real directories (never a path through a link)
	var targets []string
	var collect func(ns []Node, rel string)
	collect = func(ns []Node, rel string) {
		for _, n := range ns {
			r := n.Name
			if rel != "" {
				r = rel + "/" + n.Name
			}
			targets = append(targets, r)
			if n.Dir {
				collect(n.Children, r)
			}
		}
	}
	collect(in.Nodes, "")
	outside := []string{"^/ok.sh", "^/ok.sh", "^/fail.sh", "^/invalid.sh", "^/noexec.sh", "^/dir", "^/missing"}
	for k := 1 + g.r.Intn(5); k > 0; k-- {
		// a random directory of the tree, by path
		dirs := []string{""}
		var cd func(ns []Node, rel string)
		cd = func(ns []Node, rel string) {
			for _, n := range ns {
				if n.Dir {
					r := n.Name
					if rel != "" {
						r = rel + "/" + n.Name
					}
					dirs = append(dirs, r)
					cd(n.Children, r)
				}
			}
		}
		cd(in.Nodes, "")
		at := dirs[g.r.Intn(len(dirs))]
		name := namePool[g.r.Intn(len(namePool))]
		if g.r.Chance(40) {
			name = []string{"010-l.sh", "l", "zz.sh", "lib", "m.sh"}[g.r.Intn(5)]
		}
		full := name
		if at != "" {
			full = at + "/" + name
		}
		if n, _ := lookup(in.Nodes, strings.Split(full, "/"), 0); n != nil {
			continue
		}
		var node Node
		switch {
		case g.r.Chance(25):
			node = pipe(name, modePool[g.r.Intn(len(modePool))])
		case g.r.Chance(80) && len(targets) > 0:
			node = l(name, targets[g.r.Intn(len(targets))])
		case g.r.Chance(60):
			node = l(name, outside[g.r.Intn(len(outside))])
		case g.r.Chance(70):
			node = l(name, "nowhere/x")
		default:
			node = l(name, full)
		}
		in.Nodes = insertAt(in.Nodes, at, node)
		if node.Kind == "link" {
			targets = append(targets, full)
		}
	}
	if in.Init && g.r.Chance(55) {
		var fs []string
		allFiles(in.Nodes, "", &fs)
		for _, p := range fs {
			if n, _ := lookup(in.Nodes, strings.Split(p, "/"), 0); n != nil && n.Kind == "" && g.r.Chance(20) {
				in.Beh = append(in.Beh, Beh{Path: p, Code: 1 + g.r.Intn(2), Variant: g.r.Intn(12)})
			}
		}
	}
	return in
}
