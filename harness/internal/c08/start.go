// start.go: the "start" case class of C08 - the hand-over between the monitor's initial list
// and the shared informer.
//
// Objects exist in the (fake) cluster as a real API server returns them (uid,
// resourceVersion, creationTimestamp, generation, annotations, metadata.managedFields: the
// fake cluster adds none of these, so the generated objects carry them).  Then, exactly as
// the operator does for a binding: NewMonitor + CreateInformers (resourceInformer.
// loadExistedObjects lists the objects directly and fills the cache), EnableKubeEventCb,
// Monitor.Start (resourceInformer.start -> FactoryStore.Start: the REAL client-go dynamic
// shared informer is created / joined, lists and watches the fake cluster and re-delivers
// every existing object to the handler), then ordinary changes are made in the cluster and
// reach the handler through the informer's watch.  The harness calls no handler itself.
//
// Every delivery is observed from inside the informer's own goroutine, without sleeps: the
// metric storage handed to the monitor is wrapped, and handleWatchEvent's deferred
// "{PREFIX}kube_event_duration_seconds" observation - its very last action - takes the
// observation of the step: the KubeEvents fired since the previous step, the monitor's
// snapshot, the informer's operation counters (which handler ran) and which cache entry was
// replaced or removed (which object was delivered).
package c08

import (
	"context"
	"encoding/json"
	"fmt"
	"reflect"
	"sort"
	"sync"
	"sync/atomic"
	"time"
	"unsafe"

	"github.com/deckhouse/deckhouse/pkg/log"
	"github.com/flant/kube-client/fake"
	metav1 "k8s.io/apimachinery/pkg/apis/meta/v1"
	"k8s.io/apimachinery/pkg/apis/meta/v1/unstructured"
	"k8s.io/apimachinery/pkg/runtime/schema"
	"k8s.io/apimachinery/pkg/watch"
	dynamicfake "k8s.io/client-go/dynamic/fake"
	clienttesting "k8s.io/client-go/testing"

	kem "github.com/flant/shell-operator/pkg/kube_events_manager"
	kemtypes "github.com/flant/shell-operator/pkg/kube_events_manager/types"
	"github.com/flant/shell-operator/pkg/metric"
	metricstorage "github.com/flant/shell-operator/pkg/metric_storage"

	"verifharness/internal/core"
)

const (
	modeStart     = "start"
	batchExisting = "existing"
	batchUnlock   = "unlock"
	objNamespace  = "n"
)

var objGVR = schema.GroupVersionResource{Group: "", Version: "v1", Resource: "configmaps"}

// ---- the cluster's view of a start case (a pure function of the input) ----

// clusterOp is one effective operation on the cluster after the informer's start.
type clusterOp struct {
	kind  string // create | update | delete
	id    int
	state int // create/update: the new state; delete: the state the object had
}

// plan: the History of a start case read as a script for the cluster.  Entries with Batch
// "existing" put an object into the cluster before the monitor is created (a later one for
// the same id replaces an earlier one).  The other entries are operations after the
// informer's start: Added/Modified = apply the state (create if the object is absent,
// update if it differs, nothing if it is identical), Deleted = delete the object if it
// exists.  So every sub-list of a history is a valid script (shrinking removes entries).
type plan struct {
	states   []State
	existing map[int]int // resource id -> state index, at monitor creation
	cluster  []clusterOp
	ops      []Ev // the watch events of the operations: what the informer must deliver
	// window cases: the number of operations made before the harness unlocks the events
	unlockAt int
}

func startPlan(in Input) plan {
	pl := plan{states: in.States, existing: map[int]int{}}
	ok := func(e Ev) bool { return e.State >= 0 && e.State < len(in.States) }
	for _, e := range in.History {
		if e.Batch == batchExisting && ok(e) {
			pl.existing[in.States[e.State].Id] = e.State
		}
	}
	cur := map[int]int{}
	for id, st := range pl.existing {
		cur[id] = st
	}
	pl.unlockAt = -1
	for _, e := range in.History {
		if e.Batch == batchUnlock {
			if pl.unlockAt < 0 {
				pl.unlockAt = len(pl.cluster)
			}
			continue
		}
		if e.Batch == batchExisting || !ok(e) {
			continue
		}
		id := in.States[e.State].Id
		have, exists := cur[id]
		switch {
		case e.Type == "Deleted":
			if exists {
				pl.cluster = append(pl.cluster, clusterOp{"delete", id, have})
				pl.ops = append(pl.ops, Ev{Type: "Deleted", State: have})
				delete(cur, id)
			}
		case !exists:
			pl.cluster = append(pl.cluster, clusterOp{"create", id, e.State})
			pl.ops = append(pl.ops, Ev{Type: "Added", State: e.State})
			cur[id] = e.State
		case have != e.State:
			pl.cluster = append(pl.cluster, clusterOp{"update", id, e.State})
			pl.ops = append(pl.ops, Ev{Type: "Modified", State: e.State})
			cur[id] = e.State
		}
	}
	if pl.unlockAt < 0 {
		pl.unlockAt = len(pl.cluster)
	}
	return pl
}

// listed: the states loadExistedObjects must find, by resource id.
func (pl plan) listed() []int {
	ids := make([]int, 0, len(pl.existing))
	for id := range pl.existing {
		ids = append(ids, id)
	}
	sort.Ints(ids)
	out := make([]int, 0, len(ids))
	for _, id := range ids {
		out = append(out, pl.existing[id])
	}
	return out
}

// replay: the informer's deliveries at its start as the model and the specification are
// told them: one Added per delivery that was SEEN (resource id), carrying the object as it
// is IN THE CLUSTER (nothing changed there since the monitor's list).  A seen id that is not
// an existing object is written as the unknown state; when fewer deliveries were seen than
// objects exist (error, crash) the rest follows by id so that the term stays well-formed.
func (pl plan) replay(seen []int) []Ev {
	var out []Ev
	done := map[int]bool{}
	for i, id := range seen {
		if i >= len(pl.existing) {
			break
		}
		st, ok := pl.existing[id]
		if !ok {
			st = unknownState
		}
		done[id] = true
		out = append(out, Ev{Type: "Added", State: st, Batch: "start-replay"})
	}
	for _, st := range pl.listed() {
		if len(out) >= len(pl.existing) {
			break
		}
		if !done[pl.states[st].Id] {
			out = append(out, Ev{Type: "Added", State: st, Batch: "start-replay"})
		}
	}
	return out
}

func hasManagedFields(obj string) bool {
	var m map[string]interface{}
	if json.Unmarshal([]byte(obj), &m) != nil {
		return false
	}
	md, _ := m["metadata"].(map[string]interface{})
	_, ok := md["managedFields"]
	return ok
}

func (pl plan) tags(in Input, effective []string) []string {
	t := []string{"mode:start(monitor created on existing objects, real shared informer started)",
		fmt.Sprintf("start:existing-objects=%d", len(pl.existing)),
		fmt.Sprintf("start:cluster-operations-after-start=%d", len(pl.cluster)),
		"start-filter:" + map[bool]string{true: "(none)", false: in.Filter}[in.Filter == ""]}
	if in.Joins {
		t = append(t, "start:joins-a-running-shared-informer")
	} else {
		t = append(t, "start:fresh-shared-informer")
	}
	mf := false
	for _, st := range pl.existing {
		mf = mf || hasManagedFields(in.States[st].Obj)
	}
	if mf {
		t = append(t, "start:some-existing-object-has-managedFields")
	}
	listed := false
	for _, ty := range effective {
		listed = listed || ty == "Added"
	}
	if len(pl.existing) > 0 {
		t = append(t, fmt.Sprintf("start:replay-with-Added-listed=%v", listed))
	}
	for _, op := range pl.cluster {
		t = append(t, "start-op:"+op.kind)
	}
	return t
}

// ---- running ----

// recorder wraps the monitor's metric storage: the completion of every
// resourceInformer.handleWatchEvent call is reported to [on].
type recorder struct {
	metric.Storage
	on atomic.Value // func()
}

func (r *recorder) HistogramObserve(m string, value float64, labels map[string]string, buckets []float64) {
	r.Storage.HistogramObserve(m, value, labels, buckets)
	if m == "{PREFIX}kube_event_duration_seconds" {
		if f, ok := r.on.Load().(func()); ok && f != nil {
			f()
		}
	}
}

func runStart(ctx context.Context, in Input, mc *kem.MonitorConfig) Obs {
	var o Obs
	pl := startPlan(in)
	kem.DefaultSyncTime = time.Millisecond
	kem.DefaultFactoryStore.Reset()
	fc := fake.NewFakeCluster(fake.ClusterVersionV119)
	// no cluster operation before the reflector's watch is registered with the fake tracker
	var watches atomic.Int64
	if fd, ok := fc.Client.Dynamic().(*dynamicfake.FakeDynamicClient); ok {
		fd.PrependWatchReactor("*", func(action clienttesting.Action) (bool, watch.Interface, error) {
			w, err := fd.Tracker().Watch(action.GetResource(), action.GetNamespace())
			if err != nil {
				return false, nil, err
			}
			watches.Add(1)
			return true, w, nil
		})
	} else {
		watches.Add(1)
	}
	dyn := fc.Client.Dynamic().Resource(gvrOf(in)).Namespace(objNamespace)

	canonState := make([]string, len(in.States))
	ridToId := map[string]int{}
	for i, s := range in.States {
		u := parseObj(s.Obj)
		canonState[i] = canon(u)
		ridToId[fmt.Sprintf("%s/%s/%s", u.GetNamespace(), u.GetKind(), u.GetName())] = s.Id
	}
	stateOf := func(u *unstructured.Unstructured) int {
		if u == nil {
			return unknownState
		}
		c := canon(u)
		for i, s := range canonState {
			if s == c {
				return i
			}
		}
		return unknownState
	}
	frOf := func(v interface{}) json.RawMessage {
		if v == nil {
			return nil
		}
		return json.RawMessage(canon(v))
	}
	idOf := func(rid string) int {
		if id, ok := ridToId[rid]; ok {
			return id
		}
		return unknownState
	}

	// the objects that exist before the binding is enabled
	for _, st := range pl.listed() {
		if _, err := dyn.Create(ctx, parseObj(in.States[st].Obj), metav1.CreateOptions{}); err != nil {
			o.Err = "existing object: " + err.Error()
			return o
		}
	}
	if in.Joins {
		// another binding of the same kind, namespace and selectors is running already: same
		// FactoryIndex, so our monitor's start joins its started shared informer
		wc := &kem.MonitorConfig{}
		wc.Metadata.MonitorId = "c08-other-binding"
		wc.Metadata.DebugName = "c08-other"
		wc.Metadata.LogLabels = map[string]string{}
		wc.Metadata.MetricLabels = map[string]string{}
		wc.Logger = log.NewNop()
		wc.ApiVersion = "v1"
		wc.Kind = kindOf(in)
		wc.WithEventTypes(nil)
		other, err := kem.NewVerifC01Monitor(ctx, fc.Client, metricstorage.NewMetricStorage(ctx, "c08o_", true, log.NewNop()), wc)
		if err != nil {
			o.Err = "other binding: " + err.Error()
			return o
		}
		other.M.EnableKubeEventCb()
		other.M.Start(ctx)
	}

	rec := &recorder{Storage: metricstorage.NewMetricStorage(ctx, "c08_", true, log.NewNop())}
	vm, err := kem.NewVerifC01Monitor(ctx, fc.Client, rec, mc)
	if err != nil {
		o.CreateErr = err.Error()
		return o
	}
	if len(vm.M.ResourceInformers) != 1 {
		o.Err = fmt.Sprintf("expected one informer, got %d", len(vm.M.ResourceInformers))
		return o
	}

	var mu sync.Mutex
	var steps []StepObs
	signal := make(chan struct{}, 1024)
	taken := 0
	prevPtr := map[string]*unstructured.Unstructured{}
	var prevOps kem.CachedObjectsInfo

	// the snapshot right after the creation: what loadExistedObjects cached
	o.Cache0 = []CacheEntry{}
	for _, c := range vm.M.Snapshot() {
		o.Cache0 = append(o.Cache0, CacheEntry{Id: idOf(c.Metadata.ResourceId), State: stateOf(c.Object)})
		prevPtr[c.Metadata.ResourceId] = c.Object
	}
	sort.Slice(o.Cache0, func(i, j int) bool { return o.Cache0[i].Id < o.Cache0[j].Id })
	if total, _ := vm.M.SnapshotOperations(); total != nil {
		prevOps = *total
	}

	// the cached objects.  Monitor.Snapshot() - resourceInformer.getCachedObjects - DROPS the saved
	// events while the events are locked (it is the Synchronization snapshot), so inside the
	// window of a window case the cache is read directly (rawCache: no call of /repo's code, the
	// map is read from the informer's own goroutine, the only writer); everywhere else through
	// Monitor.Snapshot()
	snap := func() []kemtypes.ObjectAndFilterResult {
		if in.Win && !o.Unlocked {
			return rawCache(vm.M.ResourceInformers[0])
		}
		return vm.M.Snapshot()
	}
	// runs in the informer's goroutine at the end of every handleWatchEvent
	rec.on.Store(func() {
		mu.Lock()
		defer mu.Unlock()
		var so StepObs
		seen := Seen{Type: "?", Id: unknownState}
		if total, _ := vm.M.SnapshotOperations(); total != nil {
			da, dm, dd := total.Added-prevOps.Added, total.Modified-prevOps.Modified, total.Deleted-prevOps.Deleted
			switch {
			case da == 1 && dm == 0 && dd == 0:
				seen.Type = "Added"
			case da == 0 && dm == 1 && dd == 0:
				seen.Type = "Modified"
			case da == 0 && dm == 0 && dd == 1:
				seen.Type = "Deleted"
			}
			prevOps = *total
		}
		snapshot := snap()
		nowPtr := map[string]*unstructured.Unstructured{}
		var replaced, removed []string
		for _, c := range snapshot {
			nowPtr[c.Metadata.ResourceId] = c.Object
			if p, ok := prevPtr[c.Metadata.ResourceId]; !ok || p != c.Object {
				replaced = append(replaced, c.Metadata.ResourceId)
			}
		}
		for rid := range prevPtr {
			if _, ok := nowPtr[rid]; !ok {
				removed = append(removed, rid)
			}
		}
		prevPtr = nowPtr
		switch {
		case seen.Type == "Deleted" && len(removed) == 1 && len(replaced) == 0:
			seen.Id = idOf(removed[0])
		case seen.Type != "Deleted" && len(replaced) == 1 && len(removed) == 0:
			seen.Id = idOf(replaced[0])
		}
		so.Seen = &seen

		var evFR json.RawMessage
		events := vm.Events()
		fresh := events[taken:]
		taken = len(events)
		for _, ke := range fresh {
			f := Fired{Type: "?", State: unknownState}
			if len(ke.WatchEvents) == 1 && ke.Type == kemtypes.TypeEvent && ke.MonitorId == mc.Metadata.MonitorId {
				f.Type = string(ke.WatchEvents[0])
			}
			if len(ke.Objects) == 1 {
				f.State = stateOf(ke.Objects[0].Object)
				evFR = frOf(ke.Objects[0].FilterResult)
				if f.State == unknownState && ke.Objects[0].Object != nil {
					so.Unknown = append(so.Unknown, "fired "+f.Type+": "+canon(ke.Objects[0].Object))
				}
			}
			so.Fired = append(so.Fired, f)
		}
		var cachedFR json.RawMessage
		inCache := false
		for _, c := range snapshot {
			id := idOf(c.Metadata.ResourceId)
			so.Cache = append(so.Cache, CacheEntry{Id: id, State: stateOf(c.Object)})
			if stateOf(c.Object) == unknownState && c.Object != nil {
				so.Unknown = append(so.Unknown, "snapshot "+c.Metadata.ResourceId+": "+canon(c.Object))
			}
			if id == seen.Id && id != unknownState {
				inCache = true
				cachedFR = frOf(c.FilterResult)
			}
		}
		sort.Slice(so.Cache, func(i, j int) bool { return so.Cache[i].Id < so.Cache[j].Id })
		if inCache {
			so.FR = cachedFR
		} else {
			so.FR = evFR
		}
		steps = append(steps, so)
		select {
		case signal <- struct{}{}:
		default:
		}
	})
	count := func() int {
		mu.Lock()
		defer mu.Unlock()
		return len(steps)
	}
	waitFor := func(n int) bool {
		deadline := time.After(4 * time.Second)
		for count() < n {
			select {
			case <-signal:
			case <-deadline:
				return false
			}
		}
		return true
	}
	finish := func() Obs {
		mu.Lock()
		o.Steps = append([]StepObs{}, steps...)
		mu.Unlock()
		for i, s := range o.Steps {
			if i < len(pl.existing) && s.Seen != nil {
				o.Replay = append(o.Replay, s.Seen.Id)
			}
		}
		if in.Filter != "" {
			for _, s := range in.States {
				o.Answers = append(o.Answers, oracle(in.Filter, s.Obj))
			}
		}
		return o
	}

	// window cases: the monitor is started with its events locked; the unlock comes later
	if !in.Win {
		vm.M.EnableKubeEventCb()
	}
	// the unlock (the harness's goroutine; no delivery is under way: every operation is awaited)
	unlock := func() {
		vm.M.EnableKubeEventCb()
		mu.Lock()
		defer mu.Unlock()
		events := vm.Events()
		o.Flushed = []Fired{}
		for _, ke := range events[taken:] {
			f := Fired{Type: "?", State: unknownState}
			if len(ke.WatchEvents) == 1 && ke.Type == kemtypes.TypeEvent && ke.MonitorId == mc.Metadata.MonitorId {
				f.Type = string(ke.WatchEvents[0])
			}
			if len(ke.Objects) == 1 {
				f.State = stateOf(ke.Objects[0].Object)
			}
			o.Flushed = append(o.Flushed, f)
		}
		taken = len(events)
		o.Unlocked = true
	}
	vm.M.Start(ctx)
	n := len(pl.existing)
	if !waitFor(n) {
		o.Err = fmt.Sprintf("the shared informer re-delivered %d of %d existing objects", count(), n)
		return finish()
	}
	for deadline := time.Now().Add(4 * time.Second); watches.Load() == 0; {
		if time.Now().After(deadline) {
			o.Err = "the informer did not start its watch"
			return finish()
		}
		time.Sleep(100 * time.Microsecond)
	}
	for k, op := range pl.cluster {
		if in.Win && k == pl.unlockAt {
			unlock()
		}
		var err error
		switch op.kind {
		case "create":
			_, err = dyn.Create(ctx, parseObj(in.States[op.state].Obj), metav1.CreateOptions{})
		case "update":
			_, err = dyn.Update(ctx, parseObj(in.States[op.state].Obj), metav1.UpdateOptions{})
		case "delete":
			err = dyn.Delete(ctx, fmt.Sprintf("o%d", op.id), metav1.DeleteOptions{})
		}
		if err != nil {
			o.Err = fmt.Sprintf("cluster operation %d (%s): %v", k+1, op.kind, err)
			return finish()
		}
		n++
		if !waitFor(n) {
			o.Err = fmt.Sprintf("cluster operation %d (%s): the informer did not deliver the watch event", k+1, op.kind)
			return finish()
		}
	}
	if in.Win && pl.unlockAt >= len(pl.cluster) {
		unlock()
	}
	vm.M.PauseHandleEvents()
	return finish()
}

// rawCache reads resourceInformer.cachedObjects (an unexported field; no verif export returns it
// without getCachedObjects' side effect on eventBuf) by reflection.
func rawCache(ri interface{}) []kemtypes.ObjectAndFilterResult {
	v := reflect.ValueOf(ri)
	if v.Kind() != reflect.Ptr || v.IsNil() {
		return nil
	}
	f := v.Elem().FieldByName("cachedObjects")
	if !f.IsValid() || !f.CanAddr() {
		return nil
	}
	m, ok := reflect.NewAt(f.Type(), unsafe.Pointer(f.UnsafeAddr())).Elem().Interface().(map[string]*kemtypes.ObjectAndFilterResult)
	if !ok {
		return nil
	}
	res := make([]kemtypes.ObjectAndFilterResult, 0, len(m))
	for _, obj := range m {
		res = append(res, *obj)
	}
	return res
}

// ---- generation ----

// apiObject: an object as a real API server returns it.
func (g *gen) apiObject(id int) map[string]interface{} {
	o := g.baseObject(id)
	md := o["metadata"].(map[string]interface{})
	md["uid"] = fmt.Sprintf("u-%d-%d", id, g.r.Intn(90)+10)
	md["resourceVersion"] = fmt.Sprintf("%d", 100+g.r.Intn(900))
	md["creationTimestamp"] = "2024-05-01T10:00:00Z"
	if g.r.Chance(40) {
		md["generation"] = 1 + g.r.Intn(3)
	}
	if _, ok := md["labels"]; !ok {
		md["labels"] = map[string]interface{}{"app": g.pick("x", "y")}
	}
	if _, ok := o["data"]; !ok {
		o["data"] = map[string]interface{}{"k": g.pick("v", "w")}
	}
	if g.r.Chance(30) {
		md["annotations"] = map[string]interface{}{"kubectl.kubernetes.io/last-applied-configuration": `{"data":{"k":"v"}}`}
	}
	if g.r.Chance(65) {
		md["managedFields"] = g.managedFields()
	}
	return o
}

func (g *gen) managedFields() []interface{} {
	return []interface{}{map[string]interface{}{
		"manager": g.pick("kubectl", "helm"), "operation": g.pick("Update", "Apply"), "apiVersion": "v1",
		"time": fmt.Sprintf("2024-05-01T10:0%d:00Z", g.r.Intn(10)), "fieldsType": "FieldsV1",
		"fieldsV1": map[string]interface{}{"f:data": map[string]interface{}{"f:k": map[string]interface{}{}}},
	}}
}

// apiMutate: a change as the API server records it: the resourceVersion moves with every
// write; a writer's managedFields entry may move too; sometimes nothing else changes.
func (g *gen) apiMutate(o map[string]interface{}) map[string]interface{} {
	var c map[string]interface{}
	switch k := g.r.Intn(100); {
	case k < 70:
		c = g.mutate(o)
	default:
		c = clone(o) // a write that touches bookkeeping only
	}
	md, ok := c["metadata"].(map[string]interface{})
	if !ok {
		return c
	}
	if _, ok := c["data"]; !ok {
		c["data"] = map[string]interface{}{"k": "v"}
	}
	if _, ok := md["managedFields"]; ok && g.r.Chance(50) {
		md["managedFields"] = g.managedFields()
	} else if !ok && g.r.Chance(15) {
		md["managedFields"] = g.managedFields()
	}
	if g.r.Chance(90) {
		md["resourceVersion"] = fmt.Sprintf("%d", 1000+g.r.Intn(9000))
	}
	return c
}

// filters of the start class: projections that let the server's bookkeeping through (none,
// `.`, `.metadata`, del(...)), projections that hide it (`.data`, `.spec`, constructed)
var startFilters = []struct {
	pct int
	f   filterDef
}{
	{35, filterDef{"none", ""}},
	{13, filterDef{"path-object", "."}},
	{13, filterDef{"path-object", ".metadata"}},
	{10, filterDef{"path-object", ".data"}},
	{6, filterDef{"constructed", "del(.status)"}},
	{6, filterDef{"constructed", "{name:.metadata.name,rv:.metadata.resourceVersion}"}},
	{6, filterDef{"constructed", "{l:.metadata.labels,d:.data}"}},
	{6, filterDef{"path-object", ".metadata.labels"}},
	{5, filterDef{"constructed", "{m:.metadata.managedFields}"}},
}

func (g *gen) startCase(subset int) Input {
	k := g.r.Intn(100)
	f := startFilters[0].f
	for _, sf := range startFilters {
		if k < sf.pct {
			f = sf.f
			break
		}
		k -= sf.pct
	}
	in := Input{Filter: f.expr, Family: f.family, Mode: modeStart, Joins: g.r.Chance(30)}
	if subset < 0 {
		in.TypesUnset = true
	} else {
		in.Types = append([]string{}, typeSubsets[subset]...)
	}
	stateIdx := map[string]int{}
	addState := func(id int, o map[string]interface{}) int {
		t := objText(o)
		if i, ok := stateIdx[t]; ok {
			return i
		}
		in.States = append(in.States, State{Id: id, Obj: t})
		stateIdx[t] = len(in.States) - 1
		return len(in.States) - 1
	}
	cur := map[int]map[string]interface{}{}
	// 0-3 existing objects (mostly 1-2)
	nExisting := []int{0, 1, 1, 1, 2, 2, 2, 3}[g.r.Intn(8)]
	for id := 1; id <= nExisting; id++ {
		o := g.apiObject(id)
		cur[id] = o
		in.History = append(in.History, Ev{Type: "Added", State: addState(id, o), Batch: batchExisting})
	}
	// a few ordinary changes after the start
	for n := g.r.Intn(4); n > 0; n-- {
		id := 1 + g.r.Intn(3)
		o := cur[id]
		switch {
		case o == nil:
			no := g.apiObject(id)
			cur[id] = no
			in.History = append(in.History, Ev{Type: "Added", State: addState(id, no)})
		case g.r.Chance(25):
			in.History = append(in.History, Ev{Type: "Deleted", State: addState(id, o)})
			cur[id] = nil
		default:
			no := g.apiMutate(o)
			cur[id] = no
			in.History = append(in.History, Ev{Type: "Modified", State: addState(id, no)})
		}
	}
	return in
}

// server-side metadata of the fixed corpus
const (
	srvMeta = `"uid":"u-1","resourceVersion":"101","creationTimestamp":"2024-05-01T10:00:00Z"`
	mfEntry = `"managedFields":[{"manager":"kubectl","operation":"Update","apiVersion":"v1","time":"2024-05-01T10:00:00Z","fieldsType":"FieldsV1","fieldsV1":{"f:data":{"f:k":{}}}}]`
	lastApp = `"annotations":{"kubectl.kubernetes.io/last-applied-configuration":"{\"data\":{\"k\":\"v\"}}"}`
)

// api builds `{"apiVersion":"v1","kind":..,"metadata":{"name":..,"namespace":"n",<meta>},<rest>}`
func api(name, meta, rest string) string {
	s := `{"apiVersion":"v1","kind":"` + objKind + `","metadata":{"name":"` + name + `","namespace":"` + objNamespace + `"`
	if meta != "" {
		s += "," + meta
	}
	s += "}"
	if rest != "" {
		s += "," + rest
	}
	return s + "}"
}

func existing(state int) Ev { return Ev{Type: "Added", State: state, Batch: batchExisting} }

func startFixed(types []string, unset bool, filter, family string, joins bool, objs []string, ids []int, hist []Ev) Input {
	in := fixed(types, unset, filter, family, objs, ids, hist)
	in.Mode = modeStart
	in.Joins = joins
	return in
}

// StartCorpus: the start of a binding on objects as an API server returns them.
func StartCorpus() []Input {
	o1mf := api("o1", srvMeta+","+mfEntry, `"data":{"k":"v"}`)
	o1mfAnn := api("o1", srvMeta+","+lastApp+","+mfEntry, `"data":{"k":"v"}`)
	o2 := api("o2", `"uid":"u-2","resourceVersion":"102","creationTimestamp":"2024-05-01T10:00:00Z"`, `"data":{"k":"w"}`)
	o2b := api("o2", `"uid":"u-2","resourceVersion":"202","creationTimestamp":"2024-05-01T10:00:00Z"`, `"data":{"k":"z"}`)
	o1rv := api("o1", `"uid":"u-1","resourceVersion":"301","creationTimestamp":"2024-05-01T10:00:00Z",`+mfEntry, `"data":{"k":"v"}`)
	o1data := api("o1", `"uid":"u-1","resourceVersion":"401","creationTimestamp":"2024-05-01T10:00:00Z",`+mfEntry, `"data":{"k":"w"}`)
	return []Input{
		// the smallest one: no filter, all types, one existing object with managedFields, nothing happens
		startFixed(nil, true, "", "none", false, []string{o1mf}, []int{1}, []Ev{existing(0)}),
		// the same, joining a shared informer that another binding started
		startFixed(nil, true, "", "none", true, []string{o1mf}, []int{1}, []Ev{existing(0)}),
		// filter `.`: two existing objects (with and without managedFields); the plain one really changes
		startFixed(all3, false, ".", "path-object", false, []string{o1mf, o2, o2b}, []int{1, 2, 2},
			[]Ev{existing(0), existing(1), ev("Modified", 2)}),
		// `.metadata`, only Added listed: the replay is silent, the delete too, the re-creation fires
		startFixed([]string{"Added"}, false, ".metadata", "path-object", false, []string{o1mfAnn}, []int{1},
			[]Ev{existing(0), ev("Deleted", 0), ev("Added", 0)}),
		// `.data`: a write that moves only the resourceVersion is silent (snapshot follows), a change of data fires
		startFixed(all3, false, ".data", "path-object", false, []string{o1mf, o1rv, o1data}, []int{1, 1, 1},
			[]Ev{existing(0), ev("Modified", 1), ev("Modified", 2)}),
		// nothing exists: the first object arrives as a real Added
		startFixed(nil, true, "", "none", false, []string{o2}, []int{2}, []Ev{ev("Added", 0)}),
		// no type listed: never fires, the snapshot follows; joined informer
		startFixed([]string{}, false, "", "none", true, []string{o1mf, o2, o2b}, []int{1, 2, 2},
			[]Ev{existing(0), existing(1), ev("Modified", 2), ev("Deleted", 0)}),
		// the projection is the bookkeeping itself
		startFixed([]string{"Added", "Modified"}, false, "{m:.metadata.managedFields}", "constructed", false, []string{o1mf, o1rv}, []int{1, 1},
			[]Ev{existing(0), ev("Modified", 1)}),
	}
}

var _ = core.CoqN
