// decl.go: the "declared" case class of C08 - the event list of a binding as the USER declares it.
//
// The property speaks of what is "listed in executeHookOnEvent" and quantifies over all
// subsets of {Added, Modified, Deleted}.  The user writes that list in the hook configuration;
// a v1 binding has two keys for it: executeHookOnEvent and the deprecated watchEvent, each
// absent or present with any list (the empty one included: `executeHookOnEvent: []` is the
// documented snapshot-only binding), and both may stand side by side.
//
// A declared case writes the binding as a hook configuration TEXT (JSON, YAML with flow
// sequences, YAML with block sequences; the two keys in either order), hands it to the REAL
// loader (config.HookConfig.LoadAndValidate: version detection, OpenAPI schema validation,
// sigs.k8s.io/yaml unmarshalling, HookConfigV1.ConvertAndCheck) and runs the monitor with
// the MonitorConfig the loader produced - created exactly as KubeEventsManager.AddMonitor
// creates it (NewMonitor + CreateInformers) on the fake cluster - in either mode of the other
// classes (the harness calls the informer's handlers / the real shared informer delivers).
// Nothing on the way from the text to the fired events is set by the harness.
package c08

import (
	"encoding/json"
	"fmt"
	"sort"
	"strings"

	"github.com/deckhouse/deckhouse/pkg/log"

	"github.com/flant/shell-operator/pkg/hook/config"
	kem "github.com/flant/shell-operator/pkg/kube_events_manager"

	"verifharness/internal/core"
)

const (
	styleJSON      = "json"
	styleYAMLFlow  = "yaml-flow"
	styleYAMLBlock = "yaml-block"
)

var styles = []string{styleJSON, styleYAMLFlow, styleYAMLBlock}

func jsonText(v interface{}) string {
	var sb strings.Builder
	enc := json.NewEncoder(&sb)
	enc.SetEscapeHTML(false)
	_ = enc.Encode(v)
	return strings.TrimSpace(sb.String())
}

// ConfigText: the binding of a declared case as the text of a v1 hook configuration.
// Types/TypesUnset = the key executeHookOnEvent, Watch/WatchSet = the key watchEvent.
func ConfigText(in Input) string {
	type field struct {
		key  string
		list []string // an event list (non-nil, may be empty)
		val  interface{}
	}
	fields := []field{}
	if in.BindingName != "" {
		fields = append(fields, field{key: "name", val: in.BindingName})
	}
	fields = append(fields, field{key: "apiVersion", val: "v1"}, field{key: "kind", val: objKind})
	var lists []field
	if in.WatchSet {
		lists = append(lists, field{key: "watchEvent", list: append([]string{}, in.Watch...)})
	}
	if !in.TypesUnset {
		lists = append(lists, field{key: "executeHookOnEvent", list: append([]string{}, in.Types...)})
	}
	if !in.WatchFirst && len(lists) == 2 {
		lists[0], lists[1] = lists[1], lists[0]
	}
	fields = append(fields, lists...)
	if in.Filter != "" {
		fields = append(fields, field{key: "jqFilter", val: in.Filter})
	}
	if in.NoSync {
		fields = append(fields, field{key: "executeHookOnSynchronization", val: false})
	}
	if in.Style == styleJSON || in.Style == "" {
		parts := []string{}
		for _, f := range fields {
			v := f.val
			if f.list != nil {
				v = f.list
			}
			parts = append(parts, jsonText(f.key)+":"+jsonText(v))
		}
		return `{"configVersion":"v1","kubernetes":[{` + strings.Join(parts, ",") + `}]}`
	}
	var sb strings.Builder
	sb.WriteString("configVersion: v1\nkubernetes:\n")
	for i, f := range fields {
		lead := "  "
		if i == 0 {
			lead = "- "
		}
		switch {
		case f.list == nil:
			sb.WriteString(lead + f.key + ": " + jsonText(f.val) + "\n")
		case in.Style == styleYAMLBlock && len(f.list) > 0:
			sb.WriteString(lead + f.key + ":\n")
			for _, x := range f.list {
				sb.WriteString("  - " + x + "\n")
			}
		default:
			sb.WriteString(lead + f.key + ": " + jsonText(f.list) + "\n")
		}
	}
	return sb.String()
}

// loadDeclared runs the REAL loader on the text and returns the MonitorConfig of its only
// kubernetes binding, untouched but for a no-op logger (instrumentation only).
func loadDeclared(text string) (*kem.MonitorConfig, error) {
	hc := &config.HookConfig{}
	if err := hc.LoadAndValidate([]byte(text)); err != nil {
		return nil, fmt.Errorf("LoadAndValidate: %v", err)
	}
	if hc.Version != "v1" || len(hc.OnKubernetesEvents) != 1 {
		return nil, fmt.Errorf("loader: version %q, %d kubernetes bindings (one v1 binding expected)", hc.Version, len(hc.OnKubernetesEvents))
	}
	mc := hc.OnKubernetesEvents[0].Monitor
	if mc == nil {
		return nil, fmt.Errorf("loader: the binding has no MonitorConfig")
	}
	if mc.Logger == nil {
		mc.Logger = log.NewNop()
	}
	return mc, nil
}

// declTags: the declaration in the input distribution.
func declTags(in Input) []string {
	if !in.Declared {
		return []string{"decl:none(MonitorConfig.EventTypes set by the harness)"}
	}
	set := func(xs []string) string {
		u := map[string]bool{}
		for _, x := range xs {
			u[x] = true
		}
		ks := []string{}
		for x := range u {
			ks = append(ks, x)
		}
		sort.Strings(ks)
		s := "{" + strings.Join(ks, ",") + "}"
		if len(ks) < len(xs) {
			s += "+repeats"
		}
		return s
	}
	e, w := "absent", "absent"
	if !in.TypesUnset {
		e = set(in.Types)
	}
	if in.WatchSet {
		w = set(in.Watch)
	}
	t := []string{"decl:config-text-through-the-real-loader", "decl:style=" + in.Style,
		"decl:executeHookOnEvent=" + e, "decl:watchEvent=" + w}
	switch {
	case !in.TypesUnset && in.WatchSet:
		t = append(t, "decl:both-keys")
		if in.WatchFirst {
			t = append(t, "decl:both-keys,watchEvent-written-first")
		}
		if len(in.Types) == 0 && len(in.Watch) > 0 {
			t = append(t, "decl:snapshot-only([])-beside-non-empty-watchEvent")
		}
	case !in.TypesUnset:
		t = append(t, "decl:only-executeHookOnEvent")
	case in.WatchSet:
		t = append(t, "decl:only-watchEvent(deprecated)")
	default:
		t = append(t, "decl:neither-key(default)")
	}
	if !in.TypesUnset && len(in.Types) == 0 {
		t = append(t, "decl:executeHookOnEvent-empty(snapshot-only)")
	}
	return t
}

// ---- generation ----

// a list for a subset index (-1 = key absent); sometimes permuted, sometimes with a repeated
// element (the schema does not ask for unique items)
func (g *gen) eventList(subset int) ([]string, bool) {
	if subset < 0 {
		return nil, false
	}
	l := append([]string{}, typeSubsets[subset]...)
	if g.r.Chance(30) {
		for i := len(l) - 1; i > 0; i-- {
			j := g.r.Intn(i + 1)
			l[i], l[j] = l[j], l[i]
		}
	}
	if len(l) > 0 && g.r.Chance(10) {
		l = append(l, l[g.r.Intn(len(l))])
	}
	return l, true
}

// declare turns a generated case of either mode into a declared one: executeHookOnEvent =
// subset e, watchEvent = subset w (-1 = absent).
func (g *gen) declare(in Input, e, w, k int) Input {
	in.Declared = true
	l, set := g.eventList(e)
	in.Types, in.TypesUnset = l, !set
	if in.Types == nil {
		in.Types = []string{}
	}
	in.Watch, in.WatchSet = g.eventList(w)
	in.Style = styles[k%len(styles)]
	in.WatchFirst = g.r.Chance(50)
	if g.r.Chance(50) {
		in.BindingName = "b"
	}
	// the documented snapshot-only binding goes with executeHookOnSynchronization: false
	in.NoSync = set && len(l) == 0 && g.r.Chance(60) || g.r.Chance(10)
	return in
}

// declGrid: every pair (executeHookOnEvent, watchEvent) in {absent, 8 subsets}^2 = 81
// declarations, [rounds] cases each with the harness calling the handlers, and one case in
// [startEvery] with the real shared informer.
func (g *gen) declGrid(rounds, startEvery int, mainF, otherF []filterDef) []core.In[Input] {
	var ins []core.In[Input]
	k, off := g.r.Intn(3), 0
	if startEvery > 0 {
		off = g.r.Intn(startEvery)
	}
	for round := 0; round < rounds; round++ {
		for e := -1; e < 8; e++ {
			for w := -1; w < 8; w++ {
				k++
				f := mainF[0]
				switch {
				case g.r.Chance(8):
					f = otherF[g.r.Intn(len(otherF))] // the findings' domains (F8, F16) at a low rate
				case g.r.Chance(70):
					f = mainF[g.r.Intn(len(mainF))]
				}
				nIds := 1 + g.r.Intn(2)
				in := g.history(nIds, 6, f, e, k%2 == 0)
				ins = append(ins, core.In[Input]{Input: g.declare(in, e, w, k), Stream: "declared"})
				// the start cases lie on diagonals of the grid that move with the round and the seed
				if startEvery > 0 && (e+w+2+round+off)%startEvery == 0 {
					ins = append(ins, core.In[Input]{Input: g.declare(g.startCase(e), e, w, k+1), Stream: "declared-start"})
				}
			}
		}
	}
	return ins
}

func declFixed(in Input, exec []string, execSet bool, watch []string, watchSet bool, style string, watchFirst, noSync bool) Input {
	in.Declared = true
	in.Types, in.TypesUnset = exec, !execSet
	if in.Types == nil {
		in.Types = []string{}
	}
	in.Watch, in.WatchSet = watch, watchSet
	in.Style, in.WatchFirst, in.NoSync = style, watchFirst, noSync
	in.BindingName = "b"
	return in
}

// DeclCorpus: declarations at the boundaries, both modes.
func DeclCorpus() []Input {
	o3 := k("o1", `"data":{"k":"v"},"spec":{"replicas":3}`)
	o4 := k("o1", `"data":{"k":"w"},"spec":{"replicas":4}`)
	hist := []Ev{ev("Added", 0), ev("Modified", 1), ev("Modified", 1), ev("Deleted", 1)}
	base := func(filter, family string) Input {
		return fixed(nil, true, filter, family, []string{o3, o4}, []int{1, 1}, hist)
	}
	o1mf := api("o1", srvMeta+","+mfEntry, `"data":{"k":"v"}`)
	o1data := api("o1", `"uid":"u-1","resourceVersion":"401","creationTimestamp":"2024-05-01T10:00:00Z",`+mfEntry, `"data":{"k":"w"}`)
	o2 := api("o2", `"uid":"u-2","resourceVersion":"102","creationTimestamp":"2024-05-01T10:00:00Z"`, `"data":{"k":"w"}`)
	start := func(filter, family string) Input {
		return startFixed(nil, true, filter, family, false, []string{o1mf, o1data, o2}, []int{1, 1, 2},
			[]Ev{existing(0), ev("Modified", 1), ev("Added", 2), ev("Deleted", 1)})
	}
	return []Input{
		// the documented snapshot-only binding (HOOKS.md: executeHookOnSynchronization: false +
		// executeHookOnEvent: []), migrated from watchEvent whose line was left in place
		declFixed(base(".data", "path-object"), []string{}, true, all3, true, styleYAMLFlow, true, true),
		declFixed(base("", "none"), []string{}, true, []string{"Added"}, true, styleJSON, false, false),
		declFixed(start(".data", "path-object"), []string{}, true, all3, true, styleYAMLBlock, true, true),
		// snapshot-only, nothing else
		declFixed(base("", "none"), []string{}, true, nil, false, styleYAMLFlow, false, true),
		// executeHookOnEvent has priority over a different watchEvent
		declFixed(base("{r:.spec.replicas}", "constructed"), []string{"Modified"}, true, []string{"Added", "Deleted"}, true, styleYAMLBlock, true, false),
		declFixed(base("", "none"), all3, true, []string{}, true, styleJSON, true, false),
		// only the deprecated key
		declFixed(base(".data", "path-object"), nil, false, []string{"Added"}, true, styleYAMLBlock, false, false),
		declFixed(base("", "none"), nil, false, []string{}, true, styleJSON, false, false),
		declFixed(start("", "none"), nil, false, []string{"Deleted", "Modified"}, true, styleYAMLFlow, false, false),
		// neither key: the documented default
		declFixed(base(".data", "path-object"), nil, false, nil, false, styleYAMLFlow, false, false),
		// a repeated element
		declFixed(base("", "none"), []string{"Deleted", "Deleted"}, true, []string{"Added"}, true, styleJSON, false, false),
	}
}
