// alike.go: the VALUE DOMAIN of projections (streams "look-alike" and "look-alike-start").
//
// The property says a Modified change triggers when the projection DIFFERS from the last one
// known; the code decides by a checksum of the filter result.  The cases of this file walk the
// selected fields of an object between values that look alike in one rendering or another but
// are different JSON values - and between values that are written differently but are the same
// JSON value:
//   - the TYPE of a scalar: number 9090 / string "9090", true / "true", null / "null" / "<nil>",
//     1 / "1" / "1.0" / 1.5 / "1.5" (different values); 1 / 1.0, 9090 / 9090.0 (the SAME number);
//   - where a string ends relative to the next key: {"a":"x","b":"y"} / {"a":"x b:y"}, and the same
//     for array elements ["x","y"] / ["x y"]; strings with blanks, colons, commas, brackets, quotes;
//   - a nested map / array and its printed forms as a string: Go's fmt form ("map[a:x]", "[1 2]")
//     and its JSON text ("{\"a\":\"x\"}", "[1,2]"); a string that is the JSON text of a scalar and
//     that scalar;
//   - ordinary changes, changes outside the projection and re-deliveries in between.
//
// The transformations are applied at a random position of the value tree of a slot
// (Service: spec.ports[i].targetPort - an IntOrString -, metadata.annotations, spec.selector;
// ConfigMap: data, data values, metadata.annotations, a free field .x holding a small tree).
// Nothing is compared here: the projections are /usr/bin/jq's answers, Coq compares them
// STRUCTURALLY as JSON values (json_eqb: JNum 9090 <> JStr "9090") and judges every delivery by P.
package c08

import (
	"encoding/json"
	"fmt"
	"sort"
	"strings"

	"k8s.io/apimachinery/pkg/runtime/schema"

	"verifharness/internal/core"
)

const familyAlike = "look-alike"

func kindOf(in Input) string {
	if in.Kind == "" {
		return objKind
	}
	return in.Kind
}

func gvrOf(in Input) schema.GroupVersionResource {
	if kindOf(in) == "Service" {
		return schema.GroupVersionResource{Group: "", Version: "v1", Resource: "services"}
	}
	return objGVR
}

// rawNum: a number written as the given literal (1.0, 9090.0): same JSON value as the integer
type rawNum string

func (r rawNum) MarshalJSON() ([]byte, error) { return []byte(r), nil }

type alikeGen struct {
	kind string
	used map[string]bool
}

var alikeFilters = map[string][]string{
	"Service": {
		`{"targetPorts":[.spec.ports[]?.targetPort],"annotations":.metadata.annotations}`,
		`{tp:.spec.ports[0].targetPort}`, `.spec`, `{a:.metadata.annotations}`, `.spec.ports[0]`,
		`{p:[.spec.ports[]?|{port,targetPort}]}`, `{sel:.spec.selector,tp:[.spec.ports[]?.targetPort]}`,
		`.metadata.annotations // {}`, ``, `{s:.spec,a:.metadata.annotations}`,
	},
	"ConfigMap": {
		`.data`, `{d:.data,a:.metadata.annotations}`, `{x}`, `{x:.x,k:.data.k}`, `{v:.data.k}`, ``,
		`.metadata.annotations // {}`, `{x:.x}`, `{d:.data,x:.x}`, `(.x|objects) // {x:.x}`,
	},
}

// ---- value trees ----

func copyTree(v interface{}) interface{} {
	switch x := v.(type) {
	case map[string]interface{}:
		m := make(map[string]interface{}, len(x))
		for k, e := range x {
			m[k] = copyTree(e)
		}
		return m
	case []interface{}:
		a := make([]interface{}, len(x))
		for i, e := range x {
			a[i] = copyTree(e)
		}
		return a
	}
	return v
}

// goText: how Go's fmt prints a decoded JSON tree (numbers as they are written in JSON)
func goText(v interface{}) string {
	switch x := v.(type) {
	case nil:
		return "<nil>"
	case rawNum:
		return string(x)
	case map[string]interface{}:
		keys := sortedKeys(x)
		parts := make([]string, len(keys))
		for i, k := range keys {
			parts[i] = k + ":" + goText(x[k])
		}
		return "map[" + strings.Join(parts, " ") + "]"
	case []interface{}:
		parts := make([]string, len(x))
		for i, e := range x {
			parts[i] = goText(e)
		}
		return "[" + strings.Join(parts, " ") + "]"
	}
	return fmt.Sprint(v)
}

func jsonTextOf(v interface{}) string {
	b, _ := json.Marshal(v)
	return string(b)
}

func sortedKeys(m map[string]interface{}) []string {
	keys := make([]string, 0, len(m))
	for k := range m {
		keys = append(keys, k)
	}
	sort.Strings(keys)
	return keys
}

var alikeStrings = []string{"x", "y", "x y", "x b:y", "x,y", "a:x", "[x]", "[x y]", "map[a:x]", "{a:x}", `"x"`, `x","b":"y`,
	"9090", "8080", "1", "1.0", "1.5", "true", "false", "null", "<nil>", "", " ", "weekly", "weekly owner:a", "http", "0"}

func (g *gen) alikeScalar() interface{} {
	return g.pick(9090, 8080, 1, 0, 2, true, false, nil, rawNum("1.5"), alikeStrings[g.r.Intn(len(alikeStrings))], alikeStrings[g.r.Intn(len(alikeStrings))])
}

// a small tree for the free field
func (g *gen) alikeTree(depth int) interface{} {
	if depth <= 0 || g.r.Chance(45) {
		return g.alikeScalar()
	}
	if g.r.Chance(50) {
		n := 1 + g.r.Intn(3)
		a := make([]interface{}, n)
		for i := range a {
			a[i] = g.alikeTree(depth - 1)
		}
		return a
	}
	m := map[string]interface{}{}
	for _, k := range []string{"a", "b", "c"}[:1+g.r.Intn(3)] {
		m[k] = g.alikeTree(depth - 1)
	}
	return m
}

// alikeOf: one look-alike (or ordinary) variant of v; the name of the transformation made
func (g *gen) alikeOf(v interface{}) (interface{}, string) {
	// descend into a container half of the time
	switch x := v.(type) {
	case map[string]interface{}:
		if len(x) > 0 && g.r.Chance(55) {
			keys := sortedKeys(x)
			k := keys[g.r.Intn(len(keys))]
			nv, how := g.alikeOf(x[k])
			x[k] = nv
			return x, how
		}
	case []interface{}:
		if len(x) > 0 && g.r.Chance(55) {
			i := g.r.Intn(len(x))
			nv, how := g.alikeOf(x[i])
			x[i] = nv
			return x, how
		}
	}
	for try := 0; try < 6; try++ {
		switch g.r.Intn(10) {
		case 0, 1: // the value -> its fmt form as a string
			if _, isStr := v.(string); !isStr {
				return goText(v), "value->its-fmt-text-as-string"
			}
		case 2: // the value -> its JSON text as a string
			if _, isStr := v.(string); !isStr {
				return jsonTextOf(v), "value->its-JSON-text-as-string"
			}
			return jsonTextOf(v), "string->its-quoted-JSON-text"
		case 3, 4: // a string that is the JSON text of a value -> that value
			if s, ok := v.(string); ok {
				if s == "<nil>" {
					return nil, "string-<nil>->null"
				}
				var x interface{}
				dec := json.NewDecoder(strings.NewReader(s))
				dec.UseNumber()
				if dec.Decode(&x) == nil && !dec.More() {
					if n, isNum := x.(json.Number); isNum {
						return rawNum(n.String()), "string->the-number-it-spells"
					}
					return x, "string->the-JSON-value-it-spells"
				}
			}
		case 5: // the border between a string value and the next key
			if m, ok := v.(map[string]interface{}); ok && len(m) >= 2 {
				keys := sortedKeys(m)
				i := g.r.Intn(len(keys) - 1)
				if s, isStr := m[keys[i]].(string); isStr {
					sep := g.pick(" ", " ", ",", `","`).(string)
					if sep == `","` {
						m[keys[i]] = s + `","` + keys[i+1] + `":"` + goText(m[keys[i+1]])
					} else {
						m[keys[i]] = s + sep + keys[i+1] + ":" + goText(m[keys[i+1]])
					}
					delete(m, keys[i+1])
					return m, "map:next-key-folded-into-string-value"
				}
			}
			if m, ok := v.(map[string]interface{}); ok {
				// unfold: "x b:y" -> "x", b:"y"
				for _, k := range sortedKeys(m) {
					if s, isStr := m[k].(string); isStr {
						if i := strings.Index(s, " "); i >= 0 {
							if j := strings.Index(s[i+1:], ":"); j > 0 {
								nk := s[i+1 : i+1+j]
								if _, exists := m[nk]; !exists && nk > k {
									m[k] = s[:i]
									m[nk] = s[i+1+j+1:]
									return m, "map:string-value-unfolded-into-next-key"
								}
							}
						}
					}
				}
			}
		case 6: // the border between array elements
			if a, ok := v.([]interface{}); ok && len(a) >= 2 {
				i := g.r.Intn(len(a) - 1)
				merged := goText(a[i]) + g.pick(" ", ",").(string) + goText(a[i+1])
				na := append(append(append([]interface{}{}, a[:i]...), merged), a[i+2:]...)
				return na, "array:two-elements-folded-into-one-string"
			}
			if a, ok := v.([]interface{}); ok && len(a) == 1 {
				if s, isStr := a[0].(string); isStr && strings.Contains(s, " ") {
					parts := strings.SplitN(s, " ", 2)
					return []interface{}{parts[0], parts[1]}, "array:string-element-split-in-two"
				}
			}
		case 7: // the same number written differently: the SAME value
			switch n := v.(type) {
			case int:
				return rawNum(fmt.Sprintf("%d.0", n)), "number:same-value-written-n.0"
			case rawNum:
				if strings.HasSuffix(string(n), ".0") {
					var i int
					if _, err := fmt.Sscanf(string(n), "%d.0", &i); err == nil {
						return i, "number:same-value-written-n"
					}
				}
			}
		case 8: // key order of the text is no difference (maps are re-marshalled sorted): nothing changes
			if _, ok := v.(map[string]interface{}); ok {
				return v, "unchanged"
			}
		case 9: // an ordinary change
			switch x := v.(type) {
			case int:
				return x + 1, "ordinary:other-number"
			case string:
				return x + "z", "ordinary:other-string"
			case bool:
				return !x, "ordinary:other-bool"
			case map[string]interface{}:
				x["n"] = g.alikeScalar()
				return x, "ordinary:key-added"
			case []interface{}:
				return append(x, g.alikeScalar()), "ordinary:element-added"
			}
			return g.alikeScalar(), "ordinary:other-scalar"
		}
	}
	return g.alikeScalar(), "ordinary:other-scalar"
}

// ---- objects ----

func (g *gen) alikeBase(id int) map[string]interface{} {
	md := map[string]interface{}{"name": fmt.Sprintf("o%d", id), "namespace": objNamespace}
	o := map[string]interface{}{"apiVersion": "v1", "kind": g.alike.kind, "metadata": md}
	if g.r.Chance(75) {
		md["annotations"] = copyTree(g.pick(
			map[string]interface{}{"note": "weekly", "owner": "a"},
			map[string]interface{}{"a": "x", "b": "y"},
			map[string]interface{}{"a": "x", "b": "y", "c": "z"},
			map[string]interface{}{"a": "1", "b": "true"},
			map[string]interface{}{"k": alikeStrings[g.r.Intn(len(alikeStrings))]},
		))
	}
	if g.r.Chance(40) {
		md["labels"] = map[string]interface{}{"app": g.pick("x", "y")}
	}
	if g.alike.kind == "Service" {
		ports := []interface{}{map[string]interface{}{"port": 80, "targetPort": g.pick(8080, 9090, "9090", "http")}}
		if g.r.Chance(40) {
			ports = append(ports, map[string]interface{}{"port": 443, "targetPort": g.pick(8443, "8443", "https", 9090)})
		}
		o["spec"] = map[string]interface{}{"ports": ports, "selector": map[string]interface{}{"app": g.pick("x", "x y", "1")}}
		return o
	}
	data := map[string]interface{}{"k": g.alikeScalar()}
	if g.r.Chance(50) {
		data["m"] = g.pick("y", "2", "true", "z w")
	}
	o["data"] = data
	if g.r.Chance(80) {
		o["x"] = g.alikeTree(2)
	}
	return o
}

func (g *gen) alikeMutate(o map[string]interface{}) map[string]interface{} {
	c := copyTree(o).(map[string]interface{})
	md := c["metadata"].(map[string]interface{})
	note := func(how string) {
		if g.alike.used != nil {
			g.alike.used[how] = true
		}
	}
	k := g.r.Intn(100)
	switch {
	case k < 8: // outside every projection of the class
		md["resourceVersion"] = fmt.Sprintf("%d", 100+g.r.Intn(900))
		note("outside:resourceVersion")
		return c
	case k < 14:
		md["labels"] = map[string]interface{}{"app": g.pick("x", "y", "z")}
		note("outside:labels")
		return c
	case k < 40:
		a, ok := md["annotations"]
		if !ok {
			md["annotations"] = map[string]interface{}{"a": "x", "b": "y"}
			note("ordinary:annotations-added")
			return c
		}
		nv, how := g.alikeOf(a)
		md["annotations"] = nv
		note(how)
		return c
	}
	if g.alike.kind == "Service" {
		spec := c["spec"].(map[string]interface{})
		if k < 50 {
			nv, how := g.alikeOf(spec["selector"])
			spec["selector"] = nv
			note(how)
			return c
		}
		ports := spec["ports"].([]interface{})
		p := ports[g.r.Intn(len(ports))].(map[string]interface{})
		nv, how := g.alikeOf(p["targetPort"])
		p["targetPort"] = nv
		note(how)
		return c
	}
	if _, ok := c["x"]; ok && k < 70 {
		nv, how := g.alikeOf(c["x"])
		c["x"] = nv
		note(how)
		return c
	}
	// data stays a map (the filters of the class index it: `.data.k` must not fail)
	data := c["data"].(map[string]interface{})
	nv, how := g.alikeOf(data)
	if m, ok := nv.(map[string]interface{}); ok {
		c["data"] = m
	} else {
		data["k"] = nv
	}
	note(how)
	return c
}

func (g *gen) alikeSetup(i int) (filterDef, int) {
	kind := "Service"
	if i%2 == 1 {
		kind = "ConfigMap"
	}
	g.alike = &alikeGen{kind: kind, used: map[string]bool{}}
	fs := alikeFilters[kind]
	f := filterDef{familyAlike, fs[(i/2)%len(fs)]}
	// Modified listed in 7 cases of 9: all three / not configured / {Modified} / {Added, Modified} /
	// {Modified, Deleted}; the other subsets now and then
	subset := []int{7, -1, 2, 4, 6, 7, -1, i % 8, i % 8}[i%9]
	return f, subset
}

func (g *gen) alikeDone(in *Input) {
	in.Kind = g.alike.kind
	for how := range g.alike.used {
		in.Alike = append(in.Alike, how)
	}
	sort.Strings(in.Alike)
	g.alike = nil
}

// alikeStartCase: the objects exist / are changed in the fake cluster, the real shared informer delivers
func (g *gen) alikeStartCase(f filterDef, subset int) Input {
	in := Input{Filter: f.expr, Family: f.family, Mode: modeStart, Joins: g.r.Chance(20)}
	if subset < 0 {
		in.TypesUnset = true
	} else {
		in.Types = append([]string{}, typeSubsets[subset]...)
	}
	stateIdx := map[string]int{}
	addState := func(id int, o map[string]interface{}) int {
		t := objText(o)
		if i, ok := stateIdx[t]; ok {
			return i
		}
		in.States = append(in.States, State{Id: id, Obj: t})
		stateIdx[t] = len(in.States) - 1
		return len(in.States) - 1
	}
	srv := func(o map[string]interface{}, id int) map[string]interface{} {
		md := o["metadata"].(map[string]interface{})
		md["uid"] = fmt.Sprintf("u-%d", id)
		md["resourceVersion"] = fmt.Sprintf("%d", 100+g.r.Intn(900))
		md["creationTimestamp"] = "2024-05-01T10:00:00Z"
		return o
	}
	cur := map[int]map[string]interface{}{}
	nExisting := []int{0, 1, 1, 1, 2}[g.r.Intn(5)]
	for id := 1; id <= nExisting; id++ {
		cur[id] = srv(g.alikeBase(id), id)
		in.History = append(in.History, Ev{Type: "Added", State: addState(id, cur[id]), Batch: batchExisting})
	}
	for n := 1 + g.r.Intn(4); n > 0; n-- {
		id := 1 + g.r.Intn(2)
		o := cur[id]
		switch {
		case o == nil:
			cur[id] = srv(g.alikeBase(id), id)
			in.History = append(in.History, Ev{Type: "Added", State: addState(id, cur[id])})
		case g.r.Chance(12):
			in.History = append(in.History, Ev{Type: "Deleted", State: addState(id, o)})
			cur[id] = nil
		default:
			no := g.alikeMutate(o)
			if g.r.Chance(70) {
				no["metadata"].(map[string]interface{})["resourceVersion"] = fmt.Sprintf("%d", 1000+g.r.Intn(9000))
			}
			cur[id] = no
			in.History = append(in.History, Ev{Type: "Modified", State: addState(id, no)})
		}
	}
	return in
}

func (g *gen) alikeCases(n, nStart, maxLen int) []core.In[Input] {
	var ins []core.In[Input]
	for i := 0; i < n; i++ {
		f, subset := g.alikeSetup(i)
		nIds := 1
		if g.r.Chance(20) {
			nIds = 2
		}
		in := g.history(nIds, maxLen, f, subset, i%5 == 4)
		g.alikeDone(&in)
		ins = append(ins, core.In[Input]{Input: in, Stream: "look-alike"})
	}
	for i := 0; i < nStart; i++ {
		f, subset := g.alikeSetup(i)
		in := g.alikeStartCase(f, subset)
		g.alikeDone(&in)
		ins = append(ins, core.In[Input]{Input: in, Stream: "look-alike-start"})
	}
	return ins
}

func alikeTags(in Input) []string {
	if in.Family != familyAlike {
		return nil
	}
	t := []string{"alike-kind:" + kindOf(in), "alike-filter:" + map[bool]string{true: "(none)", false: in.Filter}[in.Filter == ""]}
	for _, how := range in.Alike {
		t = append(t, "alike:"+how)
	}
	return t
}

// ---- fixed corpus ----

func svc(name, annotations, targetPorts string) string {
	s := `{"apiVersion":"v1","kind":"Service","metadata":{"name":"` + name + `","namespace":"` + objNamespace + `"`
	if annotations != "" {
		s += `,"annotations":` + annotations
	}
	s += `},"spec":{"ports":[`
	for i, tp := range strings.Split(targetPorts, "|") {
		if i > 0 {
			s += ","
		}
		s += fmt.Sprintf(`{"port":%d,"targetPort":%s}`, 80+i, tp)
	}
	return s + `],"selector":{"app":"x"}}}`
}

func alikeFixed(kind string, types []string, unset bool, filter string, objs []string, hist []Ev, start bool) Input {
	ids := make([]int, len(objs))
	for i := range ids {
		ids[i] = 1
	}
	in := fixed(types, unset, filter, familyAlike, objs, ids, hist)
	in.Kind = kind
	if start {
		in.Mode = modeStart
	}
	return in
}

// AlikeCorpus: the look-alikes named in the task, each as a short history; run first.
func AlikeCorpus() []Input {
	ann := `{"note":"weekly","owner":"a"}`
	fold := `{"note":"weekly owner:a"}`
	tpFilter := `{"targetPorts":[.spec.ports[]?.targetPort],"annotations":.metadata.annotations}`
	return []Input{
		// IntOrString: 8080 -> 9090 (ordinary), 9090 -> "9090" (a NAMED port now), re-delivery, the annotation fold, back
		alikeFixed("Service", all3, false, tpFilter,
			[]string{svc("o1", ann, "8080"), svc("o1", ann, "9090"), svc("o1", ann, `"9090"`), svc("o1", fold, `"9090"`)},
			[]Ev{ev("Added", 0), ev("Modified", 1), ev("Modified", 2), ev("Modified", 2), ev("Modified", 3), ev("Modified", 2), ev("Deleted", 2)}, false),
		// the same through the real shared informer on the fake cluster, only Modified listed
		alikeFixed("Service", []string{"Modified"}, false, tpFilter,
			[]string{svc("o1", ann, "9090"), svc("o1", ann, `"9090"`), svc("o1", fold, `"9090"`)},
			[]Ev{existing(0), ev("Modified", 1), ev("Modified", 2)}, true),
		// the same number written differently is the same value: 9090 -> 9090.0 is silent, -> "9090.0" is not
		alikeFixed("Service", nil, true, `{tp:.spec.ports[0].targetPort}`,
			[]string{svc("o1", "", "9090"), svc("o1", "", "9090.0"), svc("o1", "", `"9090.0"`), svc("o1", "", `"9090"`)},
			[]Ev{ev("Added", 0), ev("Modified", 1), ev("Modified", 2), ev("Modified", 3), ev("Modified", 0)}, false),
		// data values: true / "true", null / "null" / "<nil>", 1 / "1" / 1.5 / "1.5"
		alikeFixed("", all3, false, `.data`,
			[]string{k("o1", `"data":{"k":true}`), k("o1", `"data":{"k":"true"}`), k("o1", `"data":{"k":null}`), k("o1", `"data":{"k":"null"}`),
				k("o1", `"data":{"k":"<nil>"}`), k("o1", `"data":{"k":1}`), k("o1", `"data":{"k":"1"}`), k("o1", `"data":{"k":1.5}`), k("o1", `"data":{"k":"1.5"}`)},
			[]Ev{ev("Added", 0), ev("Modified", 1), ev("Modified", 2), ev("Modified", 3), ev("Modified", 4), ev("Modified", 2), ev("Modified", 5),
				ev("Modified", 6), ev("Modified", 7), ev("Modified", 8)}, false),
		// borders: {"a":"x","b":"y"} / {"a":"x b:y"} / {"a":"x\",\"b\":\"y"}; nested map / array and their printed forms
		alikeFixed("", []string{"Modified"}, false, `{x}`,
			[]string{k("o1", `"x":{"a":"x","b":"y"}`), k("o1", `"x":{"a":"x b:y"}`), k("o1", `"x":{"a":"x\",\"b\":\"y"}`), k("o1", `"x":"map[a:x b:y]"`),
				k("o1", `"x":"{\"a\":\"x\",\"b\":\"y\"}"`), k("o1", `"x":["x","y"]`), k("o1", `"x":["x y"]`), k("o1", `"x":"[x y]"`), k("o1", `"x":[1,2]`), k("o1", `"x":["1","2"]`), k("o1", `"x":[1,"2"]`)},
			[]Ev{ev("Added", 0), ev("Modified", 1), ev("Modified", 2), ev("Modified", 0), ev("Modified", 3), ev("Modified", 4), ev("Modified", 5),
				ev("Modified", 6), ev("Modified", 7), ev("Modified", 8), ev("Modified", 9), ev("Modified", 10)}, false),
		// key order of the text is no difference; no filter: the whole object is the projection
		alikeFixed("", all3, false, ``,
			[]string{k("o1", `"data":{"a":"x","b":"y"}`), k("o1", `"data":{"b":"y","a":"x"}`), k("o1", `"data":{"a":"x b:y"}`)},
			[]Ev{ev("Added", 0), ev("Modified", 1), ev("Modified", 2)}, false),
	}
}
