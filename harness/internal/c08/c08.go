// Package c08: correspondence driver for C08 (hooks are triggered only by meaningful
// changes: event type and jqFilter).
//
// A case scripts a history of watch events for a REAL resourceInformer
// (pkg/kube_events_manager): a real monitor is built on a fake cluster around a
// MonitorConfig (event types, jqFilter) by NewMonitor + CreateInformers (reached through the
// add-only verif export NewVerifC01Monitor), its informer is NOT started; the harness calls
// the informer's client-go handler methods OnAdd/OnUpdate/OnDelete synchronously with the
// argument in the form client-go uses - the *unstructured.Unstructured itself, or, for an
// object that a relist no longer lists, the cache.DeletedFinalStateUnknown tombstone that a
// real client-go DeltaFIFO.Replace produces for it -, collects the fired KubeEvents through
// the event callback and reads the monitor's snapshot after every delivery.
// The expected jq values are computed with /usr/bin/jq (an oracle independent of gojq)
// and handed to Coq as the case's oracle table.
//
// A second class of cases (Mode "start", start.go) does not call the handlers at all: objects
// exist in the cluster before the monitor is created (loadExistedObjects), the monitor is
// started and the REAL client-go shared informer makes every delivery (FactoryStore.Start).
package c08

import (
	"bytes"
	"context"
	"encoding/json"
	"fmt"
	"os/exec"
	"sort"
	"strings"
	"time"

	"github.com/deckhouse/deckhouse/pkg/log"
	"github.com/flant/kube-client/fake"
	"k8s.io/apimachinery/pkg/apis/meta/v1/unstructured"
	"k8s.io/client-go/tools/cache"

	kem "github.com/flant/shell-operator/pkg/kube_events_manager"
	kemtypes "github.com/flant/shell-operator/pkg/kube_events_manager/types"
	metricstorage "github.com/flant/shell-operator/pkg/metric_storage"

	"verifharness/internal/core"
)

type State struct {
	Id  int    `json:"id"`  // dense resource id (the object's name is o<id>)
	Obj string `json:"obj"` // the object as JSON text
}

type Ev struct {
	Type  string `json:"type"`  // Added | Modified | Deleted: the handler called (OnAdd | OnUpdate | OnDelete)
	State int    `json:"state"` // index into States
	// form of the handler's argument: "" = the object itself (*unstructured.Unstructured),
	// "tombstone" = cache.DeletedFinalStateUnknown{Key, Obj: object} as client-go's
	// DeltaFIFO.Replace makes it for an object that is missing from a relist
	Form string `json:"form,omitempty"`
	// "relist" = the delivery belongs to the batch a relist after a broken watch produces;
	// "existing" (start cases only) = no delivery at all: the object is in the cluster
	// before the monitor is created
	Batch string `json:"batch,omitempty"`
}

const formTombstone = "tombstone"

type Input struct {
	Types      []string `json:"types"`       // executeHookOnEvent
	TypesUnset bool     `json:"types_unset"` // true = not configured (WithEventTypes(nil))
	Filter     string   `json:"filter"`
	Family     string   `json:"family"`
	States     []State  `json:"states"`
	History    []Ev     `json:"history"`
	// Mode "" : the monitor is created on an empty cluster and the harness calls the
	// informer's handler methods itself, one call per History entry.
	// Mode "start": the History is a script for the CLUSTER (see start.go): the entries with
	// Batch "existing" are created before the monitor, then the monitor is created
	// (loadExistedObjects) and started (FactoryStore.Start: real client-go shared informer),
	// then the other entries are applied to the cluster one by one; every delivery is made
	// by the shared informer.
	Mode string `json:"mode,omitempty"`
	// start cases: another monitor with the same FactoryIndex is already running, so that
	// FactoryStore.Start joins a started shared informer (AddEventHandler replays its store)
	Joins bool `json:"joins,omitempty"`
	// window cases (win.go; Mode "start" only): the monitor is STARTED while its events are still
	// locked (as between AddMonitor/Start and the unlock that follows the binding's
	// Synchronization); the harness calls Monitor.EnableKubeEventCb at the History entry with
	// Batch "unlock" (at the end of the history when there is none)
	Win bool `json:"win,omitempty"`
	// Declared (decl.go): the binding is written as the TEXT of a v1 hook configuration and the
	// MonitorConfig comes from the REAL loader.  Types/TypesUnset are then the key
	// executeHookOnEvent (TypesUnset = key absent), Watch/WatchSet the deprecated key
	// watchEvent (WatchSet = key present); Style = json | yaml-flow | yaml-block; WatchFirst =
	// watchEvent is written before executeHookOnEvent; NoSync = executeHookOnSynchronization:
	// false is written too; BindingName = the binding's name key ("" = none).
	Declared    bool     `json:"declared,omitempty"`
	Watch       []string `json:"watch,omitempty"`
	WatchSet    bool     `json:"watch_set,omitempty"`
	Style       string   `json:"style,omitempty"`
	WatchFirst  bool     `json:"watch_first,omitempty"`
	NoSync      bool     `json:"no_sync,omitempty"`
	BindingName string   `json:"binding_name,omitempty"`
	// Kind of the objects and of the monitor ("" = ConfigMap; alike.go also uses Service)
	Kind string `json:"kind,omitempty"`
	// look-alike cases (alike.go): the kinds of value changes the history makes (for the tags only)
	Alike []string `json:"alike,omitempty"`
}

type Fired struct {
	Type  string `json:"type"`
	State int    `json:"state"`
}

type CacheEntry struct {
	Id    int `json:"id"`
	State int `json:"state"`
}

// Seen: what the harness saw of one delivery on the informer itself (start cases).
type Seen struct {
	Type string `json:"type"` // from the informer's Added/Modified/Deleted counters
	Id   int    `json:"id"`   // dense resource id of the cache entry that was replaced / removed
}

type StepObs struct {
	Seen  *Seen           `json:"seen,omitempty"`
	Fired []Fired         `json:"fired"`
	FR    json.RawMessage `json:"fr,omitempty"` // FilterResult (absent = nil)
	Cache []CacheEntry    `json:"cache"`
	// for the reader of a replay file only: the objects of this step (fired events, cache)
	// that are none of the case's states ("state": 999), as JSON text
	Unknown []string `json:"objects_that_are_no_state_of_the_case,omitempty"`
}

type Answer struct {
	Outs   []json.RawMessage `json:"outs"`
	Failed bool              `json:"failed"`
}

type Obs struct {
	Steps   []StepObs `json:"steps"`
	Answers []Answer  `json:"answers"` // /usr/bin/jq on every state (empty without a filter)
	Err     string    `json:"err,omitempty"`
	// cachedObjects right after the monitor's creation (loadExistedObjects)
	Cache0    []CacheEntry `json:"cache0"`
	CreateErr string       `json:"create_err,omitempty"` // CreateInformers failed
	// start cases: the resource ids of the deliveries the shared informer made at its start
	// (one per existing object is expected), in the order they were seen
	Replay []int `json:"replay,omitempty"`
	// window cases: the KubeEvents the monitor's callback got during the harness's
	// Monitor.EnableKubeEventCb call, in order; Unlocked = that call was made and returned
	Flushed  []Fired `json:"flushed,omitempty"`
	Unlocked bool    `json:"unlocked,omitempty"`
	// declared cases: the text given to the real loader, MonitorConfig.EventTypes as the
	// loader left it (nil = the loader did not get that far), the loader's error
	ConfigText string    `json:"config_text,omitempty"`
	Effective  *[]string `json:"effective_event_types,omitempty"`
	LoadErr    string    `json:"load_err,omitempty"`
}

const unknownState = 999

// kind of the generated objects and of the monitor (a kind the fake cluster knows)
const objKind = "ConfigMap"

func parseObj(s string) *unstructured.Unstructured {
	u := &unstructured.Unstructured{}
	if err := u.UnmarshalJSON([]byte(s)); err != nil {
		panic(fmt.Sprintf("harness: bad object %s: %v", s, err))
	}
	return u
}

func canon(v interface{}) string {
	b, err := json.Marshal(v)
	if err != nil {
		return "<unmarshalable>"
	}
	var x interface{}
	dec := json.NewDecoder(bytes.NewReader(b))
	dec.UseNumber()
	if dec.Decode(&x) != nil {
		return string(b)
	}
	out, _ := json.Marshal(x)
	return string(out)
}

// oracle: /usr/bin/jq -c FILTER on the object
func oracle(filter, obj string) Answer {
	ctx, cancel := context.WithTimeout(context.Background(), 10*time.Second)
	defer cancel()
	cmd := exec.CommandContext(ctx, "/usr/bin/jq", "-c", filter)
	cmd.Stdin = strings.NewReader(obj)
	var stdout bytes.Buffer
	cmd.Stdout = &stdout
	err := cmd.Run()
	a := Answer{Failed: err != nil}
	for _, line := range strings.Split(stdout.String(), "\n") {
		if strings.TrimSpace(line) == "" {
			continue
		}
		a.Outs = append(a.Outs, json.RawMessage(line))
	}
	return a
}

// tombstoneOf lets client-go itself make what OnDelete receives for an object that a relist
// no longer lists: the object sits in the informer's store (the DeltaFIFO's KnownObjects,
// configured as sharedIndexInformer.Run configures it), the new list is empty,
// DeltaFIFO.Replace queues the Deleted delta and Pop hands it over as processDeltas gets it.
func tombstoneOf(obj *unstructured.Unstructured) (interface{}, error) {
	store := cache.NewStore(cache.DeletionHandlingMetaNamespaceKeyFunc)
	if err := store.Add(obj); err != nil {
		return nil, err
	}
	fifo := cache.NewDeltaFIFOWithOptions(cache.DeltaFIFOOptions{KnownObjects: store, EmitDeltaTypeReplaced: true})
	if err := fifo.Replace([]interface{}{}, "2"); err != nil {
		return nil, err
	}
	if len(fifo.ListKeys()) != 1 {
		return nil, fmt.Errorf("DeltaFIFO.Replace queued %d keys for one missing object", len(fifo.ListKeys()))
	}
	var arg interface{}
	_, err := fifo.Pop(func(x interface{}, _ bool) error {
		deltas, ok := x.(cache.Deltas)
		if !ok || len(deltas) != 1 || deltas[0].Type != cache.Deleted {
			return fmt.Errorf("unexpected deltas for a missing object: %#v", x)
		}
		arg = deltas[0].Object
		return nil
	})
	return arg, err
}

// deliver calls the client-go handler method of the informer as processDeltas does.
func deliver(h cache.ResourceEventHandler, eventType string, arg interface{}) {
	switch eventType {
	case "Added":
		h.OnAdd(arg, false)
	case "Modified":
		h.OnUpdate(nil, arg)
	case "Deleted":
		h.OnDelete(arg)
	}
}

// Run: the MonitorConfig is either built by the harness (event types set directly) or - for a
// declared case - produced by the real loader from the configuration text; then the monitor.
func Run(in Input) Obs {
	log.SetDefaultLevel(log.LevelFatal)
	if in.Declared {
		text := ConfigText(in)
		mc, err := loadDeclared(text)
		if err != nil {
			return Obs{ConfigText: text, LoadErr: err.Error(), Err: err.Error()}
		}
		eff := []string{}
		for _, t := range mc.EventTypes {
			eff = append(eff, string(t))
		}
		o := runWith(in, mc)
		o.ConfigText, o.Effective = text, &eff
		return o
	}
	mc := &kem.MonitorConfig{}
	mc.Metadata.MonitorId = "c08-monitor"
	mc.Metadata.DebugName = "c08"
	mc.Metadata.LogLabels = map[string]string{}
	mc.Metadata.MetricLabels = map[string]string{}
	mc.Logger = log.NewNop()
	mc.ApiVersion = "v1"
	mc.Kind = kindOf(in)
	mc.JqFilter = in.Filter
	mc.KeepFullObjectsInMemory = true // so that the cached Object can be observed
	if in.TypesUnset {
		mc.WithEventTypes(nil)
	} else {
		ts := make([]kemtypes.WatchEventType, 0)
		for _, t := range in.Types {
			ts = append(ts, kemtypes.WatchEventType(t))
		}
		mc.WithEventTypes(ts)
	}
	return runWith(in, mc)
}

func runWith(in Input, mc *kem.MonitorConfig) Obs {
	var o Obs
	ctx, cancel := context.WithCancel(context.Background())
	defer cancel()
	if in.Mode == modeStart {
		return runStart(ctx, in, mc)
	}
	ms := metricstorage.NewMetricStorage(ctx, "c08_", true, log.NewNop())
	// the monitor as the operator builds it (NewMonitor + CreateInformers: one informer for
	// all namespaces, initial list of the empty fake cluster), events unlocked, not started:
	// the harness plays client-go's part and calls the informer's handler methods itself
	fc := fake.NewFakeCluster(fake.ClusterVersionV119)
	vm, err := kem.NewVerifC01Monitor(ctx, fc.Client, ms, mc)
	if err != nil {
		o.Err = "create monitor: " + err.Error()
		return o
	}
	if len(vm.M.ResourceInformers) != 1 {
		o.Err = fmt.Sprintf("expected one informer, got %d", len(vm.M.ResourceInformers))
		return o
	}
	var handler cache.ResourceEventHandler = vm.M.ResourceInformers[0]
	o.Cache0 = []CacheEntry{}
	for range vm.M.Snapshot() {
		o.Cache0 = append(o.Cache0, CacheEntry{Id: unknownState, State: unknownState}) // empty cluster: nothing expected
	}
	vm.M.EnableKubeEventCb()
	taken := 0

	canonState := make([]string, len(in.States))
	ridToId := map[string]int{}
	for i, s := range in.States {
		u := parseObj(s.Obj)
		canonState[i] = canon(u)
		ridToId[fmt.Sprintf("%s/%s/%s", u.GetNamespace(), u.GetKind(), u.GetName())] = s.Id
	}
	stateOf := func(u *unstructured.Unstructured) int {
		if u == nil {
			return unknownState
		}
		c := canon(u)
		for i, s := range canonState {
			if s == c {
				return i
			}
		}
		return unknownState
	}
	frOf := func(v interface{}) json.RawMessage {
		if v == nil {
			return nil
		}
		return json.RawMessage(canon(v))
	}

	for _, ev := range in.History {
		st := in.States[ev.State]
		var arg interface{} = parseObj(st.Obj)
		if ev.Form == formTombstone {
			var err error
			if arg, err = tombstoneOf(parseObj(st.Obj)); err != nil {
				o.Err = "tombstone: " + err.Error()
				return o
			}
		}
		deliver(handler, ev.Type, arg)
		var so StepObs
		var evFR json.RawMessage
		events := vm.Events()
		fresh := events[taken:]
		taken = len(events)
		for _, ke := range fresh {
			f := Fired{Type: "?", State: unknownState}
			if len(ke.WatchEvents) == 1 && ke.Type == kemtypes.TypeEvent && ke.MonitorId == mc.Metadata.MonitorId {
				f.Type = string(ke.WatchEvents[0])
			}
			if len(ke.Objects) == 1 {
				f.State = stateOf(ke.Objects[0].Object)
				evFR = frOf(ke.Objects[0].FilterResult)
			}
			so.Fired = append(so.Fired, f)
		}
		var cachedFR json.RawMessage
		inCache := false
		for _, c := range vm.M.Snapshot() {
			id, ok := ridToId[c.Metadata.ResourceId]
			if !ok {
				id = unknownState
			}
			so.Cache = append(so.Cache, CacheEntry{Id: id, State: stateOf(c.Object)})
			if id == st.Id {
				inCache = true
				cachedFR = frOf(c.FilterResult)
			}
		}
		sort.Slice(so.Cache, func(i, j int) bool { return so.Cache[i].Id < so.Cache[j].Id })
		if inCache {
			so.FR = cachedFR
		} else {
			so.FR = evFR
		}
		o.Steps = append(o.Steps, so)
	}
	if in.Filter != "" {
		for _, s := range in.States {
			o.Answers = append(o.Answers, oracle(in.Filter, s.Obj))
		}
	}
	return o
}

// ---- rendering ----

func coqJSONText(raw []byte) string {
	s, ok := core.CoqJSONBytes(raw)
	if !ok {
		return "(JStr " + core.CoqBytes("<unparsable: "+string(raw)+">") + ")"
	}
	return s
}

func coqType(t string) string {
	switch t {
	case "Added", "Modified", "Deleted":
		return t
	}
	return "Deleted (* unknown type: " + strings.ReplaceAll(t, "*", "") + " *)"
}

func Render(in Input, obs *Obs, crash string) core.Case {
	var o Obs
	if obs != nil {
		o = *obs
	}
	types := "None"
	if !in.TypesUnset {
		types = "(Some " + core.CoqList(in.Types, coqType) + ")"
	}
	watch := "None"
	if in.Declared && in.WatchSet {
		watch = "(Some " + core.CoqList(in.Watch, coqType) + ")"
	}
	eff := "None"
	if in.Declared && o.Effective != nil {
		eff = "(Some " + core.CoqList(*o.Effective, coqType) + ")"
	}
	states := core.CoqList(in.States, func(s State) string { return fmt.Sprintf("(%d, %s)", s.Id, coqJSONText([]byte(s.Obj))) })
	answers := core.CoqList(o.Answers, func(a Answer) string {
		return fmt.Sprintf("(%s, %s)", core.CoqList(a.Outs, func(r json.RawMessage) string { return coqJSONText(r) }), core.CoqBool(a.Failed))
	})
	// the history as the model and the specification see it: for a start case the informer's
	// replay of the existing objects (in the order the informer was seen to deliver) and the
	// watch events of the cluster operations; otherwise the handler calls themselves
	history := in.History
	var listed []int
	real := in.Mode == modeStart
	var pl plan
	if real {
		pl = startPlan(in)
		listed = pl.listed()
		history = append(pl.replay(o.Replay), pl.ops...)
	}
	hist := core.CoqList(history, func(e Ev) string {
		form := "FObject"
		if e.Form == formTombstone {
			form = "FTombstone"
		}
		return fmt.Sprintf("(%s, %d, %s)", coqType(e.Type), e.State, form)
	})
	cache0 := "None"
	if obs != nil && crash == "" && o.CreateErr == "" && o.Cache0 != nil {
		cache0 = "(Some " + core.CoqList(o.Cache0, func(c CacheEntry) string { return fmt.Sprintf("(%d, %d)", c.Id, c.State) }) + ")"
	}
	steps := o.Steps
	if crash != "" {
		// keep what is known; the driver reports the crash as a direct finding and the
		// shorter observation list is a mismatch
		steps = nil
	}
	obsl := core.CoqList(steps, func(s StepObs) string {
		fr := "None"
		if s.FR != nil {
			fr = "(Some " + coqJSONText(s.FR) + ")"
		}
		seen := "None"
		if s.Seen != nil {
			seen = fmt.Sprintf("(Some (%s, %d))", coqType(s.Seen.Type), s.Seen.Id)
		}
		return fmt.Sprintf("(mkI %s %s %s %s)", seen,
			core.CoqList(s.Fired, func(f Fired) string {
				if f.Type == "?" {
					return fmt.Sprintf("(Deleted, %d)", unknownState)
				}
				return fmt.Sprintf("(%s, %d)", coqType(f.Type), f.State)
			}), fr,
			core.CoqList(s.Cache, func(c CacheEntry) string { return fmt.Sprintf("(%d, %d)", c.Id, c.State) }))
	})
	c := core.Case{}
	win, flushed := "None", "[]"
	if real && in.Win {
		win = fmt.Sprintf("(Some %d)", len(pl.existing)+pl.unlockAt)
		fl := o.Flushed
		if crash != "" {
			fl = nil
		}
		flushed = core.CoqList(fl, func(f Fired) string {
			if f.Type == "?" {
				return fmt.Sprintf("(Deleted, %d)", unknownState)
			}
			return fmt.Sprintf("(%s, %d)", coqType(f.Type), f.State)
		})
	}
	c.Coq = fmt.Sprintf("(mkCase %s %s %s %s %s\n  %s\n  %s\n  %s %s %s\n  %s\n  %s\n  %s %s)", types, watch, core.CoqBool(in.Declared), eff,
		core.CoqBool(in.Filter != ""), states, answers,
		core.CoqBool(real), core.CoqList(listed, core.CoqN), cache0, hist, obsl, win, flushed)
	c.JSON = o
	kb, _ := json.Marshal(in)
	c.Key = string(kb)

	c.Tags = append(c.Tags, "filter:"+in.Family)
	c.Tags = append(c.Tags, declTags(in)...)
	if in.TypesUnset {
		c.Tags = append(c.Tags, "types:unset(default)")
	} else {
		ts := append([]string{}, in.Types...)
		sort.Strings(ts)
		c.Tags = append(c.Tags, "types:{"+strings.Join(ts, ",")+"}")
	}
	// the event types the monitor runs with (tags only): as observed on the loader's output
	// for a declared case, else as the harness set them
	effList := in.Types
	if in.TypesUnset {
		effList = all3
	}
	if in.Declared {
		effList = nil
		if o.Effective != nil {
			effList = *o.Effective
		}
	}
	fired, suppressed, repeats, deletes := 0, 0, 0, 0
	tombstones, tombstonesOther, relists := 0, 0, 0
	lastState := map[int]int{}
	for _, st := range listed {
		lastState[in.States[st].Id] = st
	}
	for i, e := range history {
		if e.State < 0 || e.State >= len(in.States) {
			continue
		}
		id := in.States[e.State].Id
		if e.Form == formTombstone {
			if e.Type == "Deleted" {
				tombstones++
			} else {
				tombstonesOther++
			}
		}
		if e.Batch == "relist" {
			relists++
		}
		if e.Type == "Deleted" {
			deletes++
			delete(lastState, id)
		} else {
			if ls, ok := lastState[id]; ok && ls == e.State {
				repeats++
			}
			lastState[id] = e.State
		}
		if i < len(o.Steps) {
			if len(o.Steps[i].Fired) > 0 {
				fired++
			} else {
				suppressed++
			}
		}
	}
	if fired > 0 {
		c.Tags = append(c.Tags, "some-event-fired")
	}
	if suppressed > 0 {
		c.Tags = append(c.Tags, "some-delivery-silent")
	}
	if repeats > 0 {
		c.Tags = append(c.Tags, "redelivery-of-identical-state")
	}
	if deletes > 0 {
		c.Tags = append(c.Tags, "has-delete")
	}
	// the form of the handler's argument
	switch {
	case tombstones > 0:
		c.Tags = append(c.Tags, "delivery:some-Deleted-as-tombstone(DeletedFinalStateUnknown by value)")
		listed := false
		for _, t := range effList {
			if t == "Deleted" {
				listed = true
			}
		}
		if listed {
			c.Tags = append(c.Tags, "tombstone:Deleted-listed")
		} else {
			c.Tags = append(c.Tags, "tombstone:Deleted-not-listed")
		}
		if deletes > tombstones {
			c.Tags = append(c.Tags, "delivery:both-forms-of-Deleted")
		}
	case deletes > 0:
		c.Tags = append(c.Tags, "delivery:every-Deleted-as-object")
	}
	if tombstonesOther > 0 {
		c.Tags = append(c.Tags, "delivery:tombstone-to-OnAdd/OnUpdate")
	}
	if relists > 0 {
		c.Tags = append(c.Tags, "relist-batch")
	}
	failed, nonObject := false, false
	for _, a := range o.Answers {
		if a.Failed {
			failed = true
		}
		if !a.Failed && !(len(a.Outs) == 1 && len(a.Outs[0]) > 0 && a.Outs[0][0] == '{') {
			nonObject = true
		}
	}
	if failed {
		c.Tags = append(c.Tags, "filter-fails-on-some-state(F16 trigger)")
	}
	if nonObject && in.Filter != "" {
		c.Tags = append(c.Tags, "result-not-a-single-object")
	}
	c.Tags = append(c.Tags, alikeTags(in)...)
	if in.Family == familyMulti || in.Family == "multiple" {
		c.Tags = append(c.Tags, multiTags(o.Answers)...)
	}
	c.Tags = append(c.Tags, fmt.Sprintf("history:%02d+", len(history)/4*4))
	// non-trivial: at least 3 deliveries, both a fired and a silent delivery
	c.Nontrivial = len(history) >= 3 && fired > 0 && suppressed > 0
	if real {
		c.Tags = append(c.Tags, pl.tags(in, effList)...)
		// a start case: at least one existing object was replayed and something else was delivered
		c.Nontrivial = len(listed) >= 1 && len(history) >= 2 && len(o.Steps) == len(history)
		if in.Win {
			c.Tags = append(c.Tags, winTags(in, pl, &o)...)
			// a window case: the unlock handed over at least two saved events, everything observed
			c.Nontrivial = o.Unlocked && len(o.Flushed) >= 2 && len(o.Steps) == len(history)
		}
	} else {
		c.Tags = append(c.Tags, "mode:harness-calls-the-handlers(informer not started)")
		if in.Declared && !in.TypesUnset && len(in.Types) == 0 {
			// a snapshot-only declaration: nothing may fire; non-trivial when the gate had
			// at least three deliveries to keep silent
			c.Nontrivial = len(history) >= 3 && fired == 0 && suppressed >= 3
		}
	}
	if in.Declared && o.Effective == nil {
		c.Nontrivial = false
	}
	return c
}

// ---- generation ----

type filterDef struct {
	family string
	expr   string
}

var filters = []filterDef{
	{"none", ""},
	{"path-object", ".spec"}, {"path-object", ".metadata.labels"}, {"path-object", ".data"}, {"path-object", ".status"},
	{"path-object", ".metadata"},
	{"constructed", "{a:.a,b:.b}"}, {"constructed", "{r:.spec.replicas}"}, {"constructed", "{name:.metadata.name,ph:.status.phase}"},
	{"constructed", "{l:.metadata.labels,s:.spec}"}, {"constructed", "{a}"}, {"constructed", ".spec + {p:.status.phase}"},
	{"constructed", "{n:(.items|length)}"}, {"constructed", "{(.status.phase // \"none\"):.a}"},
	{"scalar", ".spec.replicas"}, {"scalar", ".status.phase"}, {"scalar", ".a"}, {"scalar", ".spec.replicas > 2"},
	{"scalar", ".items | length"}, {"scalar", ".metadata.name"},
	{"array", ".items"}, {"array", "[.a,.b]"}, {"array", "[.spec.replicas]"}, {"array", ".items | map(. + 1)"}, {"array", ".data | keys"},
	{"null", "null"}, {"null", ".nonexistent"}, {"null", ".spec.nothing"},
	{"empty", "empty"}, {"empty", "select(.spec.replicas > 2)"}, {"empty", "select(.a == 1) | {a}"}, {"empty", ".items[]? | select(. > 100)"},
	{"multiple", ".spec, .status"}, {"multiple", "{a:.a}, {b:.b}"}, {"multiple", ".a, .b"}, {"multiple", ".items[]"},
	{"multiple", "{x:.a}, {x:.b}"}, {"multiple", ".spec, 1, {z:.b}"}, {"multiple", "{a:.a}, halt"},
	{"error", ".spec.replicas.foo"}, {"error", "error(\"boom\")"}, {"error", ".a | keys"}, {"error", "{a:.a}, error(\"late\")"},
	{"error", ".items[] | .x"}, {"error", "{r:.spec.replicas.foo}"}, {"error", "{p:(.status.phase|ascii_downcase)}"},
}

type gen struct {
	r *core.Rng
	// multi (multi.go): the objects switch the sources of a multi-output filter's parts on and off
	multi bool
	// alike (alike.go): the objects' selected fields move between look-alike values
	alike *alikeGen
}

func (g *gen) pick(xs ...interface{}) interface{} { return xs[g.r.Intn(len(xs))] }

// a base object for resource id
func (g *gen) baseObject(id int) map[string]interface{} {
	o := map[string]interface{}{
		"apiVersion": "v1",
		"kind":       objKind,
		"metadata":   map[string]interface{}{"name": fmt.Sprintf("o%d", id), "namespace": "n"},
	}
	if g.r.Chance(80) {
		o["spec"] = map[string]interface{}{"replicas": 1 + g.r.Intn(4)}
	}
	if g.r.Chance(70) {
		o["status"] = map[string]interface{}{"phase": g.pick("P", "R")}
	}
	if g.r.Chance(60) {
		o["a"] = g.pick(1, 2, "s", true, nil, map[string]interface{}{"k": 1})
	}
	if g.r.Chance(50) {
		o["b"] = g.pick(1, 2, "t", false, []interface{}{1})
	}
	if g.r.Chance(50) {
		o["items"] = g.pick([]interface{}{1, 2}, []interface{}{}, []interface{}{3}, []interface{}{1, 2, 200})
	}
	if g.r.Chance(40) {
		o["data"] = map[string]interface{}{"k": g.pick("v", "w")}
	}
	if g.r.Chance(40) {
		o["metadata"].(map[string]interface{})["labels"] = map[string]interface{}{"app": g.pick("x", "y")}
	}
	if g.multi {
		g.multiShape(o)
		g.multiShape(o)
	}
	return o
}

// newObject / change: the objects of a history (alike.go substitutes its own)
func (g *gen) newObject(id int) map[string]interface{} {
	if g.alike != nil {
		return g.alikeBase(id)
	}
	return g.baseObject(id)
}

func (g *gen) change(o map[string]interface{}) map[string]interface{} {
	if g.alike != nil {
		return g.alikeMutate(o)
	}
	return g.mutate(o)
}

func clone(o map[string]interface{}) map[string]interface{} {
	b, _ := json.Marshal(o)
	var c map[string]interface{}
	_ = json.Unmarshal(b, &c)
	// keep integers integral in the text
	return c
}

// one small change somewhere in the object (often outside a given projection)
func (g *gen) mutate(o map[string]interface{}) map[string]interface{} {
	c := clone(o)
	if g.multi && g.r.Chance(45) {
		g.multiShape(c)
		return c
	}
	sub := func(k string) map[string]interface{} {
		m, ok := c[k].(map[string]interface{})
		if !ok {
			m = map[string]interface{}{}
			c[k] = m
		}
		return m
	}
	switch g.r.Intn(12) {
	case 0, 1:
		sub("spec")["replicas"] = 1 + g.r.Intn(5)
	case 2:
		sub("status")["phase"] = g.pick("P", "R", "F")
	case 3:
		c["a"] = g.pick(1, 2, 3, "s", nil, true)
	case 4:
		c["b"] = g.pick(1, 2, "t", "u", false)
	case 5:
		c["items"] = g.pick([]interface{}{1, 2}, []interface{}{2, 1}, []interface{}{}, []interface{}{1, 2, 3}, []interface{}{500})
	case 6:
		sub("data")["k"] = g.pick("v", "w", "z")
	case 7:
		md := sub("metadata")
		md["labels"] = map[string]interface{}{"app": g.pick("x", "y", "z")}
	case 8:
		md := sub("metadata")
		md["resourceVersion"] = fmt.Sprintf("%d", 100+g.r.Intn(900))
	case 9:
		sub("spec")["x"] = g.pick("p", "q", 7)
	case 10:
		delete(c, g.pick("a", "b", "items", "data", "status").(string))
	case 11:
		sub("status")["n"] = g.r.Intn(3)
	}
	return c
}

func objText(o map[string]interface{}) string {
	b, _ := json.Marshal(o)
	// json.Marshal of float64 integers prints them without a fraction
	return string(b)
}

var typeSubsets = [][]string{
	{}, {"Added"}, {"Modified"}, {"Deleted"}, {"Added", "Modified"}, {"Added", "Deleted"}, {"Modified", "Deleted"},
	{"Added", "Modified", "Deleted"},
}

// forms = the history uses both forms of the handler's argument: a Deleted is delivered
// as a tombstone half of the time and relist batches occur.
func (g *gen) history(nIds, maxLen int, f filterDef, subset int, forms bool) Input {
	in := Input{Filter: f.expr, Family: f.family}
	if subset < 0 {
		in.TypesUnset = true
	} else {
		in.Types = append([]string{}, typeSubsets[subset]...)
		if g.r.Chance(30) {
			// order of the configured list must not matter
			for i := len(in.Types) - 1; i > 0; i-- {
				j := g.r.Intn(i + 1)
				in.Types[i], in.Types[j] = in.Types[j], in.Types[i]
			}
		}
	}
	stateIdx := map[string]int{}
	addState := func(id int, o map[string]interface{}) int {
		t := objText(o)
		if i, ok := stateIdx[t]; ok {
			return i
		}
		in.States = append(in.States, State{Id: id, Obj: t})
		stateIdx[t] = len(in.States) - 1
		return len(in.States) - 1
	}
	cur := map[int]map[string]interface{}{}    // current object per id (nil = absent)
	prev := map[int][]map[string]interface{}{} // earlier states per id (to return to)
	// how a Deleted is delivered
	delForm := func() string {
		if forms && g.r.Chance(50) {
			return formTombstone
		}
		return ""
	}
	// a relist after a broken watch (client-go: DeltaFIFO.Replace against the informer's
	// store, then processDeltas): the listed objects in list order - OnUpdate for a key the
	// store has (changed during the outage, deleted and re-created, or unchanged: the
	// unchanged ones are left out for a listener that is not due for a resync), OnAdd for
	// a new key -, then a tombstone carrying the last stored state for every key of the
	// store that the list lacks
	relist := func() {
		var live, gone []Ev
		for id := 1; id <= nIds; id++ {
			o := cur[id]
			k := g.r.Intn(100)
			if o == nil {
				if k < 40 {
					var no map[string]interface{}
					if len(prev[id]) > 0 && g.r.Chance(50) {
						no = prev[id][g.r.Intn(len(prev[id]))]
					} else {
						no = g.newObject(id)
					}
					cur[id] = no
					prev[id] = append(prev[id], no)
					live = append(live, Ev{Type: "Added", State: addState(id, no), Batch: "relist"})
				}
				continue
			}
			switch {
			case k < 45:
				gone = append(gone, Ev{Type: "Deleted", State: addState(id, o), Form: formTombstone, Batch: "relist"})
				cur[id] = nil
			case k < 75:
				no := g.change(o)
				if g.r.Chance(30) {
					no = g.change(no)
				} else if g.r.Chance(15) {
					no = g.newObject(id) // deleted and re-created under the same name
				}
				cur[id] = no
				prev[id] = append(prev[id], no)
				live = append(live, Ev{Type: "Modified", State: addState(id, no), Batch: "relist"})
			default:
				if g.r.Chance(60) {
					live = append(live, Ev{Type: "Modified", State: addState(id, o), Batch: "relist"})
				}
			}
		}
		for i := len(live) - 1; i > 0; i-- {
			j := g.r.Intn(i + 1)
			live[i], live[j] = live[j], live[i]
		}
		in.History = append(in.History, live...)
		in.History = append(in.History, gone...)
	}
	n := 2 + g.r.Intn(maxLen-1)
	for len(in.History) < n {
		if forms && len(in.History) > 0 && g.r.Chance(15) {
			relist()
			continue
		}
		id := 1 + g.r.Intn(nIds)
		o := cur[id]
		k := g.r.Intn(100)
		switch {
		case o == nil && len(prev[id]) > 0 && k < 10:
			// a Deleted for an object that is not cached (already deleted)
			in.History = append(in.History, Ev{Type: "Deleted", State: addState(id, prev[id][len(prev[id])-1]), Form: delForm()})
		case o == nil:
			// (re)create: Added; sometimes exactly the state it had before the delete
			var no map[string]interface{}
			if len(prev[id]) > 0 && g.r.Chance(50) {
				no = prev[id][g.r.Intn(len(prev[id]))]
			} else {
				no = g.newObject(id)
			}
			cur[id] = no
			prev[id] = append(prev[id], no)
			in.History = append(in.History, Ev{Type: "Added", State: addState(id, no)})
		case k < 25:
			// re-delivery of the identical state (resync / relist / informer restart)
			t := "Modified"
			if g.r.Chance(40) {
				t = "Added"
			}
			in.History = append(in.History, Ev{Type: t, State: addState(id, o)})
		case k < 75:
			no := g.change(o)
			if g.r.Chance(15) && len(prev[id]) > 0 {
				no = prev[id][g.r.Intn(len(prev[id]))] // flip back to an earlier state
			}
			cur[id] = no
			prev[id] = append(prev[id], no)
			t := "Modified"
			if g.r.Chance(8) {
				t = "Added"
			}
			in.History = append(in.History, Ev{Type: t, State: addState(id, no)})
		case k < 90:
			// delete; the final state delivered with a Delete may differ from the cached one
			// (a tombstone carries the last state the store held)
			d := o
			form := delForm()
			if form == "" && g.r.Chance(30) {
				d = g.change(o)
			}
			cur[id] = nil
			in.History = append(in.History, Ev{Type: "Deleted", State: addState(id, d), Form: form})
		default:
			// a Deleted for an object that is delivered again right away, or a stray Modified
			in.History = append(in.History, Ev{Type: "Deleted", State: addState(id, o), Form: delForm()})
			cur[id] = nil
		}
	}
	return in
}

func fixed(types []string, unset bool, filter, family string, objs []string, ids []int, hist []Ev) Input {
	in := Input{Types: types, TypesUnset: unset, Filter: filter, Family: family, History: hist}
	for i, o := range objs {
		in.States = append(in.States, State{Id: ids[i], Obj: o})
	}
	return in
}

func k(name string, rest string) string {
	s := `{"apiVersion":"v1","kind":"` + objKind + `","metadata":{"name":"` + name + `","namespace":"n"}`
	if rest != "" {
		s += "," + rest
	}
	return s + "}"
}

var all3 = []string{"Added", "Modified", "Deleted"}

// deliveries of the fixed corpus: the object itself / a tombstone / members of a relist batch
func ev(t string, state int) Ev { return Ev{Type: t, State: state} }
func tomb(state int) Ev         { return Ev{Type: "Deleted", State: state, Form: formTombstone} }
func rl(t string, state int) Ev { return Ev{Type: t, State: state, Batch: "relist"} }
func rlTomb(state int) Ev {
	return Ev{Type: "Deleted", State: state, Form: formTombstone, Batch: "relist"}
}

// Corpus: witnesses and boundary histories; runs first.
func Corpus() []Input {
	return []Input{
		// plain: no filter, change, re-delivery, delete
		fixed(nil, true, "", "none", []string{k("o1", `"spec":{"replicas":3}`), k("o1", `"spec":{"replicas":4}`)}, []int{1, 1},
			[]Ev{{Type: "Added", State: 0}, {Type: "Modified", State: 0}, {Type: "Modified", State: 1}, {Type: "Added", State: 1}, {Type: "Deleted", State: 1}, {Type: "Added", State: 1}}),
		// object-valued filter: change outside the projection is suppressed but the snapshot follows
		fixed(all3, false, ".spec", "path-object", []string{k("o1", `"spec":{"replicas":3},"status":{"phase":"P"}`), k("o1", `"spec":{"replicas":3},"status":{"phase":"R"}`), k("o1", `"spec":{"replicas":4},"status":{"phase":"R"}`)}, []int{1, 1, 1},
			[]Ev{{Type: "Added", State: 0}, {Type: "Modified", State: 1}, {Type: "Modified", State: 2}, {Type: "Deleted", State: 2}}),
		// only Modified listed
		fixed([]string{"Modified"}, false, "{r:.spec.replicas}", "constructed", []string{k("o1", `"spec":{"replicas":3}`), k("o1", `"spec":{"replicas":4}`)}, []int{1, 1},
			[]Ev{{Type: "Added", State: 0}, {Type: "Modified", State: 1}, {Type: "Modified", State: 1}, {Type: "Deleted", State: 1}}),
		// empty list of types: never fires, snapshot still follows
		fixed([]string{}, false, "", "none", []string{k("o1", `"a":1`), k("o1", `"a":2`)}, []int{1, 1},
			[]Ev{{Type: "Added", State: 0}, {Type: "Modified", State: 1}, {Type: "Deleted", State: 1}}),

		// ---- the Deleted change delivered as a tombstone (object deleted while the watch was broken) ----
		// the smallest one: Added, then the tombstone: Deleted fires, the snapshot is empty
		fixed(nil, true, "", "none", []string{k("o1", `"data":{"k":"v"}`)}, []int{1},
			[]Ev{ev("Added", 0), tomb(0)}),
		// with a filter and only Deleted listed; afterwards the object is unknown again:
		// a re-creation with the same projection is a change (silent here: Added not listed)
		fixed([]string{"Deleted"}, false, ".data", "path-object", []string{k("o1", `"data":{"k":"v"}`), k("o1", `"data":{"k":"w"}`)}, []int{1, 1},
			[]Ev{ev("Added", 0), ev("Modified", 1), tomb(1), ev("Added", 1), ev("Deleted", 1)}),
		// Deleted not listed: the tombstone fires nothing, the snapshot drops the object,
		// the re-created identical object is Added again
		fixed([]string{"Added", "Modified"}, false, "{r:.spec.replicas}", "constructed", []string{k("o1", `"spec":{"replicas":3}`)}, []int{1},
			[]Ev{ev("Added", 0), tomb(0), ev("Added", 0), ev("Modified", 0)}),
		// both forms in one history, two objects
		fixed(all3, false, ".spec", "path-object", []string{k("o1", `"spec":{"replicas":1}`), k("o2", `"spec":{"replicas":2}`)}, []int{1, 2},
			[]Ev{ev("Added", 0), ev("Added", 1), tomb(0), ev("Deleted", 1)}),
		// a tombstone for an object the informer does not cache (already deleted): fires too
		fixed(nil, true, "", "none", []string{k("o1", `"a":1`)}, []int{1},
			[]Ev{ev("Added", 0), ev("Deleted", 0), tomb(0)}),
		// a relist after an outage: o1 was deleted, o2 is unchanged and re-delivered, o3 is new
		fixed(all3, false, ".data", "path-object", []string{k("o1", `"data":{"k":"v"}`), k("o2", `"data":{"k":"w"}`), k("o3", `"data":{"k":"z"}`)}, []int{1, 2, 3},
			[]Ev{ev("Added", 0), ev("Added", 1), rl("Modified", 1), rl("Added", 2), rlTomb(0)}),
		// a relist: o1 changed outside the projection (silent, snapshot follows), o2 deleted;
		// then o2 comes back with the projection it had
		fixed(nil, true, "{r:.spec.replicas}", "constructed", []string{k("o1", `"spec":{"replicas":3},"status":{"phase":"P"}`), k("o1", `"spec":{"replicas":3},"status":{"phase":"R"}`), k("o2", `"spec":{"replicas":3}`)}, []int{1, 1, 2},
			[]Ev{ev("Added", 0), ev("Added", 2), rl("Modified", 1), rlTomb(2), ev("Added", 2)}),
		// a relist that finds everything gone
		fixed([]string{"Deleted", "Added"}, false, "", "none", []string{k("o1", `"a":1`), k("o2", `"a":2`)}, []int{1, 2},
			[]Ev{ev("Added", 0), ev("Added", 1), rlTomb(1), rlTomb(0)}),
	}
}

// TriggerCorpus: witnesses of the known finding F8 (non-object jq results project to {}).
func TriggerCorpus() []Input {
	return []Input{
		// the design's witness: .spec.replicas 3 -> 4 never triggers
		fixed(all3, false, ".spec.replicas", "scalar", []string{k("o1", `"spec":{"replicas":3}`), k("o1", `"spec":{"replicas":4}`)}, []int{1, 1},
			[]Ev{{Type: "Added", State: 0}, {Type: "Modified", State: 1}}),
		// array-valued
		fixed(all3, false, ".items", "array", []string{k("o1", `"items":[1,2]`), k("o1", `"items":[1,2,3]`)}, []int{1, 1},
			[]Ev{{Type: "Added", State: 0}, {Type: "Modified", State: 1}}),
		// string-valued
		fixed(nil, true, ".status.phase", "scalar", []string{k("o1", `"status":{"phase":"P"}`), k("o1", `"status":{"phase":"R"}`)}, []int{1, 1},
			[]Ev{{Type: "Added", State: 0}, {Type: "Modified", State: 1}}),
		// two outputs with the same key: only the last one counts
		fixed(all3, false, "{x:.a}, {x:.b}", "multiple", []string{k("o1", `"a":1,"b":5`), k("o1", `"a":2,"b":5`)}, []int{1, 1},
			[]Ev{{Type: "Added", State: 0}, {Type: "Modified", State: 1}}),
	}
}

// TriggerCorpusF16: witnesses of the known finding F16 (a filter that fails on an object:
// the delivery is dropped entirely — no event, not even Deleted; the snapshot keeps the
// stale / deleted object).
func TriggerCorpusF16() []Input {
	return []Input{
		// pure F16 (every non-failing result is a single object)
		fixed(all3, false, "{r:.spec.replicas.foo}", "error", []string{k("o1", `"spec":{}`), k("o1", `"spec":{"replicas":4}`)}, []int{1, 1},
			[]Ev{{Type: "Added", State: 0}, {Type: "Modified", State: 1}, {Type: "Deleted", State: 1}}),
		fixed(all3, false, ".spec.replicas.foo", "error", []string{k("o1", `"spec":{}`), k("o1", `"spec":{"replicas":4}`)}, []int{1, 1},
			[]Ev{{Type: "Added", State: 0}, {Type: "Modified", State: 1}, {Type: "Deleted", State: 1}}),
		// the filter always fails: the object never appears, nothing ever fires
		fixed(nil, true, "error(\"boom\")", "error", []string{k("o1", `"a":1`)}, []int{1},
			[]Ev{{Type: "Added", State: 0}, {Type: "Deleted", State: 0}}),
		// the same finding through a tombstone: the filter fails on the state the shared
		// informer's store held last (its Modified was dropped), so the tombstone carrying it
		// is dropped too and the object stays in the snapshot
		fixed(all3, false, "{r:.spec.replicas.foo}", "error", []string{k("o1", `"spec":{}`), k("o1", `"spec":{"replicas":4}`)}, []int{1, 1},
			[]Ev{ev("Added", 0), ev("Modified", 1), tomb(1)}),
	}
}

func Gen(r *core.Rng, tier string) ([]core.In[Input], bool) {
	var ins []core.In[Input]
	for _, c := range Corpus() {
		ins = append(ins, core.In[Input]{Input: c, Stream: "corpus"})
	}
	for _, c := range StartCorpus() {
		ins = append(ins, core.In[Input]{Input: c, Stream: "corpus"})
	}
	for _, c := range DeclCorpus() {
		ins = append(ins, core.In[Input]{Input: c, Stream: "corpus"})
	}
	for _, c := range MultiCorpus() {
		ins = append(ins, core.In[Input]{Input: c, Stream: "corpus"})
	}
	for _, c := range AlikeCorpus() {
		ins = append(ins, core.In[Input]{Input: c, Stream: "corpus"})
	}
	for _, c := range WinCorpus() {
		ins = append(ins, core.In[Input]{Input: c, Stream: "corpus"})
	}
	for _, c := range TriggerCorpus() {
		ins = append(ins, core.In[Input]{Input: c, Stream: "trigger-F8"})
	}
	for _, c := range TriggerCorpusF16() {
		ins = append(ins, core.In[Input]{Input: c, Stream: "trigger-F16"})
	}
	g := &gen{r: r}
	n, maxLen, nStart := 300, 8, 126
	declRounds, declStartEvery := 1, 3
	nMulti := 150
	nAlike, nAlikeStart := 170, 30
	nWin := 96
	switch tier {
	case "thorough":
		nWin = 4000
		nAlike, nAlikeStart = 8000, 1200
		n, maxLen, nStart = 10000, 12, 3600
		declRounds, declStartEvery = 25, 4
		nMulti = 6000
	case "search":
		nWin = 1500
		nAlike, nAlikeStart = 1500, 300
		n, maxLen, nStart = 2000, 8, 900
		declRounds, declStartEvery = 6, 3
		nMulti = 1200
	}

	// filters whose result is a single object (and the no-filter case) form the main
	// stream; non-object results (F8 trigger) are a separate stream at ~27 %, failing
	// filters (F16 trigger) another one at ~8 %
	var mainF, trigF, errF []filterDef
	for _, f := range filters {
		switch f.family {
		case "none", "path-object", "constructed":
			mainF = append(mainF, f)
		case "error":
			errF = append(errF, f)
		default:
			trigF = append(trigF, f)
		}
	}
	for i := 0; i < n; i++ {
		subset := i % 9 // all 8 subsets and "not configured", round robin
		if subset == 8 {
			subset = -1
		}
		var f filterDef
		stream := "random"
		if i%25 < 2 {
			f = errF[g.r.Intn(len(errF))]
			stream = "trigger-F16"
		} else if i%25 < 9 {
			f = trigF[g.r.Intn(len(trigF))]
			stream = "trigger-F8"
		} else if g.r.Chance(25) {
			f = mainF[0]
		} else {
			f = mainF[g.r.Intn(len(mainF))]
		}
		nIds := 1
		if g.r.Chance(30) {
			nIds = 2
		} else if g.r.Chance(10) {
			nIds = 3
		}
		// both forms of the handler's argument and relist batches in 3 cases of 5
		forms := i%5 < 3
		if forms && g.r.Chance(40) {
			nIds = 2 + g.r.Intn(2) // a relist is about several objects
		}
		ins = append(ins, core.In[Input]{Input: g.history(nIds, maxLen, f, subset, forms), Stream: stream})
	}
	// start cases (about 30 % of the quick tier): all 8 subsets of event types and "not
	// configured" round robin
	for i := 0; i < nStart; i++ {
		subset := i % 9
		if subset == 8 {
			subset = -1
		}
		ins = append(ins, core.In[Input]{Input: g.startCase(subset), Stream: "start"})
	}
	// declared cases: all 81 pairs (executeHookOnEvent, watchEvent) of {absent, 8 subsets},
	// the configuration text through the real loader (decl.go)
	ins = append(ins, g.declGrid(declRounds, declStartEvery, mainF, append(append([]filterDef{}, trigF...), errF...))...)
	// jqFilters with several outputs of mixed kinds (multi.go); last, so that the streams above
	// are generated as before
	ins = append(ins, g.multiCases(nMulti, maxLen)...)
	// look-alike projections (alike.go); last again, so that the streams above are generated as before
	ins = append(ins, g.alikeCases(nAlike, nAlikeStart, maxLen)...)
	// the saved-events window with flapping objects (win.go); last again
	ins = append(ins, g.winCases(nWin)...)
	return ins, false
}

var Driver = core.Driver[Input, Obs]{
	Spec: core.Spec{Property: "C08", Imports: []string{"Json", "C08_Model", "C08_Spec", "C08_Corr"}, Corr: "C08_Corr", Triggers: []string{"F8", "F16"}, ShrinkKey: "history",
		Rule: "scripted histories of watch events (1-3 objects; creations, single-field changes mostly outside a given projection, re-deliveries of the identical state, flips back to earlier states, deletes and re-creations) delivered to the resourceInformer of a real monitor (NewMonitor+CreateInformers on a fake cluster, not started) through its client-go handler methods OnAdd/OnUpdate/OnDelete; the handler's argument in both forms client-go uses: the *unstructured.Unstructured itself, or - in 3 cases of 5 for half of the Deleted deliveries - the cache.DeletedFinalStateUnknown tombstone (by value) that a real client-go DeltaFIFO.Replace produces for an object missing from a relist; in those cases also relist batches (15% per step: per object changed / deleted-and-recreated -> OnUpdate, unchanged -> OnUpdate or left out, new -> OnAdd, then tombstones for the missing ones); all 8 subsets of {Added,Modified,Deleted} and 'not configured' round robin; filter family: none, object paths, constructed objects (main stream), scalars, arrays, null, empty/select, multiple outputs (trigger-F8 stream, ~27%), failing filters (trigger-F16 stream, ~8%); /usr/bin/jq answers for every state are the model's oracle table; non-trivial = >= 3 deliveries with at least one fired and one silent delivery; distinct = distinct input text. START CASES (stream 'start', 126 of the quick tier, and 8 corpus cases; harness/internal/c08/start.go): 0-3 objects exist in the fake cluster as an API server returns them (uid, resourceVersion, creationTimestamp, labels, sometimes generation and the last-applied annotation, 65% with metadata.managedFields); then the monitor is created (loadExistedObjects lists them; the snapshot right after is compared), unlocked and STARTED: the real client-go shared informer (FactoryStore.Start; in 30% another binding's monitor runs already and the informer is joined) makes every delivery - its replay of the existing objects, then 0-3 ordinary cluster operations (create, update with the resourceVersion moved / managedFields rewritten / bookkeeping only, delete, re-create); bindings: no jqFilter 35%, `.` 13%, `.metadata` 13%, `.data` 10%, del(.status), constructed objects over metadata / labels / data / managedFields; every subset of event types and 'not configured' round robin; each delivery is observed from the informer's own goroutine (handler that ran, object delivered, events fired, snapshot); the environment assumption of C08_start_redelivery_silent (the informer re-delivers exactly the listed objects, unchanged) is checked on every such case; non-trivial start case = at least one existing object replayed and at least two deliveries, all observed. DECLARED CASES (streams 'declared' / 'declared-start', 81 + 27 of the quick tier, and 11 corpus cases; harness/internal/c08/decl.go): the binding is written as the TEXT of a v1 hook configuration - executeHookOnEvent absent or any of the 8 subsets, the deprecated watchEvent absent or any of the 8 subsets: all 81 pairs in every run (thorough: 25 rounds), lists permuted (30%) or with a repeated element (10%), JSON / YAML flow / YAML block round robin, the two keys in either order, sometimes name and executeHookOnSynchronization:false - and given to the REAL loader (HookConfig.LoadAndValidate: schema validation, yaml unmarshalling, HookConfigV1.ConvertAndCheck); the monitor runs with the MonitorConfig the loader returned (created as KubeEventsManager.AddMonitor does) with the harness calling the handlers (histories as above, 1-2 objects, up to 6 deliveries) or, one case in three, as a start case with the real shared informer; MonitorConfig.EventTypes as loaded is compared with the model's conversion (effective_types) and every observation is judged by P_decl against the DECLARED list; non-trivial declared case = as for its mode, for `executeHookOnEvent: []` at least three deliveries all kept silent. MULTI-OUTPUT CASES (stream 'multi-output', 150 of the quick tier, 6000 thorough, and 6 corpus cases; harness/internal/c08/multi.go): the jqFilter is a comma list of 2-4 parts out of 19 (paths .metadata.labels/.data/.spec/.status/.a/.b/.items/.metadata.annotations that are an object for one object state and null, a scalar, an array for another; constructed objects; null, 1, a string, empty, .items[]?, [.a], (.a|objects), .a?.k?) - any of the 342 ordered pairs (50%), random triples/quadruples (25%), 16 written-out filters (.metadata.labels, .data / .a, .b, .c / .[]? / empty / ...; 25%) - over histories as above whose object states switch the parts' sources on and off (labels, data, annotations, spec, status removed / added; .a, .b, .c object <-> scalar <-> null) and change values inside them; every subset of event types, all three listed in 1 of 3; the FilterResult of every delivery (cache entry, else fired event) is compared with the model's merge of /usr/bin/jq's outputs and judged by the specification's clause fr_shows (for every key the last object output binding it), the trigger decision by P; F8 excuses only histories in which two DIFFERING results merge into the same object (T_F8m). LOOK-ALIKE CASES (streams 'look-alike' 170 / 'look-alike-start' 30 of the quick tier, 8000 / 1200 thorough, and 6 corpus cases; harness/internal/c08/alike.go): the VALUE DOMAIN of projections - Services (spec.ports[i].targetPort, an IntOrString; metadata.annotations; spec.selector) and ConfigMaps (data, data values, annotations, a free field .x holding a small tree), 10 jqFilters each (constructed objects over targetPorts / annotations / data / .x, .spec, .data, no filter), kinds alternating, filters round robin, Modified listed in 7 cases of 9; the histories (as above: changes, re-deliveries, deletes, relist batches, or - start cases - cluster operations delivered by the real shared informer) move a selected field, at a random position of its value tree, between look-alikes: a value and its Go fmt text as a string (9090 / \"9090\", true / \"true\", null / \"<nil>\", a map / \"map[a:x]\", an array / \"[x y]\"), a value and its JSON text as a string, a string and the JSON value it spells (\"null\" / null, \"1.5\" / 1.5), the next key folded into a string value and back ({a:x,b:y} / {a:\"x b:y\"}, also with , and \",\" as separators), two array elements folded into one string and back, the same number written n / n.0 (the SAME value: must stay silent), ordinary changes, changes outside the projection; the projections are /usr/bin/jq's answers and Coq compares them structurally as JSON values (P and the clause modified_values_ok); every state and answer is checked to be a JSON value in the sense of val_ok (hypothesis of the checksum theorems). WINDOW CASES (stream 'window', 96 of the quick tier, 4000 thorough, and 8 corpus cases; harness/internal/c08/win.go): a start case whose monitor is STARTED while its events are still locked (the window between the monitor's start and the unlock that follows the binding's Synchronization: fired KubeEvents are saved in the informer's eventBuf); 0-2 objects exist, 1-2 objects FLAP through a cycle of 2 or 3 states (A -> B -> A -> B ..., A -> B -> C -> A ...; the states differ in .data, in labels or in bookkeeping only, so that some projections see the change and some do not) or are created / deleted / re-created with the same content, 3-9 cluster operations, every one delivered by the real shared informer; the harness calls Monitor.EnableKubeEventCb at a random place of the history (before all operations, between them, after all of them) so that the flapping lies inside, across and after the window, and records the KubeEvents the callback got during that call, in order; every subset of event types and 'not configured' round robin, filters of the start class; compared with the model of the lock and the buffer (run_w: per delivery nothing reaches the callback while locked, the unlock hands over the saved events) and judged by the specification's window clause P_win_decl (the triggers got at the unlock are exactly the changes of the window that pass the rule against the last known projection at their place, in order; snapshots follow every change; after the unlock P goes on); non-trivial window case = the unlock handed over at least two saved events and every delivery was observed"},
	Gen: Gen, Run: Run, Render: Render, PerShard: 60, Workers: 8, CaseTimout: 20 * time.Second,
}
