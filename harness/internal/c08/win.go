// win.go: the "window" case class of C08 - the time in which the binding's events are SAVED.
//
// A window case is a start case (start.go: objects as an API server returns them, the real
// monitor on the fake cluster, every delivery made by the real client-go shared informer)
// whose monitor is STARTED while its events are still locked - as the operator does between
// AddMonitor / Start and the unlock that follows the binding's Synchronization.  A KubeEvent
// fired in that window is saved in the informer's eventBuf; Monitor.EnableKubeEventCb - called
// by the harness at the History entry with Batch "unlock" (at the end if there is none) - hands
// the saved events to the callback and opens the direct way.
//
// The histories FLAP: an object walks through a cycle of 2 or 3 states again and again
// (A -> B -> A -> B, A -> B -> C -> A -> ...), or is created, deleted and re-created with the
// same content; 1-2 objects; the unlock lies anywhere in the history, so that the repeats lie
// inside the window, across its end and after it.  Every change that differs from the LAST
// known projection must trigger, however often the same state or event occurred before.
package c08

import (
	"fmt"

	"verifharness/internal/core"
)

func unlockEv() Ev { return Ev{Type: "Added", State: 0, Batch: batchUnlock} }

// winTags: the input distribution of the window class.
func winTags(in Input, pl plan, o *Obs) []string {
	t := []string{"mode:window(monitor started with its events locked; the harness unlocks)",
		fmt.Sprintf("window:operations-before-unlock=%d", pl.unlockAt),
		fmt.Sprintf("window:operations-after-unlock=%d", len(pl.ops)-pl.unlockAt)}
	if o != nil && o.Unlocked {
		n := len(o.Flushed)
		if n > 4 {
			n = 4
		}
		t = append(t, fmt.Sprintf("window:events-handed-over-by-unlock=%d%s", n, map[bool]string{true: "+", false: ""}[n == 4]))
	}
	// an object returns to a state it had before: inside the window / across its end / after it
	type key struct{ id, state int }
	seenIn, seenAll := map[key]bool{}, map[key]bool{}
	cur := map[int]int{}
	for id, st := range pl.existing {
		cur[id] = st
		seenIn[key{id, st}], seenAll[key{id, st}] = true, true
	}
	inside, across, after := false, false, false
	for k, op := range pl.cluster {
		if op.kind == "delete" {
			delete(cur, op.id)
			continue
		}
		kk := key{op.id, op.state}
		had, known := cur[op.id]
		if seenAll[kk] && (!known || had != op.state) {
			switch {
			case k < pl.unlockAt:
				inside = true
			case seenIn[kk]:
				across = true
			default:
				after = true
			}
		}
		seenAll[kk] = true
		if k < pl.unlockAt {
			seenIn[kk] = true
		}
		cur[op.id] = op.state
	}
	if inside {
		t = append(t, "window:object-returns-to-an-earlier-state-inside-the-window")
	}
	if across {
		t = append(t, "window:object-returns-after-the-unlock-to-a-state-of-the-window")
	}
	if after {
		t = append(t, "window:object-returns-to-an-earlier-state-after-the-unlock")
	}
	// the same watch event (type, object state) more than once among the operations of the window
	cnt := map[string]int{}
	twice := false
	for k, e := range pl.ops {
		if k >= pl.unlockAt {
			break
		}
		s := fmt.Sprintf("%s/%d", e.Type, e.State)
		cnt[s]++
		twice = twice || cnt[s] > 1
	}
	if twice {
		t = append(t, "window:same-watch-event-twice-inside-the-window")
	}
	return t
}

// flapState: a neighbour of [o] in a cycle: mostly the data changes, sometimes labels only,
// sometimes bookkeeping only (resourceVersion / managedFields)
func (g *gen) flapState(o map[string]interface{}, n int) map[string]interface{} {
	c := clone(o)
	md, _ := c["metadata"].(map[string]interface{})
	switch k := g.r.Intn(100); {
	case k < 60:
		c["data"] = map[string]interface{}{"k": fmt.Sprintf("v%d", n)}
	case k < 80:
		if md != nil {
			md["labels"] = map[string]interface{}{"app": fmt.Sprintf("l%d", n)}
		}
	case k < 90:
		return g.apiMutate(o)
	}
	if md != nil {
		md["resourceVersion"] = fmt.Sprintf("%d", 2000+100*n+g.r.Intn(90))
	}
	return c
}

func (g *gen) winCase(subset int) Input {
	k := g.r.Intn(100)
	f := startFilters[0].f
	for _, sf := range startFilters {
		if k < sf.pct {
			f = sf.f
			break
		}
		k -= sf.pct
	}
	in := Input{Filter: f.expr, Family: f.family, Mode: modeStart, Win: true, Joins: g.r.Chance(20)}
	if subset < 0 {
		in.TypesUnset = true
	} else {
		in.Types = append([]string{}, typeSubsets[subset]...)
	}
	stateIdx := map[string]int{}
	addState := func(id int, o map[string]interface{}) int {
		t := objText(o)
		if i, ok := stateIdx[t]; ok {
			return i
		}
		in.States = append(in.States, State{Id: id, Obj: t})
		stateIdx[t] = len(in.States) - 1
		return len(in.States) - 1
	}
	nObj := 1 + g.r.Intn(2)
	// per object: a cycle of 2 or 3 states, the position in it, whether it exists
	cycle := map[int][]int{}
	pos := map[int]int{}
	exists := map[int]bool{}
	for id := 1; id <= nObj; id++ {
		period := 2 + g.r.Intn(2)
		o := g.apiObject(id)
		sts := []int{addState(id, o)}
		for n := 1; n < period; n++ {
			o2 := g.flapState(o, n)
			sts = append(sts, addState(id, o2))
		}
		cycle[id] = sts
		if g.r.Chance(55) {
			exists[id] = true
			in.History = append(in.History, Ev{Type: "Added", State: sts[0], Batch: batchExisting})
		}
	}
	nOps := 3 + g.r.Intn(7)
	// the unlock: before everything (5%), after everything (25%), else somewhere inside, mostly late
	unlockAt := nOps
	switch k := g.r.Intn(100); {
	case k < 5:
		unlockAt = 0
	case k < 30:
		unlockAt = nOps
	case k < 70:
		unlockAt = nOps - 1 - g.r.Intn(2)
	default:
		unlockAt = g.r.Intn(nOps + 1)
	}
	for n := 0; n < nOps; n++ {
		if n == unlockAt {
			in.History = append(in.History, unlockEv())
		}
		id := 1 + g.r.Intn(nObj)
		sts := cycle[id]
		switch {
		case !exists[id]:
			// (re-)created: mostly with the content it had
			if g.r.Chance(25) {
				pos[id] = (pos[id] + 1) % len(sts)
			}
			exists[id] = true
			in.History = append(in.History, Ev{Type: "Added", State: sts[pos[id]]})
		case g.r.Chance(22):
			exists[id] = false
			in.History = append(in.History, Ev{Type: "Deleted", State: sts[pos[id]]})
		case g.r.Chance(6):
			// written again unchanged: no operation at all in the cluster
			in.History = append(in.History, Ev{Type: "Modified", State: sts[pos[id]]})
		default:
			pos[id] = (pos[id] + 1) % len(sts)
			in.History = append(in.History, Ev{Type: "Modified", State: sts[pos[id]]})
		}
	}
	if unlockAt >= nOps && g.r.Chance(50) {
		in.History = append(in.History, unlockEv())
	}
	return in
}

func (g *gen) winCases(n int) []core.In[Input] {
	var ins []core.In[Input]
	for i := 0; i < n; i++ {
		subset := i % 9
		if subset == 8 || i%3 == 0 {
			subset = -1 // all three types in every third case: every change of the projection must trigger
		}
		ins = append(ins, core.In[Input]{Input: g.winCase(subset), Stream: "window"})
	}
	return ins
}

func winFixed(types []string, unset bool, filter, family string, objs []string, ids []int, hist []Ev) Input {
	in := startFixed(types, unset, filter, family, false, objs, ids, hist)
	in.Win = true
	return in
}

// WinCorpus: flapping objects while the events are saved.
func WinCorpus() []Input {
	meta := func(rv string) string {
		return `"uid":"u-1","resourceVersion":"` + rv + `","creationTimestamp":"2024-05-01T10:00:00Z"`
	}
	a := api("o1", meta("101"), `"data":{"k":"v"}`)
	b := api("o1", meta("102"), `"data":{"k":"w"}`)
	c := api("o1", meta("103"), `"data":{"k":"x"}`)
	brv := api("o1", meta("104"), `"data":{"k":"v"}`) // A with another resourceVersion
	o2 := api("o2", `"uid":"u-2","resourceVersion":"201","creationTimestamp":"2024-05-01T10:00:00Z"`, `"data":{"k":"w"}`)
	u := unlockEv()
	return []Input{
		// A exists; A -> B -> A -> B in the window: three Modified triggers at the unlock
		winFixed(nil, true, "", "none", []string{a, b}, []int{1, 1},
			[]Ev{existing(0), ev("Modified", 1), ev("Modified", 0), ev("Modified", 1), u}),
		// the same through the projection `.data`
		winFixed(all3, false, ".data", "path-object", []string{a, b}, []int{1, 1},
			[]Ev{existing(0), ev("Modified", 1), ev("Modified", 0), ev("Modified", 1), u}),
		// created / deleted / re-created with the same content / deleted again, all in the window
		winFixed(all3, false, "", "none", []string{o2}, []int{2},
			[]Ev{ev("Added", 0), ev("Deleted", 0), ev("Added", 0), ev("Deleted", 0), u}),
		// only Deleted listed: two Deleted triggers
		winFixed([]string{"Deleted"}, false, ".metadata.labels", "path-object", []string{o2}, []int{2},
			[]Ev{existing(0), ev("Deleted", 0), ev("Added", 0), ev("Deleted", 0), u}),
		// period 3: A -> B -> C -> A -> B, the unlock after the fourth change, then C, A
		winFixed([]string{"Modified"}, false, "{d:.data}", "constructed", []string{a, b, c}, []int{1, 1, 1},
			[]Ev{existing(0), ev("Modified", 1), ev("Modified", 2), ev("Modified", 0), ev("Modified", 1), u,
				ev("Modified", 2), ev("Modified", 0)}),
		// across the window: A -> B saved, unlock, B -> A -> B at once
		winFixed(nil, true, ".", "path-object", []string{a, b}, []int{1, 1},
			[]Ev{existing(0), ev("Modified", 1), u, ev("Modified", 0), ev("Modified", 1)}),
		// flapping OUTSIDE the projection: `.data` sees nothing of resourceVersion 101 <-> 104: silent, snapshot follows
		winFixed(all3, false, ".data", "path-object", []string{a, brv}, []int{1, 1},
			[]Ev{existing(0), ev("Modified", 1), ev("Modified", 0), ev("Modified", 1), u, ev("Modified", 0)}),
		// two objects flap interleaved; the unlock at once (nothing saved), then everything direct
		winFixed(nil, true, "", "none", []string{a, b, o2}, []int{1, 1, 2},
			[]Ev{existing(0), u, ev("Modified", 1), ev("Added", 2), ev("Modified", 0), ev("Deleted", 2), ev("Added", 2), ev("Modified", 1)}),
	}
}
