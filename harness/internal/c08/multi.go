// multi.go: jqFilter expressions with SEVERAL outputs of mixed kinds (stream "multi-output").
//
// A filter is a comma list of 2-4 parts (paths that are an object for one object state and
// null / a scalar / an array / absent for another, constructed objects, constants, `empty`,
// iterations `.items[]?`, `.[]?`): every ordered pair of parts systematically, triples and
// quadruples at random.  The object states switch the parts' sources on and off (a ConfigMap
// without labels makes `.metadata.labels` null) and change values inside them, so for one and
// the same binding the outputs are objects and non-objects in every order.  The real filter's
// merged result (FilterResult of the cache entry / of the fired event) is compared with the
// model's merge of /usr/bin/jq's outputs for every state, and judged by the specification's
// clause fr_shows; the trigger decision by P.
package c08

import (
	"encoding/json"
	"fmt"
	"strings"

	"verifharness/internal/core"
)

const familyMulti = "multi-mixed"

// parts of a multi-output filter
var multiParts = []string{
	".metadata.labels", ".data", ".spec", ".status", ".a", ".b", ".items",
	".metadata.annotations", "{r:.spec.replicas}", "{n:.metadata.name}", "{k:.data.k}",
	"null", "1", "empty", ".items[]?", "[.a]", "\"s\"", "(.a|objects)", ".a?.k?",
}

// filters written out in the task / in real hooks
var multiNamed = []string{
	".metadata.labels, .data", ".data, .metadata.labels", ".a, .b, .c", ".[]?", "empty",
	".metadata.labels, .metadata.annotations, .data", ".spec, .status, .data", ".[]? | objects",
	".metadata.labels // {}, .data", ".data, null, .spec", "null, .data", ".data, 1",
	"(.a, .b) | objects", ".items[]?, .data", ".data, .items[]?", ".spec, .spec",
}

// all ordered pairs of distinct parts
func multiPairs() []string {
	var out []string
	for i, a := range multiParts {
		for j, b := range multiParts {
			if i != j {
				out = append(out, a+", "+b)
			}
		}
	}
	return out
}

func (g *gen) multiFilter(i int, pairs []string) filterDef {
	switch {
	case i%4 == 0:
		return filterDef{familyMulti, multiNamed[(i/4)%len(multiNamed)]}
	case i%4 == 3:
		n := 3 + g.r.Intn(2)
		ps := make([]string, n)
		for k := range ps {
			ps[k] = multiParts[g.r.Intn(len(multiParts))]
		}
		return filterDef{familyMulti, strings.Join(ps, ", ")}
	}
	return filterDef{familyMulti, pairs[g.r.Intn(len(pairs))]}
}

// multiShape switches the sources of the parts on and off / between object and non-object
func (g *gen) multiShape(o map[string]interface{}) {
	md := o["metadata"].(map[string]interface{})
	switch g.r.Intn(9) {
	case 0:
		delete(md, "labels")
	case 1:
		md["labels"] = map[string]interface{}{"app": g.pick("x", "y")}
	case 2:
		delete(o, "data")
	case 3:
		o["data"] = map[string]interface{}{"k": g.pick("v", "w", "z")}
	case 4:
		o["a"] = g.pick(map[string]interface{}{"k": 1}, map[string]interface{}{"k": 2}, map[string]interface{}{"app": "a"}, 1, nil, "s")
	case 5:
		o["b"] = g.pick(map[string]interface{}{"k": 5}, map[string]interface{}{"r": 9}, 2, []interface{}{1})
	case 6:
		delete(o, g.pick("spec", "status", "a", "b").(string))
	case 7:
		md["annotations"] = map[string]interface{}{"k": g.pick("n", "m")}
	case 8:
		o["c"] = g.pick(map[string]interface{}{"k": 7}, 3, nil)
	}
}

func multiCase(types []string, unset bool, filter string, objs []map[string]interface{}, hist []Ev) Input {
	in := Input{Types: types, TypesUnset: unset, Filter: filter, Family: familyMulti, History: hist}
	for _, o := range objs {
		in.States = append(in.States, State{Id: 1, Obj: objText(o)})
	}
	return in
}

func cm(labels, data interface{}, rest map[string]interface{}) map[string]interface{} {
	md := map[string]interface{}{"name": "o1", "namespace": "n"}
	if labels != nil {
		md["labels"] = labels
	}
	o := map[string]interface{}{"apiVersion": "v1", "kind": objKind, "metadata": md}
	if data != nil {
		o["data"] = data
	}
	for k, v := range rest {
		o[k] = v
	}
	return o
}

type jm = map[string]interface{}

// MultiCorpus: fixed histories; run first.
func MultiCorpus() []Input {
	lab := jm{"app": "x"}
	return []Input{
		// a ConfigMap without labels: `.metadata.labels` is null BEFORE the object output .data;
		// Added, re-delivery, data changes (must trigger), gets labels, loses them again, data changes
		multiCase(all3, false, ".metadata.labels, .data",
			[]jm{cm(nil, jm{"key": "v1"}, nil), cm(nil, jm{"key": "v2"}, nil), cm(lab, jm{"key": "v2"}, nil), cm(nil, jm{"key": "v3"}, nil)},
			[]Ev{ev("Added", 0), ev("Modified", 0), ev("Modified", 1), ev("Modified", 2), ev("Modified", 1), ev("Modified", 3), ev("Deleted", 3)}),
		// the same parts the other way round: null AFTER the object output
		multiCase([]string{"Modified"}, false, ".data, .metadata.labels",
			[]jm{cm(nil, jm{"key": "v1"}, nil), cm(nil, jm{"key": "v2"}, nil), cm(lab, jm{"key": "v2"}, nil)},
			[]Ev{ev("Added", 0), ev("Modified", 1), ev("Modified", 1), ev("Modified", 2)}),
		// three outputs: object, scalar, absent; then scalar, object, object with the same key
		multiCase(nil, true, ".a, .b, .c",
			[]jm{cm(nil, nil, jm{"a": jm{"k": 1}, "b": 2}), cm(nil, nil, jm{"a": 1, "b": jm{"k": 1}, "c": jm{"k": 2}}), cm(nil, nil, jm{"a": 1, "b": jm{"k": 1}, "c": jm{"k": 3}}), cm(nil, nil, jm{"a": 1, "b": jm{"k": 9}, "c": jm{"k": 3}})},
			[]Ev{ev("Added", 0), ev("Modified", 1), ev("Modified", 2), ev("Modified", 3)}),
		// every top-level value: strings (apiVersion, kind) before and between the objects
		multiCase(all3, false, ".[]?",
			[]jm{cm(lab, jm{"k": "v"}, nil), cm(lab, jm{"k": "w"}, jm{"spec": jm{"replicas": 1}}), cm(lab, jm{"k": "w"}, jm{"spec": jm{"replicas": 2}, "zz": 5})},
			[]Ev{ev("Added", 0), ev("Modified", 1), ev("Modified", 2), ev("Modified", 2), ev("Deleted", 2)}),
		// no output at all
		multiCase(all3, false, "empty",
			[]jm{cm(nil, jm{"k": "v"}, nil), cm(nil, jm{"k": "w"}, nil)},
			[]Ev{ev("Added", 0), ev("Modified", 0), ev("Deleted", 0)}),
		// array and null around the object output
		multiCase([]string{"Added", "Modified"}, false, ".items, .data, null",
			[]jm{cm(nil, jm{"k": "v"}, jm{"items": []interface{}{1}}), cm(nil, jm{"k": "w"}, jm{"items": []interface{}{1}})},
			[]Ev{ev("Added", 0), ev("Modified", 1), ev("Modified", 1)}),
	}
}

// multiCases: n generated cases of the stream
func (g *gen) multiCases(n, maxLen int) []core.In[Input] {
	var ins []core.In[Input]
	pairs := multiPairs()
	g.multi = true
	defer func() { g.multi = false }()
	for i := 0; i < n; i++ {
		subset := i % 9
		if subset == 8 {
			subset = -1
		}
		if i%3 == 0 {
			subset = 7 // all three listed: every change inside the projection must show
		}
		nIds := 1
		if g.r.Chance(25) {
			nIds = 2
		}
		ins = append(ins, core.In[Input]{Input: g.history(nIds, maxLen, g.multiFilter(i, pairs), subset, i%5 == 4), Stream: "multi-output"})
	}
	return ins
}

// multiTags: the kinds of the outputs over the states of the case
func multiTags(answers []Answer) []string {
	isObj := func(r json.RawMessage) bool { return len(r) > 0 && r[0] == '{' && string(r) != "{}" }
	before, after, two, maxOuts, none := false, false, false, 0, false
	for _, a := range answers {
		if a.Failed {
			continue
		}
		if len(a.Outs) > maxOuts {
			maxOuts = len(a.Outs)
		}
		if len(a.Outs) == 0 {
			none = true
		}
		objs, seenNon, seenObj := 0, false, false
		for _, r := range a.Outs {
			if isObj(r) {
				objs++
				seenObj = true
				if seenNon {
					before = true
				}
			} else {
				seenNon = true
				if seenObj {
					after = true
				}
			}
		}
		if objs >= 2 {
			two = true
		}
	}
	var t []string
	if before {
		t = append(t, "multi:non-object-output-before-object-output")
	}
	if after {
		t = append(t, "multi:non-object-output-after-object-output")
	}
	if two {
		t = append(t, "multi:two-or-more-object-outputs")
	}
	if none {
		t = append(t, "multi:no-output-on-some-state")
	}
	if maxOuts > 4 {
		maxOuts = 4
	}
	return append(t, fmt.Sprintf("multi:outputs<=%d", maxOuts))
}
