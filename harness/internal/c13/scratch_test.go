package c13

import (
	"fmt"
	"testing"

	"github.com/flant/kube-client/fake"
)

func TestScratch(t *testing.T) {
	c := fake.NewFakeCluster(fake.ClusterVersionV119)
	c.RegisterCRD("example.io", "v1", "Widget", true)
	c.RegisterCRD("legacy.example.io", "v1", "Widget", true)
	for i, r := range c.Discovery.Resources {
		if i < 3 || i > len(c.Discovery.Resources)-4 {
			fmt.Println(i, r.GroupVersion, len(r.APIResources))
		}
	}
	try := func(av, k string) {
		defer func() {
			if r := recover(); r != nil {
				fmt.Println("PANIC", av, k, r)
			}
		}()
		g, err := c.Client.GroupVersionResource(av, k)
		fmt.Println(av, k, "->", g, err)
	}
	try("", "Widget")
	try("example.io/v1", "Widget")
	try("legacy.example.io/v1", "Widget")
	try("nope.io/v1", "Widget")
	try("example.io/v1", "Gadget")
	try("", "Gadget")
	try("", "Ingress")
	try("", "Event")
	try("", "widget")
	try("", "widgets")
}
