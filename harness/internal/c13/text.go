// Fourth case class (Input.Text): patch files as TEXT.
//
// The other classes render every stream with a JSON / YAML encoder, so every text the parser
// ever sees is well-formed at the text level (one fixed "syntax" fault apart).  Here the text
// is built from pieces: the JSON renderings of the documents before position At, each with
// its own white space in front of it, then a FAULT - raw bytes: a stray closing bracket, a
// document cut short after some token, garbage, a lone comma, an unclosed bracket, control
// bytes, YAML text, ... - then the remaining documents (or, Mode "yaml", the YAML rendering of
// the documents with the fault text between / after them).  Without a fault the text is a
// well-formed JSON stream with arbitrary white space between the documents.
//
// The text goes through the REAL ParseOperations + ExecuteOperations (execFile, as for the
// other classes; sampled: through the operator's task handler).  Model: C13_TModel.v
// (encoding/json's scanner and Decoder loop byte by byte, the JSON -> YAML fallback), predicate
// C13_TSpec.P_text.  Two things stay oracles and are answered here with library calls of the
// harness's own, never with the code under test: what yaml.v3 makes of the whole text
// (yamlRef: a decoder loop into `any`, documents recognised by their canonical JSON), and -
// for the generator only - whether a randomly corrupted text still is a JSON stream (jsonRef).
package c13

import (
	"bytes"
	"encoding/json"
	"fmt"
	"io"
	"sort"
	"strings"

	"gopkg.in/yaml.v3"

	"verifharness/internal/core"
)

// TextIn describes how the text of the patch file is built from Input.Docs.
type TextIn struct {
	Mode string `json:"mode"` // "json" or "yaml"
	// Seps[i % len] is the white space in front of document i (JSON mode); none: "" / "\n"
	Seps []string `json:"seps,omitempty"`
	// At: the fault is placed in front of document At (clamped to len(Docs) = after the last)
	At int `json:"at"`
	// Replace: document At itself is left out (the fault is what is left of it)
	Replace bool `json:"replace,omitempty"`
	// Fault: raw bytes, including its own white space; "" = a well-formed stream
	Fault string `json:"fault"`
	// FaultDocs: documents written (as YAML / JSON text) inside Fault, known to the YAML oracle
	FaultDocs []Doc `json:"faultDocs,omitempty"`
	// Class names the kind of fault (tags only)
	Class string `json:"class,omitempty"`
	// Trail: what follows the last document
	Trail string `json:"trail,omitempty"`
}

func (t *TextIn) at(n int) int {
	if t.At < 0 {
		return 0
	}
	if t.At > n {
		return n
	}
	return t.At
}

func (t *TextIn) sep(i int) string {
	if len(t.Seps) == 0 {
		if i == 0 {
			return ""
		}
		return "\n"
	}
	return t.Seps[i%len(t.Seps)]
}

func docJSON(d Doc) string { return mustJSON(specMap(d)) }

// textShape: the JSON documents in front of the fault (white space, text) and the tail.
func textShape(in Input) (docs [][2]string, tail string) {
	t := in.Text
	at := t.at(len(in.Docs))
	if t.Mode == "yaml" {
		var b strings.Builder
		b.WriteString(RenderYAML(in.Docs[:at]))
		b.WriteString(t.Fault)
		rest := at
		if t.Replace && rest < len(in.Docs) {
			rest++
		}
		b.WriteString(RenderYAML(in.Docs[rest:]))
		b.WriteString(t.Trail)
		return nil, b.String()
	}
	for i := 0; i < at; i++ {
		docs = append(docs, [2]string{t.sep(i), docJSON(in.Docs[i])})
	}
	var b strings.Builder
	b.WriteString(t.Fault)
	rest := at
	if t.Replace && t.Fault != "" && rest < len(in.Docs) {
		rest++
	}
	for i := rest; i < len(in.Docs); i++ {
		b.WriteString(t.sep(i))
		b.WriteString(docJSON(in.Docs[i]))
	}
	b.WriteString(t.Trail)
	return docs, b.String()
}

func TextOf(in Input) string {
	docs, tail := textShape(in)
	var b strings.Builder
	for _, d := range docs {
		b.WriteString(d[0])
		b.WriteString(d[1])
	}
	b.WriteString(tail)
	return b.String()
}

// canonical JSON of a decoded YAML / JSON value ("" when it has none, e.g. non-string keys)
func canonical(v any) string {
	b, err := json.Marshal(v)
	if err != nil {
		return ""
	}
	var x any
	if json.Unmarshal(b, &x) != nil {
		return ""
	}
	b, err = json.Marshal(x)
	if err != nil {
		return ""
	}
	return string(b)
}

// yamlRef: what yaml.v3 makes of the whole text: ok = every document decoded; per document the
// index of the known document it is (by canonical JSON), -1 = none of them.
func yamlRef(text string, known []Doc) (ok bool, which []int) {
	defer func() {
		if recover() != nil {
			ok, which = false, nil
		}
	}()
	canon := map[string]int{}
	for i, d := range known {
		if d.Bad == "" {
			if c := canonical(specMap(d)); c != "" {
				if _, dup := canon[c]; !dup {
					canon[c] = i
				}
			}
		}
	}
	dec := yaml.NewDecoder(bytes.NewReader([]byte(text)))
	for {
		var v any
		err := dec.Decode(&v)
		if err == io.EOF {
			return true, which
		}
		if err != nil {
			return false, nil
		}
		i, found := canon[canonical(v)]
		if !found || canonical(v) == "" {
			i = -1
		}
		which = append(which, i)
	}
}

// jsonRef: is the text a stream of JSON values (encoding/json's own decoder, values kept raw)?
func jsonRef(text string) bool {
	dec := json.NewDecoder(strings.NewReader(text))
	for {
		var raw json.RawMessage
		err := dec.Decode(&raw)
		if err == io.EOF {
			return true
		}
		if err != nil {
			return false
		}
	}
}

// textUsable: the generator's filter.  A text whose fault leaves it a JSON stream after all, or
// that yaml.v3 accepts with a document the harness cannot name, is not a case of this class.
func textUsable(in Input) bool {
	_, tail := textShape(in)
	if in.Text.Fault != "" && jsonRef(tail) && strings.TrimLeft(tail, " \t\r\n") != "" {
		// still JSON: usable only if some value cannot be an operation document at all (5, true, "x", [..])
		dec := json.NewDecoder(strings.NewReader(tail))
		undecodable := false
		for {
			var raw json.RawMessage
			if dec.Decode(&raw) != nil {
				break
			}
			s := strings.TrimSpace(string(raw))
			if !strings.HasPrefix(s, "{") && s != "null" {
				undecodable = true
			}
		}
		if !undecodable {
			return false
		}
	}
	ok, which := yamlRef(TextOf(in), append(append([]Doc{}, in.Docs...), in.Text.FaultDocs...))
	if ok {
		for _, w := range which {
			if w < 0 {
				return false
			}
		}
	}
	return true
}

func runText(in Input) Obs {
	var o Obs
	text := TextOf(in)
	o.JSON = runOne(in.Initial, text)
	if in.Operator != "" {
		op := runOperator(in.Initial, text)
		o.Operator = &op
	}
	return o
}

func coqText(s string) string { return core.CoqBytes(s) }

func renderText(in Input, obs *Obs, crash string) core.Case {
	var o Obs
	if obs != nil {
		o = *obs
	} else {
		o.JSON.Crash = "child: " + crash
	}
	var init []ObjOut
	for _, ob := range in.Initial {
		init = append(init, ObjOut{Key: keyOfObject(ob), Obj: ob})
	}
	sort.Slice(init, func(i, j int) bool { return init[i].Key < init[j].Key })
	docs, tail := textShape(in)
	known := append(append([]Doc{}, in.Docs...), in.Text.FaultDocs...)
	// the table: what the generator's document texts mean
	seen := map[string]bool{}
	var table []string
	for _, d := range known {
		t := docJSON(d)
		if !seen[t] {
			seen[t] = true
			table = append(table, fmt.Sprintf("(%s, %s)", coqText(t), coqDoc(d)))
		}
	}
	yamlOK, which := yamlRef(TextOf(in), known)
	yaml := "None"
	if yamlOK {
		yaml = "(Some " + core.CoqList(which, func(i int) string {
			if i < 0 {
				return "DBad"
			}
			return coqDoc(known[i])
		}) + ")"
	}
	c := core.Case{}
	opr := "None"
	if o.Operator != nil {
		st := map[string]string{"Success": "OSuccess", "Fail": "OFail"}[o.Operator.Status]
		if st == "" || o.Operator.Crash != "" {
			st = "OOther"
		}
		opr = fmt.Sprintf("(Some (mkOpRun %s %s\n     %s))", st, core.CoqList(o.Operator.Calls, coqCall), coqCluster(o.Operator.Cluster))
		c.Tags = append(c.Tags, "operator-run:text", "operator-status:"+o.Operator.Status)
	}
	c.Coq = fmt.Sprintf("KText (mkText %s\n   (mkShape %s\n    %s)\n   [%s]\n   %s\n   (%s)\n   %s)", coqCluster(init),
		core.CoqList(docs, func(d [2]string) string { return fmt.Sprintf("(%s, %s)", coqText(d[0]), coqText(d[1])) }),
		coqText(tail), strings.Join(table, "; "), yaml, coqRun(o.JSON), opr)
	c.JSON = o
	kb, _ := json.Marshal(in)
	c.Key = string(kb)
	t := in.Text
	c.Tags = append(c.Tags, "class:text", "text:mode-"+t.Mode, fmt.Sprintf("docs:%d", len(in.Docs)), fmt.Sprintf("initial:%d", len(in.Initial)))
	if t.Fault == "" {
		c.Tags = append(c.Tags, "text:well-formed", "stream:valid")
	} else {
		at := t.at(len(in.Docs))
		pos := "middle"
		switch {
		case at >= len(in.Docs) || (t.Replace && at == len(in.Docs)-1):
			pos = "last"
		case at == 0:
			pos = "first"
		}
		c.Tags = append(c.Tags, "text:fault:"+t.Class, "text:fault-at:"+pos, fmt.Sprintf("text:docs-before-fault:%d", at))
		if yamlOK {
			c.Tags = append(c.Tags, "text:accepted-as-yaml", "stream:valid")
		} else {
			c.Tags = append(c.Tags, "text:broken", "stream:invalid")
		}
	}
	if o.JSON.ParseOK {
		c.Tags = append(c.Tags, "text:parsed")
	} else {
		c.Tags = append(c.Tags, "text:rejected")
	}
	for _, e := range o.JSON.Errors {
		c.Tags = append(c.Tags, "apply-error:"+e)
	}
	if o.JSON.Crash != "" {
		c.Tags = append(c.Tags, "crash")
	}
	// non-trivial: a fault with at least one well-formed document around it, or a well-formed stream of >= 2 documents
	c.Nontrivial = (t.Fault != "" && len(in.Docs) >= 1) || len(in.Docs) >= 2
	return c
}

// ---- generation ----

// cutPoints: where a JSON document is cut short, one position per token class.
func cutPoints(doc string) map[string]int {
	cuts := map[string]int{}
	first := func(k string, v int) {
		if _, ok := cuts[k]; !ok {
			cuts[k] = v
		}
	}
	var stack []byte // open containers
	inStr, isKey, expectKey := false, false, false
	strStart := 0
	for i := 0; i < len(doc); i++ {
		ch := doc[i]
		if inStr {
			if ch == '\\' {
				i++
				continue
			}
			if ch == '"' {
				inStr = false
				switch {
				case isKey && len(stack) >= 2:
					cuts["after-nested-key"] = i + 1
				case isKey:
					first("after-key", i+1)
				default:
					if i-strStart >= 3 {
						first("in-string", strStart+1+(i-strStart)/2)
					}
					cuts["after-string-value"] = i + 1
				}
			}
			continue
		}
		switch ch {
		case '"':
			inStr, strStart, isKey = true, i, expectKey
		case '{':
			stack = append(stack, ch)
			expectKey = true
			if len(stack) == 1 {
				cuts["after-open-brace"] = i + 1
			} else {
				cuts["in-nested-object"] = i + 1
			}
		case '[':
			stack = append(stack, ch)
			expectKey = false
			cuts["in-array"] = i + 1
		case '}', ']':
			stack = stack[:len(stack)-1]
			if len(stack) >= 1 {
				cuts["after-nested-close"] = i + 1
			} else {
				cuts["before-last-brace"] = i
			}
		case ':':
			first("after-colon", i+1)
			if len(stack) >= 2 {
				cuts["after-nested-colon"] = i + 1
			}
			expectKey = false
		case ',':
			cuts["after-comma"] = i + 1
			expectKey = len(stack) > 0 && stack[len(stack)-1] == '{'
		}
	}
	return cuts
}

type rawFault struct {
	class, text string
}

// stray bytes and garbage placed between / after documents
var jsonStrays = []rawFault{
	{"stray-close-brace", "\n}"}, {"stray-close-brace-glued", "}"}, {"stray-close-bracket", "\n]"}, {"stray-close-bracket-glued", "]"},
	{"stray-close-brace-then-space", "\n} \n"}, {"lone-comma", "\n,"}, {"lone-comma-glued", ","}, {"lone-colon", "\n:"},
	{"unclosed-bracket", "\n["}, {"unclosed-brace", "\n{"}, {"garbage-word", "\ngarbage"}, {"garbage-glued", "xyz"},
	{"garbage-hash", "\n#}"}, {"garbage-number", "\n5"}, {"garbage-literal", "\ntrue"}, {"garbage-string", "\n\"operation\""},
	{"garbage-array", "\n[1,2]"}, {"garbage-bad-number", "\n-"}, {"garbage-bad-literal", "\nnul"}, {"nul-byte", "\x00"},
	{"nul-byte-own-line", "\n\x00\n"}, {"control-byte", "\n\x01"}, {"escape-byte", "\x1b"}, {"form-feed", "\n\x0c"},
	{"yaml-separator", "\n---"}, {"yaml-end-marker", "\n..."}, {"bom", "\n\xef\xbb\xbf"},
}

var yamlFaults = []rawFault{
	{"yaml-unclosed-flow-seq", "---\noperation: Create\nobject: [unclosed\n"},
	{"yaml-tab-indented", "---\noperation: Delete\n\tkind: ConfigMap\n"},
	{"yaml-unclosed-flow-map", "---\n{operation: Delete, kind: ConfigMap\n"},
	{"yaml-unterminated-quote", "---\noperation: \"Delete\nkind: ConfigMap\n"},
	{"yaml-stray-close-brace", "---\n}\n"},
	{"yaml-bad-indent", "---\noperation: Delete\n  kind: ConfigMap\n name: x\n"},
	{"yaml-mapping-in-scalar", "---\noperation: Delete: x\n"},
	{"yaml-control-byte", "---\noperation: Delete\x01\n"},
	{"yaml-nul-byte", "\x00\n"},
	{"yaml-truncated-json-tail", "---\n{\"operation\": \"Delete\", \"kind\": \n"},
}

var wsChoices = []string{"", " ", "\n", "\r\n", "\t", "\n\n", " \n  ", "\n\t\r\n "}

func (g *gen) seps(n int) []string {
	out := make([]string, n+1)
	for i := range out {
		out[i] = g.pick(wsChoices)
	}
	return out
}

// smallDoc: a document of the text class (everything inline; text-level faults, not field faults)
func (g *gen) textStream(n int) Input {
	in := g.stream(n, 0, 0)
	for i := range in.Docs {
		in.Docs[i].AsString = ""
	}
	return in
}

func withText(base Input, t TextIn) Input {
	in := Input{Initial: base.Initial, Docs: base.Docs, Operator: base.Operator}
	tt := t
	in.Text = &tt
	return in
}

// positions: after the first, a middle, the last document (and before the first)
func faultPositions(n int) []int {
	ps := []int{n}
	if n >= 2 {
		ps = append(ps, 1)
	}
	if n >= 3 {
		ps = append(ps, n-1)
	}
	ps = append(ps, 0)
	return ps
}

// TextGrid: the systematic part: every fault class at every position class of a base stream.
func textGrid(base Input, stream string, ins []core.In[Input]) []core.In[Input] {
	nth := 0
	add := func(t TextIn) {
		in := withText(base, t)
		if textUsable(in) {
			// sampled: the same text through the operator's own task handler
			if nth++; nth%14 == 0 {
				in.Operator = "text"
			}
			ins = append(ins, core.In[Input]{Input: in, Stream: stream})
		}
	}
	n := len(base.Docs)
	for _, f := range jsonStrays {
		for _, at := range faultPositions(n) {
			add(TextIn{Mode: "json", At: at, Fault: f.text, Class: f.class, Trail: "\n"})
		}
	}
	// every document cut short after every token class, as the last thing of the text and with documents after it
	for at := 0; at < n; at++ {
		doc := docJSON(base.Docs[at])
		cuts := cutPoints(doc)
		var names []string
		for k := range cuts {
			names = append(names, k)
		}
		sort.Strings(names)
		for _, k := range names {
			sep := "\n"
			if at == 0 {
				sep = ""
			}
			add(TextIn{Mode: "json", At: at, Replace: true, Fault: sep + doc[:cuts[k]], Class: "cut-" + k, Trail: "\n"})
		}
	}
	// a JSON stream followed by YAML text, a YAML stream followed by / interrupted by JSON text
	if n >= 1 {
		last := base.Docs[n-1]
		add(TextIn{Mode: "json", At: n - 1, Replace: true, Fault: "\n---\n" + mustYAML(specMap(last)), FaultDocs: []Doc{last}, Class: "json-then-yaml"})
		add(TextIn{Mode: "json", At: n - 1, Replace: true, Fault: "\n" + mustYAML(specMap(last)), FaultDocs: []Doc{last}, Class: "json-then-yaml-no-separator"})
		// ONE JSON document, then --- and a YAML document: no JSON stream, but a well-formed YAML stream of two documents
		one := Input{Initial: base.Initial, Docs: base.Docs[:1]}
		if in := withText(one, TextIn{Mode: "json", At: 1, Fault: "\n---\n" + mustYAML(specMap(last)), FaultDocs: []Doc{last}, Class: "one-json-then-yaml"}); textUsable(in) {
			ins = append(ins, core.In[Input]{Input: in, Stream: stream})
		}
		if in := withText(one, TextIn{Mode: "json", At: 1, Fault: "\n# a YAML comment }", Class: "one-json-then-yaml-comment", Trail: "\n"}); textUsable(in) {
			ins = append(ins, core.In[Input]{Input: in, Stream: stream})
		}
		add(TextIn{Mode: "yaml", At: n - 1, Replace: true, Fault: docJSON(last) + "\n", FaultDocs: []Doc{last}, Class: "yaml-then-json-no-separator"})
		add(TextIn{Mode: "yaml", At: n - 1, Replace: true, Fault: "---\n" + docJSON(last) + "\n" + docJSON(last) + "\n", FaultDocs: []Doc{last}, Class: "yaml-then-json-stream"})
	}
	for _, f := range yamlFaults {
		for _, at := range faultPositions(n) {
			if at == 0 && n > 0 {
				continue
			}
			add(TextIn{Mode: "yaml", At: at, Fault: f.text, Class: f.class})
		}
	}
	return ins
}

func textBase() Input {
	merge := func(name, k, v string) Doc {
		return Doc{Operation: "MergePatch", Kind: "ConfigMap", Namespace: "default", Name: name, Merge: map[string]any{"data": map[string]any{k: v}}}
	}
	return Input{
		Initial: []map[string]any{cm("cm1", map[string]any{"foo": "bar"}), cm("victim", map[string]any{"a": "1"})},
		Docs: []Doc{merge("cm1", "first", "applied"), merge("cm1", "second", "}] , applied"),
			{Operation: "JSONPatch", Kind: "ConfigMap", Namespace: "default", Name: "cm1", JP: []JP{{Op: "add", Path: []string{"data", "third"}, Value: "x"}}},
			{Operation: "DeleteInBackground", Kind: "ConfigMap", Namespace: "default", Name: "victim"}},
	}
}

// randomCorruption: one byte of the text of document [at] deleted, replaced, inserted or doubled
func (g *gen) randomCorruption(doc string) (string, string) {
	p := g.r.Intn(len(doc))
	noise := []string{"}", "]", "{", "[", ",", ":", "\"", "\\", "\x00", "\n", "x", "7", "-", " "}
	switch g.r.Intn(5) {
	case 0:
		return doc[:p] + doc[p+1:], "delete-byte"
	case 1:
		return doc[:p] + g.pick(noise) + doc[p+1:], "replace-byte"
	case 2:
		return doc[:p] + g.pick(noise) + doc[p:], "insert-byte"
	case 3:
		return doc[:p+1], "cut-random"
	}
	q := p + g.r.Intn(len(doc)-p)
	return doc[:p] + doc[q:], "delete-range"
}

func genText(g *gen, tier string, ins []core.In[Input]) []core.In[Input] {
	nBases, nWell, nRandom, opEvery := 0, 25, 70, 12
	switch tier {
	case "thorough":
		nBases, nWell, nRandom, opEvery = 8, 400, 2500, 25
	case "search":
		nBases, nWell, nRandom, opEvery = 4, 150, 1500, 25
	}
	ins = textGrid(textBase(), "text-grid", ins)
	for i := 0; i < nBases; i++ {
		ins = textGrid(g.textStream(1+g.r.Intn(3)), "text-grid-random-base", ins)
	}
	count := 0
	sample := func(in *Input) {
		count++
		if count%opEvery == 0 {
			in.Operator = "text"
		}
	}
	// well-formed JSON streams with any white space between the documents
	for i := 0; i < nWell; i++ {
		base := g.textStream(1 + g.r.Intn(4))
		in := withText(base, TextIn{Mode: "json", At: len(base.Docs), Seps: g.seps(len(base.Docs)), Trail: g.pick(wsChoices)})
		sample(&in)
		ins = append(ins, core.In[Input]{Input: in, Stream: "text-well-formed"})
	}
	// random single-point corruption of one document of a JSON stream; random strays
	for i := 0; i < nRandom; i++ {
		base := g.textStream(1 + g.r.Intn(4))
		at := g.r.Intn(len(base.Docs))
		var t TextIn
		for try := 0; try < 20; try++ {
			if g.r.Chance(25) {
				f := jsonStrays[g.r.Intn(len(jsonStrays))]
				t = TextIn{Mode: "json", At: g.r.Intn(len(base.Docs) + 1), Fault: g.pick(wsChoices) + strings.TrimLeft(f.text, "\n"), Class: f.class,
					Seps: g.seps(len(base.Docs)), Trail: g.pick(wsChoices)}
			} else {
				text, class := g.randomCorruption(docJSON(base.Docs[at]))
				seps := g.seps(len(base.Docs))
				t = TextIn{Mode: "json", At: at, Replace: true, Fault: seps[at] + text, Class: class, Seps: seps, Trail: g.pick(wsChoices)}
			}
			if strings.TrimLeft(t.Fault, " \t\r\n") != "" && textUsable(withText(base, t)) {
				break
			}
			t = TextIn{}
		}
		if t.Mode == "" {
			continue
		}
		in := withText(base, t)
		sample(&in)
		ins = append(ins, core.In[Input]{Input: in, Stream: "text-random-fault"})
	}
	return ins
}
