// Third case class of C13 (Input.Conc): CONCURRENT WRITERS.
//
// Between the recording / JSON wrapper of the patcher's dynamic client (wireRes) and the fake
// cluster sits an API-server layer (srvRes) that does what the fake does not do:
//   - every stored object carries a resourceVersion out of one growing revision counter, changed
//     on every write (create, update, patch - by whomever);
//   - an Update whose resourceVersion is not the stored one is refused with 409 Conflict;
//   - ANOTHER WRITER gets in right before the layer handles a mutating request (create, update,
//     patch, delete) of the operator for an object: the next write of the queue the input holds
//     for that object (Doc.Intf) happens first.  For a read-modify-write of the operator
//     (JQPatch, CreateOrUpdate) that is exactly the window between its Get and its Update.
//
// The whole stream goes through the REAL ParseOperations and ONE call of the REAL
// ObjectPatcher.ExecuteOperations (execFile).  Queues are found by the object a request is for;
// the generator gives every document a target of its own, so "the queue of the object" is "the
// queue of the document".  Model: C13_CModel.v, predicate: C13_CSpec.P_conc.
package c13

import (
	"context"
	"encoding/json"
	"errors"
	"fmt"
	"sort"
	"strconv"
	"strings"

	"github.com/deckhouse/deckhouse/pkg/log"
	apierrors "k8s.io/apimachinery/pkg/api/errors"
	metav1 "k8s.io/apimachinery/pkg/apis/meta/v1"
	"k8s.io/apimachinery/pkg/apis/meta/v1/unstructured"
	"k8s.io/apimachinery/pkg/runtime/schema"
	"k8s.io/apimachinery/pkg/types"
	"k8s.io/client-go/dynamic"

	objectpatch "github.com/flant/shell-operator/pkg/kube/object_patch"

	"verifharness/internal/core"
)

type writerQueue struct {
	ws   []Write
	used int
}

type apiServer struct {
	rev    int64
	queues map[string]*writerQueue // object key -> what the other writer has ready for it
}

func (s *apiServer) nextRV() string {
	s.rev++
	return strconv.FormatInt(s.rev, 10)
}

type srvDyn struct {
	under dynamic.Interface
	srv   *apiServer
}

func (s srvDyn) Resource(gvr schema.GroupVersionResource) dynamic.NamespaceableResourceInterface {
	u := s.under.Resource(gvr)
	return srvRes{ResourceInterface: u, under: u, srv: s.srv, kind: kindOfResource[gvr.Resource], resource: gvr.Resource}
}

// the remaining methods of dynamic.Interface are the fake's
type srvRes struct {
	dynamic.ResourceInterface
	under    dynamic.NamespaceableResourceInterface
	srv      *apiServer
	kind     string
	resource string
	ns       string
}

func (r srvRes) Namespace(ns string) dynamic.ResourceInterface {
	return srvRes{ResourceInterface: r.under.Namespace(ns), under: r.under, srv: r.srv, kind: r.kind, resource: r.resource, ns: ns}
}

func (r srvRes) stored(name string) *unstructured.Unstructured {
	o, err := r.ResourceInterface.Get(context.TODO(), name, metav1.GetOptions{})
	if err != nil {
		return nil
	}
	return o
}

func jsonCopy(m map[string]any) map[string]any {
	b, _ := json.Marshal(m)
	var out map[string]any
	_ = json.Unmarshal(b, &out)
	return out
}

// interfere: the other writer's next write for the object, if it has one ready.
func (r srvRes) interfere(name string) {
	q := r.srv.queues[objKey(r.kind, r.ns, name)]
	if q == nil || q.used >= len(q.ws) {
		return
	}
	w := q.ws[q.used]
	q.used++
	cur := r.stored(name)
	switch w.Kind {
	case "set":
		if cur == nil {
			return
		}
		c := cur.DeepCopy()
		d, _ := c.Object["data"].(map[string]any)
		if d == nil {
			d = map[string]any{}
		}
		d[w.Key] = w.Value
		c.Object["data"] = d
		c.SetResourceVersion(r.srv.nextRV())
		if _, err := r.ResourceInterface.Update(context.TODO(), c, metav1.UpdateOptions{}); err != nil {
			panic("harness: the other writer's update failed: " + err.Error())
		}
	case "put":
		if cur != nil {
			return
		}
		c := &unstructured.Unstructured{Object: jsonCopy(w.Object)}
		c.SetResourceVersion(r.srv.nextRV())
		if _, err := r.ResourceInterface.Create(context.TODO(), c, metav1.CreateOptions{}); err != nil {
			panic("harness: the other writer's create failed: " + err.Error())
		}
	}
}

func (r srvRes) Create(ctx context.Context, obj *unstructured.Unstructured, o metav1.CreateOptions, subs ...string) (*unstructured.Unstructured, error) {
	r.interfere(obj.GetName())
	c := obj.DeepCopy()
	c.SetResourceVersion(r.srv.nextRV())
	return r.ResourceInterface.Create(ctx, c, o, subs...)
}

func (r srvRes) Update(ctx context.Context, obj *unstructured.Unstructured, o metav1.UpdateOptions, subs ...string) (*unstructured.Unstructured, error) {
	r.interfere(obj.GetName())
	if cur := r.stored(obj.GetName()); cur != nil && obj.GetResourceVersion() != cur.GetResourceVersion() {
		return nil, apierrors.NewConflict(schema.GroupResource{Resource: r.resource}, obj.GetName(),
			errors.New("the object has been modified; please apply your changes to the latest version and try again"))
	}
	c := obj.DeepCopy()
	c.SetResourceVersion(r.srv.nextRV())
	return r.ResourceInterface.Update(ctx, c, o, subs...)
}

func (r srvRes) Patch(ctx context.Context, name string, pt types.PatchType, data []byte, o metav1.PatchOptions, subs ...string) (*unstructured.Unstructured, error) {
	r.interfere(name)
	res, err := r.ResourceInterface.Patch(ctx, name, pt, data, o, subs...)
	if err != nil {
		return res, err
	}
	if cur := r.stored(name); cur != nil {
		cur.SetResourceVersion(r.srv.nextRV())
		if _, err := r.ResourceInterface.Update(context.TODO(), cur, metav1.UpdateOptions{}); err != nil {
			panic("harness: cannot store the resourceVersion after a patch: " + err.Error())
		}
		res = cur
	}
	return res, nil
}

func (r srvRes) Delete(ctx context.Context, name string, o metav1.DeleteOptions, subs ...string) error {
	r.interfere(name)
	return r.ResourceInterface.Delete(ctx, name, o, subs...)
}

func docTarget(d Doc) string {
	if d.Object != nil {
		return keyOfObject(d.Object)
	}
	return objKey(d.Kind, d.Namespace, d.Name)
}

// runConc: one execution against a fresh cluster behind the API-server layer.
func runConc(in Input, text string) (ro RunObs) {
	ro.Text = text
	defer func() {
		if r := recover(); r != nil {
			ro.Crash = crashText(r)
		}
	}()
	srv := &apiServer{queues: map[string]*writerQueue{}}
	var initial []map[string]any
	for _, o := range in.Initial {
		c := jsonCopy(o)
		md, _ := c["metadata"].(map[string]any)
		if md == nil {
			md = map[string]any{}
			c["metadata"] = md
		}
		md["resourceVersion"] = srv.nextRV()
		initial = append(initial, c)
	}
	cluster, err := newCluster(initial)
	if err != nil {
		ro.Crash = "harness: cannot build the initial cluster: " + err.Error()
		return ro
	}
	var qs []*writerQueue
	for _, d := range in.Docs {
		q := &writerQueue{ws: d.Intf}
		qs = append(qs, q)
		if len(d.Intf) > 0 {
			if srv.queues[docTarget(d)] != nil {
				ro.Crash = "harness: two documents with interfering writes address " + docTarget(d)
				return ro
			}
			srv.queues[docTarget(d)] = q
		}
	}
	var calls []Call
	client := &wireClient{Client: cluster.Client, dyn: wireDyn{under: srvDyn{under: cluster.Client.Dynamic(), srv: srv}, rec: &calls}}
	patcher := objectpatch.NewObjectPatcher(client, log.NewNop())
	execFile(patcher, text, &calls, &ro)
	if ro.ParseOK {
		for _, q := range qs {
			ro.Used = append(ro.Used, q.used)
		}
	}
	ro.Cluster, err = dumpCluster(cluster)
	if err != nil {
		ro.Crash = "harness: cannot list the cluster: " + err.Error()
	}
	return ro
}

// ---- rendering ----

func coqWrite(w Write) string {
	if w.Kind == "put" {
		return "WPut " + core.CoqJSON(w.Object)
	}
	return fmt.Sprintf("WSet %s (JStr %s)", core.CoqBytes(w.Key), core.CoqBytes(w.Value))
}

func coqNats(xs []int) string {
	return core.CoqList(xs, func(x int) string { return strconv.Itoa(x) + "%nat" })
}

func renderConc(in Input, obs *Obs, crash string) core.Case {
	var o Obs
	if obs != nil {
		o = *obs
	} else {
		o.JSON.Crash, o.YAML.Crash = "child: "+crash, "child: "+crash
	}
	var init []ObjOut
	for _, ob := range in.Initial {
		init = append(init, ObjOut{Key: keyOfObject(ob), Obj: ob})
	}
	sort.Slice(init, func(i, j int) bool { return init[i].Key < init[j].Key })
	c := core.Case{}
	c.Coq = fmt.Sprintf("KConc (mkConc %s\n   %s\n   %s\n   (%s) %s\n   (%s) %s\n   %s %s)", coqCluster(init), core.CoqList(in.Docs, coqDoc),
		core.CoqList(in.Docs, func(d Doc) string { return core.CoqList(d.Intf, coqWrite) }),
		coqRun(o.JSON), coqNats(o.JSON.Used), coqRun(o.YAML), coqNats(o.YAML.Used), core.CoqBool(o.SameOps), core.CoqBool(o.SameTyped))
	c.JSON = o
	kb, _ := json.Marshal(in)
	c.Key = string(kb)
	c.Tags = append(c.Tags, "class:conc", fmt.Sprintf("docs:%d", len(in.Docs)), fmt.Sprintf("initial:%d", len(in.Initial)))
	present := map[string]bool{}
	for _, ob := range in.Initial {
		present[keyOfObject(ob)] = true
	}
	bad, racing := 0, 0
	for i, d := range in.Docs {
		if d.Bad != "" {
			bad++
			c.Tags = append(c.Tags, "fault:"+d.Bad)
			continue
		}
		name := d.Operation
		if d.JQ != nil {
			name += ":" + d.JQ.Kind
		}
		c.Tags = append(c.Tags, "op:"+d.Operation, fmt.Sprintf("conc:%s:ready-%d", name, len(d.Intf)))
		if len(d.Intf) > 0 {
			racing++
			if present[docTarget(d)] {
				c.Tags = append(c.Tags, "conc:target-present")
			} else {
				c.Tags = append(c.Tags, "conc:target-absent")
			}
			for _, w := range d.Intf {
				c.Tags = append(c.Tags, "conc:write:"+w.Kind)
			}
		}
		if i < len(o.JSON.Used) {
			c.Tags = append(c.Tags, fmt.Sprintf("conc:%s:happened-%d", d.Operation, o.JSON.Used[i]))
		}
	}
	for _, e := range o.JSON.Errors {
		c.Tags = append(c.Tags, "apply-error:"+e)
	}
	if bad > 0 {
		c.Tags = append(c.Tags, "stream:invalid")
	} else {
		c.Tags = append(c.Tags, "stream:valid")
	}
	if o.JSON.Crash != "" || o.YAML.Crash != "" {
		c.Tags = append(c.Tags, "crash")
	}
	// non-trivial: another writer really has something ready for an operation
	c.Nontrivial = racing > 0
	return c
}

// ---- generation ----

var writeKeys = []string{"a", "b", "k1", "foo", "other"}

func (g *gen) write(kind, ns, name string, putPct int) Write {
	if g.r.Chance(putPct) {
		return Write{Kind: "put", Object: g.object(kind, ns, name, 0)}
	}
	return Write{Kind: "set", Key: g.pick(writeKeys), Value: g.pick(values)}
}

// how many writes the other writer has ready: none, fewer than the retry budget (4 attempts), exactly it, more
func (g *gen) readyWrites() int {
	switch k := g.r.Intn(100); {
	case k < 12:
		return 0
	case k < 42:
		return 1
	case k < 57:
		return 2
	case k < 69:
		return 3
	case k < 84:
		return 4
	case k < 94:
		return 5
	}
	return 6
}

// concStream: 1-3 documents, every one with a target of its own (mostly present at the start),
// mostly read-modify-write operations, each with the writes the other writer has ready.
func (g *gen) concStream() Input {
	in := Input{Conc: true}
	type ident struct{ kind, ns, name string }
	var all []ident
	for _, kind := range kinds {
		for _, ns := range namespaces {
			for _, name := range names {
				all = append(all, ident{kind, ns, name})
			}
		}
	}
	perm := g.perm(len(all))
	n := 1 + g.r.Intn(3)
	present := map[ident]bool{}
	for i, p := range perm {
		id := all[p]
		pct := 20
		if i < n {
			pct = 75
		}
		if g.r.Chance(pct) {
			present[id] = true
		}
	}
	for _, id := range all {
		if present[id] {
			in.Initial = append(in.Initial, g.object(id.kind, id.ns, id.name, 0))
		}
	}
	for i := 0; i < n; i++ {
		id := all[perm[i]]
		d := Doc{}
		switch k := g.r.Intn(100); {
		case k < 45:
			d.Operation = "JQPatch"
			d.JQ = g.jq()
		case k < 62:
			d.Operation = "CreateOrUpdate"
		case k < 70:
			d.Operation = []string{"Create", "CreateIfNotExists"}[g.r.Intn(2)]
		case k < 80:
			d.Operation = "MergePatch"
			d.Merge = g.mergePatch()
		case k < 90:
			d.Operation = "JSONPatch"
			d.JP = g.jsonPatch()
		default:
			d.Operation = []string{"DeleteInBackground", "DeleteNonCascading"}[g.r.Intn(2)]
		}
		if strings.HasPrefix(d.Operation, "Create") {
			d.Object = g.object(id.kind, id.ns, id.name, 0)
		} else {
			d.Kind, d.Namespace, d.Name = id.kind, id.ns, id.name
			if !strings.HasPrefix(d.Operation, "Delete") {
				d.Sub = g.pick(subs)
				d.Ignore = g.r.Chance(30)
			}
		}
		putPct := 10
		if !present[id] {
			putPct = 60
		}
		for j, m := 0, g.readyWrites(); j < m; j++ {
			d.Intf = append(d.Intf, g.write(id.kind, id.ns, id.name, putPct))
		}
		in.Docs = append(in.Docs, d)
	}
	return in
}

// ConcGrid: exhaustive small scope - every kind of operation x target present / absent at the
// start x 0..6 writes ready (the retry budget is 4 attempts); the writes set .data.other (the
// first one creates the object when the target is absent).
func ConcGrid() []core.In[Input] {
	var out []core.In[Input]
	target := func() Doc { return Doc{Kind: "ConfigMap", Namespace: "default", Name: "cm1"} }
	type mk func() Doc
	ops := []mk{
		func() Doc {
			d := target()
			d.Operation, d.JQ = "JQPatch", &JQ{Kind: "set", Path: []string{"data", "fromHook"}, Value: "yes"}
			return d
		},
		func() Doc {
			d := target()
			d.Operation, d.JQ, d.Ignore = "JQPatch", &JQ{Kind: "del", Path: []string{"data", "a"}}, true
			return d
		},
		func() Doc {
			d := target()
			d.Operation, d.JQ, d.Sub = "JQPatch", &JQ{Kind: "id"}, "status"
			return d
		},
		func() Doc { return Doc{Operation: "CreateOrUpdate", Object: cm("cm1", map[string]any{"fromHook": "yes"})} },
		func() Doc { return Doc{Operation: "Create", Object: cm("cm1", map[string]any{"fromHook": "yes"})} },
		func() Doc { return Doc{Operation: "CreateIfNotExists", Object: cm("cm1", map[string]any{"fromHook": "yes"})} },
		func() Doc {
			d := target()
			d.Operation, d.Merge = "MergePatch", map[string]any{"data": map[string]any{"fromHook": "yes", "a": nil}}
			return d
		},
		func() Doc {
			d := target()
			d.Operation, d.JP, d.Ignore = "JSONPatch", []JP{{Op: "add", Path: []string{"data", "fromHook"}, Value: "yes"}}, true
			return d
		},
		func() Doc { d := target(); d.Operation = "DeleteInBackground"; return d },
	}
	for _, op := range ops {
		for _, present := range []bool{true, false} {
			for n := 0; n <= 6; n++ {
				in := Input{Conc: true, Initial: []map[string]any{cm("other", map[string]any{"foo": "bar"})}}
				if present {
					in.Initial = append(in.Initial, cm("cm1", map[string]any{"a": "1"}))
				}
				d := op()
				for j := 0; j < n; j++ {
					if j == 0 && !present {
						d.Intf = append(d.Intf, Write{Kind: "put", Object: cm("cm1", map[string]any{"fromOtherWriter": "yes"})})
						continue
					}
					d.Intf = append(d.Intf, Write{Kind: "set", Key: "other", Value: strconv.Itoa(j)})
				}
				// a second document on an object of its own: the stream goes on
				in.Docs = []Doc{d, {Operation: "MergePatch", Kind: "ConfigMap", Namespace: "default", Name: "other",
					Merge: map[string]any{"data": map[string]any{"second": "applied"}}}}
				out = append(out, core.In[Input]{Input: in, Stream: "conc-grid"})
			}
		}
	}
	return out
}

func genConc(g *gen, tier string, ins []core.In[Input]) []core.In[Input] {
	ins = append(ins, ConcGrid()...)
	n := 110
	switch tier {
	case "thorough":
		n = 3000
	case "search":
		n = 900
	}
	for i := 0; i < n; i++ {
		in := g.concStream()
		ins = append(ins, core.In[Input]{Input: in, Stream: "conc"})
		if i%8 == 0 {
			bad := in
			bad.Docs = append([]Doc{}, in.Docs...)
			p := g.r.Intn(len(bad.Docs))
			fs := FaultsFor(bad.Docs[p].Operation)
			bad.Docs[p].Bad = fs[g.r.Intn(len(fs))]
			ins = append(ins, core.In[Input]{Input: bad, Stream: "conc-single-fault"})
		}
	}
	return ins
}
