// Package c13: correspondence driver for C13 (patch file: validated as a whole, applied in
// order, JSON and YAML agree).
//
// Every case is a stream of operation documents and an initial cluster state.  The
// stream is rendered twice (JSON documents; YAML documents by yaml.v3) and each
// rendering goes through the REAL objectpatch.ParseOperations and, when that succeeds,
// the REAL ObjectPatcher.ExecuteOperations against a fresh fake cluster
// (github.com/flant/kube-client/fake) loaded with the initial state — exactly the
// "parse all, then execute, or nothing" sequence of operator.go:667-676.  The dynamic
// client handed to the patcher is wrapped so that (1) every API call is recorded and
// (2) objects cross it as JSON, as they do on the wire to a real API server (the bare
// fake deep-copies the caller's Go values instead).
//
// Second case class (Input.Session): the fake cluster also serves CRD kinds in several API
// groups (Input.Registry, registered in the given order), objects are identified by
// groupVersion|Kind/namespace/name, and the documents form several executions that go one
// after the other through ONE ObjectPatcher against one cluster; after every execution the
// whole cluster is listed.  Model: C13_GModel.v, predicate: C13_GSpec.P_gsession.
package c13

import (
	"bytes"
	"context"
	"encoding/json"
	"fmt"
	"os"
	"path/filepath"
	"runtime/debug"
	"sort"
	"strings"
	"time"

	"github.com/deckhouse/deckhouse/pkg/log"
	"github.com/hashicorp/go-multierror"
	"gopkg.in/yaml.v3"
	metav1 "k8s.io/apimachinery/pkg/apis/meta/v1"
	"k8s.io/apimachinery/pkg/apis/meta/v1/unstructured"
	"k8s.io/apimachinery/pkg/runtime/schema"
	"k8s.io/apimachinery/pkg/types"
	"k8s.io/client-go/dynamic"

	klient "github.com/flant/kube-client/client"
	"github.com/flant/kube-client/fake"
	bctx "github.com/flant/shell-operator/pkg/hook/binding_context"
	"github.com/flant/shell-operator/pkg/hook/task_metadata"
	htypes "github.com/flant/shell-operator/pkg/hook/types"
	objectpatch "github.com/flant/shell-operator/pkg/kube/object_patch"
	kubeeventsmanager "github.com/flant/shell-operator/pkg/kube_events_manager"
	shell_operator "github.com/flant/shell-operator/pkg/shell-operator"
	"github.com/flant/shell-operator/pkg/task"

	"verifharness/internal/core"
)

// ---- input ----

type JP struct {
	Op    string   `json:"op"` // add remove replace
	Path  []string `json:"path"`
	Value any      `json:"value,omitempty"`
}

type JQ struct {
	Kind  string   `json:"kind"` // set del id err
	Path  []string `json:"path,omitempty"`
	Value string   `json:"value,omitempty"`
}

// Doc is one document of the stream.  Bad != "" names the single fault that makes it invalid.
type Doc struct {
	Bad       string         `json:"bad,omitempty"`
	Operation string         `json:"operation"`
	Object    map[string]any `json:"object,omitempty"`
	AsString  string         `json:"asString,omitempty"` // "", "yaml", "json": object / mergePatch / jsonPatch given as a string
	Kind      string         `json:"kind,omitempty"`
	Namespace string         `json:"namespace,omitempty"`
	Name      string         `json:"name,omitempty"`
	NoAPIVer  bool           `json:"noApiVersion,omitempty"`
	// APIVersion is the explicit apiVersion of a delete / patch document ("" = "v1"; not written when NoAPIVer)
	APIVersion string `json:"apiVersion,omitempty"`
	// Exec numbers the execution (patch file) the document belongs to; only sessions use it.
	// Consecutive documents with the same number form one patch file.
	Exec   int            `json:"exec,omitempty"`
	Sub    string         `json:"subresource,omitempty"`
	Ignore bool           `json:"ignoreMissingObject,omitempty"`
	Merge  map[string]any `json:"mergePatch,omitempty"`
	JP     []JP           `json:"jsonPatch,omitempty"`
	JQ     *JQ            `json:"jq,omitempty"`
	// Intf (class Conc): the writes ANOTHER WRITER has ready for the object this document
	// addresses; each mutating request of the operation lets the next one happen first.
	Intf []Write `json:"intf,omitempty"`
}

// Write is one write of the other writer: "set" = read-modify-write .data[Key] = Value of the
// existing object (nothing when it does not exist), "put" = create Object (nothing when it exists).
type Write struct {
	Kind   string         `json:"kind"`
	Key    string         `json:"key,omitempty"`
	Value  string         `json:"value,omitempty"`
	Object map[string]any `json:"object,omitempty"`
}

// Reg registers a kind in a groupVersion on the fake cluster (a CRD).  The order of the
// registrations is the order of the cluster's discovery: the first groupVersion that was
// registered for a kind is its preferred one.
type Reg struct {
	GV   string `json:"gv"`
	Kind string `json:"kind"`
}

type Input struct {
	Initial []map[string]any `json:"initial"`
	Docs    []Doc            `json:"docs"`
	// Session: the second case class.  The cluster serves the kinds of Registry (besides
	// ConfigMap and Secret in v1), objects are identified by groupVersion|Kind/namespace/name,
	// and the documents are split into executions (Doc.Exec) that go one after the other
	// through ONE ObjectPatcher against one cluster.
	Session  bool  `json:"session,omitempty"`
	Registry []Reg `json:"registry,omitempty"`
	// Conc: the third case class.  One execution against an API-server layer in front of the
	// fake cluster that keeps resourceVersions, refuses outdated Updates (409 Conflict) and lets
	// another writer (Doc.Intf) in right before it handles a mutating request of the operator.
	Conc bool `json:"conc,omitempty"`
	// Text: the fourth case class (text.go): the patch file is a text built from the JSON
	// renderings of Docs with white space of its own and a raw fault text somewhere.
	Text *TextIn `json:"text,omitempty"`
	// Operator: "", "json" or "yaml" — additionally run the rendering through the real
	// operator (hook process writes the patch file; ShellOperator.taskHandler handles the run)
	Operator string `json:"operator,omitempty"`
}

// ---- observation ----

type Call struct {
	Verb string `json:"verb"`
	Key  string `json:"key"`
	Sub  string `json:"sub,omitempty"`
}

type ObjOut struct {
	Key string         `json:"key"`
	Obj map[string]any `json:"obj"`
}

type RunObs struct {
	Text     string   `json:"text"`
	ParseOK  bool     `json:"parse_ok"`
	ParseErr string   `json:"parse_err,omitempty"`
	Calls    []Call   `json:"calls"`
	Errors   []string `json:"errors"`
	ErrTexts []string `json:"err_texts,omitempty"`
	Cluster  []ObjOut `json:"cluster"`
	Ops      []string `json:"ops,omitempty"`       // parsed operations, numbers normalised
	OpsTyped []string `json:"ops_typed,omitempty"` // parsed operations with the Go type of every scalar
	Crash    string   `json:"crash,omitempty"`
	// class Conc: per document, how many writes of the other writer happened (nil when nothing was executed)
	Used []int `json:"used,omitempty"`
}

// OpObs is what a whole hook run through the operator's task handler shows.
type OpObs struct {
	Status  string   `json:"status"` // queue.TaskResult.Status
	Calls   []Call   `json:"calls"`
	Cluster []ObjOut `json:"cluster"`
	Crash   string   `json:"crash,omitempty"`
}

type Obs struct {
	JSON      RunObs `json:"json"`
	YAML      RunObs `json:"yaml"`
	Operator  *OpObs `json:"operator,omitempty"`
	SameOps   bool   `json:"same_ops"`
	SameTyped bool   `json:"same_typed_ops"`
	// sessions: one entry per execution
	SJSON     []RunObs `json:"session_json,omitempty"`
	SYAML     []RunObs `json:"session_yaml,omitempty"`
	SOperator []OpObs  `json:"session_operator,omitempty"`
}

// ---- rendering of the stream ----

func pathStr(p []string) string { return "/" + strings.Join(p, "/") }

func jqText(q *JQ) string {
	switch q.Kind {
	case "set":
		return "." + strings.Join(q.Path, ".") + " = " + mustJSON(q.Value)
	case "del":
		return "del(." + strings.Join(q.Path, ".") + ")"
	case "err":
		return `error("boom")`
	}
	return "."
}

func mustJSON(v any) string {
	b, err := json.Marshal(v)
	if err != nil {
		panic(err)
	}
	return string(b)
}

func mustYAML(v any) string {
	b, err := yaml.Marshal(v)
	if err != nil {
		panic(err)
	}
	return string(b)
}

func asText(v any, how string) any {
	switch how {
	case "yaml":
		return mustYAML(v)
	case "json":
		return mustJSON(v)
	}
	return v
}

// specMap is the document as the hook would write it.
func specMap(d Doc) map[string]any {
	m := map[string]any{"operation": d.Operation}
	target := func() {
		if !d.NoAPIVer {
			m["apiVersion"] = "v1"
			if d.APIVersion != "" {
				m["apiVersion"] = d.APIVersion
			}
		}
		m["kind"], m["name"] = d.Kind, d.Name
		if d.Namespace != "" {
			m["namespace"] = d.Namespace
		}
		if d.Sub != "" {
			m["subresource"] = d.Sub
		}
		if d.Ignore {
			m["ignoreMissingObject"] = true
		}
	}
	switch d.Operation {
	case "Create", "CreateOrUpdate", "CreateIfNotExists":
		m["object"] = asText(d.Object, d.AsString)
	case "Delete", "DeleteInBackground", "DeleteNonCascading":
		target()
	case "MergePatch":
		target()
		m["mergePatch"] = asText(d.Merge, d.AsString)
	case "JSONPatch":
		target()
		var items []any
		for _, p := range d.JP {
			items = append(items, map[string]any{"op": p.Op, "path": pathStr(p.Path), "value": p.Value})
		}
		m["jsonPatch"] = asText(items, d.AsString)
	case "JQPatch":
		target()
		m["jqFilter"] = jqText(d.JQ)
	}
	switch d.Bad {
	case "":
	case "unknownOperation":
		m["operation"] = "Bogus"
	case "noOperation":
		delete(m, "operation")
	case "missingObject":
		delete(m, "object")
	case "emptyObject":
		m["object"] = map[string]any{}
	case "objectIsNumber":
		m["object"] = 5
	case "objectIsArray":
		m["object"] = []any{"a"}
	case "missingKind":
		delete(m, "kind")
	case "missingName":
		delete(m, "name")
	case "emptyName":
		m["name"] = ""
	case "missingJqFilter":
		delete(m, "jqFilter")
	case "missingMergePatch":
		delete(m, "mergePatch")
	case "emptyMergePatch":
		m["mergePatch"] = map[string]any{}
	case "mergePatchIsArray":
		m["mergePatch"] = []any{"a"}
	case "missingJsonPatch":
		delete(m, "jsonPatch")
	case "emptyJsonPatch":
		m["jsonPatch"] = []any{}
	case "jsonPatchItemNoPath":
		m["jsonPatch"] = []any{map[string]any{"op": "add", "value": "x"}}
	case "jsonPatchIsObject":
		m["jsonPatch"] = map[string]any{"op": "add", "path": "/data/x", "value": "x"}
	}
	return m
}

// FaultsFor lists the single faults applicable to an operation.
func FaultsFor(op string) []string {
	f := []string{"unknownOperation", "noOperation", "syntax"}
	switch op {
	case "Create", "CreateOrUpdate", "CreateIfNotExists":
		f = append(f, "missingObject", "emptyObject", "objectIsNumber", "objectIsArray")
	case "Delete", "DeleteInBackground", "DeleteNonCascading":
		f = append(f, "missingKind", "missingName", "emptyName")
	case "MergePatch":
		f = append(f, "missingKind", "missingName", "missingMergePatch", "emptyMergePatch", "mergePatchIsArray")
	case "JSONPatch":
		f = append(f, "missingKind", "missingName", "missingJsonPatch", "emptyJsonPatch", "jsonPatchItemNoPath", "jsonPatchIsObject")
	case "JQPatch":
		f = append(f, "missingKind", "missingName", "missingJqFilter")
	}
	return f
}

func RenderJSON(docs []Doc) string {
	var b strings.Builder
	for _, d := range docs {
		if d.Bad == "syntax" {
			b.WriteString(`{"operation": "Create", "object": {"kind": ` + "\n")
			continue
		}
		b.WriteString(mustJSON(specMap(d)))
		b.WriteString("\n")
	}
	return b.String()
}

func RenderYAML(docs []Doc) string {
	var b strings.Builder
	for _, d := range docs {
		b.WriteString("---\n")
		if d.Bad == "syntax" {
			b.WriteString("operation: Create\nobject: [unclosed\n")
			continue
		}
		b.WriteString(mustYAML(specMap(d)))
	}
	return b.String()
}

// ---- the cluster ----

var kindOfResource = map[string]string{"configmaps": "ConfigMap", "secrets": "Secret", "widgets": "Widget", "gadgets": "Gadget"}

func objKey(kind, ns, name string) string { return kind + "/" + ns + "/" + name }

// gKey is the object key of the session class: the groupVersion is part of the identity.
func gKey(gv, kind, ns, name string) string { return gv + "|" + objKey(kind, ns, name) }

// wire: the dynamic client the patcher sees.  Objects are passed as JSON (as on the
// wire) and calls are recorded.
type wireClient struct {
	*klient.Client
	dyn dynamic.Interface
}

func (w *wireClient) Dynamic() dynamic.Interface { return w.dyn }

// GroupVersionResource is the client's own.  The FAKE client has no discovery cache: where
// the real client invalidates its cache and then reports "... is not supported by cluster"
// (client.go APIResourceList / APIResource), the fake dereferences the nil cache.  That nil
// dereference, and nothing else, is turned into the error the real client returns.
func (w *wireClient) GroupVersionResource(apiVersion, kind string) (gvr schema.GroupVersionResource, err error) {
	defer func() {
		if r := recover(); r != nil {
			gvr = schema.GroupVersionResource{}
			err = fmt.Errorf("apiVersion '%s', kind '%s' is not supported by cluster: not found", apiVersion, kind)
		}
	}()
	return w.Client.GroupVersionResource(apiVersion, kind)
}

type wireDyn struct {
	under  dynamic.Interface
	rec    *[]Call
	withGV bool // session class: recorded keys carry the groupVersion the call went to
}

func (w wireDyn) Resource(gvr schema.GroupVersionResource) dynamic.NamespaceableResourceInterface {
	u := w.under.Resource(gvr)
	kind := kindOfResource[gvr.Resource]
	if w.withGV {
		kind = gvr.GroupVersion().String() + "|" + kind
	}
	return wireRes{ResourceInterface: u, under: u, rec: w.rec, kind: kind}
}

type wireRes struct {
	dynamic.ResourceInterface
	under dynamic.NamespaceableResourceInterface
	rec   *[]Call
	kind  string
	ns    string
}

func (r wireRes) Namespace(ns string) dynamic.ResourceInterface {
	return wireRes{ResourceInterface: r.under.Namespace(ns), under: r.under, rec: r.rec, kind: r.kind, ns: ns}
}

func (r wireRes) record(verb, name string, subs []string) {
	*r.rec = append(*r.rec, Call{Verb: verb, Key: objKey(r.kind, r.ns, name), Sub: strings.Join(subs, ",")})
}

func overWire(obj *unstructured.Unstructured) (*unstructured.Unstructured, error) {
	b, err := obj.MarshalJSON()
	if err != nil {
		return nil, err
	}
	out := &unstructured.Unstructured{}
	if err := out.UnmarshalJSON(b); err != nil {
		return nil, err
	}
	return out, nil
}

func (r wireRes) Create(ctx context.Context, obj *unstructured.Unstructured, o metav1.CreateOptions, subs ...string) (*unstructured.Unstructured, error) {
	r.record("create", obj.GetName(), subs)
	w, err := overWire(obj)
	if err != nil {
		return nil, err
	}
	return r.ResourceInterface.Create(ctx, w, o, subs...)
}

func (r wireRes) Update(ctx context.Context, obj *unstructured.Unstructured, o metav1.UpdateOptions, subs ...string) (*unstructured.Unstructured, error) {
	r.record("update", obj.GetName(), subs)
	w, err := overWire(obj)
	if err != nil {
		return nil, err
	}
	return r.ResourceInterface.Update(ctx, w, o, subs...)
}

func (r wireRes) Get(ctx context.Context, name string, o metav1.GetOptions, subs ...string) (*unstructured.Unstructured, error) {
	r.record("get", name, subs)
	return r.ResourceInterface.Get(ctx, name, o, subs...)
}

func (r wireRes) Patch(ctx context.Context, name string, pt types.PatchType, data []byte, o metav1.PatchOptions, subs ...string) (*unstructured.Unstructured, error) {
	r.record("patch", name, subs)
	return r.ResourceInterface.Patch(ctx, name, pt, data, o, subs...)
}

func (r wireRes) Delete(ctx context.Context, name string, o metav1.DeleteOptions, subs ...string) error {
	r.record("delete", name, subs)
	return r.ResourceInterface.Delete(ctx, name, o, subs...)
}

var namespaces = []string{"default", "ns2"}
var kinds = []string{"ConfigMap", "Secret"}

func newCluster(initial []map[string]any, registry ...Reg) (*fake.Cluster, error) {
	c := fake.NewFakeCluster(fake.ClusterVersionV119)
	for _, ns := range namespaces {
		c.CreateNs(ns)
	}
	for _, r := range registry {
		gv, err := schema.ParseGroupVersion(r.GV)
		if err != nil {
			return nil, err
		}
		c.RegisterCRD(gv.Group, gv.Version, r.Kind, true)
	}
	for _, o := range initial {
		u, err := overWire(&unstructured.Unstructured{Object: o})
		if err != nil {
			return nil, err
		}
		gvr, err := c.Client.GroupVersionResource(u.GetAPIVersion(), u.GetKind())
		if err != nil {
			return nil, err
		}
		if _, err := c.Client.Dynamic().Resource(gvr).Namespace(u.GetNamespace()).Create(context.TODO(), u, metav1.CreateOptions{}); err != nil {
			return nil, err
		}
	}
	return c, nil
}

// Project keeps what the property observes of an object.
func Project(o map[string]any) map[string]any {
	out := map[string]any{}
	if d, ok := o["data"]; ok {
		out["data"] = d
	}
	if md, ok := o["metadata"].(map[string]any); ok {
		pm := map[string]any{}
		for _, k := range []string{"name", "namespace", "labels", "annotations"} {
			if v, ok := md[k]; ok {
				pm[k] = v
			}
		}
		out["metadata"] = pm
	}
	return out
}

func dumpCluster(c *fake.Cluster, registry ...Reg) ([]ObjOut, error) {
	if registry != nil {
		return dumpSessionCluster(c, registry)
	}
	var out []ObjOut
	for _, kind := range kinds {
		gvr, err := c.Client.GroupVersionResource("v1", kind)
		if err != nil {
			return nil, err
		}
		l, err := c.Client.Dynamic().Resource(gvr).Namespace("").List(context.TODO(), metav1.ListOptions{})
		if err != nil {
			return nil, err
		}
		for _, it := range l.Items {
			// through JSON: plain maps, integers as json.Number-free float64/int64
			var m map[string]any
			b, _ := it.MarshalJSON()
			dec := json.NewDecoder(bytes.NewReader(b))
			dec.UseNumber()
			if err := dec.Decode(&m); err != nil {
				return nil, err
			}
			out = append(out, ObjOut{Key: objKey(kind, it.GetNamespace(), it.GetName()), Obj: Project(m)})
		}
	}
	sort.Slice(out, func(i, j int) bool { return out[i].Key < out[j].Key })
	return out, nil
}

// dumpSessionCluster lists every resource of the session class: ConfigMap and Secret in v1
// and every registered (groupVersion, kind); keys carry the groupVersion that HOLDS the object.
func dumpSessionCluster(c *fake.Cluster, registry []Reg) ([]ObjOut, error) {
	all := append([]Reg{{GV: "v1", Kind: "ConfigMap"}, {GV: "v1", Kind: "Secret"}}, registry...)
	seen := map[Reg]bool{}
	var out []ObjOut
	for _, r := range all {
		if seen[r] {
			continue
		}
		seen[r] = true
		gvr, err := c.Client.GroupVersionResource(r.GV, r.Kind)
		if err != nil {
			return nil, err
		}
		l, err := c.Client.Dynamic().Resource(gvr).Namespace("").List(context.TODO(), metav1.ListOptions{})
		if err != nil {
			return nil, err
		}
		for _, it := range l.Items {
			var m map[string]any
			b, _ := it.MarshalJSON()
			dec := json.NewDecoder(bytes.NewReader(b))
			dec.UseNumber()
			if err := dec.Decode(&m); err != nil {
				return nil, err
			}
			out = append(out, ObjOut{Key: gKey(r.GV, r.Kind, it.GetNamespace(), it.GetName()), Obj: Project(m)})
		}
	}
	sort.Slice(out, func(i, j int) bool { return out[i].Key < out[j].Key })
	return out, nil
}

func classify(err error) string {
	s := err.Error()
	switch {
	case strings.Contains(s, "already exists"):
		return "AlreadyExists"
	case strings.Contains(s, "the object has been modified"):
		return "Conflict"
	case strings.Contains(s, "failed to apply jqFilter"):
		return "JqFailed"
	case strings.Contains(s, "is not supported by cluster"):
		return "NotServed"
	case strings.Contains(s, "not found"):
		return "NotFound"
	case strings.Contains(s, "error in ") || strings.Contains(s, "operation does not apply") || strings.Contains(s, "doc is missing"):
		return "PatchFailed"
	}
	return "Other"
}

// execFile: the sequence of operator.go:667-676 on one patch file: ParseOperations; on an
// error stop; ExecuteOperations.  [calls] is the recorder of the patcher's client.
func execFile(patcher *objectpatch.ObjectPatcher, text string, calls *[]Call, ro *RunObs) {
	ro.Text = text
	from := len(*calls)
	operations, err := objectpatch.ParseOperations([]byte(text))
	if err != nil {
		ro.ParseErr = err.Error()
		if len(ro.ParseErr) > 400 {
			ro.ParseErr = ro.ParseErr[:400]
		}
	} else {
		ro.ParseOK = true
		for _, op := range operations {
			d := objectpatch.VerifDescribeOperation(op)
			nb, _ := json.Marshal(d)
			ro.Ops = append(ro.Ops, string(nb))
			for _, k := range []string{"object", "patch"} {
				if v, ok := d[k]; ok {
					d[k] = objectpatch.VerifTypedDump(v)
				}
			}
			tb, _ := json.Marshal(d)
			ro.OpsTyped = append(ro.OpsTyped, string(tb))
		}
		err = patcher.ExecuteOperations(operations)
		if err != nil {
			if me, ok := err.(*multierror.Error); ok {
				for _, e := range me.Errors {
					ro.Errors = append(ro.Errors, classify(e))
					t := e.Error()
					if len(t) > 200 {
						t = t[:200]
					}
					ro.ErrTexts = append(ro.ErrTexts, t)
				}
			} else {
				ro.Errors = append(ro.Errors, "Other")
				ro.ErrTexts = append(ro.ErrTexts, err.Error())
			}
		}
	}
	ro.Calls = append([]Call(nil), (*calls)[from:]...)
}

func crashText(r any) string {
	st := string(debug.Stack())
	if len(st) > 7000 {
		st = st[:7000]
	}
	return fmt.Sprintf("panic: %v\n%s", r, st)
}

// runOne: one execution against a fresh cluster and a fresh ObjectPatcher.
func runOne(initial []map[string]any, text string) (ro RunObs) {
	ro.Text = text
	defer func() {
		if r := recover(); r != nil {
			ro.Crash = crashText(r)
		}
	}()
	cluster, err := newCluster(initial)
	if err != nil {
		ro.Crash = "harness: cannot build the initial cluster: " + err.Error()
		return ro
	}
	var calls []Call
	client := &wireClient{Client: cluster.Client, dyn: wireDyn{under: cluster.Client.Dynamic(), rec: &calls}}
	patcher := objectpatch.NewObjectPatcher(client, log.NewNop())
	execFile(patcher, text, &calls, &ro)
	ro.Cluster, err = dumpCluster(cluster)
	if err != nil {
		ro.Crash = "harness: cannot list the cluster: " + err.Error()
	}
	return ro
}

// splitExecs groups consecutive documents with the same Exec number into patch files.
func splitExecs(docs []Doc) [][]Doc {
	var files [][]Doc
	for i, d := range docs {
		if i == 0 || d.Exec != docs[i-1].Exec {
			files = append(files, nil)
		}
		files[len(files)-1] = append(files[len(files)-1], d)
	}
	return files
}

func registryOrEmpty(in Input) []Reg {
	if in.Registry == nil {
		return []Reg{}
	}
	return in.Registry
}

// runSession: every execution of the session, in order, through ONE ObjectPatcher against
// ONE cluster (the operator builds its ObjectPatcher once and hands every hook run's patch
// file to it).  After each execution the whole cluster is listed.
func runSession(in Input, render func([]Doc) string) (out []RunObs) {
	files := splitExecs(in.Docs)
	defer func() {
		if r := recover(); r != nil {
			out = append(out, RunObs{Crash: crashText(r)})
		}
	}()
	reg := registryOrEmpty(in)
	cluster, err := newCluster(in.Initial, reg...)
	if err != nil {
		return []RunObs{{Crash: "harness: cannot build the initial cluster: " + err.Error()}}
	}
	var calls []Call
	client := &wireClient{Client: cluster.Client, dyn: wireDyn{under: cluster.Client.Dynamic(), rec: &calls, withGV: true}}
	patcher := objectpatch.NewObjectPatcher(client, log.NewNop())
	for _, f := range files {
		var ro RunObs
		func() {
			defer func() {
				if r := recover(); r != nil {
					ro.Crash = crashText(r)
				}
			}()
			execFile(patcher, render(f), &calls, &ro)
		}()
		if ro.Crash == "" {
			ro.Cluster, err = dumpCluster(cluster, reg...)
			if err != nil {
				ro.Crash = "harness: cannot list the cluster: " + err.Error()
			}
		}
		out = append(out, ro)
		if ro.Crash != "" {
			break
		}
	}
	return out
}

func sameStrings(a, b []string) bool {
	if len(a) != len(b) {
		return false
	}
	for i := range a {
		if a[i] != b[i] {
			return false
		}
	}
	return true
}

func sameSession(a, b []RunObs, typed bool) bool {
	if len(a) != len(b) {
		return false
	}
	for i := range a {
		if a[i].ParseOK != b[i].ParseOK {
			return false
		}
		if typed && !sameStrings(a[i].OpsTyped, b[i].OpsTyped) || !typed && !sameStrings(a[i].Ops, b[i].Ops) {
			return false
		}
	}
	return true
}

func Run(in Input) Obs {
	var o Obs
	if in.Text != nil {
		return runText(in)
	}
	if in.Session {
		o.SJSON = runSession(in, RenderJSON)
		o.SYAML = runSession(in, RenderYAML)
		o.SameOps = sameSession(o.SJSON, o.SYAML, false)
		o.SameTyped = sameSession(o.SJSON, o.SYAML, true)
		switch in.Operator {
		case "json":
			o.SOperator = runOperatorSession(in, RenderJSON)
		case "yaml":
			o.SOperator = runOperatorSession(in, RenderYAML)
		}
		return o
	}
	if in.Conc {
		o.JSON = runConc(in, RenderJSON(in.Docs))
		o.YAML = runConc(in, RenderYAML(in.Docs))
		o.SameOps = o.JSON.ParseOK == o.YAML.ParseOK && sameStrings(o.JSON.Ops, o.YAML.Ops)
		o.SameTyped = o.JSON.ParseOK == o.YAML.ParseOK && sameStrings(o.JSON.OpsTyped, o.YAML.OpsTyped)
		return o
	}
	o.JSON = runOne(in.Initial, RenderJSON(in.Docs))
	o.YAML = runOne(in.Initial, RenderYAML(in.Docs))
	o.SameOps = o.JSON.ParseOK == o.YAML.ParseOK && sameStrings(o.JSON.Ops, o.YAML.Ops)
	o.SameTyped = o.JSON.ParseOK == o.YAML.ParseOK && sameStrings(o.JSON.OpsTyped, o.YAML.OpsTyped)
	switch in.Operator {
	case "json":
		op := runOperator(in.Initial, o.JSON.Text)
		o.Operator = &op
	case "yaml":
		op := runOperator(in.Initial, o.YAML.Text)
		o.Operator = &op
	}
	return o
}

func tmpBase() string {
	if wd, err := os.Getwd(); err == nil {
		d := filepath.Join(wd, ".build", "tmp")
		if os.MkdirAll(d, 0o755) == nil {
			return d
		}
	}
	return os.TempDir()
}

const hookScript = `#!/bin/bash
if [[ "${1:-}" == "--config" ]]; then
  echo '{"onStartup": 1}'
  exit 0
fi
cat "$VERIF_C13_PATCH" > "$KUBERNETES_PATCH_PATH"
`

// runOperator: the real path of a hook run.  A bash hook copies the stream to
// $KUBERNETES_PATCH_PATH; the operator (assembled around the fake cluster, its
// ObjectPatcher given the recording client) handles a HookRun task with its own
// taskHandler -> handleRunHook (operator.go:647-676).
func runOperator(initial []map[string]any, text string) OpObs {
	return runOperatorTexts(initial, nil, []string{text})[0]
}

func runOperatorSession(in Input, render func([]Doc) string) []OpObs {
	var texts []string
	for _, f := range splitExecs(in.Docs) {
		texts = append(texts, render(f))
	}
	return runOperatorTexts(in.Initial, registryOrEmpty(in), texts)
}

// runOperatorTexts: one operator, one hook run per text (registry == nil: first case class).
func runOperatorTexts(initial []map[string]any, registry []Reg, texts []string) (out []OpObs) {
	fail := func(msg string) []OpObs { return append(out, OpObs{Crash: msg}) }
	defer func() {
		if r := recover(); r != nil {
			st := string(debug.Stack())
			if len(st) > 5000 {
				st = st[:5000]
			}
			out = append(out, OpObs{Crash: fmt.Sprintf("panic: %v\n%s", r, st)})
		}
	}()
	dir, err := os.MkdirTemp(tmpBase(), "c13-")
	if err != nil {
		return fail("harness: " + err.Error())
	}
	defer os.RemoveAll(dir)
	hooksDir, tmpDir := filepath.Join(dir, "hooks"), filepath.Join(dir, "tmp")
	for _, d := range []string{hooksDir, tmpDir} {
		if err := os.MkdirAll(d, 0o755); err != nil {
			return fail("harness: " + err.Error())
		}
	}
	patchFile := filepath.Join(dir, "patch.txt")
	if err := os.WriteFile(filepath.Join(hooksDir, "hook.sh"), []byte(hookScript), 0o755); err != nil {
		return fail("harness: " + err.Error())
	}
	os.Setenv("VERIF_C13_PATCH", patchFile)
	cluster, err := newCluster(initial, registry...)
	if err != nil {
		return fail("harness: cannot build the initial cluster: " + err.Error())
	}
	kubeeventsmanager.DefaultFactoryStore.Reset()
	ctx, cancel := context.WithCancel(context.Background())
	defer cancel()
	op, err := shell_operator.VerifAssemble(ctx, cluster.Client, hooksDir, tmpDir, log.NewNop())
	if err != nil {
		return fail("harness: cannot assemble the operator: " + err.Error())
	}
	var calls []Call
	// as the operator does: ONE ObjectPatcher for every hook run
	op.ObjectPatcher = objectpatch.NewObjectPatcher(&wireClient{Client: cluster.Client,
		dyn: wireDyn{under: cluster.Client.Dynamic(), rec: &calls, withGV: registry != nil}}, log.NewNop())
	for _, text := range texts {
		var oo OpObs
		if err := os.WriteFile(patchFile, []byte(text), 0o644); err != nil {
			return fail("harness: " + err.Error())
		}
		from := len(calls)
		t := task.NewTask(task_metadata.HookRun).WithQueueName("main").WithMetadata(task_metadata.HookMetadata{
			HookName: "hook.sh", BindingType: htypes.OnStartup, Binding: string(htypes.OnStartup),
			BindingContext: []bctx.BindingContext{{Binding: string(htypes.OnStartup)}},
		})
		res := op.VerifTaskHandler(t)
		oo.Status = string(res.Status)
		oo.Calls = append([]Call(nil), calls[from:]...)
		oo.Cluster, err = dumpCluster(cluster, registry...)
		if err != nil {
			oo.Crash = "harness: cannot list the cluster: " + err.Error()
		}
		out = append(out, oo)
	}
	return out
}

// ---- rendering for Coq ----

func coqKey(k string) string { return core.CoqBytes(k) }

func coqPath(p []string) string { return core.CoqList(p, core.CoqBytes) }

func coqCluster(objs []ObjOut) string {
	return core.CoqList(objs, func(o ObjOut) string { return fmt.Sprintf("(%s, %s)", coqKey(o.Key), core.CoqJSON(o.Obj)) })
}

func keyOfObject(o map[string]any) string {
	kind, _ := o["kind"].(string)
	ns, name := "", ""
	if md, ok := o["metadata"].(map[string]any); ok {
		ns, _ = md["namespace"].(string)
		name, _ = md["name"].(string)
	}
	return objKey(kind, ns, name)
}

var coqCreateMode = map[string]string{"Create": "CPlain", "CreateOrUpdate": "COrUpdate", "CreateIfNotExists": "CIfNotExists"}
var coqDelMode = map[string]string{"Delete": "DForeground", "DeleteInBackground": "DBackground", "DeleteNonCascading": "DNonCascading"}

// coqPatchBody: the patch of a MergePatch / JSONPatch / JQPatch document as a C13_Model.patch_body ("" otherwise)
func coqPatchBody(d Doc) string {
	switch d.Operation {
	case "MergePatch":
		return "PMerge " + core.CoqJSON(d.Merge)
	case "JSONPatch":
		return "PJson " + core.CoqList(d.JP, func(p JP) string {
			switch p.Op {
			case "add":
				return fmt.Sprintf("JPAdd %s %s", coqPath(p.Path), core.CoqJSON(p.Value))
			case "replace":
				return fmt.Sprintf("JPReplace %s %s", coqPath(p.Path), core.CoqJSON(p.Value))
			}
			return "JPRemove " + coqPath(p.Path)
		})
	case "JQPatch":
		switch d.JQ.Kind {
		case "set":
			return fmt.Sprintf("PJq (JQSet %s (JStr %s))", coqPath(d.JQ.Path), core.CoqBytes(d.JQ.Value))
		case "del":
			return "PJq (JQDel " + coqPath(d.JQ.Path) + ")"
		case "err":
			return "PJq JQErr"
		}
		return "PJq JQId"
	}
	return ""
}

func coqDoc(d Doc) string {
	if d.Bad != "" {
		return "DBad"
	}
	key := coqKey(objKey(d.Kind, d.Namespace, d.Name))
	if m := coqCreateMode[d.Operation]; m != "" {
		return "DOp (OCreate " + m + " " + core.CoqJSON(d.Object) + ")"
	}
	if m := coqDelMode[d.Operation]; m != "" {
		return "DOp (ODelete " + m + " " + key + ")"
	}
	if body := coqPatchBody(d); body != "" {
		return fmt.Sprintf("DOp (OPatch %s (%s) %s %s)", key, body, core.CoqBytes(d.Sub), core.CoqBool(d.Ignore))
	}
	return "DBad"
}

func coqCall(c Call) string {
	return fmt.Sprintf("(V%s, %s, %s)", strings.Title(c.Verb), coqKey(c.Key), core.CoqBytes(c.Sub))
}

func coqRun(r RunObs) string {
	return fmt.Sprintf("mkRun %s %s %s\n     %s %s", core.CoqBool(r.ParseOK),
		core.CoqList(r.Calls, coqCall),
		core.CoqList(r.Errors, func(e string) string { return "E" + e }),
		coqCluster(r.Cluster), core.CoqBool(r.Crash != ""))
}

// ---- rendering of the session class ----

func docAPI(d Doc) string {
	if d.NoAPIVer {
		return ""
	}
	if d.APIVersion != "" {
		return d.APIVersion
	}
	return "v1"
}

func coqAddr(d Doc) string {
	return fmt.Sprintf("(mkAddr %s %s %s %s)", core.CoqBytes(docAPI(d)), core.CoqBytes(d.Kind), core.CoqBytes(d.Namespace), core.CoqBytes(d.Name))
}

// coqGDoc: the document as a C13_GModel.gdoc.
func coqGDoc(d Doc) string {
	if d.Bad != "" {
		return "GDBad"
	}
	if m := coqCreateMode[d.Operation]; m != "" {
		return "GDOp (GCreate " + m + " " + core.CoqJSON(d.Object) + ")"
	}
	if m := coqDelMode[d.Operation]; m != "" {
		return "GDOp (GDelete " + m + " " + coqAddr(d) + ")"
	}
	if body := coqPatchBody(d); body != "" {
		return fmt.Sprintf("GDOp (GPatch %s (%s) %s %s)", coqAddr(d), body, core.CoqBytes(d.Sub), core.CoqBool(d.Ignore))
	}
	return "GDBad"
}

// Discovery is the cluster's discovery as far as the kinds of the session class go: v1 with
// ConfigMap and Secret, then the registered groupVersions in the order of their first
// registration (fake.Cluster.RegisterCRD appends a kind to the resource list of its
// groupVersion, or a new resource list at the end).
func Discovery(registry []Reg) [][2]any {
	type list struct {
		gv    string
		kinds []string
	}
	lists := []*list{{gv: "v1", kinds: []string{"ConfigMap", "Secret"}}}
	for _, r := range registry {
		var l *list
		for _, x := range lists {
			if x.gv == r.GV {
				l = x
			}
		}
		if l == nil {
			l = &list{gv: r.GV}
			lists = append(lists, l)
		}
		dup := false
		for _, k := range l.kinds {
			dup = dup || k == r.Kind
		}
		if !dup {
			l.kinds = append(l.kinds, r.Kind)
		}
	}
	var out [][2]any
	for _, l := range lists {
		out = append(out, [2]any{l.gv, l.kinds})
	}
	return out
}

func coqDiscovery(registry []Reg) string {
	return core.CoqList(Discovery(registry), func(l [2]any) string {
		return fmt.Sprintf("(%s, %s)", core.CoqBytes(l[0].(string)), core.CoqList(l[1].([]string), core.CoqBytes))
	})
}

func gKeyOfObject(o map[string]any) string {
	av, _ := o["apiVersion"].(string)
	return av + "|" + keyOfObject(o)
}

// servedIn: the groupVersions that serve the kind, in discovery order.
func servedIn(registry []Reg, kind string) []string {
	var out []string
	for _, l := range Discovery(registry) {
		for _, k := range l[1].([]string) {
			if k == kind {
				out = append(out, l[0].(string))
			}
		}
	}
	return out
}

func renderSession(in Input, obs *Obs, crash string) core.Case {
	var o Obs
	if obs != nil {
		o = *obs
	} else {
		o.SJSON, o.SYAML = []RunObs{{Crash: "child: " + crash}}, []RunObs{{Crash: "child: " + crash}}
	}
	var init []ObjOut
	for _, ob := range in.Initial {
		init = append(init, ObjOut{Key: gKeyOfObject(ob), Obj: ob})
	}
	sort.Slice(init, func(i, j int) bool { return init[i].Key < init[j].Key })
	files := splitExecs(in.Docs)
	c := core.Case{}
	opr := "None"
	if o.SOperator != nil {
		opr = "(Some " + core.CoqList(o.SOperator, func(x OpObs) string {
			st := map[string]string{"Success": "OSuccess", "Fail": "OFail"}[x.Status]
			if st == "" || x.Crash != "" {
				st = "OOther"
			}
			return fmt.Sprintf("(mkOpRun %s %s\n     %s)", st, core.CoqList(x.Calls, coqCall), coqCluster(x.Cluster))
		}) + ")"
		c.Tags = append(c.Tags, "operator-run:"+in.Operator)
	}
	runs := func(rs []RunObs) string {
		return core.CoqList(rs, func(r RunObs) string { return "(" + coqRun(r) + ")" })
	}
	c.Coq = fmt.Sprintf("KSession (mkSession %s\n   %s\n   %s\n   %s\n   %s\n   %s %s\n   %s)", coqDiscovery(in.Registry), coqCluster(init),
		core.CoqList(files, func(f []Doc) string { return core.CoqList(f, coqGDoc) }),
		runs(o.SJSON), runs(o.SYAML), core.CoqBool(o.SameOps), core.CoqBool(o.SameTyped), opr)
	c.JSON = o
	kb, _ := json.Marshal(in)
	c.Key = string(kb)
	c.Tags = append(c.Tags, "class:session", fmt.Sprintf("executions:%d", len(files)), fmt.Sprintf("docs:%d", len(in.Docs)),
		fmt.Sprintf("initial:%d", len(in.Initial)))
	// how the documents spell the apiVersion of the kinds they address
	spellings := map[string]map[string]bool{}
	bad := 0
	for _, d := range in.Docs {
		if d.Bad != "" {
			bad++
			c.Tags = append(c.Tags, "fault:"+d.Bad)
			continue
		}
		c.Tags = append(c.Tags, "op:"+d.Operation)
		kind, api := d.Kind, docAPI(d)
		if d.Object != nil {
			kind, _ = d.Object["kind"].(string)
			api, _ = d.Object["apiVersion"].(string)
		}
		served := servedIn(in.Registry, kind)
		if len(served) >= 2 {
			c.Tags = append(c.Tags, "kind-in-several-groups")
		}
		switch {
		case api == "":
			c.Tags = append(c.Tags, "apiVersion:omitted")
		case len(served) > 0 && api == served[0]:
			c.Tags = append(c.Tags, "apiVersion:explicit-preferred")
		default:
			isServed := false
			for _, g := range served {
				isServed = isServed || g == api
			}
			if isServed {
				c.Tags = append(c.Tags, "apiVersion:explicit-not-preferred")
			} else {
				c.Tags = append(c.Tags, "apiVersion:not-served")
			}
		}
		if spellings[kind] == nil {
			spellings[kind] = map[string]bool{}
		}
		spellings[kind][api] = true
	}
	for _, sp := range spellings {
		if len(sp) >= 2 {
			c.Tags = append(c.Tags, "one-kind-differing-apiVersions")
			break
		}
	}
	// the same kind/namespace/name present in two groups at the start
	byName := map[string]int{}
	for _, ob := range in.Initial {
		byName[keyOfObject(ob)]++
	}
	for _, n := range byName {
		if n >= 2 {
			c.Tags = append(c.Tags, "namesakes-in-two-groups")
			break
		}
	}
	if len(o.SJSON) > 0 {
		for _, r := range o.SJSON {
			for _, e := range r.Errors {
				c.Tags = append(c.Tags, "apply-error:"+e)
			}
			if r.Crash != "" {
				c.Tags = append(c.Tags, "crash")
			}
		}
	}
	if bad > 0 {
		c.Tags = append(c.Tags, "stream:invalid")
	} else {
		c.Tags = append(c.Tags, "stream:valid")
	}
	c.Nontrivial = len(in.Docs) >= 2
	return c
}

func Render(in Input, obs *Obs, crash string) core.Case {
	if in.Text != nil {
		return renderText(in, obs, crash)
	}
	if in.Session {
		return renderSession(in, obs, crash)
	}
	if in.Conc {
		return renderConc(in, obs, crash)
	}
	var o Obs
	if obs != nil {
		o = *obs
	} else {
		o.JSON.Crash, o.YAML.Crash = "child: "+crash, "child: "+crash
	}
	var init []ObjOut
	for _, ob := range in.Initial {
		init = append(init, ObjOut{Key: keyOfObject(ob), Obj: ob})
	}
	sort.Slice(init, func(i, j int) bool { return init[i].Key < init[j].Key })
	c := core.Case{}
	opr := "None"
	if o.Operator != nil {
		st := map[string]string{"Success": "OSuccess", "Fail": "OFail"}[o.Operator.Status]
		if st == "" || o.Operator.Crash != "" {
			st = "OOther"
		}
		opr = fmt.Sprintf("(Some (mkOpRun %s %s\n     %s))", st, core.CoqList(o.Operator.Calls, coqCall), coqCluster(o.Operator.Cluster))
		c.Tags = append(c.Tags, "operator-run:"+in.Operator, "operator-status:"+o.Operator.Status)
	}
	c.Coq = fmt.Sprintf("KRun (mkCase %s\n   %s\n   (%s)\n   (%s)\n   %s %s\n   %s)", coqCluster(init), core.CoqList(in.Docs, coqDoc),
		coqRun(o.JSON), coqRun(o.YAML), core.CoqBool(o.SameOps), core.CoqBool(o.SameTyped), opr)
	c.JSON = o
	kb, _ := json.Marshal(in)
	c.Key = string(kb)
	bad := 0
	for i, d := range in.Docs {
		if d.Bad != "" {
			bad++
			c.Tags = append(c.Tags, "fault:"+d.Bad, fmt.Sprintf("fault-at:%d", i))
		} else {
			c.Tags = append(c.Tags, "op:"+d.Operation)
			if d.AsString != "" {
				c.Tags = append(c.Tags, "as-string:"+d.AsString)
			}
			if d.Sub != "" {
				c.Tags = append(c.Tags, "subresource")
			}
			if d.Ignore {
				c.Tags = append(c.Tags, "ignoreMissingObject")
			}
			if d.JQ != nil {
				c.Tags = append(c.Tags, "jq:"+d.JQ.Kind)
			}
		}
	}
	c.Tags = append(c.Tags, fmt.Sprintf("docs:%d", len(in.Docs)), fmt.Sprintf("initial:%d", len(in.Initial)))
	for _, e := range o.JSON.Errors {
		c.Tags = append(c.Tags, "apply-error:"+e)
	}
	if bad > 0 {
		c.Tags = append(c.Tags, "stream:invalid")
	} else {
		c.Tags = append(c.Tags, "stream:valid")
	}
	if o.JSON.Crash != "" || o.YAML.Crash != "" {
		c.Tags = append(c.Tags, "crash")
	}
	if yamlHasInt(in) {
		c.Tags = append(c.Tags, "yaml-integer-in-object")
	}
	// non-trivial: at least two documents, or one document against a non-empty cluster
	c.Nontrivial = len(in.Docs) >= 2 || (len(in.Docs) == 1 && len(in.Initial) > 0)
	return c
}

func hasInt(v any) bool {
	switch x := v.(type) {
	case map[string]any:
		for _, e := range x {
			if hasInt(e) {
				return true
			}
		}
	case []any:
		for _, e := range x {
			if hasInt(e) {
				return true
			}
		}
	case float64, int, int64, json.Number:
		return true
	}
	return false
}

// yamlHasInt: a YAML-rendered stream contains an integer inside an inline object or patch
func yamlHasInt(in Input) bool {
	for _, d := range in.Docs {
		if d.Bad != "" || d.AsString != "" {
			continue
		}
		if hasInt(d.Object) || hasInt(d.Merge) {
			return true
		}
		for _, p := range d.JP {
			if hasInt(p.Value) {
				return true
			}
		}
	}
	return false
}

// ---- generation ----

var names = []string{"cm1", "cm2", "cm3"}
var dataKeys = []string{"a", "b", "k1", "foo"}
var labelKeys = []string{"app", "tier", "x"}
var values = []string{"1", "bar", "true", "v2", "", "y", "007", "null", "a b", "x: y"}

type gen struct{ r *core.Rng }

func (g *gen) pick(xs []string) string { return xs[g.r.Intn(len(xs))] }

func (g *gen) strMap(keys []string, pct int) map[string]any {
	m := map[string]any{}
	for _, k := range keys {
		if g.r.Chance(pct) {
			m[k] = g.pick(values)
		}
	}
	return m
}

func (g *gen) object(kind, ns, name string, intPct int) map[string]any {
	md := map[string]any{"name": name, "namespace": ns}
	if g.r.Chance(50) {
		md["labels"] = g.strMap(labelKeys, 50)
	}
	if g.r.Chance(25) {
		md["annotations"] = g.strMap(labelKeys, 50)
	}
	o := map[string]any{"apiVersion": "v1", "kind": kind, "metadata": md}
	if g.r.Chance(85) {
		d := g.strMap(dataKeys, 50)
		if g.r.Chance(intPct) {
			d["n"] = float64(g.r.Intn(100))
		}
		o["data"] = d
	}
	return o
}

func (g *gen) target(present []string, presentPct int) (string, string, string) {
	if len(present) > 0 && g.r.Chance(presentPct) {
		p := strings.SplitN(present[g.r.Intn(len(present))], "/", 3)
		return p[0], p[1], p[2]
	}
	return g.pick(kinds), g.pick(namespaces), g.pick(names)
}

func (g *gen) mergePatch() map[string]any {
	side := func(keys []string) map[string]any {
		m := map[string]any{}
		for _, k := range keys {
			switch g.r.Intn(5) {
			case 0:
				m[k] = nil
			case 1, 2:
				m[k] = g.pick(values)
			}
		}
		if len(m) == 0 {
			m[keys[0]] = g.pick(values)
		}
		return m
	}
	p := map[string]any{}
	switch g.r.Intn(6) {
	case 0:
		p["data"] = nil
	case 1:
		p["metadata"] = map[string]any{"labels": side(labelKeys)}
	case 2:
		p["metadata"] = map[string]any{"annotations": side(labelKeys), "labels": nil}
		p["data"] = side(dataKeys)
	default:
		p["data"] = side(dataKeys)
	}
	return p
}

func (g *gen) jsonPatch() []JP {
	n := 1 + g.r.Intn(3)
	var ops []JP
	for i := 0; i < n; i++ {
		var path []string
		switch g.r.Intn(4) {
		case 0:
			path = []string{"metadata", "labels", g.pick(labelKeys)}
		case 1:
			path = []string{"metadata", "annotations", g.pick(labelKeys)}
		default:
			path = []string{"data", g.pick(dataKeys)}
		}
		switch g.r.Intn(10) {
		case 0, 1, 2, 3:
			ops = append(ops, JP{Op: "add", Path: path, Value: g.pick(values)})
		case 4, 5:
			ops = append(ops, JP{Op: "replace", Path: path, Value: g.pick(values)})
		case 6, 7:
			ops = append(ops, JP{Op: "remove", Path: path})
		case 8:
			ops = append(ops, JP{Op: "add", Path: path[:len(path)-1], Value: g.strMapNonEmpty()})
		default:
			ops = append(ops, JP{Op: "replace", Path: []string{"data"}, Value: g.strMapNonEmpty()})
		}
	}
	return ops
}

func (g *gen) strMapNonEmpty() map[string]any {
	m := g.strMap(dataKeys, 40)
	m["z"] = g.pick(values)
	return m
}

func (g *gen) jq() *JQ {
	var path []string
	if g.r.Chance(65) {
		path = []string{"data", g.pick(dataKeys)}
	} else {
		path = []string{"metadata", "labels", g.pick(labelKeys)}
	}
	switch g.r.Intn(10) {
	case 0, 1, 2, 3, 4:
		return &JQ{Kind: "set", Path: path, Value: g.pick(values)}
	case 5, 6, 7:
		return &JQ{Kind: "del", Path: path}
	case 8:
		return &JQ{Kind: "id"}
	}
	return &JQ{Kind: "err"}
}

var subs = []string{"", "", "", "status", "/status"}

func (g *gen) stream(n int, intPct, fgPct int) Input {
	var in Input
	present := map[string]bool{}
	for _, kind := range kinds {
		for _, ns := range namespaces {
			for _, name := range names {
				if g.r.Chance(30) {
					in.Initial = append(in.Initial, g.object(kind, ns, name, intPct))
					present[objKey(kind, ns, name)] = true
				}
			}
		}
	}
	keys := func() []string {
		var ks []string
		for k := range present {
			ks = append(ks, k)
		}
		sort.Strings(ks)
		return ks
	}
	asString := func() string {
		switch g.r.Intn(10) {
		case 0, 1:
			return "yaml"
		case 2:
			return "json"
		}
		return ""
	}
	for i := 0; i < n; i++ {
		var d Doc
		switch k := g.r.Intn(100); {
		case k < 30:
			d.Operation = []string{"Create", "CreateOrUpdate", "CreateIfNotExists"}[g.r.Intn(3)]
			kind, ns, name := g.target(keys(), 45)
			d.Object = g.object(kind, ns, name, intPct)
			d.AsString = asString()
			present[objKey(kind, ns, name)] = true
		case k < 48:
			d.Operation = []string{"DeleteInBackground", "DeleteNonCascading"}[g.r.Intn(2)]
			if g.r.Chance(fgPct) {
				d.Operation = "Delete"
			}
			d.Kind, d.Namespace, d.Name = g.target(keys(), 65)
			delete(present, objKey(d.Kind, d.Namespace, d.Name))
		default:
			d.Kind, d.Namespace, d.Name = g.target(keys(), 75)
			d.Sub = g.pick(subs)
			d.Ignore = g.r.Chance(35)
			d.NoAPIVer = g.r.Chance(10)
			switch {
			case k < 66:
				d.Operation = "MergePatch"
				d.Merge = g.mergePatch()
				d.AsString = asString()
			case k < 84:
				d.Operation = "JSONPatch"
				d.JP = g.jsonPatch()
				d.AsString = asString()
			default:
				d.Operation = "JQPatch"
				d.JQ = g.jq()
			}
		}
		in.Docs = append(in.Docs, d)
	}
	return in
}

func cm(name string, data map[string]any) map[string]any {
	return map[string]any{"apiVersion": "v1", "kind": "ConfigMap", "metadata": map[string]any{"name": name, "namespace": "default"}, "data": data}
}

// Corpus runs first.
func Corpus() []core.In[Input] {
	del := func(op, name string) Doc {
		return Doc{Operation: op, Kind: "ConfigMap", Namespace: "default", Name: name}
	}
	ins := []Input{
		// F12 (repaired): an integer anywhere in an inline object of a YAML document used to
		// reach Unstructured.DeepCopy as a Go int and panic (CreateOrUpdate of an existing object)
		{Initial: []map[string]any{cm("cm1", map[string]any{"a": "1"})},
			Docs: []Doc{{Operation: "CreateOrUpdate", Object: cm("cm1", map[string]any{"a": "2", "n": float64(5)})}}},
		{Docs: []Doc{{Operation: "Create", Object: cm("cm1", map[string]any{"n": float64(5)})},
			{Operation: "MergePatch", Kind: "ConfigMap", Namespace: "default", Name: "cm1", Merge: map[string]any{"data": map[string]any{"m": float64(7)}}}}},
		// all or nothing: the last document is invalid
		{Initial: []map[string]any{cm("cm1", map[string]any{"a": "1"})},
			Docs: []Doc{del("DeleteInBackground", "cm1"), {Operation: "Create", Object: cm("cm2", map[string]any{"a": "1"})}, {Operation: "Create", Bad: "missingObject"}}},
		// order matters: create then delete / delete then create
		{Docs: []Doc{{Operation: "Create", Object: cm("cm1", map[string]any{"a": "1"})}, del("DeleteNonCascading", "cm1")}},
		{Docs: []Doc{del("DeleteNonCascading", "cm1"), {Operation: "Create", Object: cm("cm1", map[string]any{"a": "1"})}}},
		// an apply error does not stop later operations
		{Initial: []map[string]any{cm("cm1", map[string]any{"a": "1"})},
			Docs: []Doc{{Operation: "Create", Object: cm("cm1", map[string]any{"a": "9"})},
				{Operation: "MergePatch", Kind: "ConfigMap", Namespace: "default", Name: "nope", Merge: map[string]any{"data": map[string]any{"b": "2"}}},
				{Operation: "JQPatch", Kind: "ConfigMap", Namespace: "default", Name: "cm1", JQ: &JQ{Kind: "set", Path: []string{"data", "b"}, Value: "2"}}}},
		// foreground delete (polls once per second): present and absent
		{Initial: []map[string]any{cm("cm1", map[string]any{"a": "1"})}, Docs: []Doc{del("Delete", "cm1"), del("Delete", "cm2")}},
	}
	var out []core.In[Input]
	for _, in := range ins {
		out = append(out, core.In[Input]{Input: in, Stream: "corpus"})
	}
	return out
}

func Gen(r *core.Rng, tier string) ([]core.In[Input], bool) {
	ins := Corpus()
	g := &gen{r: r}
	nValid, fgPct, opEvery := 160, 0, 6
	switch tier {
	case "thorough":
		nValid, fgPct, opEvery = 3000, 1, 10
	case "search":
		nValid, fgPct, opEvery = 600, 0, 10
	}
	total := 0
	for i := 0; i < nValid; i++ {
		intPct := 0
		stream := "valid"
		if i%5 == 4 {
			intPct, stream = 60, "valid-with-integers"
		}
		in := g.stream(1+g.r.Intn(7), intPct, fgPct)
		if i%opEvery == 0 {
			in.Operator = []string{"json", "yaml"}[(i/opEvery)%2]
		}
		ins = append(ins, core.In[Input]{Input: in, Stream: stream})
		total++
		// single-fault variants: in quick one position per stream, in thorough/search every position (one fault kind each)
		positions := []int{g.r.Intn(len(in.Docs))}
		if tier != "quick" && i%3 == 0 {
			positions = nil
			for p := range in.Docs {
				positions = append(positions, p)
			}
		}
		if tier == "quick" && i%3 != 0 {
			positions = nil
		}
		for _, p := range positions {
			bad := Input{Initial: in.Initial, Docs: append([]Doc{}, in.Docs...), Operator: in.Operator}
			fs := FaultsFor(bad.Docs[p].Operation)
			bad.Docs[p].Bad = fs[g.r.Intn(len(fs))]
			ins = append(ins, core.In[Input]{Input: bad, Stream: "single-fault"})
		}
	}
	// the session class has its own PRNG stream: the streams above do not depend on it
	ins = genSessions(&gen{r: r.Fork()}, tier, ins)
	// so has the class with another writer
	ins = genConc(&gen{r: r.Fork()}, tier, ins)
	// and the class of patch files as text
	ins = genText(&gen{r: r.Fork()}, tier, ins)
	return ins, false
}

// ---- generation of the session class ----

var sessGVs = []string{"example.io/v1", "legacy.example.io/v1", "apps.example.org/v1beta1"}
var sessKinds = []string{"Widget", "Gadget"}
var sessNames = []string{"w1", "w2"}

// registry: every multi-group kind is served by a random ordered non-empty subset of the
// groupVersions (Widget mostly by two or three); the registrations are shuffled, so that the
// discovery order - and with it the preferred groupVersion of each kind - varies.
func (g *gen) registry() []Reg {
	var regs []Reg
	for ki, kind := range sessKinds {
		n := 1 + g.r.Intn(len(sessGVs))
		if ki == 0 && n == 1 && g.r.Chance(85) {
			n = 2 + g.r.Intn(len(sessGVs)-1)
		}
		perm := g.perm(len(sessGVs))
		for _, i := range perm[:n] {
			regs = append(regs, Reg{GV: sessGVs[i], Kind: kind})
		}
	}
	perm := g.perm(len(regs))
	out := make([]Reg, len(regs))
	for i, p := range perm {
		out[i] = regs[p]
	}
	return out
}

func (g *gen) perm(n int) []int {
	p := make([]int, n)
	for i := range p {
		p[i] = i
	}
	for i := n - 1; i > 0; i-- {
		j := g.r.Intn(i + 1)
		p[i], p[j] = p[j], p[i]
	}
	return p
}

func (g *gen) sessKind() string {
	switch k := g.r.Intn(100); {
	case k < 62:
		return "Widget"
	case k < 82:
		return "Gadget"
	}
	return "ConfigMap"
}

func (g *gen) sessNs() string {
	if g.r.Chance(80) {
		return "default"
	}
	return "ns2"
}

// a groupVersion the cluster does not serve the kind in: one of the other groups, or an unknown one
func (g *gen) unservedGV(served []string) string {
	var cands []string
	for _, gv := range append([]string{"v1", "nope.example.io/v1"}, sessGVs...) {
		in := false
		for _, s := range served {
			in = in || s == gv
		}
		if !in {
			cands = append(cands, gv)
		}
	}
	return g.pick(cands)
}

// session: a registry, an initial cluster in which names are mostly shared between the
// groups, and 1-3 executions of 1-3 documents each.  A delete / patch document has no
// apiVersion (30 %) or one of the groupVersions serving its kind; a create document's object
// names one of them.  unservedPct: chance of a document naming a groupVersion that does not
// serve the kind.
func (g *gen) session(intPct, fgPct, unservedPct int) Input {
	in := Input{Session: true, Registry: g.registry()}
	type ident struct{ kind, ns, name string }
	present := map[string]bool{} // gKey
	var idents []ident
	seenIdent := map[ident]bool{}
	addIdent := func(id ident) {
		if !seenIdent[id] {
			seenIdent[id] = true
			idents = append(idents, id)
		}
	}
	objectOf := func(gv, kind, ns, name string) map[string]any {
		o := g.object(kind, ns, name, intPct)
		o["apiVersion"] = gv
		return o
	}
	for _, kind := range []string{"Widget", "Gadget", "ConfigMap"} {
		served := servedIn(in.Registry, kind)
		for _, ns := range namespaces {
			for _, name := range sessNames {
				// the name exists in the cluster at all?
				if !g.r.Chance(map[string]int{"default": 50, "ns2": 15}[ns]) {
					continue
				}
				for _, gv := range served {
					if g.r.Chance(70) {
						in.Initial = append(in.Initial, objectOf(gv, kind, ns, name))
						present[gKey(gv, kind, ns, name)] = true
						addIdent(ident{kind, ns, name})
					}
				}
			}
		}
	}
	target := func(pct int) ident {
		if len(idents) > 0 && g.r.Chance(pct) {
			return idents[g.r.Intn(len(idents))]
		}
		return ident{g.sessKind(), g.sessNs(), g.pick(sessNames)}
	}
	apiFor := func(kind string, allowOmitted bool) (string, bool) {
		served := servedIn(in.Registry, kind)
		if g.r.Chance(unservedPct) || len(served) == 0 {
			return g.unservedGV(served), false
		}
		if allowOmitted && g.r.Chance(30) {
			return "", true
		}
		return g.pick(served), false
	}
	asString := func() string {
		switch g.r.Intn(10) {
		case 0, 1:
			return "yaml"
		case 2:
			return "json"
		}
		return ""
	}
	nExec := 1 + g.r.Intn(3)
	for e := 0; e < nExec; e++ {
		nDocs := 1 + g.r.Intn(3)
		for i := 0; i < nDocs; i++ {
			d := Doc{Exec: e}
			switch k := g.r.Intn(100); {
			case k < 22:
				d.Operation = []string{"Create", "CreateOrUpdate", "CreateIfNotExists"}[g.r.Intn(3)]
				id := target(60)
				gv, _ := apiFor(id.kind, false)
				d.Object = objectOf(gv, id.kind, id.ns, id.name)
				d.AsString = asString()
				addIdent(id)
			case k < 40:
				d.Operation = []string{"DeleteInBackground", "DeleteNonCascading"}[g.r.Intn(2)]
				if g.r.Chance(fgPct) {
					d.Operation = "Delete"
				}
				id := target(85)
				d.Kind, d.Namespace, d.Name = id.kind, id.ns, id.name
				d.APIVersion, d.NoAPIVer = apiFor(id.kind, true)
			default:
				id := target(88)
				d.Kind, d.Namespace, d.Name = id.kind, id.ns, id.name
				d.APIVersion, d.NoAPIVer = apiFor(id.kind, true)
				d.Sub = g.pick(subs)
				d.Ignore = g.r.Chance(30)
				switch {
				case k < 62:
					d.Operation = "MergePatch"
					d.Merge = g.mergePatch()
					d.AsString = asString()
				case k < 80:
					d.Operation = "JSONPatch"
					d.JP = g.jsonPatch()
					d.AsString = asString()
				default:
					d.Operation = "JQPatch"
					d.JQ = g.jq()
				}
			}
			in.Docs = append(in.Docs, d)
		}
	}
	return in
}

func widget(gv, name string, data map[string]any) map[string]any {
	return map[string]any{"apiVersion": gv, "kind": "Widget", "metadata": map[string]any{"name": name, "namespace": "default"}, "data": data}
}

// SessionCorpus: small witnesses of the class (run first).
func SessionCorpus() []core.In[Input] {
	const a, b = "example.io/v1", "legacy.example.io/v1"
	two := []Reg{{GV: a, Kind: "Widget"}, {GV: b, Kind: "Widget"}}
	both := []map[string]any{widget(a, "w1", map[string]any{"owner": "nobody"}), widget(b, "w1", map[string]any{"owner": "nobody"})}
	owner := func(v string) map[string]any { return map[string]any{"data": map[string]any{"owner": v}} }
	mp := func(exec int, api, v string) Doc {
		return Doc{Exec: exec, Operation: "MergePatch", Kind: "Widget", Namespace: "default", Name: "w1", APIVersion: api, NoAPIVer: api == "", Merge: owner(v)}
	}
	jq := func(exec int, api, v string) Doc {
		return Doc{Exec: exec, Operation: "JQPatch", Kind: "Widget", Namespace: "default", Name: "w1", APIVersion: api, NoAPIVer: api == "",
			JQ: &JQ{Kind: "set", Path: []string{"data", "owner"}, Value: v}}
	}
	del := func(exec int, api string) Doc {
		return Doc{Exec: exec, Operation: "DeleteInBackground", Kind: "Widget", Namespace: "default", Name: "w1", APIVersion: api, NoAPIVer: api == ""}
	}
	ins := []Input{
		// one file: the same kind with two explicit apiVersions
		{Session: true, Registry: two, Initial: both, Docs: []Doc{mp(0, a, "first"), mp(0, b, "second")}},
		// two executions: explicit non-preferred, then no apiVersion (= preferred)
		{Session: true, Registry: two, Initial: both, Docs: []Doc{jq(0, b, "first"), jq(1, "", "second")}},
		// no apiVersion, then explicit non-preferred; the other registration order
		{Session: true, Registry: []Reg{two[1], two[0]}, Initial: both, Docs: []Doc{mp(0, "", "first"), del(1, a)}},
		// patch in one group, delete in the other
		{Session: true, Registry: two, Initial: both, Docs: []Doc{mp(0, a, "first"), del(0, b)}},
		// create in the group that does not hold the name yet, others untouched; through the operator
		{Session: true, Registry: two, Initial: both[:1], Operator: "yaml",
			Docs: []Doc{{Exec: 0, Operation: "Create", Object: widget(b, "w1", map[string]any{"owner": "me"})}, del(1, ""), mp(2, b, "third")}},
		// a kind / apiVersion the cluster does not serve: an error, the rest of the file still applies
		{Session: true, Registry: two, Initial: both, Docs: []Doc{mp(0, "nope.example.io/v1", "x"),
			{Exec: 0, Operation: "DeleteInBackground", Kind: "Gadget", Namespace: "default", Name: "w1", NoAPIVer: true}, mp(0, b, "second")}},
		// an invalid document in the second execution: the first and the third are applied
		{Session: true, Registry: two, Initial: both, Docs: []Doc{mp(0, b, "first"), mp(1, a, "lost"), {Exec: 1, Operation: "MergePatch", Bad: "missingKind"}, mp(2, "", "third")}},
	}
	var out []core.In[Input]
	for _, in := range ins {
		out = append(out, core.In[Input]{Input: in, Stream: "session-corpus"})
	}
	return out
}

// genSessions appends the streams of the session class.
func genSessions(g *gen, tier string, ins []core.In[Input]) []core.In[Input] {
	ins = append(ins, SessionCorpus()...)
	n, fgPct, opEvery, nUnserved := 100, 0, 8, 16
	switch tier {
	case "thorough":
		n, fgPct, opEvery, nUnserved = 1500, 1, 12, 150
	case "search":
		n, fgPct, opEvery, nUnserved = 700, 0, 12, 60
	}
	for i := 0; i < n; i++ {
		intPct := 0
		if i%6 == 5 {
			intPct = 50
		}
		in := g.session(intPct, fgPct, 0)
		if i%opEvery == 0 {
			in.Operator = []string{"json", "yaml"}[(i/opEvery)%2]
		}
		ins = append(ins, core.In[Input]{Input: in, Stream: "session"})
		if i%4 == 0 {
			bad := in
			bad.Docs = append([]Doc{}, in.Docs...)
			p := g.r.Intn(len(bad.Docs))
			fs := FaultsFor(bad.Docs[p].Operation)
			bad.Docs[p].Bad = fs[g.r.Intn(len(fs))]
			ins = append(ins, core.In[Input]{Input: bad, Stream: "session-single-fault"})
		}
	}
	for i := 0; i < nUnserved; i++ {
		ins = append(ins, core.In[Input]{Input: g.session(0, 0, 25), Stream: "session-unserved"})
	}
	return ins
}

func Extra() map[string]any {
	return map[string]any{
		"partial":         "JSON == YAML is differential only: each stream is rendered as JSON documents and as YAML documents (yaml.v3 encoder), both go through the real ParseOperations/ExecuteOperations, and the parsed operations are compared through a dump (numbers normalised: same_ops; with Go types: same_typed_ops); the decoders are not modelled. Validity of one document (go-openapi + embedded schema) is an oracle: faults are injected by the generator.",
		"cluster":         "github.com/flant/kube-client/fake (ClusterVersionV119), kinds ConfigMap and Secret in namespaces default and ns2; the patcher's dynamic client is wrapped: calls recorded, objects cross it as JSON (as on the wire)",
		"glue":            "every case: the parse-all-then-execute-or-nothing sequence of operator.go:667-676 repeated by the harness (ParseOperations; on error stop; ExecuteOperations). A sample of the cases (tag operator-run) ALSO goes through the operator itself: a bash hook writes the stream to $KUBERNETES_PATCH_PATH and ShellOperator.taskHandler (VerifAssemble/VerifTaskHandler exports) handles the HookRun task, so that the operator's own statements run; observed there: task status, API calls, final cluster",
		"foreground":      "Delete (foreground) polls once per second: corpus only in quick, ~1% of deletes in thorough",
		"observed":        "per rendering: parse ok, ordered API calls (verb, object, subresource), apply errors mapped to {AlreadyExists, NotFound, PatchFailed, JqFailed, Other}, final cluster sorted by kind/namespace/name projected to metadata.{name,namespace,labels,annotations} + data",
		"fault_kinds":     "unknownOperation noOperation syntax missingObject emptyObject objectIsNumber objectIsArray missingKind missingName emptyName missingJqFilter missingMergePatch emptyMergePatch mergePatchIsArray missingJsonPatch emptyJsonPatch jsonPatchItemNoPath jsonPatchIsObject",
		"strings_as_text": "object / mergePatch / jsonPatch are given inline, as a YAML string or as a JSON string",
		"session_class":   "second case class (tag class:session): the fake cluster additionally serves Widget and Gadget, each in a random ordered non-empty subset of example.io/v1, legacy.example.io/v1, apps.example.org/v1beta1 (CRDs registered in a shuffled order: the discovery order, hence the preferred groupVersion of each kind, varies); objects are identified by groupVersion|Kind/namespace/name and the initial cluster mostly holds the same name in several groups; 1-3 executions of 1-3 documents each go one after the other through ONE ObjectPatcher against one cluster (sampled: through one operator, one hook run per execution); delete / patch documents carry no apiVersion (30 %) or one of the serving groupVersions, stream session-unserved also groupVersions that do not serve the kind; observed per execution: parse ok, API calls with the groupVersion they went to, errors, the whole cluster",
		"conc_class":      "third case class (tag class:conc): between the patcher's recording client and the fake cluster an API-server layer keeps a resourceVersion per object (one revision counter, changed on every write), refuses an Update with an outdated resourceVersion (409 Conflict) and lets ANOTHER WRITER in right before it handles a mutating request (create / update / patch / delete) of the operator: the next write of the queue the input holds for the document's object (set .data[k] = v on the existing object, or create the object) - for JQPatch and CreateOrUpdate that is the window between the operator's Get and its Update. Observed: as for the first class, and per document how many writes of the other writer happened. The whole stream goes through ONE call of the real ExecuteOperations; every document has an object of its own (queues are found by object). The other writer never deletes (an Update answered NotFound is not covered). retry.DefaultBackoff sleeps 10 ms between attempts: real time, not compared",
		"text_class":      "fourth case class (tag class:text): the patch file is a TEXT built from the JSON renderings of the documents, white space of its own in front of each, and one raw fault text (tags text:fault:<class>, text:fault-at:first|middle|last); ONE run per case through the real ParseOperations + ExecuteOperations (sampled: through the operator). Model: encoding/json's scanner and Decoder loop byte by byte + the JSON->YAML fallback (C13_TModel); oracles answered by the harness with library calls of its own: what yaml.v3 makes of the whole text (decoder loop into any; documents recognised by canonical JSON; tag text:accepted-as-yaml when it is a well-formed YAML stream after all, e.g. one JSON document followed by --- and a YAML document), and for the generator whether a randomly corrupted text is still a JSON stream (such candidates, and texts yaml.v3 accepts with a document the harness cannot name, are not generated). The case carries the description of the text (documents + tail); the model checks that the description is honest (shape_ok: the tail really is no JSON) before anything is judged",
		"fake_discovery":  "the fake client has no discovery cache; where the real client invalidates it and reports 'not supported by cluster' the fake dereferences nil: the harness's client wrapper turns exactly that into the real client's error",
	}
}

var Driver = core.Driver[Input, Obs]{
	Spec: core.Spec{Property: "C13", Imports: []string{"Json", "C13_Model", "C13_Spec", "C13_GModel", "C13_GSpec", "C13_CModel", "C13_CSpec", "C13_TModel", "C13_TSpec", "C13_Corr"}, Corr: "C13_Corr", ShrinkKey: "docs",
		Rule: "streams of 1-7 operation documents over 2 kinds x 2 namespaces x 3 names against a random initial cluster, each rendered as JSON and as YAML; streams: corpus, valid, valid-with-integers (integers inside objects), single-fault (a valid stream with one document made invalid, every position in thorough); non-trivial = >=2 documents, or 1 document against a non-empty cluster; sessions (streams session-corpus, session, session-single-fault, session-unserved): 1-3 executions of 1-3 documents through one ObjectPatcher on a cluster serving Widget / Gadget in 1-3 API groups each, non-trivial = >=2 documents; another writer (streams conc-grid, conc, conc-single-fault): 1-3 documents, each on an object of its own, against an API-server layer with resourceVersions and 409 Conflict, 0-6 writes of another writer ready per document (one happens right before each mutating request of the operation), conc-grid = 9 operations x target present/absent x 0..6 writes, non-trivial = some document has a write ready; patch files as text (streams text-grid, text-grid-random-base, text-well-formed, text-random-fault): 0-4 documents as a JSON stream with white space of its own between them and ONE raw fault text somewhere (stray closing bracket / brace, comma, colon, unclosed bracket, garbage, control bytes, a document cut short after every token class, YAML after JSON and the reverse, broken YAML tails; random single-point corruption of one document), grid = every fault class x {before the first, after the first, a middle, after the last document}, non-trivial = a fault next to >= 1 document or >= 2 documents; distinct = distinct input JSON"},
	Gen: Gen, Run: Run, Render: Render, PerShard: 24, Workers: 12, CaseTimout: 60 * time.Second, Extra: Extra,
}
