// Package c06: correspondence driver for C06 (startup order).  Many hooks with equal
// ORDER values, every mix of bindings, groups, executeHookOnSynchronization=false, v0
// hooks, start-up executions failing a few times; see internal/opsim.
package c06

import (
	"time"

	"verifharness/internal/core"
	"verifharness/internal/opsim"
)

var profile = opsim.Profile{Name: "c06", MaxHooks: 6, Steps: 40, PFail: 30, PHold: 0, V0: true, ManyOrders: true, PWait: 20}
var profileBig = opsim.Profile{Name: "c06big", MaxHooks: 40, Steps: 70, PFail: 10, PHold: 0, V0: true, ManyOrders: true}

func init() { opsim.RegisterProfile(profile); opsim.RegisterProfile(profileBig) }

func Corpus() []opsim.Scenario {
	var many []opsim.Hook
	orders := []int{0, 2, 2, 0, 1, 2, 1, 2, 2, 0, 2, 0, 1, 1, 2, 0, 0, 2, 1, 2, 2, 1, 1, 2, 0, 0, 2, 0, 2, 1}
	for i, o := range orders {
		oo := o
		many = append(many, opsim.Hook{Id: i + 1, Startup: &oo})
	}
	var fin []opsim.Action
	fin = append(fin, opsim.Action{Kind: "Boot"})
	for range orders {
		fin = append(fin, opsim.Action{Kind: "Finish", Q: 0, Ok: true})
	}
	one := 1
	return []opsim.Scenario{
		// hook paths whose lexical order differs from directory-walk order, equal ORDER, kubernetes and schedule bindings
		{Cfg: nestedPaths([]opsim.Hook{{Id: 1, Startup: &one, Kube: []opsim.KB{{Name: 1, ExecSync: true}}}, {Id: 2, Startup: &one, Sched: []opsim.SB{{Name: 2, Cron: 1}}}, {Id: 3, Startup: &one, Kube: []opsim.KB{{Name: 3, ExecSync: true}}}}),
			Acts: []opsim.Action{{Kind: "Boot"}, {Kind: "Finish", Q: 0, Ok: true}, {Kind: "Finish", Q: 0, Ok: true}, {Kind: "Finish", Q: 0, Ok: true}, {Kind: "Finish", Q: 0, Ok: true}, {Kind: "Finish", Q: 0, Ok: true}}},
		// F2 (fixed): 30 onStartup hooks with ORDER in {0,1,2}: sort.Slice lost the path order
		{Cfg: many, Acts: fin},
		// F9 (fixed): grouped Synchronization followed by one with executeHookOnSynchronization=false
		{Cfg: []opsim.Hook{{Id: 1, Kube: []opsim.KB{{Name: 1, Group: 1, ExecSync: true}, {Name: 2, Group: 0, ExecSync: false}}}},
			Acts: []opsim.Action{{Kind: "Boot"}, {Kind: "Finish", Q: 0, Ok: true}}},
		{Cfg: []opsim.Hook{{Id: 1, Kube: []opsim.KB{{Name: 1, Group: 1, ExecSync: true}, {Name: 2, Group: 1, ExecSync: false}, {Name: 3, Group: 1, ExecSync: true}}}},
			Acts: []opsim.Action{{Kind: "Boot"}, {Kind: "Finish", Q: 0, Ok: false}, {Kind: "Finish", Q: 0, Ok: true}, {Kind: "Finish", Q: 0, Ok: true}}},
	}
}

// nestedPaths gives the first three hooks paths whose lexical order (the documented load
// order) differs from the order in which a directory walk meets them: a directory `d` with
// siblings `d-…` and `d.…` ('-' and '.' sort before '/').  Lexical: d-h001 < d.h002 < d/h003;
// a walk meets d/h003 first.
func nestedPaths(cfg []opsim.Hook) []opsim.Hook {
	if len(cfg) < 3 {
		return cfg
	}
	out := append([]opsim.Hook{}, cfg...)
	out[0].Path, out[1].Path, out[2].Path = "d-h001", "d.h002", "d/h003"
	return out
}

func Gen(r *core.Rng, tier string) ([]core.In[opsim.Scenario], bool) {
	var ins []core.In[opsim.Scenario]
	for _, sc := range Corpus() {
		ins = append(ins, core.In[opsim.Scenario]{Input: sc, Stream: "corpus"})
	}
	n := 60
	switch tier {
	case "thorough":
		n = 1500
	case "search":
		n = 300
	}
	for i := 0; i < n; i++ {
		p := profile
		if i%6 == 5 {
			p = profileBig
		}
		sc := opsim.Scenario{Cfg: opsim.GenConfig(r, p), Seed: int64(r.Next() >> 1), Steps: 8 + r.Intn(p.Steps), Profile: p.Name}
		stream := "random"
		if len(sc.Cfg) >= 3 && r.Chance(40) {
			sc.Cfg = nestedPaths(sc.Cfg)
			stream = "random-nested-paths"
		}
		ins = append(ins, core.In[opsim.Scenario]{Input: sc, Stream: stream})
	}
	return ins, false
}

var Driver = core.Driver[opsim.Scenario, opsim.Trace]{
	Spec: core.Spec{Property: "C06", Imports: []string{"Op_Model", "Op_Corr", "C06_Spec", "C06_Corr"}, Corr: "C06_Corr", ShrinkKey: "acts",
		Rule: "operator-level scenarios (see C03) concentrated on start-up: 1-6 hooks (every 6th case up to 40 hooks) with ORDER drawn from {0,1} (10% from -5..34), kubernetes bindings with groups / executeHookOnSynchronization=false / v0 hooks, start-up executions failing 10-30% of the time; 40% of the configurations with >=3 hooks put the first three hooks at paths (d-h001, d.h002, d/h003) whose lexical order differs from directory-walk order; non-trivial = >=4 actions of >=2 kinds with >=2 executions; distinct = distinct (config, action list)"},
	Gen:      Gen,
	Run:      opsim.RunScenario,
	Render:   func(in opsim.Scenario, obs *opsim.Trace, crash string) core.Case { return opsim.Render(in, obs, crash) },
	Explicit: opsim.ExplicitInput,
	PerShard: 30, Workers: 8, CaseTimout: 60 * time.Second,
}
