// Package c06: correspondence driver for C06 (startup order).  Many hooks with equal
// ORDER values, every mix of bindings, groups, executeHookOnSynchronization=false, v0
// hooks, start-up executions failing a few times; see internal/opsim.
package c06

import (
	"encoding/json"
	"time"

	"verifharness/internal/core"
	"verifharness/internal/opsim"
)

// Input is either an operator scenario or one hook's EnableKubernetesBindings task in a
// failing environment (enable.go).
type Input struct {
	Scenario *opsim.Scenario `json:"scenario,omitempty"`
	Enable   *EnableIn       `json:"enable,omitempty"`
	Acts     []opsim.Action  `json:"acts,omitempty"` // shrink key: mirrors Scenario.Acts
}

// UnmarshalJSON also accepts the earlier replay files of C06, whose input is a bare scenario.
func (in *Input) UnmarshalJSON(b []byte) error {
	var probe map[string]json.RawMessage
	if err := json.Unmarshal(b, &probe); err != nil {
		return err
	}
	_, isScenario := probe["scenario"]
	_, isEnable := probe["enable"]
	if !isScenario && !isEnable {
		var sc opsim.Scenario
		if err := json.Unmarshal(b, &sc); err != nil {
			return err
		}
		*in = Input{Scenario: &sc}
		return nil
	}
	type plain Input
	var p plain
	if err := json.Unmarshal(b, &p); err != nil {
		return err
	}
	*in = Input(p)
	return nil
}

type Obs struct {
	Trace  *opsim.Trace `json:"trace,omitempty"`
	Enable *EnableObs   `json:"enable,omitempty"`
}

func Run(in Input) Obs {
	if in.Enable != nil {
		o := runEnable(*in.Enable)
		return Obs{Enable: &o}
	}
	sc := *in.Scenario
	if len(in.Acts) > 0 {
		sc.Acts = in.Acts
	}
	tr := opsim.RunScenario(sc)
	return Obs{Trace: &tr}
}

func Render(in Input, obs *Obs, crash string) core.Case {
	if in.Enable != nil {
		var o *EnableObs
		if obs != nil {
			o = obs.Enable
		}
		return renderEnable(*in.Enable, o, crash)
	}
	sc := *in.Scenario
	if len(in.Acts) > 0 {
		sc.Acts = in.Acts
	}
	var tr *opsim.Trace
	if obs != nil {
		tr = obs.Trace
	}
	c := opsim.Render(sc, tr, crash)
	c.Coq = "COp " + c.Coq
	return c
}

func Explicit(in Input, obs *Obs) Input {
	if in.Enable != nil || obs == nil || obs.Trace == nil {
		return in
	}
	base := *in.Scenario
	if len(in.Acts) > 0 {
		base.Acts = in.Acts
	}
	sc := opsim.ExplicitInput(base, obs.Trace)
	acts := sc.Acts
	sc.Acts = nil
	return Input{Scenario: &sc, Acts: acts}
}

var profile = opsim.Profile{Name: "c06", MaxHooks: 6, Steps: 40, PFail: 30, PHold: 0, V0: true, ManyOrders: true, PWait: 20}
var profileBig = opsim.Profile{Name: "c06big", MaxHooks: 40, Steps: 70, PFail: 10, PHold: 0, V0: true, ManyOrders: true}

func init() { opsim.RegisterProfile(profile); opsim.RegisterProfile(profileBig) }

func Corpus() []opsim.Scenario {
	var many []opsim.Hook
	orders := []int{0, 2, 2, 0, 1, 2, 1, 2, 2, 0, 2, 0, 1, 1, 2, 0, 0, 2, 1, 2, 2, 1, 1, 2, 0, 0, 2, 0, 2, 1}
	for i, o := range orders {
		oo := o
		many = append(many, opsim.Hook{Id: i + 1, Startup: &oo})
	}
	var fin []opsim.Action
	fin = append(fin, opsim.Action{Kind: "Boot"})
	for range orders {
		fin = append(fin, opsim.Action{Kind: "Finish", Q: 0, Ok: true})
	}
	one := 1
	return []opsim.Scenario{
		// hook paths whose lexical order differs from directory-walk order, equal ORDER, kubernetes and schedule bindings
		{Cfg: nestedPaths([]opsim.Hook{{Id: 1, Startup: &one, Kube: []opsim.KB{{Name: 1, ExecSync: true}}}, {Id: 2, Startup: &one, Sched: []opsim.SB{{Name: 2, Cron: 1}}}, {Id: 3, Startup: &one, Kube: []opsim.KB{{Name: 3, ExecSync: true}}}}),
			Acts: []opsim.Action{{Kind: "Boot"}, {Kind: "Finish", Q: 0, Ok: true}, {Kind: "Finish", Q: 0, Ok: true}, {Kind: "Finish", Q: 0, Ok: true}, {Kind: "Finish", Q: 0, Ok: true}, {Kind: "Finish", Q: 0, Ok: true}}},
		// F2 (fixed): 30 onStartup hooks with ORDER in {0,1,2}: sort.Slice lost the path order
		{Cfg: many, Acts: fin},
		// F9 (fixed): grouped Synchronization followed by one with executeHookOnSynchronization=false
		{Cfg: []opsim.Hook{{Id: 1, Kube: []opsim.KB{{Name: 1, Group: 1, ExecSync: true}, {Name: 2, Group: 0, ExecSync: false}}}},
			Acts: []opsim.Action{{Kind: "Boot"}, {Kind: "Finish", Q: 0, Ok: true}}},
		{Cfg: []opsim.Hook{{Id: 1, Kube: []opsim.KB{{Name: 1, Group: 1, ExecSync: true}, {Name: 2, Group: 1, ExecSync: false}, {Name: 3, Group: 1, ExecSync: true}}}},
			Acts: []opsim.Action{{Kind: "Boot"}, {Kind: "Finish", Q: 0, Ok: false}, {Kind: "Finish", Q: 0, Ok: true}, {Kind: "Finish", Q: 0, Ok: true}}},
	}
}

// nestedPaths gives the first three hooks paths whose lexical order (the documented load
// order) differs from the order in which a directory walk meets them: a directory `d` with
// siblings `d-…` and `d.…` ('-' and '.' sort before '/').  Lexical: d-h001 < d.h002 < d/h003;
// a walk meets d/h003 first.
func nestedPaths(cfg []opsim.Hook) []opsim.Hook {
	if len(cfg) < 3 {
		return cfg
	}
	out := append([]opsim.Hook{}, cfg...)
	out[0].Path, out[1].Path, out[2].Path = "d-h001", "d.h002", "d/h003"
	return out
}

func Gen(r *core.Rng, tier string) ([]core.In[Input], bool) {
	var ins []core.In[Input]
	for _, sc := range Corpus() {
		sc := sc
		ins = append(ins, core.In[Input]{Input: Input{Scenario: &sc}, Stream: "corpus"})
	}
	for _, e := range enableCorpus() {
		e := e
		ins = append(ins, core.In[Input]{Input: Input{Enable: &e}, Stream: "corpus-enable"})
	}
	n, ne := 60, 60
	switch tier {
	case "thorough":
		n, ne = 1500, 2000
	case "search":
		n, ne = 300, 600
	}
	if tier != "quick" {
		for _, e := range enableExhaustive() {
			e := e
			ins = append(ins, core.In[Input]{Input: Input{Enable: &e}, Stream: "exhaustive-enable"})
		}
	}
	for i := 0; i < n; i++ {
		p := profile
		if i%6 == 5 {
			p = profileBig
		}
		sc := opsim.Scenario{Cfg: opsim.GenConfig(r, p), Seed: int64(r.Next() >> 1), Steps: 8 + r.Intn(p.Steps), Profile: p.Name}
		stream := "random"
		if len(sc.Cfg) >= 3 && r.Chance(40) {
			sc.Cfg = nestedPaths(sc.Cfg)
			stream = "random-nested-paths"
		}
		ins = append(ins, core.In[Input]{Input: Input{Scenario: &sc}, Stream: stream})
	}
	// the EnableKubernetesBindings task in a failing environment (generated last, so that the
	// operator scenarios of a seed stay what they were)
	for i := 0; i < ne; i++ {
		e := genEnable(r)
		ins = append(ins, core.In[Input]{Input: Input{Enable: &e}, Stream: "random-enable"})
	}
	return ins, false
}

var Driver = core.Driver[Input, Obs]{
	Spec: core.Spec{Property: "C06", Imports: []string{"Op_Model", "Op_Corr", "C06_Spec", "C06_Enable", "C06_EnableSpec", "C06_Corr"}, Corr: "C06_Corr", ShrinkKey: "acts",
		Rule: "operator-level scenarios (see C03) concentrated on start-up: 1-6 hooks (every 6th case up to 40 hooks) with ORDER drawn from {0,1} (10% from -5..34), kubernetes bindings with groups / executeHookOnSynchronization=false / v0 hooks, start-up executions failing 10-30% of the time; 40% of the configurations with >=3 hooks put the first three hooks at paths (d-h001, d.h002, d/h003) whose lexical order differs from directory-walk order; non-trivial = >=4 actions of >=2 kinds with >=2 executions; distinct = distinct (config, action list); plus an 'enable' class (streams corpus-enable / random-enable): ONE hook with 1-6 kubernetes bindings (kinds ConfigMap/Secret/Pod/Service, one or two namespaces each, groups, queues, executeHookOnSynchronization=false, allowFailure, 12% with repeated binding names, optionally onStartup / a schedule binding) whose EnableKubernetesBindings task - created by the real bootstrapMainQueue - is run by the real task handler again and again while the initial LIST of chosen bindings fails in chosen attempts (0-5 failing attempts, 60% of the failures at a binding that is not the first, several failing bindings per attempt, unreachable failures); compared run by run: AddMonitor calls seen by the environment, status, returned tasks, HasMonitor / CanHandleKubeEvent per binding; then every binding is probed (object created while locked, unlock by the returned tasks' monitor ids, emitted KubeEvents); thorough/search tiers add every failure pattern over the first two attempts for 1-3 bindings (84 cases); non-trivial (enable) = >=2 bindings and >=1 failed run"},
	Gen:      Gen,
	Run:      Run,
	Render:   Render,
	Explicit: Explicit,
	PerShard: 30, Workers: 8, CaseTimout: 60 * time.Second,
}
