// enable.go: the "enable" case class of C06 — ONE hook's EnableKubernetesBindings task in an
// environment in which creating a monitor fails a finite number of times (model:
// coq/theories/C06_Enable.v).
//
// The REAL code is driven: a hook file answering --config is loaded by the real hook manager
// of a real ShellOperator assembled around a fake cluster (VerifAssemble), the real
// bootstrapMainQueue creates the task, and the real task handler (taskHandler ->
// taskHandleEnableKubernetesBindings -> HookController.HandleEnableKubernetesBindings ->
// kubernetesBindingsController.EnableKubernetesBindings -> kubeEventsManager.AddMonitor) is
// called again and again the way the queue worker does (Status "Fail": failure count + 1, the
// same task again) until it reports "Success".
//
// The failing environment: every kubernetes binding watches its own namespaces; a reactor on
// the fake dynamic client makes the initial LIST (resourceInformer.loadExistedObjects, called
// synchronously by AddMonitor) of the chosen binding fail in the chosen attempts.  LIST calls
// made by the informers' own reflectors run in other goroutines and are never failed.
//
// After the successful run every binding is probed in config order: an object it watches is
// created (nothing may be emitted: the binding is still locked), then the monitors named by
// the returned Synchronization tasks are unlocked (what a successful Synchronization run
// does) and the buffered Event must come out.
package c06

import (
	"context"
	"fmt"
	"os"
	"path/filepath"
	"runtime"
	"strconv"
	"strings"
	"sync"
	"time"

	"github.com/deckhouse/deckhouse/pkg/log"
	metav1 "k8s.io/apimachinery/pkg/apis/meta/v1"
	"k8s.io/apimachinery/pkg/apis/meta/v1/unstructured"
	k8sruntime "k8s.io/apimachinery/pkg/runtime"
	"k8s.io/apimachinery/pkg/runtime/schema"
	"k8s.io/apimachinery/pkg/watch"
	dynamicfake "k8s.io/client-go/dynamic/fake"
	clienttesting "k8s.io/client-go/testing"

	"github.com/flant/kube-client/fake"
	"github.com/flant/shell-operator/pkg/hook/task_metadata"
	kem "github.com/flant/shell-operator/pkg/kube_events_manager"
	kemtypes "github.com/flant/shell-operator/pkg/kube_events_manager/types"
	shell_operator "github.com/flant/shell-operator/pkg/shell-operator"
	"github.com/flant/shell-operator/pkg/task"

	"verifharness/internal/core"
	"verifharness/internal/opsim"
)

// EnableKB is one kubernetes binding of the hook.  The binding at position i of the config
// watches objects of Kind in the namespaces e<i>a (and e<i>b when NsCount is 2).
type EnableKB struct {
	Name     int    `json:"name"` // binding name b<Name>; names need not be unique
	Queue    int    `json:"queue"`
	Group    int    `json:"group"`
	Allow    bool   `json:"allow"`
	ExecSync bool   `json:"execsync"`
	Kind     string `json:"kind"` // ConfigMap | Secret | Pod | Service
	NsCount  int    `json:"ns_count"`
}

// EnableIn: the hook and the environment.
type EnableIn struct {
	Kube    []EnableKB `json:"kube"`
	Startup *int       `json:"startup,omitempty"` // the hook also has onStartup
	Sched   bool       `json:"sched,omitempty"`   // ... and a schedule binding
	Fails   [][2]int   `json:"fails"`             // (attempt, position): AddMonitor of that binding fails in that attempt
	Probe   bool       `json:"probe"`
}

type EnableAttempt struct {
	Calls  []EnableCall    `json:"calls"`
	Status string          `json:"status"`
	Heads  []opsim.TaskObs `json:"heads"`
	Other  int             `json:"other_tasks,omitempty"` // TailTasks + AfterTasks (never used by this handler)
	Has    []bool          `json:"has_monitor"`
	Link   []bool          `json:"can_handle"`
}
type EnableCall struct {
	Mon  int  `json:"mon"`
	Fail bool `json:"fail"`
}
type EnableProbe struct {
	Before []int `json:"before"`
	After  []int `json:"after"`
}
type EnableObs struct {
	Attempts []EnableAttempt `json:"attempts"`
	Probe    []EnableProbe   `json:"probe,omitempty"`
	Probed   bool            `json:"probed"`
	Err      string          `json:"err,omitempty"`
}

const (
	enableHookId  = 1
	enableMonBase = 101 // monitor of the binding at position i is numbered 101+i
	enableWait    = 10 * time.Second
)

func enableNs(pos, k int) string { return fmt.Sprintf("e%d%c", pos, 'a'+k) }

func enableGVR(kind string) schema.GroupVersionResource {
	res := map[string]string{"ConfigMap": "configmaps", "Secret": "secrets", "Pod": "pods", "Service": "services"}[kind]
	return schema.GroupVersionResource{Version: "v1", Resource: res}
}

func (in *EnableIn) hook() opsim.Hook {
	h := opsim.Hook{Id: enableHookId, Startup: in.Startup}
	for _, b := range in.Kube {
		h.Kube = append(h.Kube, opsim.KB{Name: b.Name, Queue: b.Queue, Group: b.Group, Allow: b.Allow, ExecSync: b.ExecSync})
	}
	if in.Sched {
		h.Sched = []opsim.SB{{Name: 90, Cron: 1}}
	}
	return h
}

// configText is the hook's --config answer.
func (in *EnableIn) configText() string {
	var b strings.Builder
	b.WriteString(`{"configVersion":"v1"`)
	if in.Startup != nil {
		fmt.Fprintf(&b, `,"onStartup":%d`, *in.Startup)
	}
	if in.Sched {
		fmt.Fprintf(&b, `,"schedule":[{"name":%q,"crontab":%q}]`, opsim.BindingName(90), opsim.CronName(1))
	}
	if len(in.Kube) > 0 {
		b.WriteString(`,"kubernetes":[`)
		for i, k := range in.Kube {
			if i > 0 {
				b.WriteString(",")
			}
			var nss []string
			for j := 0; j < k.nsCount(); j++ {
				nss = append(nss, strconv.Quote(enableNs(i, j)))
			}
			fmt.Fprintf(&b, `{"name":%q,"apiVersion":"v1","kind":%q,"namespace":{"nameSelector":{"matchNames":[%s]}},"allowFailure":%v,"executeHookOnSynchronization":%v`,
				opsim.BindingName(k.Name), k.Kind, strings.Join(nss, ","), k.Allow, k.ExecSync)
			if k.Queue != 0 {
				fmt.Fprintf(&b, `,"queue":%q`, opsim.QueueName(k.Queue))
			}
			if k.Group != 0 {
				fmt.Fprintf(&b, `,"group":%q`, opsim.GroupName(k.Group))
			}
			b.WriteString("}")
		}
		b.WriteString("]")
	}
	b.WriteString("}")
	return b.String()
}

func (k EnableKB) nsCount() int {
	if k.NsCount >= 2 {
		return 2
	}
	return 1
}

func goid() int64 {
	var buf [48]byte
	n := runtime.Stack(buf[:], false)
	s := strings.TrimPrefix(string(buf[:n]), "goroutine ")
	if i := strings.IndexByte(s, ' '); i > 0 {
		id, _ := strconv.ParseInt(s[:i], 10, 64)
		return id
	}
	return -1
}

func numAfter(prefix, s string) int {
	if !strings.HasPrefix(s, prefix) {
		return 3000
	}
	n, err := strconv.Atoi(s[len(prefix):])
	if err != nil {
		return 3000
	}
	return n
}

var enableOnce sync.Once

func runEnable(in EnableIn) (obs EnableObs) {
	enableOnce.Do(func() {
		kem.DefaultSyncTime = time.Millisecond
		os.Setenv("QUEUE_ACTIONS_METRICS", "no")
		log.SetDefaultLevel(log.LevelFatal)
	})
	dir, err := os.MkdirTemp("", "c06enable")
	if err != nil {
		obs.Err = "tmp: " + err.Error()
		return obs
	}
	defer os.RemoveAll(dir)
	hooksDir, tmpDir := filepath.Join(dir, "hooks"), filepath.Join(dir, "tmp")
	os.MkdirAll(hooksDir, 0o755)
	os.MkdirAll(tmpDir, 0o755)
	hookName := opsim.HookName(enableHookId)
	script := "#!/bin/sh\nif [ \"$1\" = \"--config\" ]; then\ncat <<'EOF'\n" + in.configText() + "\nEOF\nfi\nexit 0\n"
	if err := os.WriteFile(filepath.Join(hooksDir, hookName), []byte(script), 0o755); err != nil {
		obs.Err = "hook file: " + err.Error()
		return obs
	}

	// ---- the environment ----
	kem.DefaultFactoryStore.Reset()
	fc := fake.NewFakeCluster(fake.ClusterVersionV119)
	dyn, ok := fc.Client.Dynamic().(*dynamicfake.FakeDynamicClient)
	if !ok {
		obs.Err = "the fake cluster's dynamic client is not a FakeDynamicClient"
		return obs
	}
	posOfNs := map[string]int{}
	for i, k := range in.Kube {
		for j := 0; j < k.nsCount(); j++ {
			posOfNs[enableNs(i, j)] = i
		}
	}
	failing := map[[2]int]bool{}
	for _, f := range in.Fails {
		failing[f] = true
	}
	handlerG := goid()
	attempt := 0
	type listRec struct {
		pos  int
		fail bool
	}
	var lists []listRec // touched by the handler's goroutine only
	dyn.PrependReactor("list", "*", func(action clienttesting.Action) (bool, k8sruntime.Object, error) {
		if goid() != handlerG {
			return false, nil, nil // an informer's reflector
		}
		pos, known := posOfNs[action.GetNamespace()]
		if !known {
			return false, nil, nil
		}
		fail := failing[[2]int{attempt, pos}]
		lists = append(lists, listRec{pos, fail})
		if fail {
			return true, nil, fmt.Errorf("verif: the api server does not answer (attempt %d, binding at position %d)", attempt, pos)
		}
		return false, nil, nil
	})
	var wmu sync.Mutex
	watches := map[string]int{}
	dyn.PrependWatchReactor("*", func(action clienttesting.Action) (bool, watch.Interface, error) {
		w, err := dyn.Tracker().Watch(action.GetResource(), action.GetNamespace())
		if err != nil {
			return false, nil, err
		}
		wmu.Lock()
		watches[action.GetNamespace()]++
		wmu.Unlock()
		return true, w, nil
	})

	// ---- the operator ----
	ctx, cancel := context.WithCancel(context.Background())
	defer cancel()
	op, err := shell_operator.VerifAssemble(ctx, fc.Client, hooksDir, tmpDir, log.NewNop())
	if err != nil {
		obs.Err = "assemble: " + err.Error()
		return obs
	}
	defer op.KubeEventsManager.PauseHandleEvents()
	hk := op.VerifHookManager().GetHook(hookName)
	if hk == nil {
		obs.Err = "the hook was not loaded"
		return obs
	}
	cfgs := hk.GetConfig().OnKubernetesEvents
	if len(cfgs) != len(in.Kube) {
		obs.Err = "the loaded config has other kubernetes bindings than the case"
		return obs
	}
	monIds := make([]string, len(cfgs))
	monNum := map[string]int{}
	for i, c := range cfgs {
		if c.BindingName != opsim.BindingName(in.Kube[i].Name) {
			obs.Err = "the loaded config has the bindings in another order than the case"
			return obs
		}
		monIds[i] = c.Monitor.Metadata.MonitorId
		if _, dup := monNum[monIds[i]]; dup {
			obs.Err = "two bindings share a monitor id"
			return obs
		}
		monNum[monIds[i]] = enableMonBase + i
	}
	taskObs := func(t task.Task) opsim.TaskObs {
		o := opsim.TaskObs{Type: string(t.GetType()), Fail: t.GetFailureCount(), Ctxs: []opsim.CtxObs{}}
		switch q := t.GetQueueName(); {
		case q == "main":
			o.Queue = 0
		case q == "":
			o.Queue = -1
		default:
			o.Queue = numAfter("q", q)
		}
		hm := task_metadata.HookMetadataAccessor(t)
		o.Hook = 3000
		if hm.HookName == hookName {
			o.Hook = enableHookId
		}
		switch string(hm.BindingType) {
		case "kubernetes":
			o.BType = "BKube"
		case "schedule":
			o.BType = "BSchedule"
		default:
			o.BType = "BOnStartup"
		}
		o.Allow, o.ExecSync = hm.AllowFailure, hm.ExecuteOnSynchronization
		if hm.Group != "" {
			o.Group = numAfter("g", hm.Group)
		}
		for _, m := range hm.MonitorIDs {
			o.Mids = append(o.Mids, monNum[m]) // an unknown id (also "") is 0
		}
		for _, bc := range hm.BindingContext {
			c := opsim.CtxObs{Binding: numAfter("b", bc.Binding)}
			if bc.Metadata.Group != "" {
				c.Group = numAfter("g", bc.Metadata.Group)
			}
			switch {
			case string(bc.Metadata.BindingType) == "kubernetes" && bc.Type == kemtypes.TypeSynchronization:
				c.Kind = "Sync"
			case string(bc.Metadata.BindingType) == "kubernetes" && bc.Type == kemtypes.TypeEvent:
				c.Kind = "Event"
			case string(bc.Metadata.BindingType) == "schedule":
				c.Kind = "Schedule"
			default:
				c.Kind = "Startup"
			}
			// the payload of a Synchronization context is filled in when the hook runs; a task
			// fresh from the handler carries none
			c.Obj = len(bc.Objects)
			o.Ctxs = append(o.Ctxs, c)
		}
		return o
	}

	// ---- the task, made by the real bootstrapMainQueue ----
	op.VerifBootstrapMainQueue()
	var enableTask task.Task
	op.TaskQueues.GetMain().Iterate(func(t task.Task) {
		if t.GetType() == task_metadata.EnableKubernetesBindings && task_metadata.HookMetadataAccessor(t).HookName == hookName {
			if enableTask != nil {
				obs.Err = "two EnableKubernetesBindings tasks for one hook"
			}
			enableTask = t
		}
	})
	if obs.Err != "" {
		return obs
	}
	obs.Attempts = []EnableAttempt{}
	if enableTask == nil {
		// no kubernetes bindings: no task, nothing to probe
		obs.Probed = in.Probe
		return obs
	}

	// ---- the queue worker's loop on this task ----
	var heads []task.Task // HeadTasks of successful runs: what reaches the main queue
	succeeded := false
	for attempt = 0; attempt <= len(in.Fails); attempt++ {
		lists = nil
		res := op.VerifTaskHandler(enableTask)
		a := EnableAttempt{Status: string(res.Status), Calls: []EnableCall{}, Heads: []opsim.TaskObs{}, Other: len(res.TailTasks) + len(res.AfterTasks)}
		// LIST calls -> AddMonitor calls: a monitor lists each of its namespaces once
		seen := map[int]int{}
		for _, l := range lists {
			if l.fail {
				a.Calls = append(a.Calls, EnableCall{Mon: enableMonBase + l.pos, Fail: true})
				seen[l.pos] = 0
				continue
			}
			seen[l.pos]++
			if seen[l.pos] == in.Kube[l.pos].nsCount() {
				a.Calls = append(a.Calls, EnableCall{Mon: enableMonBase + l.pos})
				seen[l.pos] = 0
			}
		}
		for _, n := range seen {
			if n != 0 {
				obs.Err = "a monitor listed only a part of its namespaces"
			}
		}
		for _, t := range res.HeadTasks {
			a.Heads = append(a.Heads, taskObs(t))
		}
		for _, id := range monIds {
			a.Has = append(a.Has, op.KubeEventsManager.HasMonitor(id))
			a.Link = append(a.Link, hk.HookController.CanHandleKubeEvent(kemtypes.KubeEvent{MonitorId: id}))
		}
		obs.Attempts = append(obs.Attempts, a)
		if res.Status == "Success" {
			heads = append(heads, res.HeadTasks...)
			succeeded = true
			break
		}
		if res.Status != "Fail" {
			obs.Err = "unexpected task status " + string(res.Status)
			return obs
		}
		enableTask.IncrementFailureCount()
	}
	attempt = -1 // nothing fails any more
	if !in.Probe || !succeeded || obs.Err != "" {
		return obs
	}

	// ---- probe ----
	obs.Probed = true
	ch := op.KubeEventsManager.Ch()
	drain := func() []int {
		out := []int{}
		for {
			select {
			case ev := <-ch:
				out = append(out, monNum[ev.MonitorId])
			default:
				return out
			}
		}
	}
	afterWait := enableWait
	for i, k := range in.Kube {
		p := EnableProbe{After: []int{}}
		ns := enableNs(i, 0)
		for deadline := time.Now().Add(enableWait); ; {
			wmu.Lock()
			n := watches[ns]
			wmu.Unlock()
			if n > 0 {
				break
			}
			if time.Now().After(deadline) {
				obs.Err = fmt.Sprintf("probe %d: no informer watches the binding's namespace", i)
				break
			}
			time.Sleep(200 * time.Microsecond)
		}
		if obs.Err != "" {
			p.Before = drain()
			obs.Probe = append(obs.Probe, p)
			return obs
		}
		o := &unstructured.Unstructured{Object: map[string]interface{}{"apiVersion": "v1", "kind": k.Kind,
			"metadata": map[string]interface{}{"name": fmt.Sprintf("o%d", i), "namespace": ns}}}
		if _, err := dyn.Resource(enableGVR(k.Kind)).Namespace(ns).Create(ctx, o, metav1.CreateOptions{}); err != nil {
			obs.Err = fmt.Sprintf("probe %d: create: %v", i, err)
			return obs
		}
		// until the informer of the binding's current monitor has handled the new object (its event is
		// buffered or emitted a few instructions later).  Not Snapshot(): taking the snapshot of a locked
		// monitor discards the buffered events, as a Synchronization run does.
		for deadline := time.Now().Add(enableWait); ; {
			if m := op.KubeEventsManager.GetMonitor(monIds[i]); m != nil {
				if total, _ := m.SnapshotOperations(); total != nil && total.Count > 0 {
					break
				}
			}
			if time.Now().After(deadline) {
				obs.Err = fmt.Sprintf("probe %d: the binding's monitor never saw the new object", i)
				break
			}
			time.Sleep(200 * time.Microsecond)
		}
		p.Before = drain()
		if obs.Err != "" {
			obs.Probe = append(obs.Probe, p)
			return obs
		}
		// a successful run of a Synchronization task unlocks the monitors it names
		var unlock []string
		for _, t := range heads {
			for _, id := range task_metadata.HookMetadataAccessor(t).MonitorIDs {
				if id == monIds[i] {
					unlock = append(unlock, id)
				}
			}
		}
		if len(unlock) > 0 {
			done := make(chan struct{})
			go func() {
				for _, id := range unlock {
					hk.HookController.UnlockKubernetesEventsFor(id)
				}
				close(done)
			}()
			timeout := time.After(afterWait)
			unlocked := false
		collect:
			for len(p.After) == 0 || !unlocked {
				select {
				case ev := <-ch:
					p.After = append(p.After, monNum[ev.MonitorId])
				case <-done:
					unlocked, done = true, nil
				case <-timeout:
					afterWait = time.Second // the Event never came: do not wait as long for the next bindings
					break collect
				}
			}
		}
		p.After = append(p.After, drain()...)
		obs.Probe = append(obs.Probe, p)
	}
	return obs
}

// ---- rendering ----

func coqB(b bool) string { return core.CoqBool(b) }

func coqTaskObs(t opsim.TaskObs) string {
	ty := map[string]string{"HookRun": "HookRun", "EnableKubernetesBindings": "EnableKube", "EnableScheduleBindings": "EnableSched"}[t.Type]
	if ty == "" {
		ty = "EnableSched" // never what the model says
	}
	q := t.Queue
	if q < 0 {
		q = 1000
	}
	ctxs := core.CoqList(t.Ctxs, func(c opsim.CtxObs) string {
		return fmt.Sprintf("mkCtx %d %s %d %d", c.Binding, map[string]string{"Sync": "KSync", "Event": "KEvent", "Schedule": "KSchedule", "Startup": "KStartup"}[c.Kind], c.Group, c.Obj)
	})
	return fmt.Sprintf("mkTask %s %d %s %s %s %d %s %s %d %d", ty, t.Hook, t.BType, ctxs, coqB(t.Allow), t.Group,
		core.CoqList(t.Mids, core.CoqN), coqB(t.ExecSync), q, t.Fail)
}

func renderEnable(in EnableIn, obs *EnableObs, crash string) core.Case {
	var o EnableObs
	if obs != nil {
		o = *obs
	}
	h := in.hook()
	st := "None"
	if h.Startup != nil {
		st = fmt.Sprintf("(Some (%d)%%Z)", *h.Startup)
	}
	kbs := make([]string, len(in.Kube))
	for i, b := range in.Kube {
		kbs[i] = fmt.Sprintf("mkKb %d %d %d %s %s %d", b.Name, b.Queue, b.Group, coqB(b.Allow), coqB(b.ExecSync), enableMonBase+i)
	}
	sbs := core.CoqList(h.Sched, func(b opsim.SB) string {
		return fmt.Sprintf("mkSb %d %d %d %s %d", b.Name, b.Queue, b.Group, coqB(b.Allow), b.Cron)
	})
	hook := fmt.Sprintf("(mkHook %d false %s [%s] %s)", h.Id, st, strings.Join(kbs, "; "), sbs)
	fails := core.CoqList(in.Fails, func(f [2]int) string { return fmt.Sprintf("(%d, %d)", f[0], f[1]) })
	atts := core.CoqList(o.Attempts, func(a EnableAttempt) string {
		calls := core.CoqList(a.Calls, func(c EnableCall) string {
			if c.Fail {
				return fmt.Sprintf("AddFail %d", c.Mon)
			}
			return fmt.Sprintf("AddOk %d", c.Mon)
		})
		return fmt.Sprintf("mkAtt %s %s %s %s %s", calls, coqB(a.Status == "Success"), core.CoqList(a.Heads, coqTaskObs),
			core.CoqList(a.Has, coqB), core.CoqList(a.Link, coqB))
	})
	probe := "None"
	if o.Probed {
		probe = "(Some " + core.CoqList(o.Probe, func(p EnableProbe) string {
			return fmt.Sprintf("(%s, %s)", core.CoqList(p.Before, core.CoqN), core.CoqList(p.After, core.CoqN))
		}) + ")"
	}
	bad := crash != "" || o.Err != ""
	for _, a := range o.Attempts {
		if a.Other != 0 || (a.Status != "Success" && a.Status != "Fail") {
			bad = true
		}
	}
	c := core.Case{}
	c.Coq = fmt.Sprintf("CEnable %s %s\n %s\n %s %s", hook, fails, atts, probe, coqB(bad))
	c.JSON = map[string]any{"attempts": o.Attempts, "probe": o.Probe, "err": o.Err, "crash": crash,
		"note": "binding at position i has monitor number 101+i; calls = AddMonitor calls seen by the environment"}
	c.Key = c.Coq
	failed, later := 0, false
	for _, a := range o.Attempts {
		if a.Status == "Fail" {
			failed++
			if n := len(a.Calls); n > 0 && a.Calls[n-1].Fail && a.Calls[n-1].Mon > enableMonBase {
				later = true
			}
		}
	}
	c.Nontrivial = len(in.Kube) >= 2 && failed >= 1
	nb, nf := len(in.Kube), failed
	if nb > 4 {
		nb = 4
	}
	if nf > 3 {
		nf = 3
	}
	c.Tags = []string{"enable", fmt.Sprintf("enable-bindings:%d%s", nb, map[bool]string{true: "+"}[len(in.Kube) > 4]),
		fmt.Sprintf("enable-failed-runs:%d%s", nf, map[bool]string{true: "+"}[failed > 3])}
	if later {
		c.Tags = append(c.Tags, "enable-fails-after-first-binding")
	}
	names := map[int]bool{}
	multi := false
	for _, b := range in.Kube {
		if names[b.Name] {
			c.Tags = append(c.Tags, "enable-same-name-bindings")
			break
		}
		names[b.Name] = true
	}
	for _, b := range in.Kube {
		multi = multi || b.nsCount() > 1
	}
	if multi {
		c.Tags = append(c.Tags, "enable-multi-namespace")
	}
	if o.Probed {
		c.Tags = append(c.Tags, "enable-probed")
	}
	return c
}

// ---- generation ----

var enableKinds = []string{"ConfigMap", "Secret", "Pod", "Service"}

func enableCorpus() []EnableIn {
	kb := func(name, group int, execSync bool, kind string) EnableKB {
		return EnableKB{Name: name, Group: group, ExecSync: execSync, Kind: kind, NsCount: 1}
	}
	one := 1
	return []EnableIn{
		// the smallest member of the class: two bindings, the second one's monitor fails once
		{Kube: []EnableKB{kb(1, 0, true, "Pod"), kb(2, 0, true, "Secret")}, Fails: [][2]int{{0, 1}}, Probe: true},
		// no failure
		{Kube: []EnableKB{kb(1, 0, true, "ConfigMap"), kb(2, 1, false, "ConfigMap")}, Fails: [][2]int{}, Probe: true},
		// the only binding fails twice
		{Kube: []EnableKB{kb(1, 0, true, "ConfigMap")}, Fails: [][2]int{{0, 0}, {1, 0}}, Probe: true},
		// the failure moves towards the front
		{Kube: []EnableKB{kb(1, 1, true, "ConfigMap"), kb(2, 1, true, "Secret"), kb(3, 0, false, "Pod")}, Fails: [][2]int{{0, 2}, {1, 1}}, Probe: true},
		// C06_enable_hyp_met: same names, a group, three failed runs, several failures within one attempt
		{Kube: []EnableKB{{Name: 1, Group: 2, ExecSync: true, Kind: "ConfigMap", NsCount: 2}, {Name: 1, Queue: 3, Group: 2, Allow: true, Kind: "Service", NsCount: 1}, kb(3, 0, true, "Pod")},
			Fails: [][2]int{{0, 1}, {1, 0}, {1, 2}, {2, 2}}, Probe: true},
		// the hook also has onStartup and a schedule binding
		{Kube: []EnableKB{kb(1, 0, true, "ConfigMap"), kb(2, 0, true, "ConfigMap")}, Startup: &one, Sched: true, Fails: [][2]int{{0, 1}}, Probe: true},
		// failures that are never reached (a later attempt, a position the hook does not have)
		{Kube: []EnableKB{kb(1, 0, true, "Secret"), kb(2, 0, true, "Secret")}, Fails: [][2]int{{3, 0}, {0, 7}}, Probe: true},
		// no kubernetes binding: no task
		{Sched: true, Fails: [][2]int{{0, 0}}, Probe: true},
	}
}

func genEnable(r *core.Rng) EnableIn {
	n := 2 + r.Intn(3)
	switch {
	case r.Chance(12):
		n = 1
	case r.Chance(10):
		n = 5 + r.Intn(2)
	}
	in := EnableIn{Probe: !r.Chance(15), Fails: [][2]int{}}
	dup := r.Chance(12)
	for i := 0; i < n; i++ {
		b := EnableKB{Name: i + 1, Kind: enableKinds[r.Intn(len(enableKinds))], NsCount: 1, ExecSync: !r.Chance(25), Allow: r.Chance(25)}
		if dup && i > 0 && r.Chance(50) {
			b.Name = 1 + r.Intn(i)
		}
		if r.Chance(40) {
			b.Group = 1 + r.Intn(2)
		}
		if r.Chance(25) {
			b.Queue = 1 + r.Intn(2)
		}
		if r.Chance(25) {
			b.NsCount = 2
		}
		in.Kube = append(in.Kube, b)
	}
	if r.Chance(20) {
		o := r.Intn(3)
		in.Startup = &o
	}
	in.Sched = r.Chance(20)
	// failing attempts 0..k-1, each with one or two failing positions; rarely a gap (the attempts behind it are never reached)
	k := r.Intn(4)
	if r.Chance(10) {
		k = 4 + r.Intn(2)
	}
	a := 0
	for j := 0; j < k; j++ {
		if r.Chance(6) {
			a++
		}
		pos := r.Intn(n)
		if n >= 2 && r.Chance(60) {
			pos = 1 + r.Intn(n-1) // not the first binding
		}
		in.Fails = append(in.Fails, [2]int{a, pos})
		if r.Chance(30) {
			in.Fails = append(in.Fails, [2]int{a, r.Intn(n + 1)})
		}
		a++
	}
	// the pattern is a set in no particular order
	for i := len(in.Fails) - 1; i > 0; i-- {
		j := r.Intn(i + 1)
		in.Fails[i], in.Fails[j] = in.Fails[j], in.Fails[i]
	}
	return in
}

// enableExhaustive: every failure pattern over the first two attempts (any subset of the
// positions in each) for hooks with 1, 2 and 3 plain bindings: 4 + 16 + 64 cases.
func enableExhaustive() []EnableIn {
	var out []EnableIn
	for n := 1; n <= 3; n++ {
		for m0 := 0; m0 < 1<<n; m0++ {
			for m1 := 0; m1 < 1<<n; m1++ {
				in := EnableIn{Probe: true, Fails: [][2]int{}}
				for i := 0; i < n; i++ {
					in.Kube = append(in.Kube, EnableKB{Name: i + 1, ExecSync: true, Kind: enableKinds[i%len(enableKinds)], NsCount: 1})
					if m0>>i&1 == 1 {
						in.Fails = append(in.Fails, [2]int{0, i})
					}
					if m1>>i&1 == 1 {
						in.Fails = append(in.Fails, [2]int{1, i})
					}
				}
				out = append(out, in)
			}
		}
	}
	return out
}
