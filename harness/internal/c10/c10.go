// Package c10: correspondence driver for C10 (hook config: valid configs load faithfully,
// invalid ones are rejected, no crash).  Run feeds the REAL config.HookConfig.LoadAndValidate
// with (a) a generated document rendered as JSON and as YAML, (b) single-fault mutations of
// valid documents, (c) raw bytes; every call runs under recover.  The loaded HookConfig is
// dumped into a canonical JSON projection that C10_Model.cfg_json reproduces.
package c10

import (
	"encoding/json"
	"fmt"
	"sort"
	"strings"
	"time"

	"github.com/flant/shell-operator/pkg/hook/config"

	"verifharness/internal/core"
)

// ---- input ----

type Dur struct {
	Text string `json:"text"`
	Ns   int64  `json:"ns"`
}

type Input struct {
	Doc      any      `json:"doc,omitempty"`       // the document tree (nil: raw stream)
	Raw      []byte   `json:"raw,omitempty"`       // raw bytes (raw stream)
	IsRaw    bool     `json:"is_raw,omitempty"`    //
	Fault    string   `json:"fault,omitempty"`     // the injected fault ("" = valid document)
	Version  string   `json:"version,omitempty"`   // v0 / v1 (tags only)
	YamlSeed int64    `json:"yaml_seed,omitempty"` // style choices of the YAML rendering
	BadCron  []string `json:"bad_cron,omitempty"`  // oracle tables, labelled by the generator
	BadSel   []any    `json:"bad_sel,omitempty"`
	Durs     []Dur    `json:"durs,omitempty"`
	BadHook  []any    `json:"bad_hook,omitempty"`
	// a SESSION: 2-6 related documents loaded one after another by ONE process (and each of them
	// alone by a fresh process); the oracle tables above then hold for the whole session
	Rule    string `json:"rule,omitempty"` // inter-field streams: the rule and the variant (tags only)
	Family  string `json:"family,omitempty"`
	Session []Step `json:"session,omitempty"`
}

// Step is one load of a session.
type Step struct {
	Doc      any    `json:"doc,omitempty"`
	Raw      []byte `json:"raw,omitempty"`
	IsRaw    bool   `json:"is_raw,omitempty"`
	Fault    string `json:"fault,omitempty"`
	Version  string `json:"version,omitempty"`
	YamlSeed int64  `json:"yaml_seed,omitempty"`
	Note     string `json:"note,omitempty"` // how this document relates to the others of the session
}

// ---- observation ----

type One struct {
	Status string          `json:"status"` // loaded | rejected | panic
	Cfg    json.RawMessage `json:"cfg,omitempty"`
	Err    string          `json:"err,omitempty"`
	Text   string          `json:"text,omitempty"` // the bytes given to LoadAndValidate (documents only)
}

type Obs struct {
	Json  One       `json:"json"`
	Yaml  One       `json:"yaml"`
	Steps []StepObs `json:"steps,omitempty"` // session cases
}

// StepObs: one load of a session, observed in the session's process and alone in a fresh process.
type StepObs struct {
	Json      One `json:"json"`
	Yaml      One `json:"yaml"`
	AloneJson One `json:"alone_json"`
	AloneYaml One `json:"alone_yaml"`
}

func strsOrEmpty(l []string) []string {
	if l == nil {
		return []string{}
	}
	return l
}

func marshalOrNull(v any, isNil bool) any {
	if isNil {
		return nil
	}
	b, err := json.Marshal(v)
	if err != nil {
		return "<marshal error>"
	}
	var out any
	_ = json.Unmarshal(b, &out)
	return out
}

// project dumps the effective configuration (same format as C10_Model.cfg_json).
func project(c *config.HookConfig) map[string]any {
	res := map[string]any{"version": c.Version, "onStartup": nil, "settings": nil}
	if c.OnStartup != nil {
		res["onStartup"] = c.OnStartup.Order
	}
	if c.Settings != nil {
		res["settings"] = map[string]any{"intervalNs": int64(c.Settings.ExecutionMinInterval), "burst": c.Settings.ExecutionBurst}
	}
	scheds := []any{}
	for _, s := range c.Schedules {
		scheds = append(scheds, map[string]any{"name": s.BindingName, "queue": s.Queue, "allowFailure": s.AllowFailure,
			"group": s.Group, "includeSnapshotsFrom": strsOrEmpty(s.IncludeSnapshotsFrom), "crontab": s.ScheduleEntry.Crontab})
	}
	res["schedule"] = scheds
	kubes := []any{}
	for _, k := range c.OnKubernetesEvents {
		m := k.Monitor
		events := []string{}
		for _, e := range m.EventTypes {
			events = append(events, string(e))
		}
		var names, namespaces any
		if m.NameSelector != nil {
			names = strsOrEmpty(m.NameSelector.MatchNames)
		}
		var nsLsel any
		if m.NamespaceSelector != nil {
			if m.NamespaceSelector.NameSelector != nil {
				namespaces = strsOrEmpty(m.NamespaceSelector.NameSelector.MatchNames)
			}
			nsLsel = marshalOrNull(m.NamespaceSelector.LabelSelector, m.NamespaceSelector.LabelSelector == nil)
		}
		kubes = append(kubes, map[string]any{"name": k.BindingName, "queue": k.Queue, "allowFailure": k.AllowFailure,
			"group": k.Group, "includeSnapshotsFrom": strsOrEmpty(k.IncludeSnapshotsFrom), "events": events,
			"executeHookOnSynchronization": k.ExecuteHookOnSynchronization, "waitForSynchronization": k.WaitForSynchronization,
			"keepFullObjectsInMemory": k.KeepFullObjectsInMemory, "monitorKeepFullObjectsInMemory": m.KeepFullObjectsInMemory,
			"kind": m.Kind, "apiVersion": m.ApiVersion, "jqFilter": m.JqFilter, "names": names, "namespaces": namespaces,
			"labelSelector":          marshalOrNull(m.LabelSelector, m.LabelSelector == nil),
			"fieldSelector":          marshalOrNull(m.FieldSelector, m.FieldSelector == nil),
			"namespaceLabelSelector": nsLsel})
	}
	res["kubernetes"] = kubes
	val := []any{}
	for _, a := range c.KubernetesValidating {
		w := a.Webhook.ValidatingWebhook
		val = append(val, map[string]any{"name": a.BindingName, "group": a.Group, "includeSnapshotsFrom": strsOrEmpty(a.IncludeSnapshotsFrom),
			"failurePolicy": string(*w.FailurePolicy), "sideEffects": string(*w.SideEffects), "timeoutSeconds": int64(*w.TimeoutSeconds)})
	}
	res["kubernetesValidating"] = val
	mut := []any{}
	for _, a := range c.KubernetesMutating {
		w := a.Webhook.MutatingWebhook
		mut = append(mut, map[string]any{"name": a.BindingName, "group": a.Group, "includeSnapshotsFrom": strsOrEmpty(a.IncludeSnapshotsFrom),
			"failurePolicy": string(*w.FailurePolicy), "sideEffects": string(*w.SideEffects), "timeoutSeconds": int64(*w.TimeoutSeconds)})
	}
	res["kubernetesMutating"] = mut
	conv := []any{}
	for _, v := range c.KubernetesConversion {
		rules := []any{}
		for _, r := range v.Webhook.Rules {
			rules = append(rules, []any{r.FromVersion, r.ToVersion})
		}
		conv = append(conv, map[string]any{"name": v.BindingName, "group": v.Group, "includeSnapshotsFrom": strsOrEmpty(v.IncludeSnapshotsFrom),
			"crdName": v.Webhook.CrdName, "conversions": rules})
	}
	res["kubernetesCustomResourceConversion"] = conv
	return res
}

// loadOne calls the real entry point under recover.
func loadOne(data []byte, keepText bool) (one One) {
	if keepText {
		one.Text = string(data)
	}
	defer func() {
		if r := recover(); r != nil {
			one.Status = "panic"
			one.Err = fmt.Sprint(r)
			one.Cfg = nil
		}
	}()
	c := &config.HookConfig{}
	if err := c.LoadAndValidate(data); err != nil {
		one.Status = "rejected"
		one.Err = err.Error()
		if len(one.Err) > 300 {
			one.Err = one.Err[:300]
		}
		return one
	}
	b, err := json.Marshal(project(c))
	if err != nil {
		one.Status = "panic"
		one.Err = "projection: " + err.Error()
		return one
	}
	one.Status = "loaded"
	one.Cfg = b
	return one
}

func Run(in Input) Obs {
	if len(in.Session) > 0 {
		return runSession(in)
	}
	if in.IsRaw {
		one := loadOne(in.Raw, false)
		return Obs{Json: one, Yaml: one}
	}
	jb, err := json.Marshal(in.Doc)
	if err != nil {
		return Obs{Json: One{Status: "panic", Err: "harness: " + err.Error()}, Yaml: One{Status: "panic"}}
	}
	yb := []byte(ToYAML(in.Doc, core.NewRng(in.YamlSeed)))
	return Obs{Json: loadOne(jb, true), Yaml: loadOne(yb, true)}
}

// ---- a small YAML emitter (block style, random quoting / key order / flow fragments) ----

var yamlPlainUnsafe = map[string]bool{"": true, "y": true, "n": true, "yes": true, "no": true, "on": true, "off": true,
	"true": true, "false": true, "null": true, "~": true}

func plainSafe(s string) bool {
	if yamlPlainUnsafe[strings.ToLower(s)] {
		return false
	}
	for i, ch := range s {
		switch {
		case ch >= 'a' && ch <= 'z', ch >= 'A' && ch <= 'Z', ch == '_':
		case i > 0 && (ch >= '0' && ch <= '9' || ch == '-' || ch == '.'):
		default:
			return false
		}
	}
	return true
}

func yamlScalar(v any, r *core.Rng) string {
	switch x := v.(type) {
	case nil:
		return "null"
	case bool:
		if x {
			return "true"
		}
		return "false"
	case string:
		if plainSafe(x) && r.Chance(50) {
			return x
		}
		b, _ := json.Marshal(x)
		return string(b)
	default:
		b, _ := json.Marshal(x)
		return string(b)
	}
}

func yamlKey(k string) string {
	if plainSafe(k) {
		return k
	}
	b, _ := json.Marshal(k)
	return string(b)
}

func isScalar(v any) bool {
	switch x := v.(type) {
	case map[string]any:
		return false
	case []any:
		return false
	case []string:
		_ = x
		return false
	}
	return true
}

func normalize(v any) any {
	b, _ := json.Marshal(v)
	var out any
	dec := json.NewDecoder(strings.NewReader(string(b)))
	dec.UseNumber()
	_ = dec.Decode(&out)
	return out
}

func yamlLines(v any, indent int, r *core.Rng) []string {
	pad := strings.Repeat(" ", indent)
	switch x := v.(type) {
	case map[string]any:
		if len(x) == 0 {
			return []string{pad + "{}"}
		}
		keys := make([]string, 0, len(x))
		for k := range x {
			keys = append(keys, k)
		}
		sort.Strings(keys)
		for i := len(keys) - 1; i > 0; i-- { // shuffle: key order must not matter
			j := r.Intn(i + 1)
			keys[i], keys[j] = keys[j], keys[i]
		}
		var out []string
		for _, k := range keys {
			val := x[k]
			switch {
			case isScalar(val):
				out = append(out, pad+yamlKey(k)+": "+yamlScalar(val, r))
			case r.Chance(15): // flow fragment (JSON is YAML)
				b, _ := json.Marshal(val)
				out = append(out, pad+yamlKey(k)+": "+string(b))
			default:
				sub := yamlLines(val, indent+2, r)
				if len(sub) == 1 && (strings.TrimSpace(sub[0]) == "{}" || strings.TrimSpace(sub[0]) == "[]") {
					out = append(out, pad+yamlKey(k)+": "+strings.TrimSpace(sub[0]))
				} else {
					out = append(out, pad+yamlKey(k)+":")
					out = append(out, sub...)
				}
			}
		}
		return out
	case []any:
		if len(x) == 0 {
			return []string{pad + "[]"}
		}
		var out []string
		for _, it := range x {
			if isScalar(it) {
				out = append(out, pad+"- "+yamlScalar(it, r))
				continue
			}
			sub := yamlLines(it, indent+2, r)
			sub[0] = pad + "- " + strings.TrimPrefix(sub[0], pad+"  ")
			out = append(out, sub...)
		}
		return out
	default:
		return []string{pad + yamlScalar(v, r)}
	}
}

// ToYAML renders a document tree as YAML text.
func ToYAML(doc any, r *core.Rng) string {
	lines := yamlLines(normalize(doc), 0, r)
	head := ""
	if r.Chance(20) {
		head = "---\n"
	}
	if r.Chance(20) {
		head += "# generated\n"
	}
	return head + strings.Join(lines, "\n") + "\n"
}

// ---- rendering to Coq ----

func coqOne(o One) string {
	switch o.Status {
	case "loaded":
		s, ok := core.CoqJSONBytes(o.Cfg)
		if !ok {
			return "OPanic"
		}
		return "(OLoaded " + s + ")"
	case "rejected":
		return "ORejected"
	}
	return "OPanic"
}

func Render(in Input, obs *Obs, crash string) core.Case {
	if len(in.Session) > 0 {
		return renderSession(in, obs, crash)
	}
	c := core.Case{}
	var o Obs
	if obs != nil {
		o = *obs
	}
	if crash != "" {
		o = Obs{Json: One{Status: "panic", Err: crash}, Yaml: One{Status: "panic", Err: crash}}
	}
	doc := "None"
	if !in.IsRaw {
		doc = "(Some " + core.CoqJSON(normalize(in.Doc)) + ")"
	}
	durs := core.CoqList(in.Durs, func(d Dur) string { return fmt.Sprintf("(%s, %s)", core.CoqBytes(d.Text), core.CoqZ(d.Ns)) })
	sels := core.CoqList(in.BadSel, func(v any) string { return core.CoqJSON(normalize(v)) })
	hooks := core.CoqList(in.BadHook, func(v any) string { return core.CoqJSON(normalize(v)) })
	oj, oy := coqOne(o.Json), coqOne(o.Yaml)
	body := fmt.Sprintf("C10_Corr.mkCase %s %s %s %s %s %s", doc, core.CoqBool(in.Fault != ""),
		core.CoqList(in.BadCron, core.CoqBytes), sels, durs, hooks)
	if oj == oy {
		c.Coq = fmt.Sprintf("(C10_Corr.COne (let o := %s in\n  %s o o))", oj, body)
	} else {
		c.Coq = fmt.Sprintf("(C10_Corr.COne (%s\n  %s\n  %s))", body, oj, oy)
	}
	c.JSON = o
	stream := "doc"
	switch {
	case in.IsRaw:
		stream = "raw"
		c.Key = fmt.Sprintf("raw:%x", in.Raw)
		c.Nontrivial = len(in.Raw) > 0
	default:
		kb, _ := json.Marshal(in.Doc)
		c.Key = in.Fault + "|" + string(kb)
		c.Nontrivial = true
	}
	c.Tags = append(c.Tags, "result:"+o.Json.Status)
	if in.Fault != "" {
		c.Tags = append(c.Tags, "fault:"+strings.SplitN(in.Fault, " ", 2)[0])
	}
	if in.Rule != "" {
		c.Tags = append(c.Tags, "rule:"+in.Rule)
	}
	if !in.IsRaw {
		c.Tags = append(c.Tags, "version:"+in.Version)
		if in.Fault == "" {
			if m, ok := in.Doc.(map[string]any); ok {
				for k, v := range m {
					if l, ok := v.([]any); ok {
						c.Tags = append(c.Tags, fmt.Sprintf("%s:%d", k, len(l)))
						for _, it := range l {
							if im, ok := it.(map[string]any); ok {
								for f := range im {
									c.Tags = append(c.Tags, "opt:"+k+"."+f)
								}
							}
						}
					} else {
						c.Tags = append(c.Tags, "has:"+k)
					}
				}
			}
		}
	}
	_ = stream
	return c
}

var Driver = core.Driver[Input, Obs]{
	Spec: core.Spec{Property: "C10", Imports: []string{"Json", "C10_Model", "C10_Spec", "C10_Corr"}, Corr: "C10_Corr", Triggers: nil, ShrinkKey: "session",
		Rule: "HookConfig.LoadAndValidate under recover on (valid) grammar-generated v1/v0 documents with every option combination, each rendered as JSON and as YAML (both loads dumped into a canonical projection and compared with each other and with the model); (fault) every kind of single-fault mutation of a valid document (must be rejected); (interfield) the validity rules that relate TWO fields and that Go code checks after the schema, systematically: nameSelector.matchNames x a fieldSelector requirement on metadata.name for each of the five operator spellings x each position in lists of 1-3 requirements x three binding placements (must be rejected) with the valid neighbours (other field under the same operator, no nameSelector, empty matchNames, the two selectors in two bindings, namespace.nameSelector instead) which must load with the declared selectors; label selector operator x values (absent / empty / one / two) x requirement position at the six places a v1 binding declares a label selector; includeSnapshotsFrom unknown / ambiguous / known / duplicated-but-not-included / with group in all five binding arrays; duplicated binding names in all five arrays; allowFailure x queue x executeHookOnEvent / watchEvent x waitForSynchronization combinations (no rule: must load); (interfield-random) the same clashes and neighbours planted at a random binding and position of a random grammar-generated document; (raw) random / truncated / bit-flipped bytes (must not panic; no model); (session) 2-6 RELATED documents loaded one after another by ONE fresh process and each of them alone by its own fresh process: the same document again (other quoting / key order), a valid document and its one-fault variant in both orders, documents whose crontabs (@descriptors, @every, TZ= prefix, 5 and 6 fields), binding names, includes, groups, selectors differ only in letter case or blank placement - every load must meet P, the in-session observation must equal the alone observation (history independence), one document one outcome; the model threads the SchemasCache through the session; oracle tables for crontabs, label selectors, durations, webhook validity are labelled by the generator (session crontab / selector variants: by robfig/cron.v2 and apimachinery themselves, the external oracles, checked against a hand-labelled table); non-trivial = a document, non-empty raw bytes, or a session of at least 2 loads; distinct = distinct document+fault / distinct bytes / distinct list of documents"},
	Gen: Gen, Run: Run, Render: Render, PerShard: 150, Workers: 8, CaseTimout: 20 * time.Second,
}
