package c10

// Inter-field validity rules: rules that relate TWO fields of one binding (or a field of one
// binding and the names of the others), which the OpenAPI schema cannot express and which the Go
// code checks after the schema (config_v1.go CheckOnKubernetesEvent / CheckSchedule /
// CheckAdmission / CheckConversion, config.go CheckIncludeSnapshots).
//
// Stream "interfield" (systematic): for each rule, every way of breaking exactly that rule in a
// small valid document - each operator spelling x each list position x each place the rule applies
// (fault cases: must be rejected) - and the valid neighbours: the same fields without the clash
// (must load with exactly the declared bindings).  JSON and YAML renderings of every case are both
// loaded (Run).  Stream "interfield-random": the same clashes / neighbours planted into a random
// valid document of the grammar generator at a random binding and position.
//
// Field pairs for which the code enforces NO rule are generated as valid neighbours too
// (namespace.nameSelector next to namespace.labelSelector, group next to includeSnapshotsFrom,
// kubernetes bindings sharing a name that nobody includes, allowFailure / queue /
// executeHookOnEvent / watchEvent / waitForSynchronization combinations): they must load, and
// the Spec says what the effective binding is.

import (
	"fmt"

	"verifharness/internal/core"
)

var fieldOps = []string{"=", "==", "Equals", "!=", "NotEquals"}
var labelOps = []string{"In", "NotIn", "Exists", "DoesNotExist"}

// other requirements that may surround the one under test
var otherFieldExprs = []map[string]any{
	{"field": "status.phase", "operator": "Equals", "value": "Running"},
	{"field": "metadata.namespace", "operator": "!=", "value": "kube-system"},
	{"field": "spec.nodeName", "operator": "==", "value": "node-1"},
}
var otherLabelExprs = []map[string]any{
	{"key": "tier", "operator": "In", "values": []any{"cache", "db"}},
	{"key": "x.io/y", "operator": "DoesNotExist"},
}

// fieldExprs puts the requirement e at position pos of a list of n requirements.
func fieldExprs(e map[string]any, pos, n int) []any {
	out := []any{}
	o := 0
	for i := 0; i < n; i++ {
		if i == pos {
			out = append(out, clone(e))
		} else {
			out = append(out, clone(otherFieldExprs[o%len(otherFieldExprs)]))
			o++
		}
	}
	return out
}

func labelExprs(e map[string]any, pos, n int) []any {
	out := []any{}
	o := 0
	for i := 0; i < n; i++ {
		if i == pos {
			out = append(out, clone(e))
		} else {
			out = append(out, clone(otherLabelExprs[o%len(otherLabelExprs)]))
			o++
		}
	}
	return out
}

// positions (pos, n) of the requirement under test
var exprPlaces = [][2]int{{0, 1}, {0, 2}, {1, 2}, {0, 3}, {1, 3}, {2, 3}}

func (g *gen) ifCase(doc map[string]any, fault, rule, stream string, badSel []any) core.In[Input] {
	in := g.docInput(doc, true, fault)
	in.Rule = rule
	in.BadSel = badSel
	return core.In[Input]{Input: in, Stream: stream}
}

// labelExprBad: the operator does not fit the values (In / NotIn need values, Exists / DoesNotExist must have none).
func labelExprBad(op string, values []any, hasValues bool) bool {
	n := 0
	if hasValues {
		n = len(values)
	}
	switch op {
	case "In", "NotIn":
		return n == 0
	default:
		return n != 0
	}
}

// the places of a v1 document where a label selector can be declared
type selPlace struct {
	key       string // top-level array
	namespace bool   // <binding>.namespace.labelSelector instead of <binding>.labelSelector
}

var selPlaces = []selPlace{{"kubernetes", false}, {"kubernetes", true}, {"kubernetesValidating", false}, {"kubernetesValidating", true},
	{"kubernetesMutating", false}, {"kubernetesMutating", true}}

func baseBinding(key string) map[string]any {
	switch key {
	case "kubernetes":
		return map[string]any{"kind": "Pod"}
	case "kubernetesValidating":
		return map[string]any{"name": "a.b.c", "rules": []any{map[string]any{"apiGroups": []any{"stable.example.com"}, "apiVersions": []any{"v1"},
			"operations": []any{"CREATE"}, "resources": []any{"crontabs"}}}}
	case "kubernetesMutating":
		return map[string]any{"name": "mutator.example.com", "rules": []any{map[string]any{"apiGroups": []any{"stable.example.com"}, "apiVersions": []any{"v1"},
			"operations": []any{"UPDATE"}, "resources": []any{"crontabs"}}}}
	case "schedule":
		return map[string]any{"crontab": "*/5 * * * *"}
	case "kubernetesCustomResourceConversion":
		return map[string]any{"name": "conv", "crdName": "crontabs.stable.example.com",
			"conversions": []any{map[string]any{"fromVersion": "v1beta1", "toVersion": "v1"}}}
	}
	return map[string]any{}
}

func (g *gen) interfield(tier string) []core.In[Input] {
	const st = "interfield"
	var out []core.In[Input]
	add := func(doc map[string]any, fault, rule string, badSel ...any) {
		out = append(out, g.ifCase(doc, fault, rule, st, badSel))
	}
	names := func() map[string]any { return map[string]any{"matchNames": []any{"app", "pod-1"}} }

	// ---- rule 1: nameSelector.matchNames (non-empty) x fieldSelector requirement on metadata.name ----
	// binding placements: the only binding; the first of two; the second of two
	for _, op := range fieldOps {
		for _, pl := range exprPlaces {
			for place := 0; place < 3; place++ {
				if tier == "quick" && place > 0 && pl[1] == 3 {
					continue
				}
				e := map[string]any{"field": "metadata.name", "operator": op, "value": "other"}
				b := map[string]any{"kind": "Pod", "nameSelector": names(),
					"fieldSelector": map[string]any{"matchExpressions": fieldExprs(e, pl[0], pl[1])}}
				other := map[string]any{"kind": "ConfigMap", "name": "cm"}
				var kubes []any
				switch place {
				case 0:
					kubes = []any{b}
				case 1:
					kubes = []any{b, other}
				default:
					kubes = []any{other, b}
				}
				add(map[string]any{"configVersion": "v1", "kubernetes": kubes},
					fmt.Sprintf("interfield-name-vs-field (operator %s, requirement %d of %d, binding placement %d)", op, pl[0]+1, pl[1], place),
					"name-vs-field:clash:"+op)
			}
			// valid neighbours: same fields, no clash
			e := map[string]any{"field": "metadata.name", "operator": op, "value": "other"}
			// (a) another field under the same operator
			e2 := map[string]any{"field": "metadata.namespace", "operator": op, "value": "other"}
			add(map[string]any{"configVersion": "v1", "kubernetes": []any{map[string]any{"kind": "Pod", "nameSelector": names(),
				"fieldSelector": map[string]any{"matchExpressions": fieldExprs(e2, pl[0], pl[1])}}}}, "", "name-vs-field:other-field:"+op)
			// (b) the metadata.name requirement without a nameSelector
			add(map[string]any{"configVersion": "v1", "kubernetes": []any{map[string]any{"kind": "Pod",
				"fieldSelector": map[string]any{"matchExpressions": fieldExprs(e, pl[0], pl[1])}}}}, "", "name-vs-field:no-nameSelector:"+op)
			if pl[1] <= 2 || tier != "quick" {
				// (c) a nameSelector that names nothing
				add(map[string]any{"configVersion": "v1", "kubernetes": []any{map[string]any{"kind": "Pod", "nameSelector": map[string]any{"matchNames": []any{}},
					"fieldSelector": map[string]any{"matchExpressions": fieldExprs(e, pl[0], pl[1])}}}}, "", "name-vs-field:empty-matchNames:"+op)
				// (d) the two selectors in two different bindings
				add(map[string]any{"configVersion": "v1", "kubernetes": []any{
					map[string]any{"kind": "Pod", "name": "by-name", "nameSelector": names()},
					map[string]any{"kind": "Pod", "name": "by-field", "fieldSelector": map[string]any{"matchExpressions": fieldExprs(e, pl[0], pl[1])}}}},
					"", "name-vs-field:two-bindings:"+op)
				// (e) the namespace's nameSelector is another selector: no clash with a metadata.name requirement
				add(map[string]any{"configVersion": "v1", "kubernetes": []any{map[string]any{"kind": "Pod",
					"namespace":     map[string]any{"nameSelector": map[string]any{"matchNames": []any{"default"}}},
					"fieldSelector": map[string]any{"matchExpressions": fieldExprs(e, pl[0], pl[1])}}}}, "", "name-vs-field:namespace-nameSelector:"+op)
			}
		}
	}

	// ---- rule 2: label selector operator x values, at every place a label selector can stand ----
	valueChoices := []struct {
		has  bool
		vals []any
		tag  string
	}{{false, nil, "absent"}, {true, []any{}, "empty"}, {true, []any{"x"}, "one"}, {true, []any{"x", "y"}, "two"}}
	lplaces := [][2]int{{0, 1}, {0, 2}, {1, 2}}
	for _, sp := range selPlaces {
		for _, op := range labelOps {
			for _, vc := range valueChoices {
				for _, pl := range lplaces {
					if tier == "quick" && sp.key != "kubernetes" && pl[1] == 2 && pl[0] == 0 {
						continue
					}
					e := map[string]any{"key": "app", "operator": op}
					if vc.has {
						e["values"] = clone(vc.vals)
					}
					sel := map[string]any{"matchExpressions": labelExprs(e, pl[0], pl[1])}
					if pl[1] == 2 && pl[0] == 1 {
						sel["matchLabels"] = map[string]any{"app": "x"}
					}
					b := baseBinding(sp.key)
					where := sp.key + ".labelSelector"
					if sp.namespace {
						b["namespace"] = map[string]any{"labelSelector": sel}
						where = sp.key + ".namespace.labelSelector"
					} else {
						b["labelSelector"] = sel
					}
					doc := map[string]any{"configVersion": "v1", sp.key: []any{b}}
					if labelExprBad(op, vc.vals, vc.has) {
						add(doc, fmt.Sprintf("interfield-label-op-values (%s: operator %s, values %s, requirement %d of %d)", where, op, vc.tag, pl[0]+1, pl[1]),
							"label-op-values:bad:"+op+":"+vc.tag, clone(sel))
					} else if !(vc.has && len(vc.vals) == 0) {
						// (Exists / DoesNotExist with `values: []` is valid too, but the typed selector drops the empty
						// list - omitempty - so the projection cannot show the declared selector verbatim; not generated)
						add(doc, "", "label-op-values:ok:"+op+":"+vc.tag)
					}
				}
			}
		}
	}

	// ---- rule 3: includeSnapshotsFrom x the names of the kubernetes bindings ----
	incKeys := []string{"kubernetes", "schedule", "kubernetesValidating", "kubernetesMutating", "kubernetesCustomResourceConversion"}
	for _, key := range incKeys {
		for variant := 0; variant < 6; variant++ {
			kubes := []any{map[string]any{"kind": "Pod", "name": "pods"}, map[string]any{"kind": "ConfigMap", "name": "cm"}}
			b := baseBinding(key)
			fault := ""
			rule := ""
			switch variant {
			case 0: // unknown name, first
				b["includeSnapshotsFrom"] = []any{"nobody", "pods"}
				fault, rule = "interfield-include-unknown (first of two) in "+key, "include:unknown"
			case 1: // unknown name, last
				b["includeSnapshotsFrom"] = []any{"pods", "cm", "Pods"}
				fault, rule = "interfield-include-unknown (last of three, letter case) in "+key, "include:unknown"
			case 2: // ambiguous: two bindings carry the included name
				kubes = append(kubes, map[string]any{"kind": "Secret", "name": "pods"})
				b["includeSnapshotsFrom"] = []any{"cm", "pods"}
				fault, rule = "interfield-include-ambiguous in "+key, "include:ambiguous"
			case 3: // neighbour: the same duplicated name, nobody includes it
				kubes = append(kubes, map[string]any{"kind": "Secret", "name": "pods"})
				b["includeSnapshotsFrom"] = []any{"cm"}
				rule = "include:duplicate-name-not-included"
			case 4: // neighbour: both names known
				b["includeSnapshotsFrom"] = []any{"cm", "pods"}
				rule = "include:known"
			case 5: // neighbour: group and includeSnapshotsFrom together (the group adds what is not yet declared)
				kubes[0].(map[string]any)["group"] = "g"
				kubes[1].(map[string]any)["group"] = "g"
				b["group"] = "g"
				b["includeSnapshotsFrom"] = []any{"cm"}
				rule = "include:with-group"
			}
			doc := map[string]any{"configVersion": "v1"}
			if key == "kubernetes" {
				if variant == 5 {
					b["name"] = "third"
				}
				kubes = append(kubes, b)
			} else {
				doc[key] = []any{b}
			}
			doc["kubernetes"] = kubes
			add(doc, fault, rule)
		}
	}

	// ---- binding names shared by two bindings: only validating webhooks must have distinct names (and a shared
	// kubernetes name must not be included, rule 3); every other array keeps both bindings, in order ----
	for _, key := range incKeys {
		for _, third := range []bool{false, true} {
			b1, b2 := baseBinding(key), baseBinding(key)
			b1["name"], b2["name"] = "twin.example.com", "twin.example.com"
			l := []any{b1, b2}
			if third {
				b0 := baseBinding(key)
				b0["name"] = "single.example.com"
				l = []any{b1, b0, b2}
			}
			fault := ""
			if key == "kubernetesValidating" {
				fault = "interfield-duplicate-name in kubernetesValidating"
			}
			add(map[string]any{"configVersion": "v1", key: l}, fault, "duplicate-name:"+key)
		}
	}

	// ---- pairs of fields WITHOUT a rule in the code: valid, the Spec says what is loaded ----
	add(map[string]any{"configVersion": "v1", "kubernetes": []any{map[string]any{"kind": "Pod", "namespace": map[string]any{
		"nameSelector":  map[string]any{"matchNames": []any{"default"}},
		"labelSelector": map[string]any{"matchLabels": map[string]any{"env": "prod"}}}}}}, "", "free:namespace-name-and-label")
	for _, allow := range []any{nil, true, false} {
		for _, queue := range []any{nil, "", "q"} {
			for ev := 0; ev < 4; ev++ {
				for _, wait := range []any{nil, false} {
					if tier == "quick" && wait != nil && allow != nil {
						continue
					}
					b := map[string]any{"kind": "Pod"}
					if allow != nil {
						b["allowFailure"] = allow
					}
					if queue != nil {
						b["queue"] = queue
					}
					if wait != nil {
						b["waitForSynchronization"] = wait
					}
					switch ev {
					case 1:
						b["executeHookOnEvent"] = []any{}
					case 2:
						b["executeHookOnEvent"] = []any{"Deleted"}
						b["watchEvent"] = []any{"Added", "Modified"}
					case 3:
						b["watchEvent"] = []any{"Modified"}
					}
					add(map[string]any{"configVersion": "v1", "kubernetes": []any{b}}, "", "free:allowFailure-queue-events")
				}
			}
		}
	}
	return out
}

// plantInterfield puts a clash (fault) or a neighbour into a random valid v1 document.
func (g *gen) interfieldRandom(n int) []core.In[Input] {
	const st = "interfield-random"
	var out []core.In[Input]
	for len(out) < n {
		doc := g.validV1()
		its := items(doc, "kubernetes")
		if len(its) == 0 {
			continue
		}
		it := its[g.r.Intn(len(its))]
		op := g.pick(fieldOps)
		nexp := 1 + g.r.Intn(3)
		pos := g.r.Intn(nexp)
		e := map[string]any{"field": "metadata.name", "operator": op, "value": g.pick([]string{"other", "pod-1"})}
		switch g.r.Intn(5) {
		case 0, 1: // clash
			it["nameSelector"] = map[string]any{"matchNames": []any{"pod-0", "pod-1"}[:1+g.r.Intn(2)]}
			it["fieldSelector"] = map[string]any{"matchExpressions": fieldExprs(e, pos, nexp)}
			out = append(out, g.ifCase(doc, fmt.Sprintf("interfield-name-vs-field (operator %s, requirement %d of %d, random document)", op, pos+1, nexp),
				"name-vs-field:clash:"+op, st, nil))
		case 2: // neighbour: no names
			delete(it, "nameSelector")
			if g.opt(50) {
				it["nameSelector"] = map[string]any{"matchNames": []any{}}
			}
			it["fieldSelector"] = map[string]any{"matchExpressions": fieldExprs(e, pos, nexp)}
			out = append(out, g.ifCase(doc, "", "name-vs-field:no-names:"+op, st, nil))
		case 3: // neighbour: other field
			e["field"] = g.pick([]string{"metadata.namespace", "metadata.Name", "metadata.name ", "name"})
			it["nameSelector"] = map[string]any{"matchNames": []any{"pod-0"}}
			it["fieldSelector"] = map[string]any{"matchExpressions": fieldExprs(e, pos, nexp)}
			out = append(out, g.ifCase(doc, "", "name-vs-field:other-field:"+op, st, nil))
		default: // label operator x values at a random place
			lop := g.pick(labelOps)
			le := map[string]any{"key": "app", "operator": lop}
			var vals []any
			has := g.opt(70)
			if has {
				vals = []any{"x", "y"}[:g.r.Intn(3)]
				le["values"] = clone(vals)
			}
			ln := 1 + g.r.Intn(2)
			sel := map[string]any{"matchExpressions": labelExprs(le, g.r.Intn(ln), ln)}
			if g.opt(50) {
				ns, _ := it["namespace"].(map[string]any)
				if ns == nil {
					ns = map[string]any{}
					it["namespace"] = ns
				}
				ns["labelSelector"] = sel
			} else {
				it["labelSelector"] = sel
			}
			if has && len(vals) == 0 && !labelExprBad(lop, vals, has) {
				continue // valid, but `values: []` is not shown by the projection (see interfield)
			}
			if labelExprBad(lop, vals, has) {
				out = append(out, g.ifCase(doc, fmt.Sprintf("interfield-label-op-values (operator %s, %d values, random document)", lop, len(vals)),
					"label-op-values:bad:"+lop, st, []any{clone(sel)}))
			} else {
				out = append(out, g.ifCase(doc, "", "label-op-values:ok:"+lop, st, nil))
			}
		}
	}
	return out
}

// interfieldSessions: one process loads a clash and its valid neighbours one after another, in both orders
// (each also alone in a fresh process): the verdict of the inter-field check must not depend on what was loaded before.
func (g *gen) interfieldSessions() []core.In[Input] {
	var out []core.In[Input]
	mk := func(field, op string, withNames bool, pos, n int) map[string]any {
		b := map[string]any{"kind": "Pod", "fieldSelector": map[string]any{"matchExpressions": fieldExprs(map[string]any{"field": field, "operator": op, "value": "other"}, pos, n)}}
		if withNames {
			b["nameSelector"] = map[string]any{"matchNames": []any{"app"}}
		}
		return map[string]any{"configVersion": "v1", "kubernetes": []any{b}}
	}
	for i, op := range fieldOps {
		for _, clashFirst := range []bool{false, true} {
			pl := exprPlaces[(2*i+g.r.Intn(2))%len(exprPlaces)]
			b := g.newSession("interfield-name-vs-field")
			clash := func() {
				b.doc(mk("metadata.name", op, true, pl[0], pl[1]), true, "interfield-name-vs-field (operator "+op+")", "interfield:clash:"+op)
			}
			if clashFirst {
				clash()
			}
			b.doc(mk("metadata.namespace", op, true, pl[0], pl[1]), true, "", "interfield:other-field:"+op)
			b.doc(mk("metadata.name", op, false, pl[0], pl[1]), true, "", "interfield:no-nameSelector:"+op)
			if !clashFirst || g.r.Chance(50) {
				clash()
			}
			out = append(out, b.done("session-interfield"))
		}
	}
	return out
}
