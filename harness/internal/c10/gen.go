package c10

import (
	"encoding/json"
	"fmt"
	"strings"

	"verifharness/internal/core"
)

// ---- oracle pools: labelled by hand from the documentation of the external validators ----

var goodCrons = []string{"* * * * *", "*/5 * * * *", "0 2 */3 * * *", "*/10 * * * * *", "0 */3 * * *", "@hourly", "15 10 1 1 *"}
var badCrons = []string{"", "a b c d e", "* * * *", "61 * * * *", "* * * * * * *", "every minute", "*/0 * * * *", "*/+0 * * * *", "3-9/-00 * * * *"}

var goodDurs = []Dur{{"3s", 3e9}, {"1m", 60e9}, {"500ms", 5e8}, {"1h30m", 5400e9}, {"0", 0}, {"1.5s", 15e8}}
var badDurs = []string{"", "3", "abc", "1 s", "s"}

func goodSelectors() []any {
	return []any{
		map[string]any{"matchLabels": map[string]any{"app": "x"}},
		map[string]any{"matchExpressions": []any{map[string]any{"key": "tier", "operator": "In", "values": []any{"cache", "db"}}}},
		map[string]any{"matchLabels": map[string]any{"myLabel": "myLabelValue", "someKey": "someValue"},
			"matchExpressions": []any{map[string]any{"key": "k", "operator": "Exists"}}},
		map[string]any{"matchExpressions": []any{map[string]any{"key": "env", "operator": "NotIn", "values": []any{"dev"}},
			map[string]any{"key": "x.io/y", "operator": "DoesNotExist"}}},
	}
}

// selectors that pass the schema but that LabelSelectorAsSelector rejects
func badSelectors() []any {
	return []any{
		map[string]any{"matchExpressions": []any{map[string]any{"key": "tier", "operator": "In"}}},
		map[string]any{"matchExpressions": []any{map[string]any{"key": "tier", "operator": "Exists", "values": []any{"x"}}}},
		map[string]any{"matchLabels": map[string]any{"bad key!": "x"}},
		map[string]any{"matchLabels": map[string]any{"a": "bad value!"}},
	}
}

var fqNames = []string{"private-repo-policy.example.com", "my-crd-validator.example.com", "a.b.c"}
var kubeNamePool = []string{"monitor-pods", "cm", "pods", "configmap-content"}
var groups = []string{"g", "pods"}

type gen struct{ r *core.Rng }

func (g *gen) pick(xs []string) string { return xs[g.r.Intn(len(xs))] }
func (g *gen) opt(pct int) bool        { return g.r.Chance(pct) }

func (g *gen) rule() any {
	r := map[string]any{"apiGroups": []any{"stable.example.com"}, "apiVersions": []any{"v1"},
		"operations": []any{g.pick([]string{"CREATE", "UPDATE", "*"})}, "resources": []any{"crontabs"}}
	if g.opt(50) {
		r["scope"] = g.pick([]string{"Cluster", "Namespaced", "*"})
	}
	return r
}

// includes picks names that denote exactly one kubernetes binding.
func (g *gen) includes(uniq []string) []any {
	var out []any
	for _, n := range uniq {
		if g.opt(40) {
			out = append(out, n)
		}
	}
	return out
}

// validV1 builds a valid v1 document using every option with some probability.
func (g *gen) validV1() map[string]any {
	doc := map[string]any{"configVersion": "v1"}
	if g.opt(35) {
		doc["onStartup"] = g.r.Intn(20)
	}
	if g.opt(25) {
		d := goodDurs[g.r.Intn(len(goodDurs))]
		doc["settings"] = map[string]any{"executionMinInterval": d.Text, "executionBurst": 1 + g.r.Intn(5)}
	}
	// kubernetes bindings first: the other bindings refer to their names
	nk := []int{0, 1, 1, 2, 2, 3}[g.r.Intn(6)]
	if g.opt(6) {
		nk = 8 + g.r.Intn(8) // hooks with many kubernetes bindings (8-15)
	}
	var kubes []any
	count := map[string]int{}
	var effNames []string
	for i := 0; i < nk; i++ {
		k := map[string]any{"kind": g.pick([]string{"Pod", "ConfigMap", "ds", "Namespace"})}
		name := "kubernetes"
		if g.opt(70) {
			name = g.pick(kubeNamePool)
			k["name"] = name
		} else if g.opt(20) {
			k["name"] = ""
		}
		count[name]++
		effNames = append(effNames, name)
		if g.opt(40) {
			k["apiVersion"] = g.pick([]string{"v1", "apps/v1", "monitoring.coreos.com/v1"})
		}
		switch g.r.Intn(5) {
		case 0:
			k["executeHookOnEvent"] = g.events()
		case 1:
			k["watchEvent"] = g.events()
		case 2:
			k["executeHookOnEvent"] = g.events()
			k["watchEvent"] = g.events()
		}
		for _, f := range []string{"executeHookOnSynchronization", "waitForSynchronization", "keepFullObjectsInMemory", "allowFailure"} {
			if g.opt(35) {
				k[f] = g.r.Bool()
			}
		}
		if g.opt(35) {
			k["queue"] = g.pick([]string{"cache-pods", "q", ""})
		}
		if g.opt(35) {
			k["jqFilter"] = g.pick([]string{".metadata.labels", ".spec", "{a: .metadata.name}"})
		}
		if g.opt(15) {
			k["resynchronizationPeriod"] = "1h"
		}
		if g.opt(30) {
			k["group"] = g.pick(groups)
		}
		hasNames := false
		if g.opt(30) {
			names := []any{}
			for j := g.r.Intn(3); j > 0; j-- {
				names = append(names, fmt.Sprintf("pod-%d", j))
			}
			hasNames = len(names) > 0
			k["nameSelector"] = map[string]any{"matchNames": names}
		}
		if g.opt(30) {
			k["labelSelector"] = goodSelectors()[g.r.Intn(4)]
		}
		if g.opt(25) {
			field := g.pick([]string{"status.phase", "spec.nodeName", "metadata.namespace"})
			if !hasNames && g.opt(30) {
				field = "metadata.name"
			}
			k["fieldSelector"] = map[string]any{"matchExpressions": []any{map[string]any{"field": field,
				"operator": g.pick([]string{"=", "==", "Equals", "!=", "NotEquals"}), "value": "Pending"}}}
		}
		if g.opt(30) {
			ns := map[string]any{}
			if g.opt(60) {
				ns["nameSelector"] = map[string]any{"matchNames": []any{"default", "proj-stage"}}
			}
			if len(ns) == 0 || g.opt(40) {
				ns["labelSelector"] = goodSelectors()[g.r.Intn(4)]
			}
			k["namespace"] = ns
		}
		kubes = append(kubes, k)
	}
	var uniq []string
	seen := map[string]bool{}
	for _, n := range effNames {
		if count[n] == 1 && !seen[n] {
			uniq = append(uniq, n)
			seen[n] = true
		}
	}
	for _, k := range kubes {
		if inc := g.includes(uniq); len(inc) > 0 && g.opt(50) {
			k.(map[string]any)["includeSnapshotsFrom"] = inc
		}
	}
	if nk > 0 {
		doc["kubernetes"] = kubes
	}
	withCommon := func(b map[string]any) {
		if inc := g.includes(uniq); len(inc) > 0 && g.opt(50) {
			b["includeSnapshotsFrom"] = inc
		}
		if g.opt(35) {
			b["group"] = g.pick(groups)
		}
	}
	var scheds []any
	for i := []int{0, 1, 1, 2, 3}[g.r.Intn(5)]; i > 0; i-- {
		s := map[string]any{"crontab": g.pick(goodCrons)}
		if g.opt(55) {
			s["name"] = g.pick([]string{"Every 20 minutes", "incremental", "periodic-checking", ""})
		}
		if g.opt(35) {
			s["allowFailure"] = g.r.Bool()
		}
		if g.opt(35) {
			s["queue"] = g.pick([]string{"every-ten", "q", ""})
		}
		withCommon(s)
		scheds = append(scheds, s)
	}
	if len(scheds) > 0 {
		doc["schedule"] = scheds
	}
	admission := func(key string, names []string) {
		var items []any
		n := g.r.Intn(len(names) + 1)
		if n > 2 {
			n = 2
		}
		for i := 0; i < n; i++ {
			a := map[string]any{"name": names[i]}
			if g.opt(80) {
				a["rules"] = []any{g.rule()}
			}
			if g.opt(35) {
				a["failurePolicy"] = g.pick([]string{"Ignore", "Fail"})
			}
			if g.opt(35) {
				a["sideEffects"] = g.pick([]string{"None", "NoneOnDryRun"})
			}
			if g.opt(35) {
				a["timeoutSeconds"] = 1 + g.r.Intn(30)
			}
			if g.opt(25) {
				a["labelSelector"] = goodSelectors()[g.r.Intn(4)]
			}
			if g.opt(25) {
				a["namespace"] = map[string]any{"labelSelector": goodSelectors()[g.r.Intn(4)]}
			}
			if g.opt(15) {
				a["matchConditions"] = []any{map[string]any{"name": "c", "expression": "true"}}
			}
			withCommon(a)
			items = append(items, a)
		}
		if len(items) > 0 {
			doc[key] = items
		}
	}
	if g.opt(30) {
		admission("kubernetesValidating", fqNames)
	}
	if g.opt(20) {
		admission("kubernetesMutating", []string{"mutator.example.com", "m"})
	}
	if g.opt(20) {
		v := map[string]any{"name": g.pick([]string{"alpha1_to_alpha2", "conv"}), "crdName": "crontabs.stable.example.com",
			"conversions": []any{map[string]any{"fromVersion": "unstable.crontab.io/v1beta1", "toVersion": "stable.example.com/v1beta1"},
				map[string]any{"fromVersion": "v1beta2", "toVersion": "v1"}}}
		withCommon(v)
		doc["kubernetesCustomResourceConversion"] = []any{v}
	}
	if len(doc) < 2 { // minProperties: 2
		doc["onStartup"] = g.r.Intn(20)
	}
	return doc
}

func (g *gen) events() []any {
	out := []any{}
	for _, e := range []string{"Added", "Modified", "Deleted"} {
		if g.opt(55) {
			out = append(out, e)
		}
	}
	if g.opt(25) { // another order
		for i, j := 0, len(out)-1; i < j; i, j = i+1, j-1 {
			out[i], out[j] = out[j], out[i]
		}
	}
	return out
}

func (g *gen) validV0() map[string]any {
	doc := map[string]any{}
	if g.opt(40) {
		doc["onStartup"] = g.r.Intn(20)
	}
	var scheds []any
	for i := g.r.Intn(3); i > 0; i-- {
		s := map[string]any{"crontab": g.pick(goodCrons)}
		if g.opt(60) {
			s["name"] = g.pick([]string{"each 1 min", "each 5 min", ""})
		}
		if g.opt(40) {
			s["allowFailure"] = g.r.Bool()
		}
		scheds = append(scheds, s)
	}
	if scheds != nil {
		doc["schedule"] = scheds
	}
	var kubes []any
	for i := g.r.Intn(3); i > 0; i-- {
		k := map[string]any{}
		if g.opt(90) {
			k["kind"] = g.pick([]string{"pod", "namespace", "configmap"})
		}
		if g.opt(60) {
			k["name"] = g.pick([]string{"monitor pods", "ns", ""})
		}
		if g.opt(60) {
			ev := []any{}
			for _, e := range []string{"add", "update", "delete"} {
				if g.opt(55) {
					ev = append(ev, e)
				}
			}
			k["event"] = ev
		}
		if g.opt(35) {
			k["allowFailure"] = g.r.Bool()
		}
		if g.opt(30) {
			k["jqFilter"] = ".metadata.labels"
		}
		if g.opt(30) {
			k["objectName"] = "pod-0"
		}
		if g.opt(30) {
			k["selector"] = goodSelectors()[g.r.Intn(4)]
		}
		if g.opt(35) {
			ns := map[string]any{"matchNames": []any{"default"}}
			if g.opt(40) {
				ns["any"] = g.r.Bool()
			}
			k["namespaceSelector"] = ns
		}
		kubes = append(kubes, k)
	}
	if kubes != nil {
		doc["onKubernetesEvent"] = kubes
	}
	if len(doc) == 0 {
		doc["onStartup"] = 1
	}
	return doc
}

// ---- single-fault mutations ----

func clone(v any) any {
	b, _ := json.Marshal(v)
	var out any
	_ = json.Unmarshal(b, &out)
	return out
}

// items returns the binding items of an array-valued top-level key.
func items(doc map[string]any, key string) []map[string]any {
	l, _ := doc[key].([]any)
	var out []map[string]any
	for _, it := range l {
		if m, ok := it.(map[string]any); ok {
			out = append(out, m)
		}
	}
	return out
}

type mutated struct {
	doc     map[string]any
	what    string
	badCron []string
	badSel  []any
	badHook []any
}

func wrongType(g *gen, v any) any {
	switch v.(type) {
	case string:
		return []any{5, true, []any{"a"}, map[string]any{"a": "b"}}[g.r.Intn(4)]
	case bool:
		return []any{"false", 0, []any{}}[g.r.Intn(3)]
	case float64, int:
		return []any{"1", 1.5, true, []any{1}}[g.r.Intn(4)]
	case []any:
		return []any{"x", map[string]any{}, 3}[g.r.Intn(3)]
	case map[string]any:
		return []any{"x", []any{}, 3}[g.r.Intn(3)]
	}
	return "x"
}

// v0 decodes through typed structs: only mismatches that the typed decoder rejects are faults
func wrongTypeV0(g *gen, key string, v any) (any, bool) {
	switch v.(type) {
	case bool:
		return "yes", true
	case []any:
		return "add", true
	case map[string]any:
		return "x", true
	case string:
		if key == "crontab" {
			return 5, true // rendered as "5": not a crontab
		}
		return []any{"a"}, true
	}
	return nil, false
}

var v1Arrays = []string{"schedule", "kubernetes", "kubernetesValidating", "kubernetesMutating", "kubernetesCustomResourceConversion"}

// mutate injects one fault into a copy of a valid document; ok=false when the chosen fault does not apply.
func (g *gen) mutate(valid map[string]any, v1 bool, kind string) (m mutated, ok bool) {
	doc := clone(valid).(map[string]any)
	m.doc = doc
	arrays := v1Arrays
	if !v1 {
		arrays = []string{"schedule", "onKubernetesEvent"}
	}
	var present []string
	for _, a := range arrays {
		if len(items(doc, a)) > 0 {
			present = append(present, a)
		}
	}
	pickItem := func(keys ...string) (string, map[string]any) {
		var cands []string
		for _, k := range keys {
			if len(items(doc, k)) > 0 {
				cands = append(cands, k)
			}
		}
		if len(cands) == 0 {
			return "", nil
		}
		k := g.pick(cands)
		its := items(doc, k)
		return k, its[g.r.Intn(len(its))]
	}
	switch kind {
	case "unknown-top-field":
		doc[g.pick([]string{"extra", "onStartUp", "kubernetesEvents", "config_version"})] = 1
		return mutatedOf(m, "unknown-top-field"), true
	case "unknown-binding-field":
		if !v1 { // the v0 schema leaves binding items open
			return m, false
		}
		k, it := pickItem(arrays...)
		if it == nil {
			return m, false
		}
		if g.r.Chance(50) {
			// a near miss of a documented key, with a value the documented key would accept
			near := []struct {
				k string
				v any
			}{{"watchEvents", []any{"Added"}}, {"watchEventTypes", []any{"Added", "Deleted"}}, {"noexecuteHookOnEvent", []any{}},
				{"myexecuteHookOnEvent", []any{"Modified"}}, {"executeHookOnEvents", []any{"Added"}}, {"names", "x"}, {"queues", "q"},
				{"allowFailures", true}, {"groupName", "g"}, {"jqFilters", ".a"}, {"crontabs", "* * * * *"}, {"includeSnapshotsFromAll", []any{}},
				{"executeHookOnSynchronizations", false}, {"keepFullObjectsInMemorys", true}, {"apiVersions", "v1"}, {"kinds", "Pod"}}
			n := near[g.r.Intn(len(near))]
			if _, exists := it[n.k]; !exists {
				it[n.k] = n.v
				return mutatedOf(m, "unknown-binding-field (near miss "+n.k+") in "+k), true
			}
		}
		it[g.pick([]string{"extra", "Name", "crontabs", "mode", "includeSnapshots"})] = "x"
		return mutatedOf(m, "unknown-binding-field in "+k), true
	case "unknown-nested-field":
		if !v1 {
			return m, false
		}
		_, it := pickItem("kubernetes")
		if it == nil {
			if s, ok := doc["settings"].(map[string]any); ok {
				s["extra"] = 1
				return mutatedOf(m, "unknown-nested-field in settings"), true
			}
			return m, false
		}
		for _, f := range []string{"nameSelector", "labelSelector", "fieldSelector", "namespace"} {
			if sub, ok := it[f].(map[string]any); ok {
				sub["extra"] = "x"
				return mutatedOf(m, "unknown-nested-field in kubernetes."+f), true
			}
		}
		return m, false
	case "delete-required":
		k, it := pickItem(present...)
		if it == nil {
			return m, false
		}
		req := map[string][]string{"schedule": {"crontab"}, "kubernetes": {"kind"}, "kubernetesValidating": {"name"},
			"kubernetesMutating": {"name"}, "kubernetesCustomResourceConversion": {"name", "crdName", "conversions"}}[k]
		if !v1 && k == "schedule" {
			req = []string{"crontab"}
		}
		if len(req) == 0 {
			return m, false
		}
		f := g.pick(req)
		delete(it, f)
		return mutatedOf(m, "delete-required "+k+"."+f), true
	case "retarget-field":
		k, it := pickItem(present...)
		if it == nil {
			return m, false
		}
		ren := map[string][2]string{"schedule": {"crontab", "cron"}, "kubernetes": {"kind", "kinds"}, "kubernetesValidating": {"name", "names"},
			"kubernetesMutating": {"name", "names"}, "kubernetesCustomResourceConversion": {"crdName", "crd"}}[k]
		if ren[0] == "" {
			return m, false
		}
		v, has := it[ren[0]]
		if !has {
			return m, false
		}
		delete(it, ren[0])
		it[ren[1]] = v
		return mutatedOf(m, "retarget-field "+k+"."+ren[0]+"->"+ren[1]), true
	case "wrong-type":
		if g.opt(20) {
			if v, has := doc["onStartup"]; has {
				doc["onStartup"] = []any{"1", 1.5, true, []any{1}}[g.r.Intn(4)]
				_ = v
				return mutatedOf(m, "wrong-type onStartup"), true
			}
		}
		if g.opt(15) && len(present) > 0 {
			k := g.pick(present)
			doc[k] = []any{map[string]any{}, "x", 3}[g.r.Intn(3)]
			return mutatedOf(m, "wrong-type "+k+" (not an array)"), true
		}
		k, it := pickItem(present...)
		if it == nil {
			return m, false
		}
		var fields []string
		for f := range it {
			fields = append(fields, f)
		}
		sortStrings(fields)
		if len(fields) == 0 {
			return m, false
		}
		f := g.pick(fields)
		if v1 {
			if f == "resynchronizationPeriod" && false {
				return m, false
			}
			it[f] = wrongType(g, it[f])
			return mutatedOf(m, "wrong-type "+k+"."+f), true
		}
		nv, ok := wrongTypeV0(g, f, it[f])
		if !ok {
			return m, false
		}
		it[f] = nv
		if f == "crontab" {
			m.badCron = append(m.badCron, "5")
		}
		return mutatedOf(m, "wrong-type "+k+"."+f), true
	case "bad-enum":
		if v1 {
			_, it := pickItem("kubernetes")
			if it == nil {
				return m, false
			}
			it[g.pick([]string{"executeHookOnEvent", "watchEvent"})] = []any{"Added", "Bogus"}
			return mutatedOf(m, "bad-enum kubernetes event"), true
		}
		_, it := pickItem("onKubernetesEvent")
		if it == nil {
			return m, false
		}
		it["event"] = []any{"add", "bogus"}
		return mutatedOf(m, "bad-enum onKubernetesEvent.event"), true
	case "bad-crontab":
		_, it := pickItem("schedule")
		if it == nil {
			return m, false
		}
		c := g.pick(badCrons)
		it["crontab"] = c
		m.badCron = append(m.badCron, c)
		return mutatedOf(m, "bad-crontab "+fmt.Sprintf("%q", c)), true
	case "unknown-include":
		if !v1 {
			return m, false
		}
		k, it := pickItem(present...)
		if it == nil {
			return m, false
		}
		inc, _ := it["includeSnapshotsFrom"].([]any)
		it["includeSnapshotsFrom"] = append(inc, "no-such-binding")
		return mutatedOf(m, "unknown-include in "+k), true
	case "ambiguous-include":
		if !v1 {
			return m, false
		}
		ks := items(doc, "kubernetes")
		if len(ks) < 2 {
			return m, false
		}
		ks[0]["name"], ks[1]["name"] = "twice", "twice"
		for _, a := range v1Arrays { // drop includes that the renaming may have broken
			for _, it := range items(doc, a) {
				delete(it, "includeSnapshotsFrom")
			}
		}
		k, it := pickItem(present...)
		it["includeSnapshotsFrom"] = []any{"twice"}
		return mutatedOf(m, "ambiguous-include in "+k), true
	case "bad-selector":
		if !v1 {
			return m, false
		}
		k, it := pickItem("kubernetes", "kubernetesValidating", "kubernetesMutating")
		if it == nil {
			return m, false
		}
		if g.opt(30) { // schema level
			it["labelSelector"] = map[string]any{"matchExpressions": []any{map[string]any{"key": "a", "operator": "Foo"}}}
			return mutatedOf(m, "bad-selector (operator) in "+k+".labelSelector"), true
		}
		if k == "kubernetes" && g.opt(25) {
			it["fieldSelector"] = map[string]any{"matchExpressions": []any{map[string]any{"field": "a", "operator": "~", "value": "b"}}}
			return mutatedOf(m, "bad-selector (operator) in kubernetes.fieldSelector"), true
		}
		sel := badSelectors()[g.r.Intn(4)]
		m.badSel = append(m.badSel, sel)
		if k != "kubernetes" && g.opt(40) {
			it["namespace"] = map[string]any{"labelSelector": sel}
			m.badHook = append(m.badHook, clone(it))
			return mutatedOf(m, "bad-selector in "+k+".namespace.labelSelector"), true
		}
		it["labelSelector"] = sel
		m.badHook = append(m.badHook, clone(it))
		return mutatedOf(m, "bad-selector in "+k+".labelSelector"), true
	case "bad-namespace-selector":
		if !v1 {
			return m, false
		}
		_, it := pickItem("kubernetes")
		if it == nil {
			return m, false
		}
		sel := badSelectors()[g.r.Intn(4)]
		m.badSel = append(m.badSel, sel)
		it["namespace"] = map[string]any{"labelSelector": sel}
		return mutatedOf(m, "bad-namespace-selector in kubernetes.namespace.labelSelector"), true
	case "bad-version":
		if !v1 {
			doc["configVersion"] = []any{"v0", "v2", "", 1, nil}[g.r.Intn(5)]
			return mutatedOf(m, "bad-version (added to a v0 document)"), true
		}
		doc["configVersion"] = []any{"v2", "v0", "", "V1", 1, nil, true, []any{"v1"}}[g.r.Intn(8)]
		return mutatedOf(m, "bad-version"), true
	case "empty-array":
		if !v1 {
			return m, false
		}
		if g.opt(50) && len(present) > 0 {
			k := g.pick(present)
			doc[k] = []any{}
			return mutatedOf(m, "empty-array "+k), true
		}
		k, it := pickItem(present...)
		if it == nil {
			return m, false
		}
		it["includeSnapshotsFrom"] = []any{}
		return mutatedOf(m, "empty-array "+k+".includeSnapshotsFrom"), true
	case "bad-settings":
		if !v1 {
			return m, false
		}
		switch g.r.Intn(3) {
		case 0:
			doc["settings"] = map[string]any{"executionMinInterval": "3s"}
			return mutatedOf(m, "bad-settings (no executionBurst)"), true
		case 1:
			doc["settings"] = map[string]any{"executionMinInterval": g.pick(badDurs), "executionBurst": 1}
			return mutatedOf(m, "bad-settings (duration)"), true
		default:
			doc["settings"] = map[string]any{"executionBurst": 1}
			return mutatedOf(m, "bad-settings (no executionMinInterval)"), true
		}
	case "name-and-field-selector":
		if !v1 {
			return m, false
		}
		_, it := pickItem("kubernetes")
		if it == nil {
			return m, false
		}
		it["nameSelector"] = map[string]any{"matchNames": []any{"pod-0"}}
		// every operator spelling, any position among other requirements (the rule does not depend on either)
		nexp := 1 + g.r.Intn(3)
		it["fieldSelector"] = map[string]any{"matchExpressions": fieldExprs(map[string]any{"field": "metadata.name", "operator": g.pick(fieldOps), "value": "pod-1"}, g.r.Intn(nexp), nexp)}
		return mutatedOf(m, "name-and-field-selector"), true
	case "bad-api-version":
		if !v1 {
			return m, false
		}
		_, it := pickItem("kubernetes")
		if it == nil {
			return m, false
		}
		it["apiVersion"] = "a/b/c"
		return mutatedOf(m, "bad-api-version"), true
	case "bad-webhook":
		if !v1 {
			return m, false
		}
		its := items(doc, "kubernetesValidating")
		if len(its) == 0 {
			return m, false
		}
		it := its[g.r.Intn(len(its))]
		switch g.r.Intn(3) {
		case 0:
			it["name"] = g.pick([]string{"x", "a.b", "Not.Lower.Case"})
			m.badHook = append(m.badHook, clone(it))
			return mutatedOf(m, "bad-webhook (name not fully qualified)"), true
		case 1:
			it["timeoutSeconds"] = []any{0, 31, -1}[g.r.Intn(3)]
			m.badHook = append(m.badHook, clone(it))
			return mutatedOf(m, "bad-webhook (timeoutSeconds out of range)"), true
		default:
			if len(its) < 2 {
				return m, false
			}
			its[1]["name"] = its[0]["name"]
			return mutatedOf(m, "bad-webhook (duplicate names)"), true
		}
	case "too-few-properties":
		if !v1 {
			for k := range doc {
				delete(doc, k)
			}
			return mutatedOf(m, "too-few-properties (empty v0 document)"), true
		}
		for k := range doc {
			if k != "configVersion" {
				delete(doc, k)
			}
		}
		return mutatedOf(m, "too-few-properties (configVersion only)"), true
	}
	return m, false
}

func mutatedOf(m mutated, what string) mutated { m.what = what; return m }

func sortStrings(s []string) {
	for i := 1; i < len(s); i++ {
		for j := i; j > 0 && s[j] < s[j-1]; j-- {
			s[j], s[j-1] = s[j-1], s[j]
		}
	}
}

var faultKinds = []string{"unknown-top-field", "unknown-binding-field", "unknown-nested-field", "delete-required", "retarget-field",
	"wrong-type", "wrong-type", "bad-enum", "bad-crontab", "bad-crontab", "unknown-include", "ambiguous-include", "bad-selector", "bad-selector",
	"bad-namespace-selector", "bad-version", "empty-array", "bad-settings", "name-and-field-selector", "bad-api-version", "bad-webhook",
	"too-few-properties"}

func (g *gen) docInput(doc map[string]any, v1 bool, fault string) Input {
	in := Input{Doc: doc, Fault: fault, Version: "v0", YamlSeed: int64(g.r.Next() >> 1), Durs: goodDurs, BadCron: []string{""}}
	if v1 {
		in.Version = "v1"
	}
	return in
}

// ---- raw bytes ----

var nasty = []string{"configVersion: v1\nschedule:\n- crontab: \"*/0 * * * * *\"\n", "", "\x00", "{", "}", "[]", "- a", "a: &x [*x, *x]", "configVersion: v1\nonStartup: 1e400", "configVersion: v1\nonStartup: 99999999999999999999999",
	"[[[[[[[[[[[[[[[[[[[[[[[[[[[[[[[[", "{{{{{{{{{{{{{{{{", "configVersion: v1\nconfigVersion: v1\nonStartup: 1", "\tconfigVersion: v1", "---\n...\n---\n", "!!binary aGVsbG8=",
	"configVersion: !!str v1\nonStartup: !!int \"3\"", "configVersion: v1\nschedule:\n- crontab: !!binary aGVsbG8=", "? [a, b]\n: c", "configVersion: v1\nkubernetes:\n- kind: Pod\n  labelSelector: {matchLabels: {a: 1}}",
	"configVersion: v1\nsettings: {executionMinInterval: 1s, executionBurst: 1.0}", "configVersion: v1\nonStartup: 0x10", "configVersion: v1\nonStartup: .inf", "configVersion: v1\nonStartup: -0",
	"configVersion: v1\nkubernetesValidating:\n- name: a.b.c\n  rules: [{apiGroups: [\"\"], apiVersions: [\"\"], resources: [\"\"], operations: [\"*\"]}]",
	"configVersion: v1\nkubernetesValidating:\n- name: a.b.c\n  timeoutSeconds: 99999999999",
	"configVersion: v1\nkubernetesCustomResourceConversion:\n- name: a\n  crdName: b\n  conversions: [{fromVersion: \"\", toVersion: \"\"}]",
	"onKubernetesEvent:\n- namespaceSelector: {matchNames: null, any: null}\n  selector: {matchExpressions: [{}]}", "onKubernetesEvent: [null]", "schedule: [null]", "configVersion: v1\nschedule: [null]",
	"configVersion: v1\nkubernetes: [{kind: Pod, nameSelector: null}]", "configVersion: v1\nkubernetes: [{kind: Pod, namespace: {nameSelector: {matchNames: null}}}]",
	"\xff\xfe\x00c\x00o\x00n\x00f", "\xef\xbb\xbfconfigVersion: v1\nonStartup: 1", strings.Repeat("a: ", 2000), strings.Repeat("- ", 3000) + "x", strings.Repeat("[", 12000)}

const rawAlphabet = " \n\t:-{}[],\"'#&*!|>%@`abcv01"

func (g *gen) rawInputs(n int, texts []string) []core.In[Input] {
	var out []core.In[Input]
	add := func(b []byte, stream string) {
		out = append(out, core.In[Input]{Input: Input{IsRaw: true, Raw: b}, Stream: stream})
	}
	for i := 0; i < n; i++ {
		switch g.r.Intn(4) {
		case 0: // random bytes
			b := make([]byte, g.r.Intn(48))
			for k := range b {
				if g.r.Chance(70) {
					b[k] = rawAlphabet[g.r.Intn(len(rawAlphabet))]
				} else {
					b[k] = byte(g.r.Intn(256))
				}
			}
			add(b, "raw-random")
		case 1: // truncated valid config
			t := texts[g.r.Intn(len(texts))]
			add([]byte(t[:g.r.Intn(len(t)+1)]), "raw-truncated")
		default: // bit flips / byte edits in a valid config
			t := []byte(texts[g.r.Intn(len(texts))])
			for k := 1 + g.r.Intn(3); k > 0 && len(t) > 0; k-- {
				p := g.r.Intn(len(t))
				switch g.r.Intn(3) {
				case 0:
					t[p] ^= 1 << uint(g.r.Intn(8))
				case 1:
					t[p] = rawAlphabet[g.r.Intn(len(rawAlphabet))]
				default:
					t = append(t[:p], t[p+1:]...)
				}
			}
			add(t, "raw-flipped")
		}
	}
	return out
}

// Corpus: witnesses and documentation examples; runs first.
func (g *gen) corpus() []core.In[Input] {
	mk := func(doc map[string]any, v1 bool, fault string) core.In[Input] {
		st := "corpus"
		return core.In[Input]{Input: g.docInput(doc, v1, fault), Stream: st}
	}
	pod := map[string]any{"kind": "Pod"}
	out := []core.In[Input]{
		// F17 (repaired): a v0 binding without `event` used to get an empty event list
		mk(map[string]any{"onKubernetesEvent": []any{map[string]any{"kind": "Pod"}}}, false, ""),
		// F15 (repaired): v0 bindings keep full objects
		mk(map[string]any{"onKubernetesEvent": []any{map[string]any{"kind": "Pod", "event": []any{"add", "delete"}, "jqFilter": ".metadata.labels"}},
			"schedule": []any{map[string]any{"name": "each 1 min", "crontab": "0 */1 * * * *"}}, "onStartup": 1}, false, ""),
		mk(map[string]any{"configVersion": "v1", "kubernetes": []any{pod}}, true, ""),
		// group merge (HOOKS.md "Group binding context example")
		mk(map[string]any{"configVersion": "v1",
			"schedule": []any{map[string]any{"name": "periodic-checking", "crontab": "0 */3 * * *", "group": "pods"}},
			"kubernetes": []any{map[string]any{"name": "monitor-pods", "apiVersion": "v1", "kind": "Pod", "jqFilter": ".metadata.labels", "group": "pods"},
				map[string]any{"name": "configmap-content", "apiVersion": "v1", "kind": "ConfigMap", "nameSelector": map[string]any{"matchNames": []any{"settings-for-my-hook"}}, "jqFilter": ".data", "group": "pods"}}}, true, ""),
		// observation: two unnamed kubernetes bindings in one group (both called "kubernetes")
		mk(map[string]any{"configVersion": "v1", "kubernetes": []any{map[string]any{"kind": "Pod", "group": "g"}, map[string]any{"kind": "ConfigMap", "group": "g"}},
			"schedule": []any{map[string]any{"crontab": "* * * * *", "group": "g"}}}, true, ""),
		// declared duplicates are kept
		mk(map[string]any{"configVersion": "v1", "kubernetes": []any{map[string]any{"kind": "Pod", "name": "a", "includeSnapshotsFrom": []any{"a", "a"}, "group": "g"}}}, true, ""),
		// snapshots example of HOOKS.md
		mk(map[string]any{"configVersion": "v1",
			"schedule": []any{map[string]any{"name": "periodic-checking", "crontab": "0 */3 * * *", "includeSnapshotsFrom": []any{"monitor-pods", "configmap-content"}}},
			"kubernetes": []any{map[string]any{"name": "configmap-content", "kind": "ConfigMap", "nameSelector": map[string]any{"matchNames": []any{"settings-for-my-hook"}},
				"executeHookOnSynchronization": false, "executeHookOnEvent": []any{}},
				map[string]any{"name": "monitor-pods", "kind": "Pod", "jqFilter": ".metadata.labels", "includeSnapshotsFrom": []any{"configmap-content"}}}}, true, ""),
		mk(map[string]any{"configVersion": "v1", "settings": map[string]any{"executionMinInterval": "3s", "executionBurst": 1},
			"kubernetes": []any{map[string]any{"name": "all-pods-in-ns", "kind": "pod", "executeHookOnEvent": []any{"Modified"}, "queue": "handle-pods-queue"}}}, true, ""),
		// faults
		mk(map[string]any{"configVersion": "v1", "kubernetes": []any{pod, map[string]any{"kind": "ConfigMap"}},
			"schedule": []any{map[string]any{"crontab": "* * * * *", "includeSnapshotsFrom": []any{"kubernetes"}}}}, true, "ambiguous-include (two default names)"),
		mk(map[string]any{"configVersion": "v2", "onStartup": 1}, true, "bad-version"),
		// F22 (repaired): a zero step in a crontab field sent robfig/cron.v2 into an endless loop, LoadAndValidate never returned (found by the raw bit-flip stream)
		g.f22(map[string]any{"configVersion": "v1", "schedule": []any{map[string]any{"crontab": "*/0 * * * *"}}}, true, "*/0 * * * *"),
		g.f22(map[string]any{"schedule": []any{map[string]any{"crontab": "* * * * */0"}}}, false, "* * * * */0"),
		g.f22(map[string]any{"configVersion": "v1", "schedule": []any{map[string]any{"crontab": "*/5 * * * *"}, map[string]any{"crontab": "0 1-5/00 * * * *"}}}, true, "0 1-5/00 * * * *"),
		// ... and so did a SIGNED zero step, which the first guard did not match (repaired 0fa9dda): cron.v2 reads the step with Atoi
		g.f22(map[string]any{"configVersion": "v1", "schedule": []any{map[string]any{"crontab": "*/+0 * * * *"}}}, true, "*/+0 * * * *"),
		g.f22(map[string]any{"schedule": []any{map[string]any{"crontab": "* */-0 * * *"}}}, false, "* */-0 * * *"),
		g.f22(map[string]any{"configVersion": "v1", "schedule": []any{map[string]any{"crontab": "0 1-5/+00 * * * *"}}}, true, "0 1-5/+00 * * * *"),
		// F18 (repaired): an invalid namespace.labelSelector of a kubernetes binding used to be accepted
		g.f18(map[string]any{"matchExpressions": []any{map[string]any{"key": "tier", "operator": "In"}}}),
		g.f18(map[string]any{"matchLabels": map[string]any{"bad key!": "x"}}),
		g.f18(map[string]any{"matchExpressions": []any{map[string]any{"key": "tier", "operator": "Exists", "values": []any{"x"}}}}),
		mk(map[string]any{"configVersion": "v1", "onStartup": 1.5}, true, "wrong-type onStartup"),
	}
	return out
}

func (g *gen) f22(doc map[string]any, v1 bool, cron string) core.In[Input] {
	in := g.docInput(doc, v1, "bad-crontab (zero step) "+cron)
	in.BadCron = append(in.BadCron, cron)
	return core.In[Input]{Input: in, Stream: "corpus"}
}

func (g *gen) f18(sel map[string]any) core.In[Input] {
	in := g.docInput(map[string]any{"configVersion": "v1", "kubernetes": []any{map[string]any{"kind": "Pod", "namespace": map[string]any{"labelSelector": sel}}}},
		true, "bad-namespace-selector in kubernetes.namespace.labelSelector (F18 witness)")
	in.BadSel = []any{sel}
	return core.In[Input]{Input: in, Stream: "corpus"}
}

func Gen(r *core.Rng, tier string) ([]core.In[Input], bool) {
	g := &gen{r: r}
	nValid, nFault, nRaw := 300, 600, 2000
	switch tier {
	case "thorough":
		nValid, nFault, nRaw = 9000, 18000, 60000
	case "search":
		nValid, nFault, nRaw = 1500, 3000, 6000
	}
	ins := g.corpus()
	// inter-field rules: systematic clash / neighbour pairs first (small documents), then planted into random documents
	ins = append(ins, g.interfield(tier)...)
	nIF := 120
	switch tier {
	case "thorough":
		nIF = 6000
	case "search":
		nIF = 1000
	}
	ins = append(ins, g.interfieldRandom(nIF)...)
	var texts []string
	for i := 0; i < nValid; i++ {
		v1 := !g.r.Chance(25)
		var doc map[string]any
		if v1 {
			doc = g.validV1()
		} else {
			doc = g.validV0()
		}
		in := g.docInput(doc, v1, "")
		ins = append(ins, core.In[Input]{Input: in, Stream: "valid"})
		if len(texts) < 400 {
			jb, _ := json.Marshal(doc)
			texts = append(texts, string(jb), ToYAML(doc, core.NewRng(in.YamlSeed)))
		}
	}
	for i := 0; i < nFault; {
		v1 := !g.r.Chance(25)
		var doc map[string]any
		if v1 {
			doc = g.validV1()
		} else {
			doc = g.validV0()
		}
		kind := faultKinds[i%len(faultKinds)]
		var m mutated
		ok := false
		for try := 0; try < 6 && !ok; try++ {
			m, ok = g.mutate(doc, v1, kind)
			if !ok {
				if v1 {
					doc = g.validV1()
				} else {
					v1 = true
					doc = g.validV1()
				}
			}
		}
		if !ok {
			kind = "unknown-top-field"
			m, _ = g.mutate(doc, v1, kind)
		}
		in := g.docInput(m.doc, v1, m.what)
		in.BadCron, in.BadSel, in.BadHook = append(in.BadCron, m.badCron...), m.badSel, m.badHook
		ins = append(ins, core.In[Input]{Input: in, Stream: "fault"})
		i++
	}
	sess := g.sessions(tier, texts)
	for _, s := range nasty {
		ins = append(ins, core.In[Input]{Input: Input{IsRaw: true, Raw: []byte(s)}, Stream: "raw-corpus"})
	}
	ins = append(ins, g.rawInputs(nRaw, texts)...)
	// the sessions are spread evenly over the run (each costs several fresh processes; the workers and the Coq
	// shards take contiguous chunks of the list)
	if len(sess) > 0 {
		merged := make([]core.In[Input], 0, len(ins)+len(sess))
		k := 0
		for i, in := range ins {
			for k < len(sess) && k*len(ins) <= i*len(sess) {
				merged = append(merged, sess[k])
				k++
			}
			merged = append(merged, in)
		}
		merged = append(merged, sess[k:]...)
		ins = merged
	}
	return ins, false
}
