package c10

// Generators of SESSIONS (several loads in one process): sequences of 2-6 RELATED documents.
//
//   session-corpus   hand-written pairs, both orders (the crontab constructs robfig/cron.v2 is strict about)
//   session-cron     a schedule document whose crontab varies in letter case / blank placement / TZ= prefix /
//                    number of fields only: every base x transform pair (systematic list, sampled in the quick
//                    tier), longer random walks over the variants, two variants inside one document
//   session-fault    a valid document of the full grammar and its one-fault variant (every fault kind), both orders
//   session-same     the same document again (other YAML quoting / key order / flow fragments), also around
//                    unrelated documents and raw bytes
//   session-names    binding names, includeSnapshotsFrom references, groups, queues, kinds, label-selector keys /
//                    values / operators, configVersion, keys differing in letter case or blanks only
//
// Oracles per string / per value: a crontab is labelled by robfig/cron.v2 itself (cron.Parse in the generator
// process; a zero step, on which cron.Parse does not return, is labelled bad without calling it), a label selector by
// apimachinery's LabelSelectorAsSelector itself; both are checked against hand-labelled tables on every run.

import (
	"encoding/json"
	"fmt"
	"io"
	"log"
	"os"
	"strconv"
	"strings"
	"unicode"

	"gopkg.in/robfig/cron.v2"
	metav1 "k8s.io/apimachinery/pkg/apis/meta/v1"

	"verifharness/internal/core"
)

// ---- oracles ----

func zeroStep(s string) bool {
	for _, f := range strings.Fields(s) {
		for _, part := range strings.Split(f, ",") {
			if i := strings.Index(part, "/"); i >= 0 {
				if n, err := strconv.Atoi(part[i+1:]); err == nil && n == 0 {
					return true
				}
			}
		}
	}
	return false
}

// cronAccepts: does robfig/cron.v2 take this string as a crontab (zero step: no, it would never return).
func cronAccepts(s string) bool {
	if zeroStep(s) {
		return false
	}
	_, err := cron.Parse(s)
	return err == nil
}

var cronHandTable = []struct {
	s  string
	ok bool
}{
	{"@daily", true}, {"@Daily", false}, {"@DAILY", false}, {" @daily", false}, {"@daily ", false}, {"@midnight", true}, {"@annually", true},
	{"@every 1h", true}, {"@every 1H", false}, {"@every  1h", false}, {"@Every 1h", false}, {"@every 1h ", false}, {"@every 1h30m", true},
	{"TZ=UTC 0 5 * * *", true}, {"tz=UTC 0 5 * * *", false}, {"Tz=UTC 0 5 * * *", false}, {"TZ=UTC  0 5 * * *", true}, {" TZ=UTC 0 5 * * *", false},
	{"TZ=UTC @daily", true}, {"TZ=UTC @Daily", false}, {"TZ=UTC", false},
	{"0 0 * * mon", true}, {"0 0 * * MON", true}, {"0 0 * * Mon", true}, {" 0 0 * * mon ", true}, {"0  0 * * mon", true}, {"0\t0 * * mon", true},
	{"0 0 1 JAN *", true}, {"0 0 * * mon-fri", true}, {"30 6 ? * 1,3", true},
	{"0 5 * * *", true}, {"0 0 5 * * *", true}, {"0 5 * *", false}, {"0 0 0 5 * * *", false}, {"", false}, {"*/0 * * * *", false}, {"*/+0 * * * *", false}, {"*/-0 * * * *", false}, {"*/+5 * * * *", true}, {"61 * * * *", false},
}

func selAccepts(sel any) bool {
	b, err := json.Marshal(sel)
	if err != nil {
		return false
	}
	var ls metav1.LabelSelector
	if err := json.Unmarshal(b, &ls); err != nil {
		return false
	}
	_, err = metav1.LabelSelectorAsSelector(&ls)
	return err == nil
}

func ml(k, v string) map[string]any { return map[string]any{"matchLabels": map[string]any{k: v}} }
func me(k, op string, vals ...any) map[string]any {
	e := map[string]any{"key": k, "operator": op}
	if vals != nil {
		e["values"] = vals
	}
	return map[string]any{"matchExpressions": []any{e}}
}

var selHandTable = []struct {
	sel any
	ok  bool
}{
	{ml("app", "web"), true}, {ml("APP", "web"), true}, {ml("App", "WEB"), true}, {ml(" app", "web"), false}, {ml("app ", "web"), false},
	{ml("app", " web"), false}, {ml("app", "web "), false}, {ml("app", "my web"), false},
	{me("tier", "In", "cache"), true}, {me("tier", "In", "Cache"), true}, {me("tier", "In", " cache"), false}, {me("TIER", "In", "cache"), true},
	{me("tier", "In"), false}, {me("tier", "Exists"), true},
}

// oracleSelfCheck: the hand-labelled tables against the libraries.  A disagreement is a defect of this harness
// (or another library version): stop loudly rather than label documents wrongly.
func oracleSelfCheck() {
	for _, e := range cronHandTable {
		if cronAccepts(e.s) != e.ok {
			panic(fmt.Sprintf("C10 harness: crontab oracle: cron.v2 says %v for %q, the hand-labelled table says %v", !e.ok, e.s, e.ok))
		}
	}
	for _, e := range selHandTable {
		if selAccepts(e.sel) != e.ok {
			b, _ := json.Marshal(e.sel)
			panic(fmt.Sprintf("C10 harness: selector oracle: apimachinery says %v for %s, the hand-labelled table says %v", !e.ok, b, e.ok))
		}
	}
}

// ---- string transformations: letter case and blank placement ----

type strT struct {
	name string
	f    func(string) string
}

func firstLetter(s string, f func(rune) rune) string {
	rs := []rune(s)
	for i, r := range rs {
		if unicode.IsLetter(r) {
			rs[i] = f(r)
			break
		}
	}
	return string(rs)
}

func lastLetter(s string, f func(rune) rune) string {
	rs := []rune(s)
	for i := len(rs) - 1; i >= 0; i-- {
		if unicode.IsLetter(rs[i]) {
			rs[i] = f(rs[i])
			break
		}
	}
	return string(rs)
}

var caseBlankTs = []strT{
	{"upper", strings.ToUpper},
	{"lower", strings.ToLower},
	{"title", func(s string) string { return firstLetter(s, unicode.ToUpper) }},
	{"last-upper", func(s string) string { return lastLetter(s, unicode.ToUpper) }},
	{"lead-blank", func(s string) string { return " " + s }},
	{"trail-blank", func(s string) string { return s + " " }},
	{"double-blank", func(s string) string { return strings.Replace(s, " ", "  ", 1) }},
	{"all-double-blank", func(s string) string { return strings.ReplaceAll(s, " ", "  ") }},
	{"tab", func(s string) string { return strings.Replace(s, " ", "\t", 1) }},
}

// crontab-only transformations: the TZ= prefix and the number of fields
var cronOnlyTs = []strT{
	{"tz-add", func(s string) string {
		if strings.HasPrefix(s, "TZ=") {
			return strings.TrimPrefix(s[strings.Index(s, " ")+1:], " ")
		}
		return "TZ=UTC " + s
	}},
	{"tz-lower", func(s string) string {
		if strings.HasPrefix(s, "TZ=") {
			return "tz=" + s[3:]
		}
		return "tz=UTC " + s
	}},
	{"tz-title", func(s string) string {
		if strings.HasPrefix(s, "TZ=") {
			return "Tz=" + s[3:]
		}
		return "Tz=UTC " + s
	}},
	{"seconds-field", func(s string) string { // 5 fields <-> 6 fields
		tz, rest := "", s
		if strings.HasPrefix(s, "TZ=") {
			i := strings.Index(s, " ")
			tz, rest = s[:i+1], s[i+1:]
		}
		fs := strings.Fields(rest)
		switch len(fs) {
		case 5:
			return tz + "0 " + rest
		case 6:
			return tz + strings.Join(fs[1:], " ")
		}
		return s + " *"
	}},
	{"drop-field", func(s string) string {
		if i := strings.LastIndex(s, " "); i > 0 {
			return s[:i]
		}
		return s
	}},
	{"extra-field", func(s string) string { return s + " *" }},
}

type cronBase struct{ s, kind string }

var cronBases = []cronBase{
	{"@yearly", "descriptor"}, {"@annually", "descriptor"}, {"@monthly", "descriptor"}, {"@weekly", "descriptor"},
	{"@daily", "descriptor"}, {"@midnight", "descriptor"}, {"@hourly", "descriptor"},
	{"@every 1h", "every"}, {"@every 90m", "every"}, {"@every 5m", "every"}, {"@every 1h30m", "every"}, {"@every 10s", "every"},
	{"0 5 * * *", "five"}, {"*/5 * * * *", "five"}, {"0 0 * * mon", "five"}, {"0 0 1 jan *", "five"}, {"15 10 1 1 *", "five"},
	{"0 0 * * mon-fri", "five"}, {"30 6 ? * 1,3", "five"},
	{"0 */3 * * * *", "six"}, {"*/10 * * * * *", "six"}, {"30 0 2 * * sun", "six"}, {"0 0 12 1 jan-mar *", "six"},
}

type cronPair struct {
	a, b            string // b = transform(a); a is accepted by cron.v2
	kind, transform string
}

// cronPairs: the systematic list - every base, plain and with the TZ= prefix, under every transformation that
// changes the string.
func cronPairs() []cronPair {
	var out []cronPair
	seen := map[string]bool{}
	for _, cb := range cronBases {
		for _, tz := range []string{"", "TZ=UTC "} {
			a := tz + cb.s
			kind := cb.kind
			if tz != "" {
				kind = "tz+" + kind
			}
			for _, t := range append(append([]strT{}, caseBlankTs...), cronOnlyTs...) {
				b := t.f(a)
				if b == a || seen[a+"\x00"+b] {
					continue
				}
				seen[a+"\x00"+b] = true
				out = append(out, cronPair{a, b, kind, t.name})
			}
		}
	}
	return out
}

// ---- documents that differ in one crontab only ----

// schedShape returns a builder of schedule documents identical but for the crontab(s) put into the slot(s).
func (g *gen) schedShape(v1 bool) func(crontabs ...string) map[string]any {
	shape := g.r.Intn(4)
	name := g.pick([]string{"tick", "Every 20 minutes", "periodic-checking"})
	queue := g.pick([]string{"", "every-ten"})
	allow := g.r.Bool()
	startup := g.r.Intn(20)
	withGroup := g.r.Bool()
	return func(crontabs ...string) map[string]any {
		var slots []any
		for i, c := range crontabs {
			s := map[string]any{"crontab": c}
			if shape >= 1 {
				s["name"] = name
				if i > 0 {
					s["name"] = fmt.Sprintf("%s-%d", name, i)
				}
			}
			if shape == 1 {
				s["allowFailure"] = allow
				if v1 && queue != "" {
					s["queue"] = queue
				}
			}
			if shape == 3 && v1 {
				s["includeSnapshotsFrom"] = []any{"pods"}
				if withGroup {
					s["group"] = "g"
				}
			}
			slots = append(slots, s)
		}
		doc := map[string]any{}
		if v1 {
			doc["configVersion"] = "v1"
		}
		switch shape {
		case 2:
			doc["onStartup"] = startup
			slots = append([]any{map[string]any{"crontab": "*/5 * * * *", "name": "fixed"}}, slots...)
		case 3:
			if v1 {
				doc["kubernetes"] = []any{map[string]any{"name": "pods", "kind": "Pod"}}
			} else {
				doc["onKubernetesEvent"] = []any{map[string]any{"kind": "pod"}}
			}
		}
		doc["schedule"] = slots
		return doc
	}
}

type sessBuilder struct {
	g      *gen
	in     Input
	badSel map[string]bool
}

func (g *gen) newSession(family string) *sessBuilder {
	return &sessBuilder{g: g, in: Input{Family: family, Durs: goodDurs, BadCron: []string{""}}, badSel: map[string]bool{}}
}

func (b *sessBuilder) addBadCron(c string) {
	for _, x := range b.in.BadCron {
		if x == c {
			return
		}
	}
	b.in.BadCron = append(b.in.BadCron, c)
}

func (b *sessBuilder) addBadSel(sel any) {
	kb, _ := json.Marshal(sel)
	if !b.badSel[string(kb)] {
		b.badSel[string(kb)] = true
		b.in.BadSel = append(b.in.BadSel, sel)
	}
}

func (b *sessBuilder) doc(doc map[string]any, v1 bool, fault, note string) {
	st := Step{Doc: doc, Fault: fault, Version: "v0", YamlSeed: int64(b.g.r.Next() >> 1), Note: note}
	if v1 {
		st.Version = "v1"
	}
	b.in.Session = append(b.in.Session, st)
}

func (b *sessBuilder) raw(bytes []byte) {
	b.in.Session = append(b.in.Session, Step{IsRaw: true, Raw: bytes, Note: "raw"})
}

// cronDoc adds a schedule document with the given crontab(s) in the slot(s); a crontab cron.v2 rejects makes it a
// single-fault document.
func (b *sessBuilder) cronDoc(build func(...string) map[string]any, v1 bool, note string, crontabs ...string) {
	fault := ""
	for _, c := range crontabs {
		if !cronAccepts(c) {
			b.addBadCron(c)
			fault = fmt.Sprintf("bad-crontab %q", c)
		}
	}
	b.doc(build(crontabs...), v1, fault, note)
}

func (b *sessBuilder) done(stream string) core.In[Input] {
	return core.In[Input]{Input: b.in, Stream: stream}
}

// cronPairSession: [a, b] or [b, a] (optionally the first again at the end).
func (g *gen) cronPairSession(p cronPair, v1 bool, bFirst bool, again bool, stream string) core.In[Input] {
	b := g.newSession("crontab-pair")
	build := g.schedShape(v1)
	note := "cron:" + p.kind + ":" + p.transform
	if bFirst {
		b.cronDoc(build, v1, note, p.b)
		b.cronDoc(build, v1, "cron:base", p.a)
		if again {
			b.cronDoc(build, v1, note, p.b)
		}
	} else {
		b.cronDoc(build, v1, "cron:base", p.a)
		b.cronDoc(build, v1, note, p.b)
		if again {
			b.cronDoc(build, v1, "cron:base", p.a)
		}
	}
	return b.done(stream)
}

// cronWalkSession: 3-6 loads over a family of spellings of one crontab, random order, repeats allowed; sometimes
// two spellings inside ONE document.
func (g *gen) cronWalkSession(stream string) core.In[Input] {
	b := g.newSession("crontab-walk")
	v1 := !g.r.Chance(30)
	build := g.schedShape(v1)
	cb := cronBases[g.r.Intn(len(cronBases))]
	base := cb.s
	if g.r.Chance(30) {
		base = "TZ=UTC " + base
	}
	ts := append(append([]strT{}, caseBlankTs...), cronOnlyTs...)
	family := []string{base}
	notes := []string{"cron:base"}
	for len(family) < 5 {
		t := ts[g.r.Intn(len(ts))]
		from := family[g.r.Intn(len(family))] // transformations compose
		v := t.f(from)
		if len(v) > 60 {
			continue
		}
		family = append(family, v)
		notes = append(notes, "cron:"+cb.kind+":"+t.name)
	}
	n := 3 + g.r.Intn(4)
	for i := 0; i < n; i++ {
		k := g.r.Intn(len(family))
		if i == 0 && g.r.Chance(50) {
			k = 0
		}
		if g.r.Chance(12) {
			k2 := g.r.Intn(len(family))
			b.cronDoc(build, v1, "cron:two-in-one-document", family[k], family[k2])
			continue
		}
		b.cronDoc(build, v1, notes[k], family[k])
	}
	return b.done(stream)
}

// ---- a valid document of the full grammar and its one-fault variant ----

func (g *gen) faultSession(kind string, stream string) core.In[Input] {
	b := g.newSession("valid-and-fault")
	v1 := !g.r.Chance(25)
	var valid map[string]any
	var m mutated
	ok := false
	for try := 0; try < 8 && !ok; try++ {
		if v1 {
			valid = g.validV1()
		} else {
			valid = g.validV0()
		}
		m, ok = g.mutate(valid, v1, kind)
		if !ok && try >= 2 {
			v1 = true
		}
	}
	if !ok {
		kind = "unknown-top-field"
		m, _ = g.mutate(valid, v1, kind)
	}
	for _, c := range m.badCron {
		b.addBadCron(c)
	}
	for _, s := range m.badSel {
		b.addBadSel(s)
	}
	b.in.BadHook = m.badHook
	V := func() { b.doc(valid, v1, "", "valid") }
	F := func() { b.doc(m.doc, v1, m.what, "fault:"+kind) }
	U := func() { // an unrelated valid document in between
		if g.r.Bool() {
			b.doc(g.validV1(), true, "", "unrelated")
		} else {
			b.doc(g.validV0(), false, "", "unrelated")
		}
	}
	switch g.r.Intn(8) {
	case 0, 1:
		V()
		F()
	case 2, 3:
		F()
		V()
	case 4:
		V()
		F()
		V()
	case 5:
		F()
		V()
		F()
	case 6:
		V()
		U()
		F()
		V()
	default:
		F()
		U()
		V()
		F()
		U()
		V()
	}
	return b.done(stream)
}

// ---- the same document again ----

func (g *gen) sameSession(texts []string, stream string) core.In[Input] {
	b := g.newSession("same-again")
	v1 := !g.r.Chance(25)
	var doc map[string]any
	if v1 {
		doc = g.validV1()
	} else {
		doc = g.validV0()
	}
	fault, note := "", "same:valid"
	if g.r.Chance(40) {
		kind := faultKinds[g.r.Intn(len(faultKinds))]
		if m, ok := g.mutate(doc, v1, kind); ok {
			doc, fault, note = m.doc, m.what, "same:fault:"+kind
			for _, c := range m.badCron {
				b.addBadCron(c)
			}
			for _, s := range m.badSel {
				b.addBadSel(s)
			}
			b.in.BadHook = m.badHook
		}
	}
	D := func() { b.doc(doc, v1, fault, note) } // a new YAML rendering each time: other quoting, key order, flow fragments
	between := func() {
		switch g.r.Intn(3) {
		case 0:
			b.doc(g.validV1(), true, "", "unrelated")
		case 1:
			b.doc(g.validV0(), false, "", "unrelated")
		default:
			t := []byte(texts[g.r.Intn(len(texts))])
			if len(t) > 0 && g.r.Bool() {
				t = t[:g.r.Intn(len(t))]
			}
			b.raw(t)
		}
	}
	D()
	switch g.r.Intn(4) {
	case 0:
		D()
	case 1:
		D()
		D()
	case 2:
		between()
		D()
	default:
		between()
		D()
		between()
		D()
	}
	return b.done(stream)
}

// ---- names, includes, groups, selectors differing in letter case or blanks only ----

type nameParams struct {
	Ver, KName, Inc, KGroup, SGroup, SName, Queue, Kind, Event string
	CrontabKey, KindKey                                        string
	SelKey, SelVal, SelOp                                      string
	SelExpr                                                    bool
	Ns                                                         string
}

func (p nameParams) selector() map[string]any {
	if p.SelExpr {
		return me(p.SelKey, p.SelOp, p.SelVal)
	}
	return ml(p.SelKey, p.SelVal)
}

func (p nameParams) doc() map[string]any {
	k := map[string]any{"name": p.KName, p.KindKey: p.Kind, "labelSelector": p.selector(),
		"namespace": map[string]any{"nameSelector": map[string]any{"matchNames": []any{p.Ns}}}, "executeHookOnEvent": []any{p.Event}}
	if p.KGroup != "" {
		k["group"] = p.KGroup
	}
	s := map[string]any{"name": p.SName, p.CrontabKey: "*/5 * * * *", "includeSnapshotsFrom": []any{p.Inc}}
	if p.SGroup != "" {
		s["group"] = p.SGroup
	}
	if p.Queue != "" {
		s["queue"] = p.Queue
	}
	return map[string]any{"configVersion": p.Ver, "kubernetes": []any{k, map[string]any{"name": "cm", "kind": "ConfigMap"}}, "schedule": []any{s}}
}

type nameVariant struct {
	name  string
	apply func(p *nameParams, t func(string) string)
	// verdict of the variant when it differs from the base: "" valid, otherwise the fault (selectors: decided by the oracle)
	fault string
}

var nameVariants = []nameVariant{
	{"binding-name", func(p *nameParams, t func(string) string) { p.KName = t(p.KName) }, "unknown-include (the reference keeps the old spelling)"},
	{"include-ref", func(p *nameParams, t func(string) string) { p.Inc = t(p.Inc) }, "unknown-include (letter case / blanks)"},
	{"binding-name+include-ref", func(p *nameParams, t func(string) string) { p.KName = t(p.KName); p.Inc = p.KName }, ""},
	{"schedule-group", func(p *nameParams, t func(string) string) { p.SGroup = t(p.SGroup) }, ""},
	{"kubernetes-group", func(p *nameParams, t func(string) string) { p.KGroup = t(p.KGroup) }, ""},
	{"both-groups", func(p *nameParams, t func(string) string) { p.KGroup = t(p.KGroup); p.SGroup = p.KGroup }, ""},
	{"schedule-name", func(p *nameParams, t func(string) string) { p.SName = t(p.SName) }, ""},
	{"queue", func(p *nameParams, t func(string) string) { p.Queue = t(p.Queue) }, ""},
	{"kind", func(p *nameParams, t func(string) string) { p.Kind = t(p.Kind) }, ""},
	{"namespace-name", func(p *nameParams, t func(string) string) { p.Ns = t(p.Ns) }, ""},
	{"selector-key", func(p *nameParams, t func(string) string) { p.SelKey = t(p.SelKey) }, "oracle"},
	{"selector-value", func(p *nameParams, t func(string) string) { p.SelVal = t(p.SelVal) }, "oracle"},
	{"selector-operator", func(p *nameParams, t func(string) string) { p.SelOp = t(p.SelOp) }, "bad-selector (operator spelling)"},
	{"event", func(p *nameParams, t func(string) string) { p.Event = t(p.Event) }, "bad-enum (event spelling)"},
	{"configVersion", func(p *nameParams, t func(string) string) { p.Ver = t(p.Ver) }, "bad-version (spelling)"},
	{"key-crontab", func(p *nameParams, t func(string) string) { p.CrontabKey = t(p.CrontabKey) }, "unknown-binding-field (key spelling)"},
	{"key-kind", func(p *nameParams, t func(string) string) { p.KindKey = t(p.KindKey) }, "unknown-binding-field (key spelling)"},
}

func (g *gen) nameBase() nameParams {
	p := nameParams{Ver: "v1", KName: g.pick([]string{"monitor-pods", "monitor pods", "pods"}), KGroup: g.pick([]string{"pods", "", "main group"}),
		SName: g.pick([]string{"periodic", "every 5 min"}), Queue: g.pick([]string{"", "main", "slow queue"}), Kind: g.pick([]string{"Pod", "pod"}),
		Event: g.pick([]string{"Added", "Modified", "Deleted"}), CrontabKey: "crontab", KindKey: "kind",
		SelKey: g.pick([]string{"app", "tier", "x.io/role"}), SelVal: g.pick([]string{"web", "cache"}), SelOp: g.pick([]string{"In", "NotIn"}),
		SelExpr: g.r.Bool(), Ns: g.pick([]string{"default", "proj-stage"})}
	p.Inc = p.KName
	p.SGroup = p.KGroup
	if g.r.Chance(30) {
		p.SGroup = ""
	}
	return p
}

// nameStep adds the document of the parameters; the verdict is derived from how it differs from the base.
func (b *sessBuilder) nameStep(base, p nameParams, v nameVariant, tname string) {
	fault, note := "", "names:base"
	if p != base {
		note = "names:" + v.name + ":" + tname
		fault = v.fault
		if fault == "oracle" {
			fault = ""
			if !selAccepts(p.selector()) {
				fault = "bad-selector (" + v.name + " " + tname + ")"
			}
		}
	}
	if !selAccepts(p.selector()) {
		b.addBadSel(p.selector())
	}
	b.doc(p.doc(), true, fault, note)
}

func (g *gen) nameSession(vi, ti int, bFirst bool, stream string) core.In[Input] {
	b := g.newSession("names-selectors")
	base := g.nameBase()
	v := nameVariants[vi%len(nameVariants)]
	t := caseBlankTs[ti%len(caseBlankTs)]
	if v.name == "selector-operator" {
		base.SelExpr = true
	}
	p := base
	v.apply(&p, t.f)
	if p == base { // the transformation does not change this slot (e.g. no blank inside): use the letter case
		t = caseBlankTs[0]
		v.apply(&p, t.f)
	}
	switch {
	case g.r.Chance(25): // a longer walk: several spellings of the slot
		steps := []nameParams{base, p}
		names := []string{"", t.name}
		for k := 0; k < 2; k++ {
			t2 := caseBlankTs[g.r.Intn(len(caseBlankTs))]
			q := base
			v.apply(&q, t2.f)
			steps = append(steps, q)
			names = append(names, t2.name)
		}
		n := 3 + g.r.Intn(4)
		for i := 0; i < n; i++ {
			k := g.r.Intn(len(steps))
			b.nameStep(base, steps[k], v, names[k])
		}
	case bFirst:
		b.nameStep(base, p, v, t.name)
		b.nameStep(base, base, v, "")
		if g.r.Chance(30) {
			b.nameStep(base, p, v, t.name)
		}
	default:
		b.nameStep(base, base, v, "")
		b.nameStep(base, p, v, t.name)
		if g.r.Chance(30) {
			b.nameStep(base, base, v, "")
		}
	}
	return b.done(stream)
}

// ---- corpus ----

func (g *gen) sessionCorpus() []core.In[Input] {
	pairs := []cronPair{
		{"@daily", "@Daily", "descriptor", "title"},
		{"@weekly", "@Weekly", "descriptor", "title"},
		{"@hourly", "@HOURLY", "descriptor", "upper"},
		{"@monthly", " @monthly", "descriptor", "lead-blank"},
		{"@yearly", "@yearly ", "descriptor", "trail-blank"},
		{"@every 1h", "@every 1H", "every", "last-upper"},
		{"@every 90m", "@every  90m", "every", "double-blank"},
		{"@every 5m", "@Every 5m", "every", "title"},
		{"TZ=UTC 0 5 * * *", "tz=UTC 0 5 * * *", "tz+five", "tz-lower"},
		{"TZ=UTC @daily", "TZ=UTC  @daily", "tz+descriptor", "double-blank"},
		{"0 0 * * mon", "0 0 * * MON", "five", "upper"},
		{"0 0 * * mon", "0  0 * * mon", "five", "double-blank"},
		{"0 5 * * *", "0 0 5 * * *", "five", "seconds-field"},
		{"0 5 * * *", "0 5 * *", "five", "drop-field"},
	}
	var out []core.In[Input]
	for i, p := range pairs {
		v1 := i%3 != 2
		out = append(out, g.cronPairSession(p, v1, false, false, "session-corpus"), g.cronPairSession(p, v1, true, false, "session-corpus"))
	}
	return out
}

// sessions builds the session streams of a tier.
func (g *gen) sessions(tier string, texts []string) []core.In[Input] {
	log.SetOutput(io.Discard) // cron.v2 reports a rejected crontab through log.Panicf
	defer log.SetOutput(os.Stderr)
	oracleSelfCheck()
	nPair, nWalk, perKind, nSame, nNames := 40, 40, 2, 24, 40
	switch tier {
	case "thorough":
		nPair, nWalk, perKind, nSame, nNames = 0, 500, 25, 250, 0 // pairs and name variants: the whole systematic lists
	case "search":
		nPair, nWalk, perKind, nSame, nNames = 250, 150, 6, 60, 150
	}
	out := g.sessionCorpus()
	all := cronPairs()
	if tier == "thorough" {
		for _, p := range all {
			v1 := !g.r.Chance(30)
			out = append(out, g.cronPairSession(p, v1, false, g.r.Chance(20), "session-cron"), g.cronPairSession(p, v1, true, g.r.Chance(20), "session-cron"))
		}
	}
	for i := 0; i < nPair; i++ {
		p := all[g.r.Intn(len(all))]
		out = append(out, g.cronPairSession(p, !g.r.Chance(30), g.r.Bool(), g.r.Chance(25), "session-cron"))
	}
	for i := 0; i < nWalk; i++ {
		out = append(out, g.cronWalkSession("session-cron"))
	}
	kinds := map[string]bool{}
	for _, k := range faultKinds {
		if !kinds[k] {
			kinds[k] = true
			for i := 0; i < perKind; i++ {
				out = append(out, g.faultSession(k, "session-fault"))
			}
		}
	}
	for i := 0; i < nSame; i++ {
		out = append(out, g.sameSession(texts, "session-same"))
	}
	if tier == "thorough" {
		for vi := range nameVariants {
			for ti := range caseBlankTs {
				out = append(out, g.nameSession(vi, ti, false, "session-names"), g.nameSession(vi, ti, true, "session-names"))
			}
		}
	}
	for i := 0; i < nNames; i++ {
		out = append(out, g.nameSession(i, g.r.Intn(len(caseBlankTs)), g.r.Bool(), "session-names"))
	}
	out = append(out, g.interfieldSessions()...)
	return out
}
