package c10

// Sessions: several loads in one process.  The documents of a session are loaded one after
// another by ONE fresh process (this binary in -child mode: the real loader, the same
// package-level state for all loads), and each document is also loaded alone by its own fresh
// process.  Nothing is reset by hand: whatever state the loader keeps is whatever the package keeps.

import (
	"bufio"
	"encoding/json"
	"fmt"
	"os"
	"os/exec"
	"strings"
	"sync"
	"time"

	"verifharness/internal/core"
)

const stepTimeout = 8 * time.Second

type childLine struct {
	Obs   *Obs   `json:"obs,omitempty"`
	Panic string `json:"panic,omitempty"`
}

func panicObs(msg string) Obs {
	return Obs{Json: One{Status: "panic", Err: msg}, Yaml: One{Status: "panic", Err: msg}}
}

// freshProcess loads the inputs one after another in ONE new process.  If the process dies or
// hangs on an input, that load is a crash observation and the remaining inputs go to another new
// process (noted in the observation).
func freshProcess(inputs []Input) []Obs {
	out := make([]Obs, len(inputs))
	self, err := os.Executable()
	if err != nil {
		for i := range out {
			out[i] = panicObs("harness: " + err.Error())
		}
		return out
	}
	i := 0
	restarted := false
	for i < len(inputs) {
		cmd := exec.Command(self, "-child")
		cmd.Stdout, cmd.Stderr = nil, nil // the repository's logger writes to stdout
		stdin, err1 := cmd.StdinPipe()
		rd, pw, err2 := os.Pipe()
		if err1 != nil || err2 != nil {
			out[i] = panicObs("harness: cannot create pipes")
			i++
			continue
		}
		cmd.ExtraFiles = []*os.File{pw} // fd 3 of the child: results
		if err := cmd.Start(); err != nil {
			pw.Close()
			rd.Close()
			out[i] = panicObs("harness: cannot start a fresh process: " + err.Error())
			i++
			continue
		}
		pw.Close()
		br := bufio.NewReaderSize(rd, 1<<20)
		enc := json.NewEncoder(stdin)
		for i < len(inputs) {
			if err := enc.Encode(inputs[i]); err != nil {
				out[i] = panicObs("process died before this load: " + err.Error())
				i++
				break
			}
			type lineRes struct {
				b   []byte
				err error
			}
			ch := make(chan lineRes, 1)
			go func() {
				b, err := br.ReadBytes('\n')
				ch <- lineRes{b, err}
			}()
			var lr lineRes
			select {
			case lr = <-ch:
			case <-time.After(stepTimeout):
				cmd.Process.Kill()
				lr = lineRes{nil, fmt.Errorf("no answer within %s", stepTimeout)}
			}
			if lr.err != nil {
				out[i] = panicObs("process died or hung on this load: " + lr.err.Error())
				i++
				restarted = true
				break
			}
			var cl childLine
			if err := json.Unmarshal(lr.b, &cl); err != nil || cl.Obs == nil {
				msg := cl.Panic
				if msg == "" {
					msg = "bad child output"
				}
				if len(msg) > 300 {
					msg = msg[:300]
				}
				out[i] = panicObs(msg)
			} else {
				out[i] = *cl.Obs
				if restarted {
					out[i].Json.Err = strings.TrimSpace("(after a restart of the session's process) " + out[i].Json.Err)
				}
			}
			i++
		}
		stdin.Close()
		cmd.Process.Kill()
		cmd.Wait()
		rd.Close()
	}
	return out
}

func stepInput(s Step) Input {
	return Input{Doc: s.Doc, Raw: s.Raw, IsRaw: s.IsRaw, Fault: s.Fault, Version: s.Version, YamlSeed: s.YamlSeed}
}

func runSession(in Input) Obs {
	n := len(in.Session)
	ins := make([]Input, n)
	for i, s := range in.Session {
		ins[i] = stepInput(s)
	}
	var inSess []Obs
	alone := make([]Obs, n)
	// the alone observation is that of (binary, bytes): identical steps share one fresh process run
	first := map[string]int{}
	var wg sync.WaitGroup
	sem := make(chan struct{}, 3)
	wg.Add(1)
	go func() {
		defer wg.Done()
		inSess = freshProcess(ins)
	}()
	same := make([]int, n)
	for i := range ins {
		kb, _ := json.Marshal(ins[i])
		if j, ok := first[string(kb)]; ok {
			same[i] = j
			continue
		}
		first[string(kb)] = i
		same[i] = i
		wg.Add(1)
		go func(i int) {
			defer wg.Done()
			sem <- struct{}{}
			defer func() { <-sem }()
			alone[i] = freshProcess(ins[i : i+1])[0]
		}(i)
	}
	wg.Wait()
	res := Obs{Json: One{Status: "session"}, Yaml: One{Status: "session"}}
	for i := 0; i < n; i++ {
		a := alone[same[i]]
		a.Json.Text, a.Yaml.Text = "", "" // the same bytes as in the session
		res.Steps = append(res.Steps, StepObs{Json: inSess[i].Json, Yaml: inSess[i].Yaml, AloneJson: a.Json, AloneYaml: a.Yaml})
	}
	return res
}

// ---- rendering ----

func renderSession(in Input, obs *Obs, crash string) core.Case {
	c := core.Case{}
	n := len(in.Session)
	var o Obs
	if obs != nil {
		o = *obs
	}
	if crash != "" || len(o.Steps) != n {
		msg := crash
		if msg == "" {
			msg = "harness: the session's observation is incomplete"
		}
		o = Obs{Json: One{Status: "panic", Err: msg}, Yaml: One{Status: "panic", Err: msg}}
		for i := 0; i < n; i++ {
			p := One{Status: "panic", Err: msg}
			o.Steps = append(o.Steps, StepObs{Json: p, Yaml: p, AloneJson: p, AloneYaml: p})
		}
	}
	var steps []string
	for i, s := range in.Session {
		so := o.Steps[i]
		doc := "None"
		if !s.IsRaw {
			doc = "(Some " + core.CoqJSON(normalize(s.Doc)) + ")"
		}
		// share equal observation terms
		terms := []string{coqOne(so.Json), coqOne(so.Yaml), coqOne(so.AloneJson), coqOne(so.AloneYaml)}
		names := make([]string, 4)
		var lets strings.Builder
		seen := map[string]string{}
		for k, t := range terms {
			if nm, ok := seen[t]; ok {
				names[k] = nm
				continue
			}
			nm := fmt.Sprintf("o%d", k)
			seen[t] = nm
			names[k] = nm
			fmt.Fprintf(&lets, "let %s := %s in ", nm, t)
		}
		steps = append(steps, fmt.Sprintf("(%sC10_Spec.mkSobs %s %s %s)", lets.String(), doc, core.CoqBool(s.Fault != ""), strings.Join(names, " ")))
	}
	durs := core.CoqList(in.Durs, func(d Dur) string { return fmt.Sprintf("(%s, %s)", core.CoqBytes(d.Text), core.CoqZ(d.Ns)) })
	sels := core.CoqList(in.BadSel, func(v any) string { return core.CoqJSON(normalize(v)) })
	hooks := core.CoqList(in.BadHook, func(v any) string { return core.CoqJSON(normalize(v)) })
	c.Coq = fmt.Sprintf("(C10_Corr.CSess (C10_Corr.mkSess %s %s %s %s [\n  %s]))", core.CoqList(in.BadCron, core.CoqBytes), sels, durs, hooks,
		strings.Join(steps, ";\n  "))
	c.JSON = o
	var kb strings.Builder
	kb.WriteString("session")
	for _, s := range in.Session {
		if s.IsRaw {
			fmt.Fprintf(&kb, "|raw:%x", s.Raw)
		} else {
			b, _ := json.Marshal(s.Doc)
			kb.WriteString("|" + s.Fault + "|" + string(b))
		}
	}
	c.Key = kb.String()
	c.Nontrivial = n >= 2
	c.Tags = append(c.Tags, "session:"+in.Family, fmt.Sprintf("session-len:%d", n))
	pattern := ""
	for i, s := range in.Session {
		st := o.Steps[i].Json.Status
		c.Tags = append(c.Tags, "session-step-result:"+st)
		if s.Note != "" {
			c.Tags = append(c.Tags, "session-step:"+s.Note)
		}
		switch {
		case s.IsRaw:
			pattern += "r"
		case s.Fault != "":
			pattern += "F"
		default:
			pattern += "V"
		}
	}
	c.Tags = append(c.Tags, "session-pattern:"+pattern)
	return c
}
