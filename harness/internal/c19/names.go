package c19

// names.go - the CONTENT of the strings the dispatch reads (binding name, group name, versions)
// in runs with several contexts: names as users write them (blanks, tabs, runs of blanks,
// leading / trailing blanks, empty, glob characters, quotes, backslashes, $, shell keywords,
// a fragment that is another binding's name) in EVERY position of the array, followed / preceded
// by contexts with identifier-like names that have their own handlers.  Judged by Coq against
// the model C19_Model of the repaired hook.sh (a686454: every expansion quoted, a name is one
// candidate whatever it contains) and the predicate C19_WSpec.PW.

import (
	"os/exec"
	"regexp"
	"strings"

	"verifharness/internal/core"
)

// userNames: the catalogue (systematic stream; also the pool of the random stream).
var userNames = []string{
	// from docs/src/HOOKS.md and the like
	"Every 20 minutes", "Monitor pods in cache tier", "monitor Pods", "every minute", "pods in cache", "a b", "x y z",
	// blanks: leading, trailing, runs, tabs, nothing but blanks, empty
	" lead", "trail ", "  both  ", "two  blanks", "tab\there", "tab\t\tmix \t x", " ", "\t", "   ", "",
	// glob characters
	"a*", "*", "?", "what?", "[a]", "[ab]c", "x[", "a]", "[", "][", "[]", "a * b", "pods *", "+(a)", "!(x)", "@", "a+b", "all [x] now", `\*`, `\\*`, `[a\]`, `*\`,
	// quotes, backslashes, $, other shell syntax
	`say "hi"`, `"quoted"`, `it's`, `'single'`, `a\b`, `\`, `back\ slash`, "$HOME", "${PATH}", "$(id)", "`id`", "a;b", "a; b", "a && b", "a|b", "a | b",
	"~", "~ x", "{a,b}", "# c", "a #b", "(paren)", "a (b) c", "<x>", "a > b", "a & b", "100%", "a=b c=d", "caf\xc3\xa9 au lait",
	// words `type` takes for options; echo options
	"-n", "-p", "x -p y", "x -- y", "x -e y", "x -x y",
	// a fragment that is another binding's name / a handler name / something the shell knows
	"pods", "pods extra", "b1 more", "b1 __main__", "x __main__ y", "__main__", "x __on_startup y",
	"in", "be true now", "be false now", "x : y", "if x then", "all for one", "x ! y", "x [ y", "x { y }", "x [[ y ]]", "x test y", "x fi",
}

// bash builtins and other words that must not appear as a bare word of a generated name: a
// hook.sh without the repair a686454 would RUN them (output, blocking, recursion)
var hazardWords = map[string]bool{}

func init() {
	for _, w := range strings.Fields("alias bg bind break builtin caller cd command compgen complete compopt continue declare dirs disown echo enable eval exec exit export fc fg getopts hash help history jobs kill let local logout mapfile popd printf pushd pwd read readarray readonly return set shift shopt source suspend times trap type typeset ulimit umask unalias unset wait . time backtrace") {
		hazardWords[w] = true
	}
}

// shellTable: words every bash knows by itself (keywords, a few builtins, the options of `type`).
var shellTable = map[string]bool{}

func init() {
	for _, w := range strings.Fields("in for do done if then else elif fi case esac while until select function { } ! [[ ]] coproc -p -a -t -f -P -- true : false test [") {
		shellTable[w] = true
	}
}

func splitWS(s string) []string {
	return strings.FieldsFunc(s, func(r rune) bool { return r == ' ' || r == '\t' || r == '\n' })
}

var lookCache = map[string]bool{}

func inPath(w string) bool {
	if v, ok := lookCache[w]; ok {
		return v
	}
	_, err := exec.LookPath(w)
	lookCache[w] = err == nil
	return err == nil
}

var typeOpt = func(w string) bool {
	if len(w) < 2 || w[0] != '-' {
		return false
	}
	for _, c := range w[1:] {
		if !strings.ContainsRune("afptP", c) {
			return false
		}
	}
	return true
}

// hazard: a bare word of the context's handler lines that this machine's shell would know in a
// way the model's table does not describe (an executable of that name in PATH - also one that
// shadows a keyword of the table -, a builtin outside the table, a function of the framework).
// Such contexts are not generated.
func hazard(c Ctx) bool {
	for _, line := range candNames(c) {
		for _, w := range splitWS(line) {
			if strings.HasPrefix(w, "__on_") || w == "__main__" {
				continue
			}
			if hazardWords[w] || strings.Contains(w, "::") || strings.HasPrefix(w, "__verif") {
				return true
			}
			if typeOpt(w) && !shellTable[w] {
				return true
			}
			if strings.ContainsAny(w, "/") && strings.ContainsAny(w, "*?[") {
				return true // a pattern with a directory part looks outside the empty directory
			}
			builtin := w == "true" || w == "false" || w == ":" || w == "test" || w == "["
			if !builtin && !strings.ContainsAny(w, "*?[]\\") && inPath(w) {
				return true
			}
		}
	}
	return false
}

var funcName = regexp.MustCompile(`^[A-Za-z_][A-Za-z0-9_:.-]*$`)

var typedKinds = []string{"schedule", "sync", "added", "modified", "deleted", "group", "validating", "mutating", "conversion"}

// wildCtx: a context of the kind whose name-carrying string is s (the binding name; for a group
// also - or only - the group name; for a conversion sometimes a version)
func wildCtx(kind, s string, variant int) Ctx {
	c := mkCtx(kind, s)
	switch kind {
	case "group":
		switch variant % 3 {
		case 0:
			c.Group = s
			c.Binding = "pods"
		case 1:
			c.Group = s
		default:
			c.Group = "g1"
		}
	case "conversion":
		switch variant % 3 {
		case 0:
			c.From, c.To = "v1", "v2"
		case 1:
			c.Binding, c.From, c.To = "conv", s, "v1"
		}
	}
	return c
}

var nameTokens = []string{"Every", "20", "minutes", "Monitor", "pods", "in", "cache", "tier", "every", "minute", "true", "false", ":", "for", "-p", "--",
	"b1", "__main__", "x", "y", "*", "?", "[a]", "[", "]", `\`, `"`, "'", "$", "$HOME", "`", ";", "&", "|", "(", ")", "#", "~", "{a,b}", "\xc3\xa9", "%", "!", "+(", "@", "=", "then", "fi"}
var nameSeps = []string{" ", " ", " ", "  ", "\t", " \t ", "", ""}

func randomName(r *core.Rng) string {
	if r.Chance(45) {
		return userNames[r.Intn(len(userNames))]
	}
	var b strings.Builder
	if r.Chance(20) {
		b.WriteString(nameSeps[r.Intn(5)])
	}
	n := 1 + r.Intn(5)
	for i := 0; i < n; i++ {
		if i > 0 {
			b.WriteString(nameSeps[r.Intn(len(nameSeps))])
		}
		b.WriteString(nameTokens[r.Intn(len(nameTokens))])
	}
	if r.Chance(20) {
		b.WriteString(nameSeps[r.Intn(5)])
	}
	return b.String()
}

// definitions for an array with wild names: whole documented names and the words they fall
// apart into (only names bash accepts for a function), __main__ mostly present
func wildDefined(r *core.Rng, ctxs []Ctx, pWhole, pFrag, pMain int, force []string) []Handler {
	var whole, frag []string
	for _, c := range ctxs {
		for _, n := range candNames(c) {
			ws := splitWS(n)
			if len(ws) == 1 && ws[0] == n {
				whole = union(whole, []string{n})
			} else {
				frag = union(frag, ws)
			}
		}
	}
	frag = minus(frag, whole)
	names := append([]string{}, force...)
	for _, n := range whole {
		if safeName.MatchString(n) && r.Chance(pWhole) {
			names = union(names, []string{n})
		}
	}
	for _, n := range frag {
		if funcName.MatchString(n) && !shellTable[n] && !hazardWords[n] && r.Chance(pFrag) {
			names = union(names, []string{n})
		}
	}
	if r.Chance(pMain) {
		names = union(names, []string{"__main__"})
	}
	if r.Chance(10) {
		names = union(names, []string{"__on_startup"})
	}
	for i := len(names) - 1; i > 0; i-- {
		j := r.Intn(i + 1)
		names[i], names[j] = names[j], names[i]
	}
	n := len(ctxs)
	pFail := []int{0, 0, 8, 25}[r.Intn(4)]
	return handlers(names, func(string) []int {
		var s []int
		for i := 0; i < n; i++ {
			if r.Chance(pFail) {
				s = append(s, failCodes[r.Intn(len(failCodes))])
			} else {
				s = append(s, 0)
			}
		}
		return s
	})
}

// namesRandom: 2-5 contexts; every position carries a wild name with probability 1/2 (at least
// one does), the others identifier-like names whose most specific handler is usually defined
func namesRandom(r *core.Rng) Input {
	for {
		n := 2 + r.Intn(4)
		var in Input
		var force []string
		wild := 0
		must := r.Intn(n)
		for i := 0; i < n; i++ {
			if i == must || r.Chance(40) {
				c := wildCtx(typedKinds[r.Intn(len(typedKinds))], randomName(r), r.Intn(3))
				in.Ctxs = append(in.Ctxs, c)
				wild++
				continue
			}
			c := randomCtx(r, 0)
			in.Ctxs = append(in.Ctxs, c)
			if cn := candNames(c); len(cn) > 0 && r.Chance(70) {
				force = union(force, []string{cn[r.Intn(len(cn))]})
			}
		}
		bad := false
		for _, c := range in.Ctxs {
			bad = bad || hazard(c)
		}
		if bad {
			continue
		}
		in.Defined = wildDefined(r, in.Ctxs, 40, []int{0, 0, 15, 40}[r.Intn(4)], 75, force)
		return in
	}
}

// namesSystematic: every catalogue name x (quick: one kind and one position, rotating; thorough:
// every typed kind x position first / middle / last x __main__ defined or not) in an array of
// three contexts whose other two are `pods` (Event Added) and `b1` (Schedule) with their own
// most specific handlers defined.
func namesSystematic(all bool) []Input {
	var ins []Input
	k := 0
	for _, s := range userNames {
		for ki, kind := range typedKinds {
			for pos := 0; pos < 3; pos++ {
				for m := 0; m < 2; m++ {
					k++
					if !all && !(ki == k%len(typedKinds) && pos == (k/7)%3 && m == 0) {
						continue
					}
					w := wildCtx(kind, s, k)
					if hazard(w) {
						continue
					}
					others := []Ctx{mkCtx("added", "pods"), mkCtx("schedule", "b1")}
					var ctxs []Ctx
					switch pos {
					case 0:
						ctxs = []Ctx{w, others[0], others[1]}
					case 1:
						ctxs = []Ctx{others[1], w, others[0]}
					default:
						ctxs = []Ctx{others[0], others[1], w}
					}
					names := []string{"__on_kubernetes::pods::added", "__on_schedule::b1"}
					if m == 0 {
						names = append(names, "__main__")
					}
					ins = append(ins, Input{Ctxs: ctxs, Defined: handlers(names, func(string) []int { return nil })})
				}
			}
		}
	}
	if !all { // the quick slice: about one case per catalogue name; make sure each name occurs
		seen := map[string]bool{}
		for _, in := range ins {
			for _, c := range in.Ctxs {
				seen[c.Binding+"\x00"+c.Group+"\x00"+c.From] = true
			}
		}
		for i, s := range userNames {
			w := wildCtx("schedule", s, 2)
			if seen[w.Binding+"\x00"+w.Group+"\x00"+w.From] || hazard(w) {
				continue
			}
			ctxs := []Ctx{w, mkCtx("added", "pods"), mkCtx("schedule", "b1")}
			if i%2 == 1 {
				ctxs = []Ctx{mkCtx("schedule", "b1"), w, mkCtx("added", "pods")}
			}
			ins = append(ins, Input{Ctxs: ctxs, Defined: handlers([]string{"__on_kubernetes::pods::added", "__on_schedule::b1", "__main__"}, func(string) []int { return nil })})
		}
	}
	return ins
}

// namesCorpus: regression witnesses of the defects repaired by a686454 (a word of the name is
// another handler / a shell keyword / a builtin; glob characters), the Example of
// C19_Properties.v (C19_names_hyp_met) and the shape a batched read of the binding names breaks.
func namesCorpus() []Input {
	zero := func(string) []int { return nil }
	return []Input{
		{Ctxs: []Ctx{mkCtx("schedule", "every minute")}, Defined: handlers([]string{"__on_schedule::every", "__main__"}, zero)},
		{Ctxs: []Ctx{mkCtx("added", "Monitor pods in cache tier")}, Defined: handlers([]string{"__main__"}, zero)},
		{Ctxs: []Ctx{mkCtx("schedule", "what?")}, Defined: handlers([]string{"__main__"}, zero)},
		{Ctxs: []Ctx{mkCtx("added", "a*"), mkCtx("schedule", "b1")}, Defined: handlers([]string{"__on_schedule::b1", "__main__"}, zero)},
		{Ctxs: []Ctx{mkCtx("sync", "[a]"), mkCtx("schedule", "b1")}, Defined: handlers([]string{"__on_schedule::b1", "__main__"}, zero)},
		{Ctxs: []Ctx{mkCtx("schedule", "Every 20  minutes"), mkCtx("added", "Monitor pods in cache tier"), mkCtx("sync", "what? [a] *"), mkCtx("added", "pods")},
			Defined: handlers([]string{"__on_kubernetes::pods::added", "__main__", "__on_schedule::Every"}, zero)},
		{Ctxs: []Ctx{mkCtx("schedule", "Every 20  minutes"), mkCtx("modified", "\t say \"hi\" $HOME a\\b "), mkCtx("added", "pods")},
			Defined: handlers([]string{"__on_kubernetes::pods::added", "__main__"}, zero)},
		{Ctxs: []Ctx{mkCtx("schedule", ""), mkCtx("sync", "pods"), mkCtx("added", "pods")},
			Defined: handlers([]string{"__on_kubernetes::pods::added", "__main__"}, zero)},
		{Ctxs: []Ctx{mkCtx("schedule", "every minute"), mkCtx("added", "pods")},
			Defined: handlers([]string{"__on_kubernetes::pods::added", "__main__"}, zero)},
		{Ctxs: []Ctx{mkCtx("schedule", "every minute"), mkCtx("added", "pods")},
			Defined: handlers([]string{"__on_kubernetes::pods::added"}, zero)},
		{Ctxs: []Ctx{mkCtx("schedule", "be true now"), mkCtx("added", "pods")},
			Defined: handlers([]string{"__on_kubernetes::pods::added", "__main__"}, zero)},
	}
}

// nameTags: what the strings of the case look like and where in the array they are
func nameTags(in Input) []string {
	var tags []string
	add := func(t string) {
		for _, x := range tags {
			if x == t {
				return
			}
		}
		tags = append(tags, t)
	}
	n := len(in.Ctxs)
	for i, c := range in.Ctxs {
		if c.Kind == "raw" || c.Kind == "onStartup" {
			continue
		}
		fields := []string{c.Binding}
		if c.Kind == "group" {
			fields = append(fields, c.Group)
		}
		if c.Kind == "conversion" {
			fields = append(fields, c.From, c.To)
		}
		for _, s := range fields {
			if safeName.MatchString(s) {
				continue
			}
			wild := true
			switch {
			case s == "":
				add("name:empty")
			case strings.TrimLeft(s, " \t") == "":
				add("name:only-blanks")
			default:
				if strings.ContainsAny(s, " ") {
					add("name:blank")
				}
				if strings.Contains(s, "\t") {
					add("name:tab")
				}
				if strings.Contains(s, "  ") || strings.Contains(s, " \t") || strings.Contains(s, "\t ") {
					add("name:run-of-blanks")
				}
				if s != strings.Trim(s, " \t") {
					add("name:leading-or-trailing-blank")
				}
				if strings.ContainsAny(s, "*?[]") {
					add("name:glob-char")
				}
				if strings.ContainsAny(s, "\"'") {
					add("name:quote")
				}
				if strings.Contains(s, `\`) {
					add("name:backslash")
				}
				if strings.ContainsAny(s, "$`") {
					add("name:dollar-or-backquote")
				}
				if strings.ContainsAny(s, ";&|()<>#~{}!%=") {
					add("name:other-shell-syntax")
				}
				for _, w := range splitWS(s) {
					if shellTable[w] {
						add("name:word-the-shell-knows")
					}
				}
			}
			if wild {
				switch {
				case i == 0 && n > 1:
					add("wild-name-at:first")
				case i == n-1 && n > 1:
					add("wild-name-at:last")
				case n > 1:
					add("wild-name-at:middle")
				default:
					add("wild-name-at:only")
				}
				if i < n-1 {
					for _, later := range in.Ctxs[i+1:] {
						for _, cn := range candNames(later) {
							if safeName.MatchString(cn) && hasHandler(in, cn) {
								add("wild-name-followed-by:context-with-own-handler")
							}
						}
					}
				}
			}
		}
	}
	return tags
}
